(** C13 — lemmas.  Property theorems are restated in Properties.v. *)
From Coq Require Import Ascii String.
From Coq Require Import List ZArith NArith Bool Sorted Lia.
From JrV Require Import C13.Model.
Import ListNotations.

(** * a usable induction principle for the nested type *)
Section ValInd.
  Variable P : val -> Prop.
  Hypothesis Hnull : P VNull.
  Hypothesis Hbool : forall b, P (VBool b).
  Hypothesis Hnum : forall z, P (VNum z).
  Hypothesis Hstr : forall s, P (VStr s).
  Hypothesis Harr : forall l, Forall P l -> P (VArr l).
  Hypothesis Hobj : forall fs, Forall (fun f => P (snd (snd f))) fs -> P (VObj fs).
  Hypothesis Hfun : forall n, P (VFun n).
  Hypothesis Hbomb : forall i, P (VBomb i).
  Fixpoint val_ind2 (v : val) : P v :=
    match v with
    | VNull => Hnull
    | VBool b => Hbool b
    | VNum z => Hnum z
    | VStr s => Hstr s
    | VArr l => Harr l ((fix go (l : list val) : Forall P l :=
                           match l with [] => Forall_nil _ | x :: r => Forall_cons _ (val_ind2 x) (go r) end) l)
    | VObj fs => Hobj fs ((fix go (fs : fields) : Forall (fun f => P (snd (snd f))) fs :=
                             match fs with
                             | [] => Forall_nil _
                             | (k, (h, x)) :: r => Forall_cons (k, (h, x)) (val_ind2 x) (go r)
                             end) fs)
    | VFun n => Hfun n
    | VBomb i => Hbomb i
    end.
End ValInd.

(** * the order on names *)
Lemma str_cmp_refl a : str_cmp a a = Eq.
Proof. induction a; simpl; auto. rewrite N.compare_refl; auto. Qed.

Lemma str_cmp_eq a : forall b, str_cmp a b = Eq -> a = b.
Proof.
  induction a; destruct b; simpl; try discriminate; auto.
  destruct (N.compare_spec a n); try discriminate. intros; subst; f_equal; auto.
Qed.

Lemma str_cmp_antisym a : forall b, str_cmp b a = CompOpp (str_cmp a b).
Proof.
  induction a; destruct b; simpl; auto.
  rewrite (N.compare_antisym a n). destruct (N.compare a n); simpl; auto.
Qed.

Lemma str_lt_trans a : forall b c, str_lt a b -> str_lt b c -> str_lt a c.
Proof.
  unfold str_lt. induction a; destruct b, c; simpl; try discriminate; auto.
  intros H1 H2.
  destruct (N.compare_spec a n) as [E1|L1|G1]; try discriminate;
    destruct (N.compare_spec n n0) as [E2|L2|G2]; try discriminate; subst.
  - rewrite N.compare_refl; eauto.
  - rewrite (proj2 (N.compare_lt_iff _ _) L2); auto.
  - rewrite (proj2 (N.compare_lt_iff _ _) L1); auto.
  - assert (L : (a < n0)%N) by lia. rewrite (proj2 (N.compare_lt_iff _ _) L); auto.
Qed.

Lemma str_eqb_eq a b : str_eqb a b = true <-> a = b.
Proof.
  unfold str_eqb; split.
  - destruct (str_cmp a b) eqn:E; try discriminate. intros _. apply str_cmp_eq; auto.
  - intros ->. rewrite str_cmp_refl; auto.
Qed.
Lemma str_eqb_refl a : str_eqb a a = true.
Proof. apply str_eqb_eq; auto. Qed.
Lemma str_eqb_neq a b : str_eqb a b = false <-> a <> b.
Proof.
  split; intros H.
  - intros E. apply str_eqb_eq in E. congruence.
  - destruct (str_eqb a b) eqn:E; auto. apply str_eqb_eq in E. contradiction.
Qed.
Lemma str_eqb_sym a b : str_eqb a b = str_eqb b a.
Proof.
  destruct (str_eqb a b) eqn:E.
  - apply str_eqb_eq in E; subst. symmetry; apply str_eqb_refl.
  - symmetry. apply str_eqb_neq. apply str_eqb_neq in E. congruence.
Qed.
Lemma str_lt_irrefl a : ~ str_lt a a.
Proof. unfold str_lt. rewrite str_cmp_refl. discriminate. Qed.
Lemma str_ltb_lt a b : str_ltb a b = true <-> str_lt a b.
Proof. unfold str_ltb, str_lt. destruct (str_cmp a b); split; congruence. Qed.
Lemma str_cmp_gt_lt a b : str_cmp a b = Gt -> str_lt b a.
Proof. unfold str_lt. intros H. rewrite (str_cmp_antisym a b), H. reflexivity. Qed.
Lemma str_lt_neq a b : str_lt a b -> a <> b.
Proof. intros H E; subst. eapply str_lt_irrefl; eauto. Qed.

(** * sorting *)
Lemma in_insert_sorted k x l : In k (insert_sorted x l) <-> k = x \/ In k l.
Proof.
  induction l; simpl.
  - intuition.
  - destruct (str_ltb a x); simpl; rewrite ?IHl; intuition.
Qed.

Lemma insert_sorted_sorted x l :
  StronglySorted str_lt l -> ~ In x l -> StronglySorted str_lt (insert_sorted x l).
Proof.
  induction 1 as [|a l Hs IH Hall]; simpl; intros Hn.
  - constructor; constructor.
  - destruct (str_ltb a x) eqn:E.
    + constructor.
      * apply IH. intuition.
      * apply Forall_forall. intros y Hy. apply in_insert_sorted in Hy. destruct Hy as [->|Hy].
        -- apply str_ltb_lt; auto.
        -- rewrite Forall_forall in Hall; auto.
    + assert (Hlt : str_lt x a).
      { unfold str_ltb in E. destruct (str_cmp a x) eqn:C; try discriminate.
        - apply str_cmp_eq in C. subst. exfalso; apply Hn; left; auto.
        - apply str_cmp_gt_lt; auto. }
      constructor.
      * constructor; auto.
      * constructor; auto. rewrite Forall_forall in *. intros y Hy. eapply str_lt_trans; eauto.
Qed.

Lemma in_isort k l : In k (isort l) <-> In k l.
Proof. induction l; simpl; [tauto|]. rewrite in_insert_sorted, IHl. intuition. Qed.

Lemma isort_sorted l : NoDup l -> StronglySorted str_lt (isort l).
Proof.
  induction 1; simpl; [constructor|].
  apply insert_sorted_sorted; auto. rewrite in_isort; auto.
Qed.

(** * lookups *)

Lemma lookup_in k fs hv : lookup k fs = Some hv -> In (k, hv) fs.
Proof.
  induction fs as [|[k' hv'] r IH]; simpl; try discriminate.
  destruct (str_eqb k k') eqn:E.
  - apply str_eqb_eq in E; subst. intros [= ->]; auto.
  - auto.
Qed.
Lemma lookup_none k fs : lookup k fs = None <-> ~ In k (map fst fs).
Proof.
  induction fs as [|[k' hv'] r IH]; simpl; [tauto|].
  destruct (str_eqb k k') eqn:E.
  - apply str_eqb_eq in E; subst. split; [discriminate|intuition].
  - apply str_eqb_neq in E. rewrite IH. intuition.
Qed.
Lemma in_lookup k hv fs : wf_fields fs -> In (k, hv) fs -> lookup k fs = Some hv.
Proof.
  unfold wf_fields. induction fs as [|[k' hv'] r IH]; simpl; [tauto|].
  intros Hnd [E|Hin].
  - inversion E; subst. rewrite str_eqb_refl; auto.
  - inversion Hnd; subst. destruct (str_eqb k k') eqn:E.
    + apply str_eqb_eq in E; subst. exfalso. apply H1. apply (in_map fst) in Hin; auto.
    + auto.
Qed.

Lemma in_names_of k h fs :
  In k (names_of h fs) <-> exists hid v, In (k, (hid, v)) fs /\ (h || negb hid = true).
Proof.
  unfold names_of. rewrite in_map_iff. split.
  - intros [[k' [hid v]] [E Hin]]. simpl in E; subst. apply filter_In in Hin. simpl in Hin.
    exists hid, v; tauto.
  - intros (hid & v & Hin & Hv). exists (k, (hid, v)); split; auto. apply filter_In; auto.
Qed.

Lemma names_of_nodup h fs : wf_fields fs -> NoDup (names_of h fs).
Proof.
  unfold wf_fields, names_of. induction fs as [|[k hv] r IH]; simpl; intros Hnd; [constructor|].
  inversion Hnd; subst. destruct (h || negb (fst hv)); simpl; auto.
  constructor; auto. intros Hin. apply H1. apply in_map_iff in Hin. destruct Hin as [x [E Hx]].
  apply filter_In in Hx. apply in_map_iff. exists x; tauto.
Qed.

(** ** the listing functions: ascending and exact *)
Lemma fields_ex_spec h fs : wf_fields fs -> listing_spec h fs (fields_ex h fs).
Proof.
  intros Hwf. split.
  - apply isort_sorted. apply names_of_nodup; auto.
  - intros k. unfold fields_ex. rewrite in_isort, in_names_of. unfold has_ex. split.
    + intros (hid & v & Hin & Hv). rewrite (in_lookup _ _ _ Hwf Hin). auto.
    + destruct (lookup k fs) as [[hid v]|] eqn:E; try discriminate. intros Hv.
      exists hid, v. split; auto. apply lookup_in; auto.
Qed.

Lemma sorted_lists_unique (l1 l2 : list str) :
  StronglySorted str_lt l1 -> StronglySorted str_lt l2 -> (forall k, In k l1 <-> In k l2) -> l1 = l2.
Proof.
  intros H1. revert l2. induction H1 as [|a l1 Hs IH Hall]; intros l2 H2 Hiff.
  - destruct l2; auto. exfalso. apply (proj2 (Hiff s)). left; auto.
  - destruct H2 as [|b l2 Hs2 Hall2].
    + exfalso. apply (proj1 (Hiff a)). left; auto.
    + rewrite Forall_forall in Hall, Hall2.
      assert (a = b).
      { destruct (proj1 (Hiff a) (or_introl eq_refl)) as [->|Hin]; auto.
        destruct (proj2 (Hiff b) (or_introl eq_refl)) as [->|Hin2]; auto.
        exfalso. apply (str_lt_irrefl a). eapply str_lt_trans; [apply Hall; eauto|apply Hall2; auto]. }
      subst. f_equal. apply IH; auto. intros k. split; intros Hk.
      * destruct (proj1 (Hiff k) (or_intror Hk)) as [->|]; auto.
        exfalso. apply (str_lt_irrefl k). apply Hall; auto.
      * destruct (proj2 (Hiff k) (or_intror Hk)) as [->|]; auto.
        exfalso. apply (str_lt_irrefl k). apply Hall2; auto.
Qed.

Lemma listing_unique h fs l : wf_fields fs -> listing_spec h fs l -> l = fields_ex h fs.
Proof.
  intros Hwf [Hs Hm]. destruct (fields_ex_spec h fs Hwf) as [Hs' Hm'].
  apply sorted_lists_unique; auto. intros k. rewrite Hm, Hm'. tauto.
Qed.

(** objectHas / objectFields agree *)
Lemma has_iff_listed h fs k : wf_fields fs -> (has_ex fs k h = true <-> In k (fields_ex h fs)).
Proof. intros Hwf. destruct (fields_ex_spec h fs Hwf) as [_ Hm]. rewrite Hm. tauto. Qed.

(** ** values are aligned with names and stay unevaluated *)
Lemma values_align h fs :
  exists l, values_spec h fs = VArr l /\ length l = length (fields_ex h fs) /\
            forall i k, nth_error (fields_ex h fs) i = Some k -> nth_error l i = Some (value_of k fs).
Proof.
  eexists; split; [reflexivity|]. split.
  - apply map_length.
  - intros i k Hk. apply (map_nth_error (fun k => value_of k fs)); auto.
Qed.

Lemma keys_values_align h fs :
  exists l, keys_values_spec h fs = VArr l /\ length l = length (fields_ex h fs) /\
            forall i k, nth_error (fields_ex h fs) i = Some k ->
                        nth_error l i = Some (kv_obj k (value_of k fs)).
Proof.
  eexists; split; [reflexivity|]. split.
  - apply map_length.
  - intros i k Hk. apply (map_nth_error (fun k => kv_obj k (value_of k fs))); auto.
Qed.

(** ** std.get *)
Lemma get_impl_is_spec fs k d h : get_impl fs k d h = get_spec fs k d h.
Proof.
  unfold get_impl, get_spec, has_ex, value_of.
  destruct (lookup k fs) as [[[] v]|]; destruct h; simpl; auto.
Qed.

Lemma get_default_only_when_absent fs k d h :
  (has_ex fs k h = true -> get_spec fs k d h = force (value_of k fs)) /\
  (has_ex fs k h = false -> get_spec fs k d h = default_of d).
Proof. unfold get_spec. split; intros ->; auto. Qed.

(** ** type partition *)
Lemma type_partition v :
  is_bomb v = false ->
  exists t, type_spec v = Ok (VStr (ty_name t)) /\
            forall t', is_spec t' v = Ok (VBool (ty_eqb t' t)).
Proof.
  destruct v; simpl; try discriminate; intros _;
    [exists TNull|exists TBool|exists TNum|exists TStr|exists TArr|exists TObj|exists TFun];
    (split; [reflexivity|intros t'; reflexivity]).
Qed.

Lemma ty_eqb_eq a b : ty_eqb a b = true <-> a = b.
Proof. destruct a, b; simpl; split; congruence. Qed.

Lemma ty_name_inj a b : ty_name a = ty_name b -> a = b.
Proof. destruct a, b; vm_compute; congruence. Qed.

(** * the two visibility routes of obj/mod.rs agree with the language rule *)
Definition hidden_of (c : option vis3) : option bool :=
  match c with None => None | Some VisHidden => Some true | Some _ => Some false end.

Lemma field_visibility_idx_spec k decls :
  forall e, hidden_of (field_visibility_idx k decls e) =
            match vis_spec k decls with Some h => Some h | None => if e then Some false else None end.
Proof.
  induction decls as [|[k' v] r IH]; intros e; simpl.
  - destruct e; auto.
  - destruct (str_eqb k k'); auto. destruct v; simpl; auto.
    rewrite IH. destruct (vis_spec k r); auto.
Qed.

Lemma has_field_impl_spec k decls h :
  has_field_impl k decls h = match vis_spec k decls with Some hid => h || negb hid | None => false end.
Proof.
  unfold has_field_impl. pose proof (field_visibility_idx_spec k decls false) as H.
  destruct (field_visibility_idx k decls false) as [[]|]; simpl in H;
    destruct (vis_spec k decls) as [[]|]; try discriminate; destruct h; auto.
Qed.

(** per-name view of the one-pass map *)
Fixpoint fv_lookup (k : str) (m : list (str * option vis3)) : option vis3 :=
  match m with
  | [] => None
  | (k', c) :: r => if str_eqb k k' then c else fv_lookup k r
  end.

Lemma fv_lookup_update_same k v m : fv_lookup k (fv_update k v m) = fv_step (fv_lookup k m) v.
Proof.
  induction m as [|[k' c] r IH]; simpl.
  - rewrite str_eqb_refl; auto.
  - destruct (str_eqb k k') eqn:E; simpl; rewrite E; auto.
Qed.
Lemma fv_lookup_update_other k k1 v m : k <> k1 -> fv_lookup k (fv_update k1 v m) = fv_lookup k m.
Proof.
  intros Hne. induction m as [|[k' c] r IH]; simpl.
  - apply str_eqb_neq in Hne. rewrite Hne; auto.
  - destruct (str_eqb k1 k') eqn:E; simpl.
    + apply str_eqb_eq in E; subst. apply str_eqb_neq in Hne. rewrite Hne; auto.
    + destruct (str_eqb k k'); auto.
Qed.

(** once a name has an explicit visibility, later (less derived) declarations cannot change it;
    while it has none, a declaration sets it *)
Definition fv_fold (k : str) (decls : list (str * vis3)) (c : option vis3) : option vis3 :=
  fold_left (fun c d => if str_eqb k (fst d) then fv_step c (snd d) else c) decls c.

Lemma fv_lookup_fold k decls : forall m,
  fv_lookup k (fold_left (fun m d => fv_update (fst d) (snd d) m) decls m) = fv_fold k decls (fv_lookup k m).
Proof.
  unfold fv_fold. induction decls as [|[k' v] r IH]; intros m; simpl; auto.
  rewrite IH. destruct (str_eqb k k') eqn:E.
  - apply str_eqb_eq in E; subst. rewrite fv_lookup_update_same; auto.
  - apply str_eqb_neq in E. rewrite fv_lookup_update_other; auto.
Qed.

Lemma fv_fold_explicit k decls : forall c,
  (c = Some VisHidden \/ c = Some VisUnhide) -> fv_fold k decls c = c.
Proof.
  unfold fv_fold. induction decls as [|[k' v] r IH]; intros c Hc; simpl; auto.
  destruct (str_eqb k k'); auto.
  rewrite IH; destruct Hc as [-> | ->]; destruct v; simpl; auto.
Qed.

Lemma fv_fold_spec k decls : forall c,
  (c = None \/ c = Some VisNormal) ->
  hidden_of (fv_fold k decls c) =
  match vis_spec k decls with Some h => Some h | None => hidden_of c end.
Proof.
  induction decls as [|[k' v] r IH]; intros c Hc.
  - reflexivity.
  - change (fv_fold k ((k', v) :: r) c) with (fv_fold k r (if str_eqb k k' then fv_step c v else c)).
    cbn [vis_spec]. destruct (str_eqb k k') eqn:E; [|apply IH; auto].
    destruct Hc as [-> | ->]; destruct v; cbn [fv_step];
      try (rewrite fv_fold_explicit by auto; reflexivity);
      (rewrite IH by auto; cbn; destruct (vis_spec k r); auto).
Qed.

Lemma fields_visibility_spec k decls :
  hidden_of (fv_lookup k (fields_visibility decls)) = vis_spec k decls.
Proof.
  unfold fields_visibility. rewrite fv_lookup_fold. simpl. rewrite fv_fold_spec; auto.
  destruct (vis_spec k decls); auto.
Qed.

Lemma fv_update_keys k v m x :
  In x (map fst (fv_update k v m)) <-> x = k \/ In x (map fst m).
Proof.
  induction m as [|[k' c] r IH]; simpl; [intuition|].
  destruct (str_eqb k k') eqn:E; simpl.
  - apply str_eqb_eq in E; subst. intuition.
  - rewrite IH. intuition.
Qed.
Lemma fv_update_nodup k v m : NoDup (map fst m) -> NoDup (map fst (fv_update k v m)).
Proof.
  induction m as [|[k' c] r IH]; simpl; intros Hnd.
  - constructor; [simpl; tauto|constructor].
  - inversion Hnd; subst. destruct (str_eqb k k') eqn:E; simpl.
    + constructor; auto.
    + constructor; auto. rewrite fv_update_keys. apply str_eqb_neq in E. intuition.
Qed.
Lemma fields_visibility_nodup decls : NoDup (map fst (fields_visibility decls)).
Proof.
  unfold fields_visibility.
  assert (G : forall m, NoDup (map fst m) ->
                        NoDup (map fst (fold_left (fun m d => fv_update (fst d) (snd d) m) decls m))).
  { induction decls as [|d r IH]; intros m Hm; simpl; auto. apply IH. apply fv_update_nodup; auto. }
  apply G. constructor.
Qed.
Lemma fv_lookup_in k m c : NoDup (map fst m) -> In (k, c) m -> fv_lookup k m = c.
Proof.
  induction m as [|[k' c'] r IH]; simpl; [tauto|]. intros Hnd [E|Hin].
  - inversion E; subst. rewrite str_eqb_refl; auto.
  - inversion Hnd; subst. destruct (str_eqb k k') eqn:E.
    + apply str_eqb_eq in E; subst. exfalso. apply H1. apply (in_map fst) in Hin; auto.
    + auto.
Qed.
Lemma fv_lookup_some_in k m v : fv_lookup k m = Some v -> In (k, Some v) m.
Proof.
  induction m as [|[k' c'] r IH]; simpl; [discriminate|].
  destruct (str_eqb k k') eqn:E; auto. apply str_eqb_eq in E; subst. intros ->; auto.
Qed.

(** objectFields (one-pass map) lists exactly the names objectHas (scan) accepts, ascending *)
Lemma fields_impl_spec decls h :
  StronglySorted str_lt (fields_impl decls h) /\
  forall k, In k (fields_impl decls h) <-> has_field_impl k decls h = true.
Proof.
  pose proof (fields_visibility_nodup decls) as Hnd.
  unfold fields_impl. split.
  - apply isort_sorted.
    revert Hnd. generalize (fields_visibility decls). induction l as [|[k c] r IH]; simpl; intros Hnd.
    + constructor.
    + inversion Hnd; subst. destruct (h || fv_visible c); simpl; auto. constructor; auto.
      intros Hin. apply H1. apply in_map_iff in Hin. destruct Hin as [x [E Hx]].
      apply filter_In in Hx. apply in_map_iff. exists x; tauto.
  - intros k. rewrite in_isort, has_field_impl_spec, <- fields_visibility_spec, in_map_iff. split.
    + intros [[k' c] [E Hin]]. simpl in E; subst. apply filter_In in Hin. destruct Hin as [Hin Hv].
      simpl in Hv. rewrite (fv_lookup_in _ _ _ Hnd Hin).
      destruct c as [[]|]; simpl in *; auto.
      (* c = None cannot be stored: fv_step never yields None, but the statement does not need it *)
      destruct h; simpl in *; try discriminate.
      exfalso. clear Hv.
      assert (G : forall decls m, (forall x, ~ In (x, None) m) ->
                  forall x, ~ In (x, None) (fold_left (fun m d => fv_update (fst d) (snd d) m) decls m)).
      { clear. induction decls as [|d r IH]; intros m Hm; simpl; auto. apply IH.
        intros x. clear IH. induction m as [|[k' c'] r' IHm]; simpl.
        - intros [E|[]]. inversion E. destruct (snd d); discriminate.
        - destruct (str_eqb (fst d) k'); simpl.
          + intros [E|Hin]; [|apply (Hm x); right; auto]. inversion E.
            destruct (snd d), c' as [[]|]; discriminate.
          + intros [E|Hin]; [apply (Hm x); left; auto|].
            apply IHm; auto. intros y Hy. apply (Hm y); right; auto. }
      apply (G decls [] (fun x H => H) k). exact Hin.
    + destruct (fv_lookup k (fields_visibility decls)) as [v|] eqn:E; simpl; try discriminate.
      intros Hv. exists (k, Some v). split; auto. apply filter_In. split.
      * apply fv_lookup_some_in; auto.
      * simpl. destruct v, h; simpl in *; auto.
Qed.

(** * refutation witnesses: where the faithful model leaves the documented definition *)
Definition nm (s : string) : str := lit s.

Lemma mapwithkey_lazy_refuted :
  exists f fs, wf_fields fs /\ map_with_key_spec f fs <> map_with_key_impl f fs.
Proof.
  exists MKey, [(nm "a", (false, VBomb 7))]. split.
  - repeat constructor. simpl; tauto.
  - vm_compute. discriminate.
Qed.

Lemma removekey_self_refuted :
  exists fs k sd, wf_fields fs /\ remove_key_spec fs k sd <> remove_key_impl fs k sd.
Proof.
  exists [(nm "a", (false, VNum 1)); (nm "b", (false, VNum 1))], (nm "a"), [nm "b"]. split.
  - repeat constructor; simpl; intuition; discriminate.
  - vm_compute. discriminate.
Qed.

Lemma mergepatch_eager_refuted :
  exists t p, mp_def (fuel_for p) t p = Ok (VObj [(nm "a", (false, VBomb 0)); (nm "b", (false, VNum 2))]) /\
              mp_impl (fuel_for p) t p = Err ERun.
Proof.
  exists (VObj [(nm "a", (false, VBomb 7)); (nm "b", (false, VNum 2))]), (VObj [(nm "a", (false, VNum 3))]).
  split; vm_compute; reflexivity.
Qed.

Lemma equals_shortcut_refuted :
  exists a, equals_spec a a = Err ERun /\ equals_impl true a a = Ok true.
Proof. exists (VArr [VBomb 7]). split; vm_compute; reflexivity. Qed.

(** * std.prune *)
Fixpoint prune_list (l : list val) : res (list val) :=
  match l with
  | [] => Ok []
  | x :: r => bind (prune x) (fun x' => bind (prune_list r) (fun r' =>
                Ok (if is_content x' then x' :: r' else r')))
  end.
Fixpoint prune_fields (fs : fields) : res fields :=
  match fs with
  | [] => Ok []
  | (k, (h, x)) :: r =>
      if h then prune_fields r
      else bind (prune x) (fun x' => bind (prune_fields r) (fun r' =>
             Ok (if is_content x' then (k, (false, x')) :: r' else r')))
  end.
Fixpoint clean_fields (fs : fields) : bool :=
  match fs with
  | [] => true
  | (_, (h, x)) :: r => negb h && (is_content x && clean x) && clean_fields r
  end.

Lemma prune_arr l : prune (VArr l) = bind (prune_list l) (fun l' => Ok (VArr l')).
Proof.
  reflexivity.
Qed.
Lemma prune_obj fs : prune (VObj fs) = bind (prune_fields fs) (fun fs' => Ok (VObj fs')).
Proof.
  reflexivity.
Qed.
Lemma clean_obj fs : clean (VObj fs) = clean_fields fs.
Proof. reflexivity. Qed.

Lemma prune_clean v : forall v', prune v = Ok v' -> clean v' = true.
Proof.
  induction v using val_ind2; intros v' Hp;
    try (simpl in Hp; inversion Hp; subst; reflexivity); try (simpl in Hp; discriminate).
  - rewrite prune_arr in Hp. destruct (prune_list l) as [l'| |] eqn:G; simpl in Hp; try discriminate.
    inversion Hp; subst; clear Hp. simpl. revert l' G.
    induction H as [|x r Hx Hr IH]; intros l' G; simpl in G.
    + inversion G; reflexivity.
    + destruct (prune x) as [x'| |] eqn:Px; simpl in G; try discriminate.
      destruct (prune_list r) as [r'| |] eqn:Pr; simpl in G; try discriminate.
      inversion G; subst; clear G. specialize (IH _ eq_refl).
      destruct (is_content x') eqn:C; simpl; auto. assert (Cx : clean x' = true) by (first [apply Hx; reflexivity | apply Hx; exact Px]). rewrite C, Cx, IH. reflexivity.
  - rewrite prune_obj in Hp. destruct (prune_fields fs) as [fs'| |] eqn:G; simpl in Hp; try discriminate.
    inversion Hp; subst; clear Hp. rewrite clean_obj. revert fs' G.
    induction H as [|[k [h x]] r Hx Hr IH]; intros fs' G; simpl in G.
    + inversion G; reflexivity.
    + destruct h; [apply IH; auto|].
      destruct (prune x) as [x'| |] eqn:Px; simpl in G; try discriminate.
      destruct (prune_fields r) as [r'| |] eqn:Pr; simpl in G; try discriminate.
      inversion G; subst; clear G. specialize (IH _ eq_refl). simpl in Hx.
      destruct (is_content x') eqn:C; simpl; auto. assert (Cx : clean x' = true) by (first [apply Hx; reflexivity | apply Hx; exact Px]). rewrite C, Cx, IH. reflexivity.
Qed.

Lemma prune_fixpoint v : clean v = true -> prune v = Ok v.
Proof.
  induction v using val_ind2; intros Hc; try reflexivity; try (simpl in Hc; discriminate).
  - rewrite prune_arr. simpl in Hc.
    assert (G : prune_list l = Ok l).
    { induction H as [|x r Hx Hr IH]; simpl; auto. simpl in Hc.
      apply andb_prop in Hc. destruct Hc as [Hc1 Hc2]. apply andb_prop in Hc1. destruct Hc1 as [C1 C2].
      rewrite (Hx C2). simpl. rewrite (IH Hc2). simpl. rewrite C1. reflexivity. }
    rewrite G. reflexivity.
  - rewrite prune_obj. rewrite clean_obj in Hc.
    assert (G : prune_fields fs = Ok fs).
    { induction H as [|[k [h x]] r Hx Hr IH]; simpl; auto. simpl in Hc, Hx.
      apply andb_prop in Hc. destruct Hc as [Hc1 Hc2]. apply andb_prop in Hc1. destruct Hc1 as [Hh Hc1].
      apply andb_prop in Hc1. destruct Hc1 as [C1 C2].
      destruct h; [discriminate|]. rewrite (Hx C2). simpl. rewrite (IH Hc2). simpl. rewrite C1. reflexivity. }
    rewrite G. reflexivity.
Qed.

Lemma prune_idempotent v v' : prune v = Ok v' -> prune v' = Ok v'.
Proof. intros H. apply prune_fixpoint. eapply prune_clean; eauto. Qed.

Lemma prune_total v : bomb_free v = true -> exists v', prune v = Ok v'.
Proof.
  induction v using val_ind2; intros Hb; try (eexists; reflexivity); try (simpl in Hb; discriminate).
  - rewrite prune_arr. simpl in Hb.
    assert (G : exists l', prune_list l = Ok l').
    { induction H as [|x r Hx Hr IH]; simpl; eauto. simpl in Hb. apply andb_prop in Hb. destruct Hb as [B1 B2].
      destruct (Hx B1) as [x' ->]. destruct (IH B2) as [r' ->]. simpl. eauto. }
    destruct G as [l' ->]. simpl. eauto.
  - rewrite prune_obj.
    assert (G : exists fs', prune_fields fs = Ok fs').
    { simpl in Hb. induction H as [|[k [h x]] r Hx Hr IH]; simpl; eauto. simpl in Hx.
      apply andb_prop in Hb. destruct Hb as [B1 B2].
      destruct (IH B2) as [r' Er]. destruct h; eauto.
      destruct (Hx B1) as [x' ->]. rewrite Er. simpl. eauto. }
    destruct G as [fs' ->]. simpl. eauto.
Qed.

(** * std.mergePatch: the implementation's loop over the ordered union computes RFC 7396 *)
Section MpLoop.
  Variable F : val -> val -> res val.
  Variables tf pf : fields.
  Fixpoint mp_loop (keys : list str) : res fields :=
    match keys with
    | [] => Ok []
    | k :: ks =>
        match vlookup k pf with
        | None => bind (mp_loop ks) (fun r => Ok ((k, (false, value_of k tf)) :: r))
        | Some (VBomb _) => Err ERun
        | Some VNull => mp_loop ks
        | Some pv =>
            bind (match vlookup k tf with Some tv => force tv | None => Ok VNull end)
                 (fun tv => bind (F tv pv)
                                 (fun v => bind (mp_loop ks) (fun r => Ok ((k, (false, v)) :: r))))
        end
    end.
End MpLoop.

Lemma mp_impl_obj n t pf :
  is_bomb t = false ->
  mp_impl (S n) t (VObj pf) =
  bind (mp_loop (mp_impl n) (obj_fields t) pf
                (union_sorted (fields_ex false (obj_fields t)) (fields_ex false pf)))
       (fun out => Ok (VObj out)).
Proof. intros H; destruct t; try (simpl in H; discriminate); reflexivity. Qed.

Definition mp_field (G : val -> val -> val) (tf pf : fields) (k : str) : option (bool * val) :=
  match lookup k pf with
  | None => Some (false, value_of k tf)
  | Some (_, VNull) => None
  | Some (_, pv) => Some (false, G (value_of k tf) pv)
  end.
Fixpoint mp_out (G : val -> val -> val) (tf pf : fields) (keys : list str) : fields :=
  match keys with
  | [] => []
  | k :: ks => match mp_field G tf pf k with
               | Some hv => (k, hv) :: mp_out G tf pf ks
               | None => mp_out G tf pf ks
               end
  end.

Definition all_visible (fs : fields) : Prop :=
  forall k, vlookup k fs = match lookup k fs with Some (_, v) => Some v | None => None end.

Lemma mp_loop_out F G tf pf keys :
  all_visible tf -> all_visible pf ->
  (forall k h v, lookup k tf = Some (h, v) -> is_bomb v = false) ->
  (forall k h pv, In k keys -> lookup k pf = Some (h, pv) ->
                  is_bomb pv = false /\ F (value_of k tf) pv = Ok (G (value_of k tf) pv)) ->
  mp_loop F tf pf keys = Ok (mp_out G tf pf keys).
Proof.
  intros Vt Vp Ht. induction keys as [|k ks IH]; intros Hp; simpl; auto.
  assert (IH' : mp_loop F tf pf ks = Ok (mp_out G tf pf ks)).
  { apply IH. intros k' h pv Hin. apply Hp. right; auto. }
  assert (Htv : (match vlookup k tf with Some tv => force tv | None => Ok VNull end) = Ok (value_of k tf)).
  { rewrite Vt. unfold value_of. destruct (lookup k tf) as [[h v]|] eqn:L; auto.
    specialize (Ht _ _ _ L). destruct v; simpl in *; auto; discriminate. }
  unfold mp_field. rewrite Vp. destruct (lookup k pf) as [[h pv]|] eqn:L.
  - destruct (Hp k h pv (or_introl eq_refl) L) as [Hb HF].
    destruct pv; simpl in Hb; try discriminate; auto;
      rewrite Htv; simpl; rewrite HF; simpl; rewrite IH'; reflexivity.
  - rewrite IH'. reflexivity.
Qed.

Lemma mem_in k l : mem k l = true <-> In k l.
Proof.
  unfold mem. rewrite existsb_exists. split.
  - intros [x [Hin E]]. apply str_eqb_eq in E; subst; auto.
  - intros Hin. exists k. split; auto. apply str_eqb_refl.
Qed.

Lemma lookup_mp_out G tf pf keys k :
  lookup k (mp_out G tf pf keys) = if mem k keys then mp_field G tf pf k else None.
Proof.
  induction keys as [|k1 ks IH]; simpl; auto.
  destruct (str_eqb k k1) eqn:E; simpl.
  - apply str_eqb_eq in E. rewrite <- E. destruct (mp_field G tf pf k) eqn:M; simpl.
    + rewrite str_eqb_refl; auto.
    + rewrite IH. destruct (mem k ks); auto.
  - destruct (mp_field G tf pf k1) eqn:M; simpl; [rewrite E|]; auto.
Qed.

Lemma mp_out_names G tf pf keys x : In x (map fst (mp_out G tf pf keys)) -> In x keys.
Proof.
  induction keys as [|k ks IH]; simpl; auto.
  destruct (mp_field G tf pf k); simpl; intuition.
Qed.
Lemma mp_out_sorted G tf pf keys :
  StronglySorted str_lt keys -> StronglySorted str_lt (map fst (mp_out G tf pf keys)).
Proof.
  induction 1 as [|k ks Hs IH Hall]; simpl; [constructor|].
  destruct (mp_field G tf pf k); simpl; auto. constructor; auto.
  rewrite Forall_forall in *. intros x Hx. apply Hall. eapply mp_out_names; eauto.
Qed.

(** RFC side *)
Definition rfc_step (F : val -> val -> val) (k : str) (pv : val) (acc : fields) : fields :=
  match pv with
  | VNull => remove_key k acc
  | _ => set_field k (F (value_of k acc) pv) acc
  end.
Section RfcGo.
  Variable F : val -> val -> val.
  Fixpoint rfc_go (pf acc : fields) : fields :=
    match pf with
    | [] => acc
    | (k, (_, pv)) :: r => rfc_go r (rfc_step F k pv acc)
    end.
End RfcGo.
Lemma rfc_obj t pf : rfc7396 t (VObj pf) = VObj (rfc_go rfc7396 pf (obj_fields t)).
Proof. reflexivity. Qed.

Lemma lookup_set_same k v fs : lookup k (set_field k v fs) = Some (false, v).
Proof.
  induction fs as [|[k' hv] r IH]; simpl.
  - rewrite str_eqb_refl; auto.
  - destruct (str_cmp k k') eqn:C; simpl.
    + rewrite str_eqb_refl; auto.
    + rewrite str_eqb_refl; auto.
    + unfold str_eqb. rewrite C. auto.
Qed.
Lemma lookup_set_other k k1 v fs : k <> k1 -> lookup k (set_field k1 v fs) = lookup k fs.
Proof.
  intros Hne. pose proof (proj2 (str_eqb_neq k k1) Hne) as E.
  induction fs as [|[k' hv] r IH]; simpl.
  - rewrite E; auto.
  - destruct (str_cmp k1 k') eqn:C; simpl.
    + apply str_cmp_eq in C; subst. rewrite E; auto.
    + rewrite E; auto.
    + rewrite IH; auto.
Qed.
Lemma lookup_remove_same k fs : lookup k (remove_key k fs) = None.
Proof.
  unfold remove_key. induction fs as [|[k' hv] r IH]; simpl; auto.
  destruct (str_eqb k k') eqn:E; simpl; auto. rewrite E; auto.
Qed.
Lemma lookup_remove_other k k1 fs : k <> k1 -> lookup k (remove_key k1 fs) = lookup k fs.
Proof.
  intros Hne. unfold remove_key. induction fs as [|[k' hv] r IH]; simpl; auto.
  destruct (str_eqb k1 k') eqn:E; simpl.
  - apply str_eqb_eq in E; subst. apply str_eqb_neq in Hne. rewrite Hne; auto.
  - rewrite IH; auto.
Qed.

Definition rfc_field (F : val -> val -> val) (acc : fields) (k : str) (pv : val) : option (bool * val) :=
  match pv with VNull => None | _ => Some (false, F (value_of k acc) pv) end.

Lemma lookup_rfc_step_same F k pv acc : lookup k (rfc_step F k pv acc) = rfc_field F acc k pv.
Proof.
  unfold rfc_step, rfc_field. destruct pv; try apply lookup_set_same. apply lookup_remove_same.
Qed.
Lemma lookup_rfc_step_other F k k1 pv acc : k <> k1 -> lookup k (rfc_step F k1 pv acc) = lookup k acc.
Proof.
  intros Hne. unfold rfc_step. destruct pv; try (apply lookup_set_other; auto). apply lookup_remove_other; auto.
Qed.

Lemma lookup_rfc_go F pf : forall acc k,
  NoDup (map fst pf) ->
  lookup k (rfc_go F pf acc) =
  match lookup k pf with None => lookup k acc | Some (_, pv) => rfc_field F acc k pv end.
Proof.
  induction pf as [|[k1 [h1 pv1]] r IH]; intros acc k Hnd; simpl; auto.
  inversion Hnd; subst. rewrite IH by auto.
  destruct (str_eqb k k1) eqn:E.
  - apply str_eqb_eq in E; subst.
    rewrite (proj2 (lookup_none k1 r)) by auto. apply lookup_rfc_step_same.
  - apply str_eqb_neq in E.
    assert (V : value_of k (rfc_step F k1 pv1 acc) = value_of k acc)
      by (unfold value_of; rewrite lookup_rfc_step_other by auto; reflexivity).
    rewrite lookup_rfc_step_other by auto.
    destruct (lookup k r) as [[h pv]|]; auto. unfold rfc_field. rewrite V. reflexivity.
Qed.

(** sortedness is preserved *)
Lemma set_field_names k v fs x : In x (map fst (set_field k v fs)) <-> x = k \/ In x (map fst fs).
Proof.
  induction fs as [|[k' hv] r IH]; simpl; [intuition|].
  destruct (str_cmp k k') eqn:C; simpl.
  - apply str_cmp_eq in C; subst. intuition.
  - intuition.
  - rewrite IH. intuition.
Qed.
Lemma set_field_sorted k v fs :
  StronglySorted str_lt (map fst fs) -> StronglySorted str_lt (map fst (set_field k v fs)).
Proof.
  induction fs as [|[k' hv] r IH]; simpl; intros Hs.
  - repeat constructor.
  - inversion Hs; subst. destruct (str_cmp k k') eqn:C; simpl.
    + apply str_cmp_eq in C; subst. constructor; auto.
    + constructor; auto. constructor; auto. rewrite Forall_forall in *. intros x Hx.
      eapply str_lt_trans; eauto.
    + constructor; auto. rewrite Forall_forall in *. intros x Hx. apply set_field_names in Hx.
      destruct Hx as [->|Hx]; auto. apply str_cmp_gt_lt; auto.
Qed.
Lemma remove_key_sorted k fs :
  StronglySorted str_lt (map fst fs) -> StronglySorted str_lt (map fst (remove_key k fs)).
Proof.
  unfold remove_key. induction fs as [|[k' hv] r IH]; simpl; intros Hs; auto.
  inversion Hs; subst. destruct (negb (str_eqb k k')); simpl; auto. constructor; auto.
  rewrite Forall_forall in *. intros x Hx. apply H2. apply in_map_iff in Hx.
  destruct Hx as [y [E Hy]]. apply filter_In in Hy. apply in_map_iff. exists y; tauto.
Qed.
Lemma rfc_go_sorted F pf : forall acc,
  StronglySorted str_lt (map fst acc) -> StronglySorted str_lt (map fst (rfc_go F pf acc)).
Proof.
  induction pf as [|[k [h pv]] r IH]; intros acc Hs; simpl; auto.
  apply IH. unfold rfc_step. destruct pv; try (apply set_field_sorted; auto). apply remove_key_sorted; auto.
Qed.

Lemma sorted_nodup l : StronglySorted str_lt l -> NoDup l.
Proof.
  induction 1; constructor; auto. intros Hin. rewrite Forall_forall in H0.
  apply (str_lt_irrefl a). auto.
Qed.

Lemma sorted_fields_ext (l1 : fields) : forall l2 : fields,
  StronglySorted str_lt (map fst l1) -> StronglySorted str_lt (map fst l2) ->
  (forall k, lookup k l1 = lookup k l2) -> l1 = l2.
Proof.
  induction l1 as [|[k1 hv1] r1 IH]; intros l2 H1 H2 Hl.
  - destruct l2 as [|[k2 hv2] r2]; auto. specialize (Hl k2). simpl in Hl.
    rewrite str_eqb_refl in Hl. discriminate.
  - destruct l2 as [|[k2 hv2] r2].
    + specialize (Hl k1). simpl in Hl. rewrite str_eqb_refl in Hl. discriminate.
    + simpl in H1, H2. inversion H1; subst. inversion H2; subst.
      rewrite Forall_forall in H4, H6.
      assert (k1 = k2).
      { pose proof (Hl k1) as A. pose proof (Hl k2) as B. simpl in A, B.
        rewrite str_eqb_refl in A, B.
        destruct (str_eqb k1 k2) eqn:E; [apply str_eqb_eq in E; auto|].
        rewrite str_eqb_sym, E in B.
        symmetry in A. apply lookup_in in A. apply lookup_in in B.
        apply (in_map fst) in A. apply (in_map fst) in B. simpl in A, B.
        exfalso. apply (str_lt_irrefl k1). eapply str_lt_trans; eauto. }
      subst k2.
      assert (hv1 = hv2).
      { specialize (Hl k1). simpl in Hl. rewrite str_eqb_refl in Hl. congruence. }
      subst hv2. f_equal. apply IH; auto. intros k.
      destruct (str_eqb k k1) eqn:E.
      * apply str_eqb_eq in E; subst.
        rewrite (proj2 (lookup_none k1 r1)), (proj2 (lookup_none k1 r2)); auto.
        -- intros Hin. apply (str_lt_irrefl k1); auto.
        -- intros Hin. apply (str_lt_irrefl k1); auto.
      * specialize (Hl k). simpl in Hl. rewrite E in Hl. auto.
Qed.

(** ordered union *)
Lemma union_sorted_cons x a' y b' :
  union_sorted (x :: a') (y :: b') =
  match str_cmp x y with
  | Lt => x :: union_sorted a' (y :: b')
  | Eq => x :: union_sorted a' b'
  | Gt => y :: union_sorted (x :: a') b'
  end.
Proof. reflexivity. Qed.

Lemma in_union_sorted k a : forall b, In k (union_sorted a b) <-> In k a \/ In k b.
Proof.
  induction a as [|x a' IHa]; intros b.
  - destruct b; simpl; tauto.
  - induction b as [|y b' IHb].
    + simpl. tauto.
    + rewrite union_sorted_cons. destruct (str_cmp x y) eqn:C.
      * apply str_cmp_eq in C; subst. simpl. rewrite IHa. tauto.
      * simpl. rewrite IHa. simpl. tauto.
      * simpl. rewrite IHb. simpl. tauto.
Qed.

Lemma union_sorted_sorted a : forall b,
  StronglySorted str_lt a -> StronglySorted str_lt b -> StronglySorted str_lt (union_sorted a b).
Proof.
  induction a as [|x a' IHa]; intros b Ha Hb.
  - destruct b; simpl; auto.
  - induction b as [|y b' IHb].
    + simpl. auto.
    + rewrite union_sorted_cons. inversion Ha; subst. inversion Hb; subst.
      rewrite Forall_forall in H2, H4.
      destruct (str_cmp x y) eqn:C.
      * apply str_cmp_eq in C; subst. constructor; [apply IHa; auto|].
        apply Forall_forall. intros k Hk. apply in_union_sorted in Hk. destruct Hk; auto.
      * constructor; [apply IHa; auto|].
        apply Forall_forall. intros k Hk. apply in_union_sorted in Hk. destruct Hk as [Hk|[->|Hk]]; auto.
        eapply str_lt_trans; [exact C|auto].
      * apply str_cmp_gt_lt in C. constructor; [apply IHb; auto|].
        apply Forall_forall. intros k Hk. apply in_union_sorted in Hk. destruct Hk as [[->|Hk]|Hk]; auto.
        eapply str_lt_trans; [exact C|auto].
Qed.

(** JSON values in canonical form *)
Fixpoint json_fields (fs : fields) : bool :=
  match fs with [] => true | (_, (h, x)) :: r => negb h && json x && json_fields r end.
Lemma json_obj fs : json (VObj fs) = sorted_names (map fst fs) && json_fields fs.
Proof. reflexivity. Qed.

Lemma sorted_names_strongly l : sorted_names l = true -> StronglySorted str_lt l.
Proof.
  intros H. apply Sorted_StronglySorted.
  - intros a b c. apply str_lt_trans.
  - induction l as [|x r IH]; [constructor|]. simpl in H. apply andb_prop in H. destruct H as [H1 H2].
    constructor; auto. destruct r; constructor. apply str_ltb_lt; auto.
Qed.

Lemma json_fields_in fs k h v : json_fields fs = true -> In (k, (h, v)) fs -> h = false /\ json v = true.
Proof.
  induction fs as [|[k' [h' x]] r IH]; simpl; [tauto|]. intros Hj [E|Hin].
  - inversion E; subst. apply andb_prop in Hj. destruct Hj as [Hj _]. apply andb_prop in Hj.
    destruct Hj as [A B]. destruct h; simpl in A; try discriminate; auto.
  - apply andb_prop in Hj. destruct Hj as [_ Hj]. auto.
Qed.

Lemma json_not_bomb v : json v = true -> is_bomb v = false.
Proof. destruct v; simpl; auto; discriminate. Qed.

Definition jf (fs : fields) : Prop :=
  StronglySorted str_lt (map fst fs) /\ json_fields fs = true.

Lemma jf_obj_fields t : json t = true -> jf (obj_fields t).
Proof.
  destruct t; simpl; intros H; try (split; [constructor|reflexivity]).
  change (json (VObj fs) = true) in H. rewrite json_obj in H. apply andb_prop in H. destruct H as [A B].
  split; auto. apply sorted_names_strongly; auto.
Qed.

Lemma jf_wf fs : jf fs -> wf_fields fs.
Proof. intros [H _]. apply sorted_nodup; auto. Qed.

Lemma jf_value_json fs k : jf fs -> json (value_of k fs) = true.
Proof.
  intros [_ Hj]. unfold value_of. destruct (lookup k fs) as [[h v]|] eqn:L; auto.
  apply lookup_in in L. eapply json_fields_in in L; eauto. tauto.
Qed.

Lemma jf_has fs k : jf fs -> has_ex fs k false = true <-> lookup k fs <> None.
Proof.
  intros [_ Hj]. unfold has_ex. destruct (lookup k fs) as [[h v]|] eqn:L.
  - apply lookup_in in L. eapply json_fields_in in L; eauto. destruct L as [-> _]. simpl.
    split; auto. discriminate.
  - split; [discriminate|congruence].
Qed.

Lemma jf_all_visible fs : jf fs -> all_visible fs.
Proof.
  intros [_ Hj] k. unfold vlookup. destruct (lookup k fs) as [[h v]|] eqn:L; auto.
  apply lookup_in in L. eapply json_fields_in in L; eauto. destruct L as [-> _]. reflexivity.
Qed.

Fixpoint depth_fields (fs : fields) : nat :=
  match fs with [] => O | (_, (_, x)) :: r => Nat.max (depth x) (depth_fields r) end.
Lemma depth_obj fs : depth (VObj fs) = S (depth_fields fs).
Proof. reflexivity. Qed.
Lemma depth_fields_in fs k h v : In (k, (h, v)) fs -> (depth v <= depth_fields fs)%nat.
Proof.
  induction fs as [|[k' [h' x]] r IH]; simpl; [tauto|]. intros [E|Hin].
  - inversion E; subst. lia.
  - specialize (IH Hin). lia.
Qed.
Lemma depth_pos v : (1 <= depth v)%nat.
Proof. destruct v; simpl; lia. Qed.

Lemma mergepatch_rfc7396 : forall n t p,
  json t = true -> json p = true -> (depth p < n)%nat -> mp_impl n t p = Ok (rfc7396 t p).
Proof.
  induction n as [|n IH]; intros t p Jt Jp Hd; [lia|].
  pose proof (json_not_bomb _ Jt) as Bt.
  destruct p; try (simpl in Jp; discriminate);
    try (destruct t; simpl in Bt; try discriminate; reflexivity).
  rename fs into pf.
  rewrite mp_impl_obj by auto. rewrite rfc_obj.
  pose proof (jf_obj_fields _ Jt) as Jtf. pose proof (jf_obj_fields _ Jp) as Jpf. simpl in Jpf.
  set (tf := obj_fields t) in *.
  set (keys := union_sorted (fields_ex false tf) (fields_ex false pf)).
  assert (Hkeys : StronglySorted str_lt keys).
  { apply union_sorted_sorted; apply fields_ex_spec; apply jf_wf; auto. }
  assert (Hmem : forall k, In k keys <-> lookup k tf <> None \/ lookup k pf <> None).
  { intros k. unfold keys. rewrite in_union_sorted.
    rewrite <- !has_iff_listed by (apply jf_wf; auto). rewrite !jf_has by auto. tauto. }
  rewrite (mp_loop_out (mp_impl n) rfc7396); try (apply jf_all_visible; auto).
  - simpl. f_equal. f_equal. apply sorted_fields_ext.
    + apply mp_out_sorted; auto.
    + apply rfc_go_sorted. apply Jtf.
    + intros k. rewrite lookup_mp_out, lookup_rfc_go by (apply sorted_nodup; apply Jpf).
      unfold mp_field, rfc_field.
      destruct (lookup k pf) as [[h pv]|] eqn:Lp.
      * assert (Hin : mem k keys = true).
        { apply mem_in. apply Hmem. right. congruence. }
        rewrite Hin. destruct pv; reflexivity.
      * destruct (mem k keys) eqn:M.
        -- apply mem_in in M. apply Hmem in M. destruct M as [M|M]; [|congruence].
           unfold value_of. destruct (lookup k tf) as [[h v]|] eqn:Lt; [|congruence].
           apply lookup_in in Lt. eapply json_fields_in in Lt; [|apply Jtf]. destruct Lt as [-> _]. reflexivity.
        -- destruct (lookup k tf) eqn:Lt; auto. exfalso.
           assert (In k keys) by (apply Hmem; left; congruence).
           apply mem_in in H. congruence.
  - intros k h v L. apply lookup_in in L. eapply json_fields_in in L; [|apply Jtf].
    apply json_not_bomb. tauto.
  - intros k h pv Hin L. apply lookup_in in L.
    pose proof (depth_fields_in _ _ _ _ L) as Dp. rewrite depth_obj in Hd.
    eapply json_fields_in in L; [|apply Jpf]. destruct L as [_ Jpv].
    split; [apply json_not_bomb; auto|].
    apply IH; auto; [apply jf_value_json; auto|lia].
Qed.

(** ** laziness: a visible target field that the patch does not mention is handed over unevaluated *)
Lemma mp_loop_untouched F tf pf keys : forall out k,
  mp_loop F tf pf keys = Ok out -> In k keys -> vlookup k pf = None -> NoDup keys ->
  lookup k out = Some (false, value_of k tf).
Proof.
  induction keys as [|k1 ks IH]; intros out k Hl Hin Hp Hnd; [destruct Hin|].
  inversion Hnd; subst. simpl in Hl.
  destruct (str_eqb k k1) eqn:E.
  - apply str_eqb_eq in E; subst k1. rewrite Hp in Hl.
    destruct (mp_loop F tf pf ks) as [r| |]; simpl in Hl; try discriminate.
    inversion Hl; subst. simpl. rewrite str_eqb_refl. reflexivity.
  - assert (Hin' : In k ks).
    { destruct Hin as [->|]; auto. rewrite str_eqb_refl in E. discriminate. }
    assert (Step : forall r, mp_loop F tf pf ks = Ok r -> lookup k r = Some (false, value_of k tf)).
    { intros r Hr. eapply IH; eauto. }
    destruct (vlookup k1 pf) as [pv|].
    + destruct pv; try discriminate; auto;
        (destruct (match vlookup k1 tf with Some tv => force tv | None => Ok VNull end) as [tv| |];
         simpl in Hl; try discriminate;
         match type of Hl with bind ?X _ = _ => destruct X as [v| |]; simpl in Hl; try discriminate end;
         destruct (mp_loop F tf pf ks) as [r| |]; simpl in Hl; try discriminate;
         inversion Hl; subst; simpl; rewrite E; auto).
    + destruct (mp_loop F tf pf ks) as [r| |]; simpl in Hl; try discriminate.
      inversion Hl; subst; simpl; rewrite E; auto.
Qed.

(** a visible target field that the patch does not mention VISIBLY (absent or hidden there) *)
Lemma mergepatch_lazy n t pf out k :
  wf_fields (obj_fields t) -> wf_fields pf ->
  mp_impl (S n) t (VObj pf) = Ok (VObj out) ->
  has_ex (obj_fields t) k false = true -> vlookup k pf = None ->
  lookup k out = Some (false, value_of k (obj_fields t)).
Proof.
  intros Wt Wp Hm Hh Hp.
  assert (Bt : is_bomb t = false) by (destruct t; auto; simpl in Hm; discriminate).
  rewrite mp_impl_obj in Hm by auto.
  match type of Hm with bind ?X _ = _ => destruct X as [o| |] eqn:L; simpl in Hm; try discriminate end.
  inversion Hm; subst o. eapply mp_loop_untouched; eauto.
  - apply in_union_sorted. left. apply has_iff_listed; auto.
  - apply sorted_nodup. apply union_sorted_sorted; apply fields_ex_spec; auto.
Qed.

(** * std.equals on canonical JSON values decides equality *)
Section EqLoops.
  Variable E : val -> val -> res bool.
  Fixpoint eq_list (la lb : list val) : res bool :=
    match la, lb with
    | x :: r, y :: s => bind (E x y) (fun e => if e then eq_list r s else Ok false)
    | _, _ => Ok true
    end.
  Fixpoint eq_fields (fa : fields) (vb : list val) : res bool :=
    match fa with
    | [] => Ok true
    | (_, (h, x)) :: r =>
        if h then eq_fields r vb
        else match vb with
             | y :: vb' => bind (E x y) (fun e => if e then eq_fields r vb' else Ok false)
             | [] => Ok true
             end
    end.
End EqLoops.

Lemma equals_core_arr la lb :
  equals_core (VArr la) (VArr lb) =
  if negb (Nat.eqb (length la) (length lb)) then Ok false else eq_list equals_core la lb.
Proof. reflexivity. Qed.
Lemma equals_core_obj fa fb :
  equals_core (VObj fa) (VObj fb) =
  if negb (list_str_eqb (names_of false fa) (names_of false fb)) then Ok false
  else eq_fields equals_core fa (map (fun f => snd (snd f)) (filter (fun f => negb (fst (snd f))) fb)).
Proof. reflexivity. Qed.

Lemma list_str_eqb_eq a : forall b, list_str_eqb a b = true <-> a = b.
Proof.
  induction a as [|x a IH]; destruct b as [|y b]; simpl; split; try discriminate; auto.
  - intros H. apply andb_prop in H. destruct H as [H1 H2]. apply str_eqb_eq in H1. apply IH in H2. congruence.
  - intros [= -> ->]. rewrite str_eqb_refl. apply IH. auto.
Qed.

Lemma json_fields_visible fs : json_fields fs = true ->
  names_of false fs = map fst fs /\ filter (fun f => negb (fst (snd f))) fs = fs.
Proof.
  unfold names_of. induction fs as [|[k [h x]] r IH]; simpl; auto. intros H.
  apply andb_prop in H. destruct H as [H1 H2]. apply andb_prop in H1. destruct H1 as [H0 H1].
  destruct h; simpl in *; try discriminate. destruct (IH H2) as [A B]. rewrite A, B. auto.
Qed.

Definition decides (E : val -> val -> res bool) (x : val) : Prop :=
  forall b, json b = true -> exists r, E x b = Ok r /\ (r = true <-> x = b).

Lemma eq_list_decides E la : Forall (decides E) la -> forall lb,
  length la = length lb -> forallb json lb = true ->
  exists r, eq_list E la lb = Ok r /\ (r = true <-> la = lb).
Proof.
  induction 1 as [|x r Hx Hr IH]; intros lb Hlen Hj; destruct lb as [|y s]; try discriminate.
  - exists true. simpl. tauto.
  - simpl in *. apply andb_prop in Hj. destruct Hj as [J1 J2].
    destruct (Hx y J1) as [e [He Hiff]]. rewrite He. simpl. destruct e.
    + destruct (IH s) as [e' [He' Hiff']]; auto. exists e'. split; auto. rewrite Hiff'.
      split; [intros ->; f_equal; apply Hiff; auto|intros [= _ ->]; auto].
    + exists false. split; auto. split; [discriminate|]. intros [= -> _]. apply Hiff. auto.
Qed.

Lemma eq_fields_decides E fa : Forall (fun f => decides E (snd (snd f))) fa -> forall fb,
  json_fields fa = true -> json_fields fb = true -> map fst fa = map fst fb ->
  exists r, eq_fields E fa (map (fun f => snd (snd f)) fb) = Ok r /\ (r = true <-> fa = fb).
Proof.
  induction 1 as [|[k [h x]] r Hx Hr IH]; intros fb Ja Jb Hn; destruct fb as [|[k' [h' y]] s]; try discriminate.
  - exists true. simpl. tauto.
  - simpl in *. apply andb_prop in Ja. destruct Ja as [Ja1 Ja2]. apply andb_prop in Ja1. destruct Ja1 as [Ha Jx].
    apply andb_prop in Jb. destruct Jb as [Jb1 Jb2]. apply andb_prop in Jb1. destruct Jb1 as [Hb Jy].
    destruct h; simpl in Ha; try discriminate. destruct h'; simpl in Hb; try discriminate.
    inversion Hn; subst k'.
    destruct (Hx y Jy) as [e [He Hiff]]. rewrite He. simpl. destruct e.
    + destruct (IH s) as [e' [He' Hiff']]; auto. exists e'. split; auto. rewrite Hiff'.
      split; [intros ->; f_equal; f_equal; f_equal; apply Hiff; auto|intros [= _ ->]; auto].
    + exists false. split; auto. split; [discriminate|]. intros [= -> _]. apply Hiff. auto.
Qed.

Lemma equals_core_decides a : json a = true -> decides equals_core a.
Proof.
  induction a using val_ind2; intros Ja w Jw; try (simpl in Ja; discriminate).
  - destruct w; try (simpl in Jw; discriminate); simpl;
      try (exists true; split; [reflexivity|tauto]);
      (exists false; split; [reflexivity|split; intros X; discriminate X]).
  - destruct w as [| b' | | | | | |]; try (simpl in Jw; discriminate); simpl;
      try (exists false; split; [reflexivity|split; intros X; discriminate X]).
    exists (Bool.eqb b b'). split; auto. rewrite Bool.eqb_true_iff. split; congruence.
  - destruct w as [| | z' | | | | |]; try (simpl in Jw; discriminate); simpl;
      try (exists false; split; [reflexivity|split; intros X; discriminate X]).
    exists (Z.eqb z z'). split; auto. rewrite Z.eqb_eq. split; congruence.
  - destruct w as [| | | s' | | | |]; try (simpl in Jw; discriminate); simpl;
      try (exists false; split; [reflexivity|split; intros X; discriminate X]).
    exists (str_eqb s s'). split; auto. rewrite str_eqb_eq. split; congruence.
  - destruct w as [| | | | lb | | |]; try (simpl in Jw; discriminate);
      try (simpl; exists false; split; [reflexivity|split; intros X; discriminate X]).
    rewrite equals_core_arr. destruct (Nat.eqb (length l) (length lb)) eqn:L; simpl.
    + apply Nat.eqb_eq in L. simpl in Ja, Jw.
      destruct (eq_list_decides equals_core l) with (lb := lb) as [r [Hr Hiff]]; auto.
      * rewrite Forall_forall in *. intros x Hx. apply H; auto.
        rewrite forallb_forall in Ja. auto.
      * exists r. split; auto. rewrite Hiff. split; congruence.
    + exists false. split; auto. split; [discriminate|]. intros [= ->].
      rewrite Nat.eqb_refl in L. discriminate.
  - destruct w as [| | | | | fb | |]; try (simpl in Jw; discriminate);
      try (simpl; exists false; split; [reflexivity|split; intros X; discriminate X]).
    rewrite equals_core_obj. rewrite json_obj in Ja, Jw.
    apply andb_prop in Ja. destruct Ja as [Sa Ja]. apply andb_prop in Jw. destruct Jw as [Sb Jb].
    destruct (json_fields_visible _ Ja) as [Na Fa]. destruct (json_fields_visible _ Jb) as [Nb Fb].
    rewrite Na, Nb, Fb.
    destruct (list_str_eqb (map fst fs) (map fst fb)) eqn:L; simpl.
    + apply list_str_eqb_eq in L.
      destruct (eq_fields_decides equals_core fs) with (fb := fb) as [r [Hr Hiff]]; auto.
      * rewrite Forall_forall in *. intros [k [h x]] Hx. simpl. apply (H _ Hx).
        destruct (json_fields_in _ _ _ _ Ja Hx). auto.
      * exists r. split; auto. rewrite Hiff. split; congruence.
    + exists false. split; auto. split; [discriminate|]. intros [= ->].
      assert (list_str_eqb (map fst fb) (map fst fb) = true) by (apply list_str_eqb_eq; auto). congruence.
Qed.

Lemma equals_equiv a b c :
  json a = true -> json b = true -> json c = true ->
  (exists r, equals_core a b = Ok r /\ (r = true <-> a = b)) /\
  equals_core a a = Ok true /\
  equals_core a b = equals_core b a /\
  (equals_core a b = Ok true -> equals_core b c = Ok true -> equals_core a c = Ok true).
Proof.
  intros Ja Jb Jc.
  destruct (equals_core_decides a Ja b Jb) as [r1 [E1 I1]].
  destruct (equals_core_decides b Jb a Ja) as [r2 [E2 I2]].
  destruct (equals_core_decides a Ja a Ja) as [r3 [E3 I3]].
  destruct (equals_core_decides b Jb c Jc) as [r4 [E4 I4]].
  destruct (equals_core_decides a Ja c Jc) as [r5 [E5 I5]].
  repeat split.
  - eauto.
  - rewrite E3. f_equal. apply I3. auto.
  - rewrite E1, E2. f_equal. destruct r1, r2; auto.
    + assert (a = b) by (apply I1; auto). symmetry. apply I2. auto.
    + assert (b = a) by (apply I2; auto). apply I1. auto.
  - rewrite E1, E4, E5. intros [= ->] [= ->]. f_equal. apply I5.
    transitivity b; [apply I1|apply I4]; auto.
Qed.

(** canonical JSON values are already in normal form, so std.equals (= equals_core after [norm]) is
    equals_core on them *)
Fixpoint norm_fields (fs : fields) : fields :=
  match fs with
  | [] => []
  | (k, (h, x)) :: r => insert_field (k, (h, norm x)) (norm_fields r)
  end.
Lemma norm_obj fs : norm (VObj fs) = VObj (norm_fields fs).
Proof. reflexivity. Qed.

Lemma norm_json v : json v = true -> norm v = v.
Proof.
  induction v using val_ind2; intros J; try reflexivity.
  - simpl. f_equal. simpl in J. induction H as [|x r Hx Hr IH]; simpl; auto.
    simpl in J. apply andb_prop in J. destruct J as [J1 J2]. rewrite Hx, IH; auto.
  - rewrite norm_obj. f_equal. rewrite json_obj in J. apply andb_prop in J. destruct J as [S J].
    induction H as [|[k [h x]] r Hx Hr IH]; simpl; auto.
    simpl in J, S, Hx. apply andb_prop in J. destruct J as [J1 J2]. apply andb_prop in J1. destruct J1 as [_ Jx].
    apply andb_prop in S. destruct S as [S1 S2].
    rewrite IH, Hx; auto. destruct r as [|[k' hv'] r']; simpl; auto.
    simpl in S1. unfold str_ltb in *. rewrite (str_cmp_antisym k k').
    destruct (str_cmp k k'); simpl; try discriminate; auto.
Qed.

Lemma equals_spec_json a b : json a = true -> json b = true -> equals_spec a b = equals_core a b.
Proof. intros Ja Jb. unfold equals_spec. rewrite !norm_json; auto. Qed.

Lemma equals_spec_equiv a b c :
  json a = true -> json b = true -> json c = true ->
  (exists r, equals_spec a b = Ok r /\ (r = true <-> a = b)) /\
  equals_spec a a = Ok true /\
  equals_spec a b = equals_spec b a /\
  (equals_spec a b = Ok true -> equals_spec b c = Ok true -> equals_spec a c = Ok true).
Proof.
  intros Ja Jb Jc. rewrite !equals_spec_json by auto. apply equals_equiv; auto.
Qed.

(** * non-vacuity: the hypotheses of the theorems have non-trivial instances *)
Example wf_ex : wf_fields [(nm "b", (false, VNum 1)); (nm "a", (true, VBomb 7))].
Proof. repeat constructor; simpl; intuition; discriminate. Qed.
Example json_ex :
  json (VObj [(nm "a", (false, VArr [VNum 1; VNull])); (nm "b", (false, VObj [(nm "c", (false, VStr (nm "x")))]))]) = true.
Proof. reflexivity. Qed.
Example mergepatch_ex :
  let t := VObj [(nm "a", (false, VObj [(nm "x", (false, VNum 1))])); (nm "b", (false, VNum 2))] in
  let p := VObj [(nm "a", (false, VObj [(nm "x", (false, VNull)); (nm "y", (false, VNum 3))])); (nm "c", (false, VStr (nm "n")))] in
  json t = true /\ json p = true /\ (depth p < 4)%nat /\
  mp_impl 4 t p = Ok (VObj [(nm "a", (false, VObj [(nm "y", (false, VNum 3))])); (nm "b", (false, VNum 2));
                            (nm "c", (false, VStr (nm "n")))]).
Proof. vm_compute. repeat split; auto. Qed.
Example mergepatch_lazy_ex :
  mp_impl 3 (VObj [(nm "a", (false, VBomb 7)); (nm "b", (false, VNum 2))]) (VObj [(nm "b", (false, VNum 3))])
  = Ok (VObj [(nm "a", (false, VBomb 7)); (nm "b", (false, VNum 3))]).
Proof. reflexivity. Qed.
Example prune_ex :
  prune (VArr [VNull; VArr [VNull]; VObj [(nm "h", (true, VNum 1))]; VNum 0; VObj [(nm "a", (false, VArr []))]])
  = Ok (VArr [VNum 0]) /\ clean (VArr [VNum 0]) = true.
Proof. split; reflexivity. Qed.
Example vis_ex :
  fields_impl [(nm "a", VisNormal); (nm "a", VisUnhide); (nm "b", VisNormal); (nm "a", VisHidden); (nm "b", VisHidden)] false
  = [nm "a"] /\
  has_field_impl (nm "b") [(nm "a", VisNormal); (nm "a", VisUnhide); (nm "b", VisNormal); (nm "a", VisHidden); (nm "b", VisHidden)] false
  = false.
Proof. split; reflexivity. Qed.
Example equals_ex :
  equals_core (VObj [(nm "a", (false, VArr [VNum 1]))]) (VObj [(nm "a", (false, VArr [VNum 1]))]) = Ok true /\
  equals_core (VObj [(nm "a", (false, VArr [VNum 1]))]) (VObj [(nm "a", (false, VArr [VNum 2]))]) = Ok false.
Proof. split; reflexivity. Qed.

(** * the combined statements quoted by Properties.v *)
Lemma listing_sorted_exact :
  forall h fs, wf_fields fs ->
    listing_spec h fs (fields_ex h fs) /\ forall l, listing_spec h fs l -> l = fields_ex h fs.
Proof. intros h fs W. split; [apply fields_ex_spec; auto|intros l; apply listing_unique; auto]. Qed.

Lemma get_spec_full :
  forall fs k d h,
    get_impl fs k d h = get_spec fs k d h /\
    (has_ex fs k h = true -> get_spec fs k d h = force (value_of k fs)) /\
    (has_ex fs k h = false -> get_spec fs k d h = default_of d).
Proof. intros. split; [apply get_impl_is_spec|apply get_default_only_when_absent]. Qed.

Lemma prune_spec_full :
  forall v,
    (forall v', prune v = Ok v' -> clean v' = true /\ prune v' = Ok v') /\
    (clean v = true -> prune v = Ok v) /\
    (bomb_free v = true -> exists v', prune v = Ok v').
Proof.
  intros v. split; [|split].
  - intros v' H. split; [eapply prune_clean|eapply prune_idempotent]; eauto.
  - apply prune_fixpoint.
  - apply prune_total.
Qed.

Lemma type_partition_full :
  forall v, is_bomb v = false ->
    exists t, type_spec v = Ok (VStr (ty_name t)) /\
              (forall t', is_spec t' v = Ok (VBool (ty_eqb t' t))) /\
              (forall t', ty_eqb t' t = true <-> t' = t) /\
              (forall t', ty_name t' = ty_name t -> t' = t).
Proof.
  intros v H. destruct (type_partition v H) as [t [A B]]. exists t.
  split; [exact A|]. split; [exact B|]. split.
  - intros t'. apply ty_eqb_eq.
  - intros t'. apply ty_name_inj.
Qed.
