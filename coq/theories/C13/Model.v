(** C13 — standard-library object and type functions match their definitions.

    Values: JSON-like trees with functions and *bombs* (an unevaluated expression that fails when
    it is forced: `error "..."` in a field / element / argument position).  An object is the list
    of its fields AFTER flattening of the inheritance chain: (name, (hidden?, value)), names
    unique, in any order (the order is representation only; the listing functions sort).

    SPEC: the documented definitions (std.jsonnet of the reference implementation, RFC 7396
    for mergePatch on JSON values), including which positions a call forces.
    IMPL-MODEL: what crates/jrsonnet-stdlib/src/{objects,misc,arrays,types,operator}.rs and
    jrsonnet-evaluator/src/{obj/mod.rs, val.rs, arr/spec.rs} do, including the places where they
    are more eager than the definition or look through hidden fields.
    Definitions only; proofs are in Proofs.v. *)
From Coq Require Import Ascii String.
From Coq Require Import List ZArith NArith Bool Sorted.
Import ListNotations.

(** * Strings: lists of code points, ordered lexicographically by code point
      (= byte order of UTF-8, which is what `IStr: Ord` compares). *)
Definition str := list N.

Fixpoint str_cmp (a b : str) : comparison :=
  match a, b with
  | [], [] => Eq
  | [], _ :: _ => Lt
  | _ :: _, [] => Gt
  | x :: a', y :: b' => match N.compare x y with Eq => str_cmp a' b' | c => c end
  end.
Definition str_eqb (a b : str) : bool := match str_cmp a b with Eq => true | _ => false end.
Definition str_ltb (a b : str) : bool := match str_cmp a b with Lt => true | _ => false end.
Definition str_lt (a b : str) : Prop := str_cmp a b = Lt.

Definition lit (s : string) : str := map (fun c => N_of_ascii c) (list_ascii_of_string s).

(** * Values *)
Inductive val :=
| VNull
| VBool (b : bool)
| VNum (z : Z)                                   (* integer-valued doubles only *)
| VStr (s : str)
| VArr (l : list val)
| VObj (fs : list (str * (bool * val)))          (* (name, (hidden, value)) *)
| VFun (nreq : N)                                (* a function with nreq parameters without default *)
| VBomb (id : N).                                (* fails when forced *)

Definition fields := list (str * (bool * val)).

Inductive err := ERun | EType.
Inductive res (A : Type) := Ok (a : A) | Err (e : err) | Fuel.
Arguments Ok {A} a.
Arguments Err {A} e.
Arguments Fuel {A}.

Definition bind {A B} (r : res A) (f : A -> res B) : res B :=
  match r with Ok a => f a | Err e => Err e | Fuel => Fuel end.

(** forcing a position *)
Definition force (v : val) : res val := match v with VBomb _ => Err ERun | _ => Ok v end.
Definition is_bomb (v : val) : bool := match v with VBomb _ => true | _ => false end.

(** a suspended computation becomes a value position: failure = bomb *)
Definition suspend (r : res val) : res val :=
  match r with Ok v => Ok v | Err _ => Ok (VBomb 0) | Fuel => Fuel end.

Fixpoint mapM {A B} (f : A -> res B) (l : list A) : res (list B) :=
  match l with
  | [] => Ok []
  | x :: r => bind (f x) (fun y => bind (mapM f r) (fun ys => Ok (y :: ys)))
  end.

(** * Field lists *)
Fixpoint lookup (k : str) (fs : fields) : option (bool * val) :=
  match fs with
  | [] => None
  | (k', hv) :: r => if str_eqb k k' then Some hv else lookup k r
  end.

Definition value_of (k : str) (fs : fields) : val :=
  match lookup k fs with Some (_, v) => v | None => VNull end.

(** a read that only sees visible fields *)
Definition vlookup (k : str) (fs : fields) : option val :=
  match lookup k fs with Some (false, v) => Some v | _ => None end.

(** `has_field_ex` *)
Definition has_ex (fs : fields) (k : str) (inc_hidden : bool) : bool :=
  match lookup k fs with Some (h, _) => inc_hidden || negb h | None => false end.

Fixpoint insert_sorted (k : str) (l : list str) : list str :=
  match l with
  | [] => [k]
  | x :: r => if str_ltb x k then x :: insert_sorted k r else k :: l
  end.
Fixpoint isort (l : list str) : list str :=
  match l with [] => [] | x :: r => insert_sorted x (isort r) end.

Definition names_of (inc_hidden : bool) (fs : fields) : list str :=
  map fst (filter (fun f => inc_hidden || negb (fst (snd f))) fs).

(** IMPL-MODEL of `ObjValue::fields_ex`: filter the (unordered) visibility map, `sort_unstable`.
    (It is also the unique list satisfying the SPEC [listing_spec] below.) *)
Definition fields_ex (inc_hidden : bool) (fs : fields) : list str := isort (names_of inc_hidden fs).

(** well-formed flattened object: every name once *)
Definition wf_fields (fs : fields) : Prop := NoDup (map fst fs).

(** SPEC of the listing functions: ascending, exactly the visible (or all) names *)
Definition listing_spec (inc_hidden : bool) (fs : fields) (l : list str) : Prop :=
  StronglySorted str_lt l /\ forall k, In k l <-> has_ex fs k inc_hidden = true.

(** ordered union of two ascending lists (BTreeSet::union) *)
Fixpoint union_sorted (a : list str) : list str -> list str :=
  fix go (b : list str) : list str :=
    match a, b with
    | [], _ => b
    | _, [] => a
    | x :: a', y :: b' =>
        match str_cmp x y with
        | Lt => x :: union_sorted a' b
        | Eq => x :: union_sorted a' b'
        | Gt => y :: go b'
        end
    end.

Definition mem (k : str) (l : list str) : bool := existsb (str_eqb k) l.

(** * Visibility kernel of an inheritance chain.
    [decls]: every declaration (name, visibility) of the chain, MOST DERIVED LAYER FIRST
    (the order in which `fields_visibility` and `field_visibility_idx` walk `cores.iter().rev()`).
    Omit cores (std.objectRemoveKey) are not part of this kernel. *)
Inductive vis3 := VisNormal | VisHidden | VisUnhide.

(** SPEC (language definition): a field is hidden iff the most derived declaration with an
    explicit visibility (`::` or `:::`) says `::`; default-visibility declarations inherit. *)
Fixpoint vis_spec (k : str) (decls : list (str * vis3)) : option bool :=
  match decls with
  | [] => None
  | (k', v) :: r =>
      if str_eqb k k' then
        match v with
        | VisHidden => Some true
        | VisUnhide => Some false
        | VisNormal => match vis_spec k r with Some h => Some h | None => Some false end
        end
      else vis_spec k r
  end.

(** IMPL-MODEL 1: `field_visibility_idx` (std.objectHas*, std.get): scan, first explicit wins *)
Fixpoint field_visibility_idx (k : str) (decls : list (str * vis3)) (exists_ : bool) : option vis3 :=
  match decls with
  | [] => if exists_ then Some VisNormal else None
  | (k', v) :: r =>
      if str_eqb k k' then
        match v with
        | VisNormal => field_visibility_idx k r true
        | _ => Some v
        end
      else field_visibility_idx k r exists_
  end.
Definition has_field_impl (k : str) (decls : list (str * vis3)) (inc_hidden : bool) : bool :=
  match field_visibility_idx k decls false with
  | Some VisHidden => inc_hidden
  | Some _ => true
  | None => false
  end.

(** IMPL-MODEL 2: `fields_visibility` (std.objectFields*, std.length, values): one pass over all
    declarations with a per-name state `exists_visible` *)
Definition fv_step (cur : option vis3) (v : vis3) : option vis3 :=
  match v with
  | VisNormal => match cur with None => Some VisNormal | _ => cur end
  | VisHidden => Some (match cur with Some VisUnhide => VisUnhide | _ => VisHidden end)
  | VisUnhide => Some (match cur with Some VisHidden => VisHidden | _ => VisUnhide end)
  end.
Fixpoint fv_update (k : str) (v : vis3) (m : list (str * option vis3)) : list (str * option vis3) :=
  match m with
  | [] => [(k, fv_step None v)]
  | (k', c) :: r => if str_eqb k k' then (k', fv_step c v) :: r else (k', c) :: fv_update k v r
  end.
Definition fields_visibility (decls : list (str * vis3)) : list (str * option vis3) :=
  fold_left (fun m d => fv_update (fst d) (snd d) m) decls [].
Definition fv_visible (c : option vis3) : bool :=
  match c with Some VisHidden => false | Some _ => true | None => false end.
Definition fields_impl (decls : list (str * vis3)) (inc_hidden : bool) : list str :=
  isort (map fst (filter (fun e => inc_hidden || fv_visible (snd e)) (fields_visibility decls))).

(** * std.get *)
Definition default_of (d : option val) : res val :=
  match d with None => Ok VNull | Some d => force d end.
(** definition: `if std.objectHasEx(o, f, inc_hidden) then o[f] else default` *)
Definition get_spec (fs : fields) (k : str) (d : option val) (inc_hidden : bool) : res val :=
  if has_ex fs k inc_hidden then force (value_of k fs) else default_of d.
(** misc.rs builtin_get *)
Definition get_impl (fs : fields) (k : str) (d : option val) (inc_hidden : bool) : res val :=
  if negb inc_hidden && negb (has_ex fs k false) then default_of d
  else match lookup k fs with
       | None => default_of d
       | Some (_, v) => force v
       end.

(** * objectValues / objectKeysValues: lazy views *)
Definition values_spec (inc_hidden : bool) (fs : fields) : val :=
  VArr (map (fun k => value_of k fs) (fields_ex inc_hidden fs)).
Definition kv_obj (k : str) (v : val) : val :=
  VObj [(lit "key", (false, VStr k)); (lit "value", (false, v))].
Definition keys_values_spec (inc_hidden : bool) (fs : fields) : val :=
  VArr (map (fun k => kv_obj k (value_of k fs)) (fields_ex inc_hidden fs)).
(** PickObjectKeyValues::get (after 1809f60) builds the element with a lazy value thunk, as the
    definition does: [keys_values_spec] is also the impl-model. *)

(** * std.mapWithKey, for three representative functions *)
Inductive mapfn := MKey | MPair | MVal.
Definition apply_mapfn (f : mapfn) (k : str) (v : val) : val :=
  match f with
  | MKey => VStr k                       (* function(k, v) k         : ignores v *)
  | MPair => VArr [VStr k; v]            (* function(k, v) [k, v]    : keeps v lazy *)
  | MVal => v                            (* function(k, v) v         : the field is v *)
  end.
(** definition: `{ [k]: func(k, obj[k]) for k in std.objectFields(obj) }` — nothing is forced *)
Definition map_with_key_spec (f : mapfn) (fs : fields) : res val :=
  Ok (VObj (map (fun k => (k, (false, apply_mapfn f k (value_of k fs)))) (fields_ex false fs))).
(** arrays.rs builtin_map_with_key: `for (k, v) in obj.iter() { let v = v?; func.call(k, v)? }` *)
Definition map_with_key_impl (f : mapfn) (fs : fields) : res val :=
  bind (mapM (fun k => bind (force (value_of k fs)) (fun v => Ok (k, (false, apply_mapfn f k v))))
             (fields_ex false fs))
       (fun out => Ok (VObj out)).

(** * std.objectRemoveKey.
    definition: the object without that field; every other field keeps its value.
    [selfdeps]: names of the fields whose body reads `self.<key>`. *)
Definition remove_key (k : str) (fs : fields) : fields :=
  filter (fun f => negb (str_eqb k (fst f))) fs.
Definition remove_key_spec (fs : fields) (k : str) (selfdeps : list str) : val :=
  VObj (remove_key k fs).
(** objects.rs builtin_object_remove_key: `super + omit`, so `self` is the NEW object and a body
    reading the removed field no longer finds it *)
Definition remove_key_impl (fs : fields) (k : str) (selfdeps : list str) : val :=
  VObj (map (fun f => if mem (fst f) selfdeps then (fst f, (fst (snd f), VBomb 1)) else f)
            (remove_key k fs)).

(** * std.mergePatch *)
Definition obj_fields (v : val) : fields := match v with VObj fs => fs | _ => [] end.

(** IMPL-MODEL: misc.rs builtin_merge_patch (after c053b92).  Both arguments are evaluated by the
    call; the loop runs over the ordered union of the VISIBLE names and only reads visible fields
    (`patch_fields.contains` / `target_fields.contains`), keeps a target field that the patch lacks
    as a thunk, recurses eagerly. *)
Fixpoint mp_impl (n : nat) (t p : val) : res val :=
  match n with
  | O => Fuel
  | S n' =>
      match t, p with
      | VBomb _, _ => Err ERun
      | _, VBomb _ => Err ERun
      | _, VObj pf =>
          let tf := obj_fields t in
          bind ((fix loop (keys : list str) : res fields :=
                   match keys with
                   | [] => Ok []
                   | k :: ks =>
                       match vlookup k pf with
                       | None => bind (loop ks) (fun r => Ok ((k, (false, value_of k tf)) :: r))
                       | Some (VBomb _) => Err ERun
                       | Some VNull => loop ks
                       | Some pv =>
                           bind (match vlookup k tf with Some tv => force tv | None => Ok VNull end)
                                (fun tv => bind (mp_impl n' tv pv)
                                                (fun v => bind (loop ks) (fun r => Ok ((k, (false, v)) :: r))))
                       end
                   end) (union_sorted (fields_ex false tf) (fields_ex false pf)))
               (fun out => Ok (VObj out))
      | _, _ => Ok p
      end
  end.

(** SPEC 1: the std.jsonnet definition (visible fields only; result fields are suspended):
      if std.isObject(patch) then
        local target_object = if std.isObject(target) then target else {};
        local null_fields = [k for k in std.objectFields(patch) if patch[k] == null];
        local both_fields = std.setUnion(std.objectFields(target_object), std.objectFields(patch));
        { [k]: if !std.objectHas(patch, k) then target_object[k]
               else if !std.objectHas(target_object, k) then std.mergePatch(null, patch[k]) tailstrict
               else std.mergePatch(target_object[k], patch[k]) tailstrict
          for k in std.setDiff(both_fields, null_fields) }
      else patch *)
Fixpoint mp_def (n : nat) (t p : val) : res val :=
  match n with
  | O => Fuel
  | S n' =>
      match p with
      | VBomb _ => Err ERun
      | VObj pf =>
          match t with
          | VBomb _ => Err ERun
          | _ =>
              let tf := obj_fields t in
              let pvis := fields_ex false pf in
              let tvis := fields_ex false tf in
              if existsb (fun k => is_bomb (value_of k pf)) pvis then Err ERun
              else
                let keys := filter (fun k => negb (has_ex pf k false &&
                                                   match value_of k pf with VNull => true | _ => false end))
                                   (union_sorted tvis pvis) in
                bind (mapM (fun k =>
                              bind (suspend
                                      (if negb (has_ex pf k false) then force (value_of k tf)
                                       else if negb (has_ex tf k false) then mp_def n' VNull (value_of k pf)
                                       else bind (force (value_of k tf))
                                                 (fun tv => mp_def n' tv (value_of k pf))))
                                   (fun v => Ok (k, (false, v)))) keys)
                     (fun out => Ok (VObj out))
          end
      | _ => Ok p
      end
  end.

(** SPEC 2: RFC 7396 on JSON values, literally:
      if Patch is an Object: if Target is not an Object: Target = {}
         for each Name/Value in Patch: if Value is null: remove Name from Target
                                       else Target[Name] = MergePatch(Target[Name], Value)
         return Target
      else return Patch
    Objects are kept with ascending names ([set_field] inserts in place). *)
Fixpoint set_field (k : str) (v : val) (fs : fields) : fields :=
  match fs with
  | [] => [(k, (false, v))]
  | (k', hv) :: r =>
      match str_cmp k k' with
      | Lt => (k, (false, v)) :: fs
      | Eq => (k, (false, v)) :: r
      | Gt => (k', hv) :: set_field k v r
      end
  end.
Fixpoint rfc7396 (t p : val) : val :=
  match p with
  | VObj pf =>
      VObj ((fix go (pf : fields) (acc : fields) : fields :=
               match pf with
               | [] => acc
               | (k, (_, pv)) :: r =>
                   go r (match pv with
                         | VNull => remove_key k acc
                         | _ => set_field k (rfc7396 (value_of k acc) pv) acc
                         end)
               end) pf (obj_fields t))
  | _ => p
  end.

Fixpoint depth (v : val) : nat :=
  match v with
  | VArr l => S (fold_right (fun x a => Nat.max (depth x) a) O l)
  | VObj fs => S ((fix go (fs : fields) : nat :=
                     match fs with [] => O | (_, (_, x)) :: r => Nat.max (depth x) (go r) end) fs)
  | _ => 1%nat
  end.

(** * std.prune (definition and implementation are the same eager recursion over the visible
      fields; the model walks the fields in list order, which changes nothing observable because
      every failure is the same error class) *)
Definition visible_count (fs : fields) : nat := length (names_of false fs).
Definition is_content (v : val) : bool :=
  match v with
  | VNull => false
  | VArr [] => false
  | VObj fs => negb (Nat.eqb (visible_count fs) 0)
  | _ => true
  end.
Fixpoint prune (v : val) : res val :=
  match v with
  | VBomb _ => Err ERun
  | VArr l =>
      bind ((fix go (l : list val) : res (list val) :=
               match l with
               | [] => Ok []
               | x :: r => bind (prune x) (fun x' => bind (go r) (fun r' =>
                             Ok (if is_content x' then x' :: r' else r')))
               end) l) (fun l' => Ok (VArr l'))
  | VObj fs =>
      bind ((fix go (fs : fields) : res fields :=
               match fs with
               | [] => Ok []
               | (k, (h, x)) :: r =>
                   if h then go r
                   else bind (prune x) (fun x' => bind (go r) (fun r' =>
                          Ok (if is_content x' then (k, (false, x')) :: r' else r')))
               end) fs) (fun fs' => Ok (VObj fs'))
  | _ => Ok v
  end.

(** * std.length, std.type, std.is* *)
Definition length_spec (v : val) : res val :=
  match v with
  | VStr s => Ok (VNum (Z.of_nat (length s)))
  | VArr l => Ok (VNum (Z.of_nat (length l)))
  | VObj fs => Ok (VNum (Z.of_nat (visible_count fs)))
  | VFun n => Ok (VNum (Z.of_N n))
  | VBomb _ => Err ERun
  | _ => Err EType
  end.

Inductive ty := TNull | TBool | TNum | TStr | TArr | TObj | TFun.
Definition ty_eqb (a b : ty) : bool :=
  match a, b with
  | TNull, TNull | TBool, TBool | TNum, TNum | TStr, TStr | TArr, TArr | TObj, TObj | TFun, TFun => true
  | _, _ => false
  end.
Definition all_ty : list ty := [TNull; TBool; TNum; TStr; TArr; TObj; TFun].
Definition type_of (v : val) : option ty :=
  match v with
  | VNull => Some TNull | VBool _ => Some TBool | VNum _ => Some TNum | VStr _ => Some TStr
  | VArr _ => Some TArr | VObj _ => Some TObj | VFun _ => Some TFun | VBomb _ => None
  end.
Definition ty_name (t : ty) : str :=
  lit (match t with
       | TNull => "null" | TBool => "boolean" | TNum => "number" | TStr => "string"
       | TArr => "array" | TObj => "object" | TFun => "function"
       end).
Definition type_spec (v : val) : res val :=
  match type_of v with Some t => Ok (VStr (ty_name t)) | None => Err ERun end.
(** std.isString etc. *)
Definition is_spec (t : ty) (v : val) : res val :=
  match type_of v with Some t' => Ok (VBool (ty_eqb t t')) | None => Err ERun end.

(** * std.equals / std.primitiveEquals / std.assertEqual / std.xor / std.xnor *)
Definition prim_eq (a b : val) : res bool :=
  match a, b with
  | VBomb _, _ | _, VBomb _ => Err ERun
  | VNull, VNull => Ok true
  | VBool x, VBool y => Ok (Bool.eqb x y)
  | VNum x, VNum y => Ok (Z.eqb x y)
  | VStr x, VStr y => Ok (str_eqb x y)
  | VArr _, VArr _ => Err ERun        (* "primitiveEquals operates on primitive types" *)
  | VObj _, VObj _ => Err ERun
  | VFun _, VFun _ => Err ERun        (* "cannot test equality of functions" *)
  | _, _ => Ok false
  end.

Fixpoint list_str_eqb (a b : list str) : bool :=
  match a, b with
  | [], [] => true
  | x :: a', y :: b' => str_eqb x y && list_str_eqb a' b'
  | _, _ => false
  end.

(** std.equals on values whose objects list their fields in ascending order (see [norm]):
    type first; arrays by length, then element-wise left to right with short cut; objects by
    the visible name lists, then the visible values in ascending name order with short cut *)
Fixpoint equals_core (a b : val) {struct a} : res bool :=
  match a, b with
  | VBomb _, _ | _, VBomb _ => Err ERun
  | VArr la, VArr lb =>
      if negb (Nat.eqb (length la) (length lb)) then Ok false
      else (fix go (la lb : list val) : res bool :=
              match la, lb with
              | x :: r, y :: s => bind (equals_core x y) (fun e => if e then go r s else Ok false)
              | _, _ => Ok true
              end) la lb
  | VObj fa, VObj fb =>
      if negb (list_str_eqb (names_of false fa) (names_of false fb)) then Ok false
      else (fix go (fa : fields) (vb : list val) : res bool :=
              match fa with
              | [] => Ok true
              | (_, (h, x)) :: r =>
                  if h then go r vb
                  else match vb with
                       | y :: vb' => bind (equals_core x y) (fun e => if e then go r vb' else Ok false)
                       | [] => Ok true
                       end
              end) fa (map (fun f => snd (snd f)) (filter (fun f => negb (fst (snd f))) fb))
  | _, _ => prim_eq a b
  end.

(** objects re-listed in ascending name order, recursively *)
Fixpoint insert_field (f : str * (bool * val)) (l : fields) : fields :=
  match l with
  | [] => [f]
  | g :: r => if str_ltb (fst g) (fst f) then g :: insert_field f r else f :: l
  end.
Fixpoint norm (v : val) : val :=
  match v with
  | VArr l => VArr (map norm l)
  | VObj fs => VObj ((fix go (fs : fields) : fields :=
                        match fs with
                        | [] => []
                        | (k, (h, x)) :: r => insert_field (k, (h, norm x)) (go r)
                        end) fs)
  | _ => v
  end.

(** SPEC of std.equals (std.jsonnet definition) *)
Definition equals_spec (a b : val) : res bool := equals_core (norm a) (norm b).
(** val.rs equals: `ptr_eq` short cut when both sides are the same array / object *)
Definition equals_impl (same : bool) (a b : val) : res bool :=
  if same && match a with VArr _ | VObj _ => true | _ => false end then Ok true
  else equals_spec a b.

Definition assert_equal_of (r : res bool) : res val :=
  bind r (fun e => if e then Ok (VBool true) else Err ERun).

Definition bool_arg (v : val) : res bool :=
  match v with VBool b => Ok b | VBomb _ => Err ERun | _ => Err EType end.
Definition xor_spec (a b : val) : res val :=
  bind (bool_arg a) (fun x => bind (bool_arg b) (fun y => Ok (VBool (xorb x y)))).
Definition xnor_spec (a b : val) : res val :=
  bind (bool_arg a) (fun x => bind (bool_arg b) (fun y => Ok (VBool (Bool.eqb x y)))).

(** * One entry point per std function (what the correspondence evaluates) *)
Inductive call :=
| CFields (o : val) | CFieldsAll (o : val) | CFieldsEx (o : val) (h : bool)
| CValues (o : val) | CValuesAll (o : val) | CKeysValues (o : val) | CKeysValuesAll (o : val)
| CHas (o : val) (k : str) | CHasAll (o : val) (k : str) | CHasEx (o : val) (k : str) (h : bool)
| CGet (o : val) (k : str) (d : option val) (h : option bool)
| CMapWithKey (f : mapfn) (o : val)
| CMergePatch (t p : val)
| CPrune (v : val)
| CRemoveKey (o : val) (k : str) (selfdeps : list str)
| CLength (v : val) | CType (v : val) | CIs (t : ty) (v : val)
| CEquals (same : bool) (a b : val) | CPrimEq (a b : val) | CAssertEqual (same : bool) (a b : val)
| CXor (a b : val) | CXnor (a b : val).

(** an `ObjValue` parameter: forced, must be an object *)
Definition with_obj {A} (o : val) (f : fields -> res A) : res A :=
  match o with VObj fs => f fs | VBomb _ => Err ERun | _ => Err EType end.

Definition names_val (l : list str) : val := VArr (map VStr l).
Definition fuel_for (p : val) : nat := S (depth p).
Definition opt_h (h : option bool) : bool := match h with Some b => b | None => true end.

Definition run (impl : bool) (c : call) : res val :=
  match c with
  | CFields o => with_obj o (fun fs => Ok (names_val (fields_ex false fs)))
  | CFieldsAll o => with_obj o (fun fs => Ok (names_val (fields_ex true fs)))
  | CFieldsEx o h => with_obj o (fun fs => Ok (names_val (fields_ex h fs)))
  | CValues o => with_obj o (fun fs => Ok (values_spec false fs))
  | CValuesAll o => with_obj o (fun fs => Ok (values_spec true fs))
  | CKeysValues o =>
      with_obj o (fun fs => Ok (keys_values_spec false fs))
  | CKeysValuesAll o =>
      with_obj o (fun fs => Ok (keys_values_spec true fs))
  | CHas o k => with_obj o (fun fs => Ok (VBool (has_ex fs k false)))
  | CHasAll o k => with_obj o (fun fs => Ok (VBool (has_ex fs k true)))
  | CHasEx o k h => with_obj o (fun fs => Ok (VBool (has_ex fs k h)))
  | CGet o k d h => with_obj o (fun fs => (if impl then get_impl else get_spec) fs k d (opt_h h))
  | CMapWithKey f o => with_obj o (fun fs => (if impl then map_with_key_impl else map_with_key_spec) f fs)
  | CMergePatch t p => (if impl then mp_impl else mp_def) (fuel_for p) t p
  | CPrune v => prune v
  | CRemoveKey o k sd =>
      with_obj o (fun fs => Ok ((if impl then remove_key_impl else remove_key_spec) fs k sd))
  | CLength v => length_spec v
  | CType v => type_spec v
  | CIs t v => is_spec t v
  | CEquals same a b => bind (if impl then equals_impl same a b else equals_spec a b) (fun e => Ok (VBool e))
  | CPrimEq a b => bind (prim_eq a b) (fun e => Ok (VBool e))
  | CAssertEqual same a b => assert_equal_of (if impl then equals_impl same a b else equals_spec a b)
  | CXor a b => xor_spec a b
  | CXnor a b => xnor_spec a b
  end.

(** what the correspondence evaluates: (SPEC result, IMPL-MODEL result) *)
Definition run_case (c : call) : res val * res val := (run false c, run true c).

(** * Predicates used by the theorem statements *)
(** no bomb anywhere *)
Fixpoint bomb_free (v : val) : bool :=
  match v with
  | VBomb _ => false
  | VArr l => forallb bomb_free l
  | VObj fs => (fix go (fs : fields) : bool :=
                  match fs with [] => true | (_, (_, x)) :: r => bomb_free x && go r end) fs
  | _ => true
  end.
(** strictly ascending names *)
Fixpoint sorted_names (l : list str) : bool :=
  match l with
  | [] => true
  | x :: r => match r with [] => true | y :: _ => str_ltb x y end && sorted_names r
  end.
(** a JSON value in canonical form: no bomb, no function, no hidden field, names strictly ascending *)
Fixpoint json (v : val) : bool :=
  match v with
  | VBomb _ | VFun _ => false
  | VArr l => forallb json l
  | VObj fs => sorted_names (map fst fs) &&
               (fix go (fs : fields) : bool :=
                  match fs with [] => true | (_, (h, x)) :: r => negb h && json x && go r end) fs
  | _ => true
  end.

(** what std.prune leaves: inside a container no null, no empty array, no object without visible
    fields, no hidden field, recursively; no bomb *)
Fixpoint clean (v : val) : bool :=
  match v with
  | VBomb _ => false
  | VArr l => forallb (fun x => is_content x && clean x) l
  | VObj fs => (fix go (fs : fields) : bool :=
                  match fs with
                  | [] => true
                  | (_, (h, x)) :: r => negb h && (is_content x && clean x) && go r
                  end) fs
  | _ => true
  end.
