(** Statements of the C13 property theorems, pinned: weakening one breaks this file. *)
From Coq Require Import Ascii String.
From Coq Require Import List ZArith NArith Bool Sorted.
From JrV Require Import C13.Model C13.Properties.
Import ListNotations.

Check C13_listing_sorted_exact :
  forall h fs, wf_fields fs ->
    listing_spec h fs (fields_ex h fs) /\ forall l, listing_spec h fs l -> l = fields_ex h fs.
Check C13_has_iff_listed :
  forall h fs k, wf_fields fs -> (has_ex fs k h = true <-> In k (fields_ex h fs)).
Check C13_has_field_is_language_rule :
  forall k decls h,
    has_field_impl k decls h = match vis_spec k decls with Some hid => h || negb hid | None => false end.
Check C13_visibility_routes_agree :
  forall decls h,
    StronglySorted str_lt (fields_impl decls h) /\
    forall k, In k (fields_impl decls h) <-> has_field_impl k decls h = true.
Check C13_values_align :
  forall h fs, exists l,
    values_spec h fs = VArr l /\ length l = length (fields_ex h fs) /\
    forall i k, nth_error (fields_ex h fs) i = Some k -> nth_error l i = Some (value_of k fs).
Check C13_keys_values_align :
  forall h fs, exists l,
    keys_values_spec h fs = VArr l /\ length l = length (fields_ex h fs) /\
    forall i k, nth_error (fields_ex h fs) i = Some k -> nth_error l i = Some (kv_obj k (value_of k fs)).
Check C13_get_spec :
  forall fs k d h,
    get_impl fs k d h = get_spec fs k d h /\
    (has_ex fs k h = true -> get_spec fs k d h = force (value_of k fs)) /\
    (has_ex fs k h = false -> get_spec fs k d h = default_of d).
Check C13_mergepatch_rfc7396 :
  forall n t p, json t = true -> json p = true -> (depth p < n)%nat -> mp_impl n t p = Ok (rfc7396 t p).
Check C13_mergepatch_lazy :
  forall n t pf out k,
    wf_fields (obj_fields t) -> wf_fields pf ->
    mp_impl (S n) t (VObj pf) = Ok (VObj out) ->
    has_ex (obj_fields t) k false = true -> vlookup k pf = None ->
    lookup k out = Some (false, value_of k (obj_fields t)).
Check C13_mergepatch_eager_refuted :
  exists t p, mp_def (fuel_for p) t p = Ok (VObj [(lit "a", (false, VBomb 0)); (lit "b", (false, VNum 2))]) /\
              mp_impl (fuel_for p) t p = Err ERun.
Check C13_prune_spec :
  forall v,
    (forall v', prune v = Ok v' -> clean v' = true /\ prune v' = Ok v') /\
    (clean v = true -> prune v = Ok v) /\
    (bomb_free v = true -> exists v', prune v = Ok v').
Check C13_equals_equiv :
  forall a b c, json a = true -> json b = true -> json c = true ->
    (exists r, equals_spec a b = Ok r /\ (r = true <-> a = b)) /\
    equals_spec a a = Ok true /\
    equals_spec a b = equals_spec b a /\
    (equals_spec a b = Ok true -> equals_spec b c = Ok true -> equals_spec a c = Ok true).
Check C13_equals_shortcut_refuted :
  exists a, equals_spec a a = Err ERun /\ equals_impl true a a = Ok true.
Check C13_type_partition :
  forall v, is_bomb v = false ->
    exists t, type_spec v = Ok (VStr (ty_name t)) /\
              (forall t', is_spec t' v = Ok (VBool (ty_eqb t' t))) /\
              (forall t', ty_eqb t' t = true <-> t' = t) /\
              (forall t', ty_name t' = ty_name t -> t' = t).
Check C13_mapwithkey_lazy_refuted :
  exists f fs, wf_fields fs /\ map_with_key_spec f fs <> map_with_key_impl f fs.
Check C13_removekey_self_refuted :
  exists fs k sd, wf_fields fs /\ remove_key_spec fs k sd <> remove_key_impl fs k sd.

(** the definitions the statements rest on, pinned by evaluation *)
Check eq_refl : fields_ex false [(lit "b", (false, VNull)); (lit "a", (true, VNull)); (lit "", (false, VNull)); (lit "B", (false, VNull))]
                = [lit ""; lit "B"; lit "b"].
Check eq_refl : str_cmp [65535%N] [65536%N] = Lt.
Check eq_refl : vis_spec (lit "a") [(lit "a", VisNormal); (lit "a", VisHidden); (lit "a", VisUnhide)] = Some true.
Check eq_refl : vis_spec (lit "a") [(lit "a", VisNormal); (lit "b", VisHidden)] = Some false.
Check eq_refl : rfc7396 (VObj [(lit "a", (false, VStr (lit "b"))); (lit "c", (false, VNum 1))])
                        (VObj [(lit "a", (false, VNull)); (lit "d", (false, VObj [(lit "e", (false, VNull))]))])
                = VObj [(lit "c", (false, VNum 1)); (lit "d", (false, VObj []))].
Check eq_refl : rfc7396 (VNum 1) (VArr [VNull]) = VArr [VNull].
Check eq_refl : mp_def 3 (VObj [(lit "a", (false, VNum 1))]) (VObj [(lit "a", (true, VNull))])
                = Ok (VObj [(lit "a", (false, VNum 1))]).
Check eq_refl : mp_impl 3 (VObj [(lit "a", (false, VNum 1))]) (VObj [(lit "a", (true, VNull))])
                = Ok (VObj [(lit "a", (false, VNum 1))]).
Check eq_refl : json (VObj [(lit "b", (false, VNull)); (lit "a", (false, VNull))]) = false.
Check eq_refl : json (VObj [(lit "a", (true, VNull))]) = false.
Check eq_refl : clean (VArr [VObj [(lit "a", (true, VNum 1))]]) = false.
Check eq_refl : is_content (VObj [(lit "a", (true, VNum 1))]) = false.
Check eq_refl : get_spec [(lit "a", (true, VNum 1))] (lit "a") (Some (VBomb 1)) false = Err ERun.
Check eq_refl : get_spec [(lit "a", (true, VNum 1))] (lit "a") (Some (VBomb 1)) true = Ok (VNum 1).
Check eq_refl : ty_name TBool = lit "boolean".
