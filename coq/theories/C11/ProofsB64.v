(** C11 — base64 (RFC 4648) lemmas. *)
From Coq Require Import List NArith ZArith Bool Lia.
From JrV Require Import Common.Utf8 C11.Model.
Import ListNotations.
Local Open Scope N_scope.
Ltac Zify.zify_post_hook ::= Z.to_euclidean_division_equations.
Local Arguments N.add : simpl never.
Local Arguments N.mul : simpl never.
Local Arguments N.sub : simpl never.
Local Arguments N.div : simpl never.
Local Arguments N.modulo : simpl never.
Local Arguments N.leb : simpl never.
Local Arguments N.ltb : simpl never.
Local Arguments N.eqb : simpl never.

Definition bytes_ok (bs : list N) : bool := forallb (fun b => b <? 256) bs.

Lemma list_ind3 (P : list N -> Prop) :
  P [] -> (forall a, P [a]) -> (forall a b, P [a; b]) ->
  (forall a b c r, P r -> P (a :: b :: c :: r)) -> forall l, P l.
Proof.
  intros H0 H1 H2 H3. fix IH 1.
  intros [|a [|b [|c r]]];
    [exact H0 | exact (H1 a) | exact (H2 a b) | exact (H3 a b c r (IH r))].
Qed.

Lemma b64_val_char v : v < 64 -> b64_val (b64_char v) = Some v.
Proof.
  intros Hv. unfold b64_char. brk; unfold b64_val; brk; f_equal; lia.
Qed.

Lemma b64_char_not_pad v : v < 64 -> b64_char v <> pad.
Proof. intros Hv. unfold b64_char, pad. brk; lia. Qed.

Lemma quad_enc a b c : a < 256 -> b < 256 -> c < 256 ->
  quad (b64_char (a / 4)) (b64_char ((a mod 4) * 16 + b / 16))
       (b64_char ((b mod 16) * 4 + c / 64)) (b64_char (c mod 64)) = Some [a; b; c].
Proof.
  intros. unfold quad. rewrite !b64_val_char by lia. f_equal. repeat (f_equal; try lia).
Qed.

Lemma b64_encode_nil_inv bs : b64_encode bs = [] -> bs = [].
Proof. destruct bs as [|a [|b [|c r]]]; cbn [b64_encode]; intros H; [reflexivity|discriminate..]. Qed.

Lemma b64_decode_cons4 c1 c2 c3 c4 r : r <> [] ->
  b64_decode (c1 :: c2 :: c3 :: c4 :: r) =
  match quad c1 c2 c3 c4, b64_decode r with
  | Some q, Some t => Some (q ++ t)
  | _, _ => None
  end.
Proof. destruct r; [congruence|reflexivity]. Qed.

Lemma b64_roundtrip : forall bs, bytes_ok bs = true -> b64_decode (b64_encode bs) = Some bs.
Proof.
  unfold bytes_ok. induction bs as [|a|a b|a b c r IH] using list_ind3; cbn [forallb]; intros H.
  - reflexivity.
  - rewrite andb_true_r in H. apply N.ltb_lt in H.
    cbn [b64_encode b64_decode]. unfold last_quad. rewrite !N.eqb_refl.
    rewrite !b64_val_char by lia.
    replace ((a mod 4 * 16) mod 16 =? 0) with true by (symmetry; apply N.eqb_eq; lia).
    repeat (f_equal; try lia).
  - rewrite andb_true_r in H. apply andb_true_iff in H as [Ha Hb].
    apply N.ltb_lt in Ha, Hb.
    cbn [b64_encode b64_decode]. unfold last_quad. rewrite N.eqb_refl.
    destruct (N.eqb_spec (b64_char (b mod 16 * 4)) pad) as [E|_];
      [exfalso; revert E; apply b64_char_not_pad; lia|].
    rewrite !b64_val_char by lia.
    replace ((b mod 16 * 4) mod 4 =? 0) with true by (symmetry; apply N.eqb_eq; lia).
    repeat (f_equal; try lia).
  - apply andb_true_iff in H as [Ha H]. apply andb_true_iff in H as [Hb H].
    apply andb_true_iff in H as [Hc Hr]. apply N.ltb_lt in Ha, Hb, Hc.
    cbn [b64_encode]. destruct r as [|x r'].
    + cbn [b64_encode b64_decode]. unfold last_quad.
      destruct (N.eqb_spec (b64_char (c mod 64)) pad) as [E|_];
        [exfalso; revert E; apply b64_char_not_pad; lia|].
      now apply quad_enc.
    + rewrite b64_decode_cons4.
      * rewrite quad_enc by assumption. rewrite IH by assumption. reflexivity.
      * intros E. apply b64_encode_nil_inv in E. discriminate.
Qed.

Lemma b64_length : forall bs, length (b64_encode bs) = (4 * ((length bs + 2) / 3))%nat.
Proof.
  induction bs as [|a|a b|a b c r IH] using list_ind3; try reflexivity.
  cbn [b64_encode length]. rewrite IH.
  replace (S (S (S (length r))) + 2)%nat with (length r + 2 + 1 * 3)%nat by lia.
  rewrite Nat.div_add by lia. lia.
Qed.

Lemma is_b64_char_char v : v < 64 -> is_b64_char (b64_char v) = true.
Proof. intros. unfold is_b64_char. now rewrite b64_val_char. Qed.

Lemma b64_alphabet : forall bs, bytes_ok bs = true -> forallb is_b64_char (b64_encode bs) = true.
Proof.
  unfold bytes_ok. induction bs as [|a|a b|a b c r IH] using list_ind3; cbn [forallb]; intros H.
  - reflexivity.
  - rewrite andb_true_r in H. apply N.ltb_lt in H. cbn [b64_encode forallb].
    rewrite !is_b64_char_char by lia. reflexivity.
  - rewrite andb_true_r in H. apply andb_true_iff in H as [Ha Hb]. apply N.ltb_lt in Ha, Hb.
    cbn [b64_encode forallb]. rewrite !is_b64_char_char by lia. reflexivity.
  - apply andb_true_iff in H as [Ha H]. apply andb_true_iff in H as [Hb H].
    apply andb_true_iff in H as [Hc Hr]. apply N.ltb_lt in Ha, Hb, Hc.
    cbn [b64_encode forallb]. rewrite !is_b64_char_char by lia. rewrite IH by assumption. reflexivity.
Qed.

(** std.base64Decode(std.base64(s)) = s at the level of the calls *)
Lemma encode_bytes_ok s : forallb scalar s = true -> bytes_ok (encode s) = true.
Proof.
  unfold bytes_ok. induction s as [|c s IH]; [reflexivity|]. cbn [forallb]. intros H.
  apply andb_true_iff in H as [Hc Hs]. cbn [encode flat_map]. rewrite forallb_app.
  fold (encode s). rewrite IH by assumption. rewrite andb_true_r.
  apply scalar_spec in Hc. unfold enc1.
  destruct (N.ltb_spec c 128); [|destruct (N.ltb_spec c 2048); [|destruct (N.ltb_spec c 65536)]];
    cbn [forallb]; rewrite ?andb_true_r, ?andb_true_iff; repeat split; apply N.ltb_lt; lia.
Qed.

Lemma b64_call_roundtrip s : forallb scalar s = true ->
  spec_call (CB64Dec (b64_encode (encode s))) = RStr s.
Proof.
  intros H. cbn [spec_call]. rewrite b64_roundtrip by now apply encode_bytes_ok.
  now rewrite decode_encode.
Qed.
