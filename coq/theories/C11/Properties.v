(** C11 — property theorems only.  Each is closed by [exact] of a lemma from Proofs*.v /
    Common/Utf8.v and followed by [Print Assumptions]; statements are pinned again in Pins.v.
    Hash functions: NO theorem (no Coq model of MD5/SHA-1/SHA-2/SHA-3); exploration level. *)
From Coq Require Import List NArith ZArith Bool.
From JrV Require Import Common.Utf8 C11.Model C11.ProofsFind C11.ProofsStr C11.ProofsNum C11.ProofsB64 C11.ProofsSplit.
Import ListNotations.

(** decoding the UTF-8 encoding of any list of Unicode scalar values gives it back *)
Theorem C11_utf8_roundtrip :
  forall s, forallb scalar s = true -> decode (encode s) = Some s.
Proof. exact decode_encode. Qed.
Print Assumptions C11_utf8_roundtrip.

(** whatever byte list the strict decoder accepts IS the encoding of the scalar values it returns
    (so encodeUTF8 (decodeUTF8 bs) = bs exactly when bs is valid; overlong forms, surrogates, > U+10FFFF rejected) *)
Theorem C11_utf8_decode_sound :
  forall bs s, decode bs = Some s -> encode s = bs /\ forallb scalar s = true.
Proof. exact decode_sound. Qed.
Print Assumptions C11_utf8_decode_sound.

(** the lossy decoder (default of std.decodeUTF8) agrees with the strict one on valid input *)
Theorem C11_utf8_lossy_agrees :
  forall bs s, decode bs = Some s -> decode_lossy bs = s.
Proof. exact lossy_of_valid. Qed.
Print Assumptions C11_utf8_lossy_agrees.

(** a byte-level prefix match at a character boundary is a code-point prefix match *)
Theorem C11_utf8_prefix :
  forall p s x, forallb scalar p = true -> forallb scalar s = true ->
    encode p ++ x = encode s -> firstn (length p) s = p /\ encode (skipn (length p) s) = x.
Proof. exact encode_prefix. Qed.
Print Assumptions C11_utf8_prefix.

Theorem C11_utf8_injective :
  forall a b, forallb scalar a = true -> forallb scalar b = true -> encode a = encode b -> a = b.
Proof. exact encode_inj. Qed.
Print Assumptions C11_utf8_injective.

(** self-synchronisation, byte classes (the full statement is C11_utf8_selfsync): the first byte of every encoded character is not a
    continuation byte and all others are. *)
Theorem C11_utf8_byte_classes :
  forall c, (c <= 1114111)%N ->
    exists h t, enc1 c = h :: t /\ is_cont h = false /\ forallb is_cont t = true.
Proof. exact enc1_shape. Qed.
Print Assumptions C11_utf8_byte_classes.

(** findSubstr's walk over char_indices() with a byte-length bound and byte-slice comparison returns
    exactly the code-point indices of the documented definition, for ALL strings *)
Theorem C11_findSubstr_refines :
  forall pat s, forallb scalar pat = true -> forallb scalar s = true ->
    find_impl pat s = find_spec pat s.
Proof. exact find_refines. Qed.
Print Assumptions C11_findSubstr_refines.

Theorem C11_findSubstr_sound :
  forall pat s i, In i (find_spec pat s) ->
    firstn (length pat) (skipn i s) = pat /\ i + length pat <= length s.
Proof. exact find_spec_sound. Qed.
Print Assumptions C11_findSubstr_sound.

Theorem C11_findSubstr_complete :
  forall pat s i, pat <> [] ->
    firstn (length pat) (skipn i s) = pat -> i + length pat <= length s -> In i (find_spec pat s).
Proof. exact find_spec_complete. Qed.
Print Assumptions C11_findSubstr_complete.

(** str::starts_with on the bytes = the substr-based definition on code points *)
Theorem C11_startsWith_refines :
  forall a b, forallb scalar a = true -> forallb scalar b = true ->
    starts_impl a b = starts_spec a b.
Proof. exact starts_refines. Qed.
Print Assumptions C11_startsWith_refines.

(** chars().skip(from).take(len) = makeArray(max(0, min(len, |s| - from)), i => s[i + from]) *)
Theorem C11_substr_spec :
  forall s from len, substr_impl s from len = substr_spec s from len.
Proof. exact substr_refines. Qed.
Print Assumptions C11_substr_spec.

(** laws of the split definition for every limit: joining the pieces with the separator gives the
    string back, at most n+1 pieces.  The byte-level refinement is C11_split_refines. *)
Theorem C11_split_spec :
  forall s sep lim, sep <> [] ->
    exists ps, split_spec s sep lim = Some ps /\ join sep ps = s /\ ps <> [] /\
               (forall n, lim = Some n -> length ps <= S n).
Proof. exact split_laws. Qed.
Print Assumptions C11_split_spec.

Theorem C11_strReplace_identity :
  forall s from, from <> [] -> replace_spec s from from = Some s.
Proof. exact replace_id. Qed.
Print Assumptions C11_strReplace_identity.

(** a digit string whose value is below 2^53 is parsed to exactly that
    integer by the classifier + one-rounding-per-step accumulation *)
Theorem C11_parse_nat_exact :
  forall base s v, (base = 8 \/ base = 10 \/ base = 16)%N ->
    nat_spec base s = Some v -> (v < 2 ^ 53)%N ->
    nat_impl base s = PFin v.
Proof. exact nat_impl_exact. Qed.
Print Assumptions C11_parse_nat_exact.

(** ... and every string with a non-digit (or empty) is rejected *)
Theorem C11_parse_nat_rejects :
  forall base s, (base = 8 \/ base = 10 \/ base = 16)%N ->
    nat_spec base s = None -> nat_impl base s = PBad.
Proof. exact nat_impl_bad. Qed.
Print Assumptions C11_parse_nat_rejects.

(** the SPEC classifier accepts exactly [0-7] / [0-9] / [0-9a-fA-F] *)
Theorem C11_digit_alphabet :
  forall base c, (base = 8 \/ base = 10 \/ base = 16)%N ->
    (exists d, digit_spec base c = Some d) <->
    ((48 <= c /\ c < 48 + N.min base 10) \/ (base = 16 /\ ((97 <= c <= 102) \/ (65 <= c <= 70))))%N.
Proof. exact digit_spec_alphabet. Qed.
Print Assumptions C11_digit_alphabet.

Theorem C11_codepoint_char_inverse :
  forall c, scalar c = true ->
    char_spec (Z.of_N c) = Some [c] /\ codepoint_spec [c] = Some c.
Proof. exact char_codepoint. Qed.
Print Assumptions C11_codepoint_char_inverse.

Theorem C11_char_defined_iff_scalar :
  forall n s, char_spec n = Some s ->
    (0 <= n)%Z /\ scalar (Z.to_N n) = true /\ codepoint_spec s = Some (Z.to_N n).
Proof. exact char_spec_inv. Qed.
Print Assumptions C11_char_defined_iff_scalar.

Theorem C11_encode_decode_inverse :
  forall s, forallb scalar s = true ->
    spec_call (CDecode (encode s) true) = RStr s /\ spec_call (CDecode (encode s) false) = RStr s.
Proof. exact encode_decode_call. Qed.
Print Assumptions C11_encode_decode_inverse.

Theorem C11_decode_encode_inverse :
  forall bs s, spec_call (CDecode bs false) = RStr s ->
    spec_call (CEncode s) = RBytes bs /\ spec_call (CDecode bs true) = RStr s.
Proof. exact decode_encode_call. Qed.
Print Assumptions C11_decode_encode_inverse.

(** RFC 4648: the canonical decoder inverts the encoder on EVERY byte list *)
Theorem C11_base64_roundtrip :
  forall bs, bytes_ok bs = true -> b64_decode (b64_encode bs) = Some bs.
Proof. exact b64_roundtrip. Qed.
Print Assumptions C11_base64_roundtrip.

Theorem C11_base64_length :
  forall bs, length (b64_encode bs) = 4 * ((length bs + 2) / 3).
Proof. exact b64_length. Qed.
Print Assumptions C11_base64_length.

Theorem C11_base64_alphabet :
  forall bs, bytes_ok bs = true -> forallb is_b64_char (b64_encode bs) = true.
Proof. exact b64_alphabet. Qed.
Print Assumptions C11_base64_alphabet.

(** std.base64Decode(std.base64(s)) = s for every string *)
Theorem C11_base64_string_roundtrip :
  forall s, forallb scalar s = true ->
    spec_call (CB64Dec (b64_encode (encode s))) = RStr s.
Proof. exact b64_call_roundtrip. Qed.
Print Assumptions C11_base64_string_roundtrip.

(** FULL self-synchronisation: wherever the encoding of a non-empty string occurs inside the encoding
    of another, it starts at a character boundary and is an occurrence of the code points *)
Theorem C11_utf8_selfsync :
  forall s p x y,
    forallb scalar s = true -> forallb scalar p = true -> p <> [] ->
    encode s = x ++ encode p ++ y ->
    exists a b, s = a ++ p ++ b /\ x = encode a /\ y = encode b.
Proof. exact selfsync. Qed.
Print Assumptions C11_utf8_selfsync.

(** the leftmost non-overlapping search on the UTF-8 BYTES (str::split / splitn(n+1)) yields exactly
    the encodings of the pieces of the code-point definition, for every limit *)
Theorem C11_split_refines :
  forall s sep lim, sep <> [] ->
    forallb scalar s = true -> forallb scalar sep = true ->
    bsplit s sep lim = map encode (gsplit sep lim s).
Proof. exact bsplit_refines. Qed.
Print Assumptions C11_split_refines.

(** str::ends_with on the bytes = the substr-based definition on code points *)
Theorem C11_endsWith_refines :
  forall a b, forallb scalar a = true -> forallb scalar b = true ->
    ends_impl a b = ends_spec a b.
Proof. exact ends_refines. Qed.
Print Assumptions C11_endsWith_refines.

(** trim_end_matches (scan from the end) = the recursive rstripChars definition *)
Theorem C11_rstrip_refines :
  forall chars s, rstrip_impl s chars = rstrip_spec s chars.
Proof. exact rstrip_refines. Qed.
Print Assumptions C11_rstrip_refines.

(** trim_matches (start, then end) = lstripChars(rstripChars(s)) *)
Theorem C11_strip_spec :
  forall chars s, strip_impl s chars = strip_spec s chars.
Proof. exact strip_refines. Qed.
Print Assumptions C11_strip_spec.

