(** Statements of the theorems of PropertiesMore.v, pinned: weakening one breaks this file. *)
From Coq Require Import List NArith ZArith Bool.
From JrV Require Import Common.Utf8 C11.Model C11.ModelMore C11.PropertiesMore.
Import ListNotations.

Check C11_asciiUpper_refines :
  forall s, upper_impl (encode s) = encode (upper_spec s).
Check C11_asciiLower_refines :
  forall s, lower_impl (encode s) = encode (lower_spec s).
Check C11_asciiUpper_pointwise :
  forall s, Forall2 (fun x y => y = x \/ (97 <= x /\ x <= 122 /\ y = x - 32))%N s (upper_spec s).
Check C11_asciiLower_pointwise :
  forall s, Forall2 (fun x y => y = x \/ (65 <= x /\ x <= 90 /\ y = x + 32))%N s (lower_spec s).
Check C11_asciiUpper_laws :
  forall s, length (upper_spec s) = length s /\ upper_spec (upper_spec s) = upper_spec s /\
    lower_spec (upper_spec s) = lower_spec s /\
    (forallb scalar s = true -> forallb scalar (upper_spec s) = true).
Check C11_asciiLower_laws :
  forall s, length (lower_spec s) = length s /\ lower_spec (lower_spec s) = lower_spec s /\
    upper_spec (lower_spec s) = upper_spec s /\
    (forallb scalar s = true -> forallb scalar (lower_spec s) = true).
Check C11_equalsIgnoreCase_refines :
  forall a b, forallb scalar a = true -> forallb scalar b = true ->
    eq_ic_impl (encode a) (encode b) = eq_ic_spec a b.
Check C11_equalsIgnoreCase_laws :
  forall a, eq_ic_spec a a = true /\ eq_ic_spec (upper_spec a) a = true /\
    (forall b, eq_ic_spec a b = eq_ic_spec b a).
Check C11_isEmpty_refines :
  forall s, is_empty_impl (encode s) = is_empty_spec s.
Check C11_length_refines :
  forall s, forallb scalar s = true -> length_impl (encode s) = length s.
Check C11_stringChars_refines :
  forall s, forallb scalar s = true ->
    chars_impl (encode s) = map encode (chars_ref s) /\ concat (chars_ref s) = s.
Check C11_lstripChars_refines :
  forall s cs, lstrip_chars_impl s cs = lstrip_spec s cs.
Check C11_rstripChars_builtin_refines :
  forall s cs, rstrip_chars_impl s cs = rstrip_spec s cs.
Check C11_stripChars_builtin_refines :
  forall s cs, strip_chars_impl s cs = strip_spec s cs.
Check C11_trim_refines :
  forall s, trim_impl s = trim_spec s.
Check C11_strip_shape :
  forall cs s, exists a b, s = a ++ strip_spec s cs ++ b /\
    forallb (fun c => memb c cs) a = true /\ forallb (fun c => memb c cs) b = true /\
    (match strip_spec s cs with c :: _ => memb c cs = false | [] => True end) /\
    (match rev (strip_spec s cs) with c :: _ => memb c cs = false | [] => True end).
Check C11_strReplace_refines :
  forall s from to, forallb scalar s = true -> forallb scalar from = true ->
    str_replace_impl s from to = option_map encode (replace_spec s from to).
Check C11_escapeStringBash_refines :
  forall s, forallb scalar s = true -> esc_bash_impl s = encode (esc_bash_spec s).
Check C11_escapeStringDollars_refines :
  forall s, forallb scalar s = true -> esc_dollars_impl s = encode (esc_dollars_spec s).
Check C11_escapeStringXml_refines :
  forall s, esc_xml_impl (encode s) = Some (encode (esc_xml_spec s)).
Check C11_escapeStringJson_refines :
  forall s, has_del_c1 s = false -> esc_json_impl s = Some (encode (esc_json_spec s)).
Check C11_escapeStringJson_refuted :
  exists s, forallb scalar s = true /\ esc_json_impl s <> Some (encode (esc_json_spec s)).
Check C11_escapeStringDollars_roundtrip :
  forall s, undollar (esc_dollars_spec s) = Some s.
Check C11_escapeStringXml_roundtrip :
  forall s, unxml (esc_xml_spec s) = Some s.
Check C11_escapeStringBash_roundtrip :
  forall s, sh_unquote ShOut (esc_bash_spec s) = Some s.
Check C11_parseInt_exact :
  forall s z, int_spec s = Some z -> (Z.abs z < 2 ^ 53)%Z -> parse_int_impl s = RInt z.
Check C11_parseInt_rejects :
  forall s, int_spec s = None -> parse_int_impl s = RErr.
Check C11_parseOctal_parseHex :
  forall s,
    (forall v, nat_spec 8 s = Some v -> (v < 2 ^ 53)%N -> parse_octal_impl s = RInt (Z.of_N v)) /\
    (nat_spec 8 s = None -> parse_octal_impl s = RErr) /\
    (forall v, nat_spec 16 s = Some v -> (v < 2 ^ 53)%N -> parse_hex_impl s = RInt (Z.of_N v)) /\
    (nat_spec 16 s = None -> parse_hex_impl s = RErr).

(* definitions pinned by evaluation *)
Check (eq_refl : upper_impl (encode [97; 223; 304; 122; 123]%N) = encode [65; 223; 304; 90; 123]%N).
Check (eq_refl : eq_ic_impl (encode [97; 8490]%N) (encode [65; 107]%N) = false).
Check (eq_refl : esc_xml_impl (encode [60; 233; 38]%N) = Some (encode [38; 108; 116; 59; 233; 38; 97; 109; 112; 59]%N)).
Check (eq_refl : esc_bash_impl [97; 39]%N = [39; 97; 39; 34; 39; 34; 39; 39]%N).
Check (eq_refl : esc_json_impl [127]%N = Some [34; 127; 34]%N).
Check (eq_refl : esc_json_spec [127]%N = [34; 92; 117; 48; 48; 55; 102; 34]%N).
Check (eq_refl : parse_int_impl [45; 49; 50]%N = RInt (-12)).
Check (eq_refl : parse_int_impl [45]%N = RErr).
Check (eq_refl : trim_impl [32; 133; 97; 32; 98; 160; 9]%N = [97; 32; 98]%N).
Check (eq_refl : length_impl (encode [97; 233; 128512]%N) = 3).
