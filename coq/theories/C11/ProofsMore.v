(** C11, second part — lemmas about ModelMore.v. *)
From Coq Require Import List NArith ZArith Bool Lia.
From JrV Require Import Common.Utf8 Gen.GenStr C11.Model C11.ModelMore.
From JrV Require Import C11.ProofsFind C11.ProofsStr C11.ProofsSplit C11.ProofsNum.
From JrV Require C05.Model C05.Proofs Gen.GenEscape.
Import ListNotations.
Local Open Scope N_scope.
Local Arguments N.add : simpl never.
Local Arguments N.mul : simpl never.
Local Arguments N.sub : simpl never.
Local Arguments N.div : simpl never.
Local Arguments N.modulo : simpl never.
Local Arguments N.leb : simpl never.
Local Arguments N.ltb : simpl never.
Local Arguments N.eqb : simpl never.
Local Arguments N.lxor : simpl never.
Local Arguments N.lor : simpl never.
Ltac Zify.zify_post_hook ::= Z.to_euclidean_division_equations.

Ltac cases :=
  repeat (match goal with
          | |- context [?a <? ?b] => no_if a; no_if b; destruct (N.ltb_spec a b)
          | |- context [?a <=? ?b] => no_if a; no_if b; destruct (N.leb_spec a b)
          | |- context [?a =? ?b] => no_if a; no_if b; destruct (N.eqb_spec a b)
          end; cbn [andb orb negb]; try lia).

(** * finite ranges closed by computation *)
Lemma range_forallb (P : N -> bool) lo n :
  forallb P (map N.of_nat (seq lo n)) = true ->
  forall b, N.of_nat lo <= b -> b < N.of_nat (lo + n) -> P b = true.
Proof.
  intros H b H1 H2. rewrite forallb_forall in H. apply H.
  apply in_map_iff. exists (N.to_nat b). split; [lia|]. apply in_seq. lia.
Qed.

(** * a per-byte map that fixes bytes >= 128 is a per-code-point map *)
Lemma enc1_low c : c < 128 -> enc1 c = [c].
Proof. intros H. unfold enc1. cases. reflexivity. Qed.

Lemma enc1_high c : 128 <= c -> Forall (fun b => 128 <= b) (enc1 c).
Proof. intros H. unfold enc1. cases; repeat constructor; lia. Qed.

Lemma flat_map_fix (f : N -> list N) l : Forall (fun b => f b = [b]) l -> flat_map f l = l.
Proof. induction 1 as [|b l Hb _ IH]; [reflexivity|]. cbn [flat_map]. now rewrite Hb, IH. Qed.

Lemma bytewise_on (f g : N -> list N) :
  (forall b, 128 <= b -> f b = [b]) ->
  forall s, (forall c, In c s -> (c < 128 -> f c = encode (g c)) /\ (128 <= c -> g c = [c])) ->
  flat_map f (encode s) = encode (flat_map g s).
Proof.
  intros Hf s. induction s as [|c s IH]; intros H; [reflexivity|].
  cbn [encode flat_map]. fold (encode s). rewrite flat_map_app.
  change (flat_map enc1 (g c ++ flat_map g s)) with (encode (g c ++ flat_map g s)).
  rewrite encode_app, IH by (intros x Hx; apply H; now right).
  f_equal. destruct (H c (or_introl eq_refl)) as [Hlo Hhi].
  destruct (N.lt_ge_cases c 128) as [L|G].
  - rewrite enc1_low by assumption. cbn [flat_map]. rewrite app_nil_r. now apply Hlo.
  - rewrite (Hhi G). cbn [encode flat_map]. rewrite app_nil_r.
    apply flat_map_fix. eapply Forall_impl; [|apply enc1_high; assumption]. intros b Hb. now apply Hf.
Qed.

Lemma bytewise (f g : N -> list N) :
  (forall c, c < 128 -> f c = encode (g c)) -> (forall b, 128 <= b -> f b = [b]) -> (forall c, 128 <= c -> g c = [c]) ->
  forall s, flat_map f (encode s) = encode (flat_map g s).
Proof. intros H1 H2 H3 s. apply bytewise_on; [assumption|]. intros c _. split; auto. Qed.

Lemma flat_map_single {A B} (f : A -> B) l : flat_map (fun x => [f x]) l = map f l.
Proof. induction l as [|x l IH]; [reflexivity|]. cbn. now rewrite IH. Qed.

(** * asciiUpper / asciiLower *)
Lemma up_byte_eq b : up_byte b = up1 b.
Proof.
  unfold up_byte, up1. destruct ((97 <=? b) && (b <=? 122)) eqn:E; [|reflexivity].
  apply andb_true_iff in E as [E1 E2]. apply N.leb_le in E1, E2.
  apply N.eqb_eq. apply (range_forallb (fun b => N.lxor b 32 =? b - 32) 97 26); [now vm_compute| |]; cbn; lia.
Qed.

Lemma low_byte_eq b : low_byte b = low1 b.
Proof.
  unfold low_byte, low1. destruct ((65 <=? b) && (b <=? 90)) eqn:E; [|reflexivity].
  apply andb_true_iff in E as [E1 E2]. apply N.leb_le in E1, E2.
  apply N.eqb_eq. apply (range_forallb (fun b => N.lor b 32 =? b + 32) 65 26); [now vm_compute| |]; cbn; lia.
Qed.

Lemma map_up_encode s : map up_byte (encode s) = encode (upper_spec s).
Proof.
  unfold upper_spec. rewrite <- !flat_map_single. apply bytewise.
  - intros c H. rewrite up_byte_eq. cbn [encode flat_map]. rewrite app_nil_r, enc1_low; [reflexivity|].
    unfold up1. cases.
  - intros b H. rewrite up_byte_eq. unfold up1. cases. reflexivity.
  - intros c H. unfold up1. cases. reflexivity.
Qed.

Lemma map_low_encode s : map low_byte (encode s) = encode (lower_spec s).
Proof.
  unfold lower_spec. rewrite <- !flat_map_single. apply bytewise.
  - intros c H. rewrite low_byte_eq. cbn [encode flat_map]. rewrite app_nil_r, enc1_low; [reflexivity|].
    unfold low1. cases.
  - intros b H. rewrite low_byte_eq. unfold low1. cases. reflexivity.
  - intros c H. unfold low1. cases. reflexivity.
Qed.

Lemma upper_refines s : upper_impl (encode s) = encode (upper_spec s).
Proof. unfold upper_impl, ascii_map. change (upper_method =? 1) with true. cbv iota. apply map_up_encode. Qed.

Lemma lower_refines s : lower_impl (encode s) = encode (lower_spec s).
Proof.
  unfold lower_impl, ascii_map. change (lower_method =? 1) with false. change (lower_method =? 2) with true.
  cbv iota. apply map_low_encode.
Qed.

Lemma up1_cases c : up1 c = c \/ (97 <= c /\ c <= 122 /\ up1 c = c - 32).
Proof. unfold up1. cases; auto. Qed.
Lemma low1_cases c : low1 c = c \/ (65 <= c /\ c <= 90 /\ low1 c = c + 32).
Proof. unfold low1. cases; auto. Qed.

Lemma upper_pointwise s :
  Forall2 (fun x y => y = x \/ (97 <= x /\ x <= 122 /\ y = x - 32)) s (upper_spec s).
Proof. induction s as [|c s IH]; cbn; constructor; auto. apply up1_cases. Qed.
Lemma lower_pointwise s :
  Forall2 (fun x y => y = x \/ (65 <= x /\ x <= 90 /\ y = x + 32)) s (lower_spec s).
Proof. induction s as [|c s IH]; cbn; constructor; auto. apply low1_cases. Qed.

Lemma upper_laws s :
  length (upper_spec s) = length s /\ upper_spec (upper_spec s) = upper_spec s /\
  lower_spec (upper_spec s) = lower_spec s /\
  (forallb scalar s = true -> forallb scalar (upper_spec s) = true).
Proof.
  unfold upper_spec, lower_spec. rewrite map_length, !map_map. repeat split.
  - apply map_ext. intros c. unfold up1. cases; try reflexivity.
  - apply map_ext. intros c. unfold low1, up1. cases; try reflexivity.
  - rewrite !forallb_forall. intros H x Hx. apply in_map_iff in Hx as (c & <- & Hc).
    specialize (H c Hc). apply scalar_spec in H. apply scalar_spec. unfold up1. cases.
Qed.

Lemma lower_laws s :
  length (lower_spec s) = length s /\ lower_spec (lower_spec s) = lower_spec s /\
  upper_spec (lower_spec s) = upper_spec s /\
  (forallb scalar s = true -> forallb scalar (lower_spec s) = true).
Proof.
  unfold upper_spec, lower_spec. rewrite map_length, !map_map. repeat split.
  - apply map_ext. intros c. unfold low1. cases; try reflexivity.
  - apply map_ext. intros c. unfold low1, up1. cases; try reflexivity; f_equal; lia.
  - rewrite !forallb_forall. intros H x Hx. apply in_map_iff in Hx as (c & <- & Hc).
    specialize (H c Hc). apply scalar_spec in H. apply scalar_spec. unfold low1. cases.
Qed.

(** * equalsIgnoreCase *)
Lemma eq_ic_impl_map (a : list N) : forall b,
  eq_ic_impl a b = list_eqb (map low_byte a) (map low_byte b).
Proof.
  unfold eq_ic_impl. induction a as [|x a IH]; intros [|y b]; try reflexivity.
  cbn [length Nat.eqb combine forallb map list_eqb fst snd].
  rewrite <- IH. destruct (low_byte x =? low_byte y); cbn [andb]; [reflexivity|].
  now rewrite andb_false_r.
Qed.

Lemma list_eqb_encode a b : forallb scalar a = true -> forallb scalar b = true ->
  list_eqb (encode a) (encode b) = list_eqb a b.
Proof.
  intros Ha Hb. apply eq_true_iff_eq. rewrite !list_eqb_eq. split.
  - now apply encode_inj.
  - now intros ->.
Qed.

Lemma eq_ic_refines a b : forallb scalar a = true -> forallb scalar b = true ->
  eq_ic_impl (encode a) (encode b) = eq_ic_spec a b.
Proof.
  intros Ha Hb. rewrite eq_ic_impl_map, !map_low_encode. unfold eq_ic_spec.
  apply list_eqb_encode; now apply lower_laws.
Qed.

Lemma eq_ic_laws a : eq_ic_spec a a = true /\ eq_ic_spec (upper_spec a) a = true /\
  (forall b, eq_ic_spec a b = eq_ic_spec b a).
Proof.
  unfold eq_ic_spec. repeat split.
  - now apply list_eqb_eq.
  - apply list_eqb_eq. apply upper_laws.
  - intros b. apply eq_true_iff_eq. rewrite !list_eqb_eq. split; congruence.
Qed.

(** * isEmpty, length, stringChars *)
Lemma is_empty_refines s : is_empty_impl (encode s) = is_empty_spec s.
Proof.
  destruct s as [|c s]; [reflexivity|]. unfold is_empty_impl, is_empty_spec. cbn [encode flat_map length Nat.eqb].
  destruct (enc1 c) eqn:E; [now apply enc1_nonempty in E|reflexivity].
Qed.

Lemma filter_all_cont t : forallb is_cont t = true -> filter (fun b => negb (is_cont b)) t = [].
Proof.
  induction t as [|b t IH]; [reflexivity|]. cbn [forallb filter]. intros H.
  apply andb_true_iff in H as [Hb Ht]. rewrite Hb. cbn [negb]. now apply IH.
Qed.

Lemma length_refines s : forallb scalar s = true -> length_impl (encode s) = length s.
Proof.
  unfold length_impl. induction s as [|c s IH]; [reflexivity|]. cbn [forallb]. intros H.
  apply andb_true_iff in H as [Hc Hs]. cbn [encode flat_map]. fold (encode s).
  rewrite filter_app, app_length, IH by assumption.
  destruct (enc1_shape c (scalar_le c Hc)) as (h & t & -> & Hh & Ht).
  cbn [filter]. rewrite Hh. cbn [negb length]. now rewrite filter_all_cont.
Qed.

Lemma chars_ref_eq s : chars_ref s = chars_spec s.
Proof.
  unfold chars_ref, chars_spec. induction s as [|c s IH]; [reflexivity|].
  cbn [length seq map nth]. f_equal. rewrite <- seq_shift, map_map. exact IH.
Qed.

Lemma chars_refines s : forallb scalar s = true ->
  chars_impl (encode s) = map encode (chars_ref s) /\ concat (chars_ref s) = s.
Proof.
  intros H. rewrite chars_ref_eq. unfold chars_impl, chars_spec. rewrite lossy_encode by assumption. split.
  - rewrite map_map. apply map_ext. intros c. cbn. now rewrite app_nil_r.
  - clear H. induction s as [|c s IH]; [reflexivity|]. cbn. now rewrite IH.
Qed.

(** * lstripChars / rstripChars / stripChars / trim *)
Lemma lstrip_no_chars s : lstrip_spec s [] = s.
Proof. destruct s; reflexivity. Qed.
Lemma rstrip_no_chars s : rstrip_spec s [] = s.
Proof.
  induction s as [|c s IH]; [reflexivity|]. cbn [rstrip_spec]. rewrite IH.
  destruct s; reflexivity.
Qed.

Lemma strip_builtin_guard m s cs spec :
  (forall s cs, strip_by m s cs = spec s cs) -> spec [] cs = [] -> spec s [] = s ->
  strip_builtin m s cs = spec s cs.
Proof.
  intros H Hn Hc. unfold strip_builtin. destruct (is_nil (encode s)) eqn:E1; cbn [orb].
  - destruct (encode s) eqn:E; [|discriminate]. apply encode_nil_inv in E. subst s. now rewrite Hn.
  - destruct cs as [|c cs]; cbn [is_nil]; [now rewrite Hc|apply H].
Qed.

Lemma lstrip_chars_refines s cs : lstrip_chars_impl s cs = lstrip_spec s cs.
Proof.
  apply strip_builtin_guard; [|reflexivity|apply lstrip_no_chars].
  intros s' cs'. unfold strip_by. change (lstrip_method =? 1) with true. reflexivity.
Qed.

Lemma rstrip_chars_refines s cs : rstrip_chars_impl s cs = rstrip_spec s cs.
Proof.
  apply strip_builtin_guard; [|reflexivity|apply rstrip_no_chars].
  intros s' cs'. unfold strip_by. change (rstrip_method =? 1) with false. change (rstrip_method =? 2) with true.
  cbv iota. apply rstrip_refines.
Qed.

Lemma strip_chars_refines s cs : strip_chars_impl s cs = strip_spec s cs.
Proof.
  apply strip_builtin_guard; [|reflexivity|].
  - intros s' cs'. unfold strip_by. change (strip_method =? 1) with false. change (strip_method =? 2) with false.
    change (strip_method =? 3) with true. cbv iota. apply strip_refines.
  - unfold strip_spec. now rewrite rstrip_no_chars, lstrip_no_chars.
Qed.

Lemma memb_incl a b : forallb (fun c => memb c b) a = true -> forall c, memb c a = true -> memb c b = true.
Proof.
  rewrite forallb_forall. intros H c Hc. unfold memb in Hc. apply existsb_exists in Hc as (x & Hx & E).
  apply N.eqb_eq in E. subst x. now apply H.
Qed.

Lemma memb_same a b :
  forallb (fun c => memb c b) a && forallb (fun c => memb c a) b = true -> forall c, memb c a = memb c b.
Proof.
  intros H c. apply andb_true_iff in H as [H1 H2]. apply eq_true_iff_eq. split; now apply memb_incl.
Qed.

Lemma lstrip_ext a b : (forall c, memb c a = memb c b) -> forall s, lstrip_spec s a = lstrip_spec s b.
Proof. intros H s. induction s as [|c s IH]; [reflexivity|]. cbn [lstrip_spec]. now rewrite H, IH. Qed.
Lemma rstrip_ext a b : (forall c, memb c a = memb c b) -> forall s, rstrip_spec s a = rstrip_spec s b.
Proof. intros H s. induction s as [|c s IH]; [reflexivity|]. cbn [rstrip_spec]. now rewrite H, IH. Qed.

Lemma trim_refines s : trim_impl s = trim_spec s.
Proof.
  unfold trim_impl, strip_by. cbv iota. change (3 =? 1) with false. change (3 =? 2) with false. change (3 =? 3) with true.
  cbv iota. rewrite strip_refines. unfold trim_spec, strip_spec.
  assert (E : forall c, memb c trim_filter = memb c trim_chars) by (apply memb_same; now vm_compute).
  now rewrite (rstrip_ext _ _ E), (lstrip_ext _ _ E).
Qed.

(** what stripping leaves: the string is [a ++ kept ++ b] with [a], [b] made of stripped characters and
    [kept] neither starting nor ending with one *)
Lemma lstrip_shape cs : forall s, exists a, s = a ++ lstrip_spec s cs /\ forallb (fun c => memb c cs) a = true /\
  (match lstrip_spec s cs with c :: _ => memb c cs = false | [] => True end).
Proof.
  induction s as [|c s (a & E & Ha & Hh)]; [exists []; now repeat split|].
  cbn [lstrip_spec]. destruct (memb c cs) eqn:M.
  - exists (c :: a). cbn [app forallb]. rewrite M, Ha. repeat split; [now f_equal|assumption].
  - exists []. now repeat split.
Qed.

Lemma strip_shape cs s : exists a b, s = a ++ strip_spec s cs ++ b /\
  forallb (fun c => memb c cs) a = true /\ forallb (fun c => memb c cs) b = true /\
  (match strip_spec s cs with c :: _ => memb c cs = false | [] => True end) /\
  (match rev (strip_spec s cs) with c :: _ => memb c cs = false | [] => True end).
Proof.
  rewrite <- strip_refines. unfold strip_impl, rstrip_impl.
  destruct (lstrip_shape cs s) as (a & Ea & Ha & Hh).
  destruct (lstrip_shape cs (rev (lstrip_spec s cs))) as (b & Eb & Hb & Hl).
  set (m := lstrip_spec s cs) in *. set (k := lstrip_spec (rev m) cs) in *.
  exists a, (rev b). assert (Em : m = rev k ++ rev b).
  { rewrite <- rev_app_distr, <- Eb. now rewrite rev_involutive. }
  repeat split.
  - now rewrite <- Em.
  - assumption.
  - rewrite forallb_forall in *. intros x Hx. apply Hb. now apply in_rev.
  - destruct (rev k) as [|c r] eqn:Ek; [exact I|]. rewrite Em in Hh. exact Hh.
  - rewrite rev_involutive. exact Hl.
Qed.

(** * str::replace on the bytes *)
Lemma join_encode to ps : join (encode to) (map encode ps) = encode (join to ps).
Proof.
  induction ps as [|p ps IH]; [reflexivity|]. destruct ps as [|q r]; [reflexivity|].
  change (map encode (p :: q :: r)) with (encode p :: map encode (q :: r)).
  rewrite !join_cons by discriminate. now rewrite IH, !encode_app.
Qed.

Lemma is_nil_encode s : is_nil (encode s) = is_nil s.
Proof.
  destruct s as [|c s]; [reflexivity|]. cbn [encode flat_map is_nil].
  destruct (enc1 c) eqn:E; [now apply enc1_nonempty in E|reflexivity].
Qed.

Lemma str_replace_refines s from to :
  forallb scalar s = true -> forallb scalar from = true ->
  str_replace_impl s from to = option_map encode (replace_spec s from to).
Proof.
  intros Hs Hf. unfold str_replace_impl, replace_spec. rewrite is_nil_encode.
  destruct from as [|c f]; [reflexivity|]. cbn [is_nil option_map]. f_equal.
  unfold replace_bytes. fold (bsplit s (c :: f) None). rewrite bsplit_refines by (assumption || discriminate).
  apply join_encode.
Qed.

Lemma replace1_flat q to : forall fuel cur s, (length s < fuel)%nat ->
  join to (gsplit_f fuel [q] None cur s) = rev cur ++ flat_map (repl1 q to) s.
Proof.
  induction fuel as [|f IH]; intros cur s H; [lia|].
  destruct s as [|c r]; cbn [gsplit_f].
  - cbn. now rewrite app_nil_r.
  - cbn [prefixb lim_ok lim_pred option_map length skipn flat_map] in *. unfold repl1 at 1.
    rewrite N.eqb_sym. destruct (c =? q); cbn [andb].
    + rewrite join_cons by apply gsplit_f_nonempty. rewrite IH by lia. reflexivity.
    + rewrite IH by lia. cbn [rev]. now rewrite <- app_assoc.
Qed.

Lemma replace_char_flat q to s : join to (gsplit [q] None s) = flat_map (repl1 q to) s.
Proof. unfold gsplit. now rewrite replace1_flat by lia. Qed.

Lemma replace_bytes_char q to s : q < 128 -> forallb scalar s = true ->
  replace_bytes (encode s) (enc1 q) (encode to) = encode (flat_map (repl1 q to) s).
Proof.
  intros Hq Hs. unfold replace_bytes. replace (enc1 q) with (encode [q]) by (cbn; now rewrite app_nil_r).
  fold (bsplit s [q] None). rewrite bsplit_refines; try assumption; try discriminate.
  - now rewrite join_encode, replace_char_flat.
  - cbn [forallb]. rewrite andb_true_r. apply scalar_spec. lia.
Qed.

Lemma esc_bash_gen_refines s : forallb scalar s = true -> esc_bash_impl s = encode (esc_bash_gen s).
Proof.
  intros Hs. unfold esc_bash_impl, esc_bash_gen.
  assert (Hq : bash_quote < 128) by now vm_compute.
  rewrite replace_bytes_char by assumption.
  change (bash_quote :: ?x) with ([bash_quote] ++ x). rewrite !encode_app.
  cbn [encode flat_map]. now rewrite !app_nil_r.
Qed.

Lemma esc_bash_gen_spec s : esc_bash_gen s = esc_bash_spec s.
Proof.
  (* the generated constants are the literals of the definition: convertible *)
  unfold esc_bash_gen, esc_bash_spec. change bash_quote with 39. change bash_repl with [39; 34; 39; 34; 39].
  reflexivity.
Qed.

Lemma esc_bash_refines s : forallb scalar s = true -> esc_bash_impl s = encode (esc_bash_spec s).
Proof. intros H. now rewrite esc_bash_gen_refines, esc_bash_gen_spec. Qed.

Lemma esc_dollars_refines s : forallb scalar s = true -> esc_dollars_impl s = encode (esc_dollars_spec s).
Proof.
  intros Hs. unfold esc_dollars_impl. rewrite replace_bytes_char; [|now vm_compute|assumption].
  unfold esc_dollars_spec. change dollars_char with 36. change dollars_repl with [36; 36]. reflexivity.
Qed.

(** * escapeStringXML *)
Lemma position_none f : forall bs, position f bs = None -> existsb f bs = false.
Proof.
  induction bs as [|b r IH]; [reflexivity|]. cbn [position existsb]. destruct (f b); [discriminate|].
  destruct (position f r); [discriminate|]. intros _. now apply IH.
Qed.

Lemma position_some f : forall bs p, position f bs = Some p ->
  exists b r, skipn p bs = b :: r /\ f b = true /\ existsb f (firstn p bs) = false /\
              bs = firstn p bs ++ b :: r.
Proof.
  induction bs as [|b r IH]; intros p H; [discriminate|]. cbn [position] in H. destruct (f b) eqn:Fb.
  - injection H as <-. exists b, r. now repeat split.
  - destruct (position f r) as [q|] eqn:P; [|discriminate]. injection H as <-.
    destruct (IH q eq_refl) as (b' & r' & E1 & E2 & E3 & E4). exists b', r'.
    cbn [skipn firstn existsb app]. rewrite Fb. repeat split; try assumption. now f_equal.
Qed.

Lemma xml_byte_plain l : existsb xml_special l = false -> flat_map xml_byte l = l.
Proof.
  intros H. apply flat_map_fix. apply Forall_forall. intros b Hb. unfold xml_byte.
  destruct (xml_special b) eqn:E; [|reflexivity].
  assert (existsb xml_special l = true) by (apply existsb_exists; eauto). congruence.
Qed.

Lemma xml_arm_defined b : xml_special b = true -> exists e, xml_arm b = Some e.
Proof.
  intros H. unfold xml_special, memb in H. apply existsb_exists in H as (x & Hx & E). apply N.eqb_eq in E. subst x.
  assert (T : forallb (fun b => match xml_arm b with Some _ => true | None => false end) xml_class = true) by now vm_compute.
  rewrite forallb_forall in T. specialize (T b Hx). destruct (xml_arm b); [eauto|discriminate].
Qed.

Lemma xml_loop_spec : forall fuel rem out found, (length rem < fuel)%nat ->
  exists r o fd, xml_loop fuel rem out found = Some (r, o, fd) /\
    o ++ r = out ++ flat_map xml_byte rem /\ fd = found || existsb xml_special rem /\
    (existsb xml_special rem = false -> o = out /\ r = rem).
Proof.
  induction fuel as [|f IH]; intros rem out found H; [lia|]. cbn [xml_loop].
  destruct (position xml_special rem) as [p|] eqn:P.
  - destruct (position_some _ _ _ P) as (b & r' & E1 & E2 & E3 & E4). rewrite E1.
    destruct (xml_arm_defined b E2) as (e & Ea). rewrite Ea.
    assert (L : (length r' < f)%nat).
    { rewrite E4, app_length in H. cbn [length] in H. lia. }
    destruct (IH r' ((out ++ firstn p rem) ++ e) true L) as (r & o & fd & R1 & R2 & R3 & R4).
    assert (X : existsb xml_special rem = true).
    { rewrite E4, existsb_app. cbn [existsb]. rewrite E2. now rewrite orb_true_r. }
    exists r, o, fd. repeat split; try assumption.
    + rewrite R2. rewrite E4 at 2. rewrite flat_map_app, (xml_byte_plain (firstn p rem)) by assumption.
      cbn [flat_map]. assert (Xb : xml_byte b = e) by (unfold xml_byte; now rewrite E2, Ea).
      rewrite Xb. now rewrite <- !app_assoc.
    + rewrite R3, X. now rewrite orb_true_r.
    + congruence.
    + congruence.
  - pose proof (position_none _ _ P) as N. exists rem, out, found. repeat split.
    + now rewrite xml_byte_plain.
    + now rewrite N, orb_false_r.
Qed.

Lemma esc_xml_bytes bs : esc_xml_impl bs = Some (flat_map xml_byte bs).
Proof.
  unfold esc_xml_impl. destruct bs as [|b r]; [reflexivity|]. cbn [is_nil]. set (bs := b :: r).
  destruct (xml_loop_spec (S (length bs)) bs [] false) as (rm & o & fd & R1 & R2 & R3 & R4); [lia|].
  rewrite R1. cbn [orb app] in *. destruct fd.
  - now rewrite R2.
  - symmetry in R3. destruct (R4 R3) as [-> ->]. now rewrite xml_byte_plain.
Qed.

Lemma xml_class_ascii b : 128 <= b -> xml_special b = false.
Proof.
  intros H. destruct (xml_special b) eqn:E; [|reflexivity]. unfold xml_special, memb in E.
  apply existsb_exists in E as (x & Hx & E). apply N.eqb_eq in E. subst x.
  assert (T : forallb (fun x => x <? 128) xml_class = true) by now vm_compute.
  rewrite forallb_forall in T. specialize (T b Hx). apply N.ltb_lt in T. lia.
Qed.

Lemma esc_xml_refines s : esc_xml_impl (encode s) = Some (encode (esc_xml_spec s)).
Proof.
  rewrite esc_xml_bytes. f_equal. change (esc_xml_spec s) with (flat_map xml1_spec s). apply bytewise.
  - intros c H. apply list_eqb_eq.
    apply (range_forallb (fun c => list_eqb (xml_byte c) (encode (xml1_spec c))) 0 128); [now vm_compute| |]; cbn; lia.
  - intros b H. unfold xml_byte. now rewrite xml_class_ascii.
  - intros c H. unfold xml1_spec. cases. reflexivity.
Qed.

(** * escapeStringJson / escapeStringPython *)
Lemma json_esc1_high b : 128 <= b -> C05.Model.esc1 b = [b].
Proof.
  intros H. destruct (N.lt_ge_cases b 256) as [L|G].
  - apply list_eqb_eq.
    apply (range_forallb (fun b => list_eqb (C05.Model.esc1 b) [b]) 128 128); [now vm_compute| |]; cbn; lia.
  - unfold C05.Model.esc1, C05.Model.tbl. rewrite nth_overflow; [reflexivity|].
    change (length GenEscape.escape_table) with 256%nat. lia.
Qed.

Lemma json_esc1_low c : c < 127 -> C05.Model.esc1 c = encode (json1_spec c).
Proof.
  intros H. apply list_eqb_eq.
  apply (range_forallb (fun c => list_eqb (C05.Model.esc1 c) (encode (json1_spec c))) 0 127); [now vm_compute| |]; cbn; lia.
Qed.

Lemma esc_json_impl_map s : esc_json_impl s = Some (34 :: flat_map C05.Model.esc1 (encode s) ++ [34]).
Proof. unfold esc_json_impl, C05.Model.escape. now rewrite C05.Proofs.p_escape_impl_is_map. Qed.

Lemma esc_json_refines s : has_del_c1 s = false -> esc_json_impl s = Some (encode (esc_json_spec s)).
Proof.
  intros H. rewrite esc_json_impl_map. f_equal. unfold esc_json_spec.
  assert (E : forall x, encode (34 :: x ++ [34]) = 34 :: encode x ++ [34]).
  { intros x. change (34 :: x ++ [34]) with ([34] ++ x ++ [34]). rewrite !encode_app. reflexivity. }
  rewrite E. f_equal. f_equal.
  apply bytewise_on; [apply json_esc1_high|]. intros c Hc.
  assert (D : del_c1 c = false).
  { unfold has_del_c1 in H. destruct (del_c1 c) eqn:E0; [|reflexivity].
    assert (existsb del_c1 s = true) by (apply existsb_exists; eauto). congruence. }
  unfold del_c1 in D. split.
  - intros L. apply json_esc1_low. revert D. cases; try discriminate.
  - intros G. revert D. unfold json1_spec. cases; try discriminate. reflexivity.
Qed.

Lemma esc_json_refuted : exists s, forallb scalar s = true /\ esc_json_impl s <> Some (encode (esc_json_spec s)).
Proof. exists [127]. split; [reflexivity|]. intros H. vm_compute in H. discriminate. Qed.

(** * unescapers invert the escapers *)
Lemma undollar_esc s : undollar (esc_dollars_spec s) = Some s.
Proof.
  unfold esc_dollars_spec. induction s as [|c s IH]; [reflexivity|]. cbn [flat_map].
  destruct (N.eqb_spec c 36) as [->|n].
  - cbn [app undollar]. rewrite N.eqb_refl, IH. reflexivity.
  - cbn [app undollar]. apply N.eqb_neq in n. rewrite n, IH. reflexivity.
Qed.

Lemma unxml_step_ent f rest :
  unxml_f (S f) ([38; 108; 116; 59] ++ rest) = option_map (cons 60) (unxml_f f rest) /\
  unxml_f (S f) ([38; 103; 116; 59] ++ rest) = option_map (cons 62) (unxml_f f rest) /\
  unxml_f (S f) ([38; 97; 109; 112; 59] ++ rest) = option_map (cons 38) (unxml_f f rest) /\
  unxml_f (S f) ([38; 113; 117; 111; 116; 59] ++ rest) = option_map (cons 34) (unxml_f f rest) /\
  unxml_f (S f) ([38; 97; 112; 111; 115; 59] ++ rest) = option_map (cons 39) (unxml_f f rest).
Proof. repeat split; reflexivity. Qed.

Lemma unxml_step_plain f c rest : c <> 38 -> c <> 60 -> c <> 62 -> c <> 34 -> c <> 39 ->
  unxml_f (S f) (c :: rest) = option_map (cons c) (unxml_f f rest).
Proof. intros. cbn [unxml_f]. cases. reflexivity. Qed.

Lemma xml1_length c : (1 <= length (xml1_spec c))%nat.
Proof. unfold xml1_spec. cases; cbn; lia. Qed.

Lemma unxml_f_esc : forall s fuel, (length (esc_xml_spec s) < fuel)%nat -> unxml_f fuel (esc_xml_spec s) = Some s.
Proof.
  induction s as [|c s IH]; intros fuel H.
  - destruct fuel; [cbn in H; lia|reflexivity].
  - change (esc_xml_spec (c :: s)) with (xml1_spec c ++ esc_xml_spec s) in *.
    rewrite app_length in H. pose proof (xml1_length c). destruct fuel as [|f]; [lia|].
    assert (L : (length (esc_xml_spec s) < f)%nat) by lia.
    destruct (unxml_step_ent f (esc_xml_spec s)) as (E1 & E2 & E3 & E4 & E5).
    unfold xml1_spec.
    destruct (N.eqb_spec c 60) as [->|n1]; [now rewrite E1, IH|].
    destruct (N.eqb_spec c 62) as [->|n2]; [now rewrite E2, IH|].
    destruct (N.eqb_spec c 38) as [->|n3]; [now rewrite E3, IH|].
    destruct (N.eqb_spec c 34) as [->|n4]; [now rewrite E4, IH|].
    destruct (N.eqb_spec c 39) as [->|n5]; [now rewrite E5, IH|].
    cbn [app]. rewrite unxml_step_plain by assumption. now rewrite IH.
Qed.

Lemma unxml_esc s : unxml (esc_xml_spec s) = Some s.
Proof. unfold unxml. apply unxml_f_esc. lia. Qed.

Definition bash1 (c : N) : str := if c =? 39 then [39; 34; 39; 34; 39] else [c].
Lemma sh_single_esc : forall s, sh_unquote ShSingle (flat_map bash1 s ++ [39]) = Some s.
Proof.
  induction s as [|c s IH]; [reflexivity|]. cbn [flat_map]. rewrite <- app_assoc. unfold bash1 at 1.
  destruct (N.eqb_spec c 39) as [->|n].
  - change (sh_unquote ShSingle ([39; 34; 39; 34; 39] ++ ?r)) with (option_map (cons 39) (sh_unquote ShSingle r)).
    now rewrite IH.
  - cbn [app sh_unquote]. apply N.eqb_neq in n. now rewrite n, IH.
Qed.

Lemma sh_unquote_esc s : sh_unquote ShOut (esc_bash_spec s) = Some s.
Proof.
  unfold esc_bash_spec. change (sh_unquote ShOut (39 :: ?x)) with (sh_unquote ShSingle x).
  apply (sh_single_esc s).
Qed.

(** * parseInt / parseOctal / parseHex *)
Lemma int_spec_unfold s :
  int_spec s = match s with
               | c :: r => if c =? 45 then option_map (fun n => (- Z.of_N n)%Z) (nat_spec 10 r)
                           else option_map Z.of_N (nat_spec 10 s)
               | [] => None
               end.
Proof.
  destruct s as [|c r]; [reflexivity|]. destruct (N.eqb_spec c 45) as [->|n]; [reflexivity|].
  destruct c as [|p]; [reflexivity|].
  do 6 (try (destruct p as [p|p|]; try reflexivity)). now elim n.
Qed.

Lemma parse_int_exact s z : int_spec s = Some z -> (Z.abs z < 2 ^ 53)%Z -> parse_int_impl s = RInt z.
Proof.
  rewrite int_spec_unfold. unfold parse_int_impl. destruct s as [|c r]; [discriminate|].
  change parse_int_minus with 45. change parse_int_base_neg with 10. change parse_int_base_pos with 10.
  destruct (c =? 45).
  - destruct (nat_spec 10 r) as [n|] eqn:E; [|discriminate]. cbn [option_map]. intros [= <-] Hz.
    destruct r as [|d r']; [discriminate|].
    assert (Hn : n < 2 ^ 53) by (change (2 ^ 53) with 9007199254740992; change (2 ^ 53)%Z with 9007199254740992%Z in Hz; lia).
    assert (I : nat_impl 10 (d :: r') = PFin n) by (apply nat_impl_exact; auto).
    rewrite I. reflexivity.
  - destruct (nat_spec 10 (c :: r)) as [n|] eqn:E; [|discriminate]. cbn [option_map]. intros [= <-] Hz.
    assert (Hn : n < 2 ^ 53) by (change (2 ^ 53) with 9007199254740992; change (2 ^ 53)%Z with 9007199254740992%Z in Hz; lia).
    assert (I : nat_impl 10 (c :: r) = PFin n) by (apply nat_impl_exact; auto).
    rewrite I. reflexivity.
Qed.

Lemma parse_int_rejects s : int_spec s = None -> parse_int_impl s = RErr.
Proof.
  rewrite int_spec_unfold. unfold parse_int_impl. destruct s as [|c r]; [reflexivity|].
  change parse_int_minus with 45. change parse_int_base_neg with 10. change parse_int_base_pos with 10.
  destruct (c =? 45).
  - destruct (nat_spec 10 r) as [n|] eqn:E; [discriminate|]. intros _. destruct r as [|d r']; [reflexivity|].
    rewrite (nat_impl_bad 10 (d :: r')); auto.
  - destruct (nat_spec 10 (c :: r)) as [n|] eqn:E; [discriminate|]. intros _.
    rewrite (nat_impl_bad 10 (c :: r)); auto.
Qed.

Lemma parse_octal_hex s :
  (forall v, nat_spec 8 s = Some v -> v < 2 ^ 53 -> parse_octal_impl s = RInt (Z.of_N v)) /\
  (nat_spec 8 s = None -> parse_octal_impl s = RErr) /\
  (forall v, nat_spec 16 s = Some v -> v < 2 ^ 53 -> parse_hex_impl s = RInt (Z.of_N v)) /\
  (nat_spec 16 s = None -> parse_hex_impl s = RErr).
Proof.
  unfold parse_octal_impl, parse_hex_impl. change parse_octal_base with 8. change parse_hex_base with 16.
  repeat split; intros.
  - rewrite (nat_impl_exact 8 s v); auto.
  - rewrite (nat_impl_bad 8 s); auto.
  - rewrite (nat_impl_exact 16 s v); auto.
  - rewrite (nat_impl_bad 16 s); auto.
Qed.

(** * non-vacuity: the hypotheses of the restricted / conditional theorems hold on non-trivial instances *)
Example esc_json_refines_inst :
  has_del_c1 [97; 34; 233; 10; 1; 92; 128512] = false /\
  esc_json_impl [97; 34; 233; 10; 1; 92; 128512] = Some (encode (esc_json_spec [97; 34; 233; 10; 1; 92; 128512])).
Proof. split; [reflexivity|]. now apply esc_json_refines. Qed.
Example eq_ic_refines_inst : eq_ic_impl (encode [97; 233; 75]) (encode [65; 233; 107]) = eq_ic_spec [97; 233; 75] [65; 233; 107]
  /\ eq_ic_spec [97; 233; 75] [65; 233; 107] = true.
Proof. split; [now apply eq_ic_refines|reflexivity]. Qed.
Example parse_int_exact_inst : int_spec [45; 49; 50] = Some (-12)%Z /\ parse_int_impl [45; 49; 50] = RInt (-12).
Proof. split; [reflexivity|]. now apply parse_int_exact. Qed.
Example parse_int_rejects_inst : int_spec [45] = None /\ int_spec [49; 45] = None /\ parse_int_impl [49; 45] = RErr.
Proof. repeat split; try reflexivity. Qed.
Example str_replace_refines_inst :
  str_replace_impl [233; 97; 233] [233] [128512] = Some (encode [128512; 97; 128512]).
Proof. now rewrite str_replace_refines. Qed.
Example strip_shape_inst : strip_spec [32; 97; 32; 98; 32] [32] = [97; 32; 98].
Proof. reflexivity. Qed.
