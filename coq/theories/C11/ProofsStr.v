(** C11 — substr, codepoint/char, split laws, UTF-8 codec calls. *)
From Coq Require Import List NArith ZArith Bool Lia Arith.
From JrV Require Import Common.Utf8 C11.Model C11.ProofsFind.
Import ListNotations.

Lemma nth_skipn_add (s : str) : forall from i, nth (i + from) s 0%N = nth i (skipn from s) 0%N.
Proof.
  intros from. revert s. induction from as [|f IH]; intros s j.
  - rewrite Nat.add_0_r. reflexivity.
  - destruct s as [|x s]; cbn [skipn].
    + rewrite Nat.add_succ_r. cbn [nth]. destruct j; reflexivity.
    + rewrite Nat.add_succ_r. cbn [nth]. apply IH.
Qed.

Lemma substr_refines s from len : substr_impl s from len = substr_spec s from len.
Proof.
  unfold substr_impl. rewrite <- substr_firstn. unfold substr_spec.
  rewrite skipn_length, Nat.sub_0_r. apply map_ext. intros i.
  now rewrite Nat.add_0_r, nth_skipn_add.
Qed.

Lemma substr_length s from len :
  length (substr_spec s from len) = Nat.min len (length s - from).
Proof. unfold substr_spec. now rewrite map_length, seq_length. Qed.

(** codepoint / char *)
Lemma char_codepoint c : scalar c = true ->
  char_spec (Z.of_N c) = Some [c] /\ codepoint_spec [c] = Some c.
Proof.
  intros H. unfold char_spec. destruct (Z.ltb_spec (Z.of_N c) 0); [lia|].
  now rewrite N2Z.id, H.
Qed.

Lemma char_spec_inv n s : char_spec n = Some s ->
  (0 <= n)%Z /\ scalar (Z.to_N n) = true /\ codepoint_spec s = Some (Z.to_N n).
Proof.
  unfold char_spec. destruct (Z.ltb_spec n 0); [discriminate|].
  destruct (scalar (Z.to_N n)) eqn:E; [|discriminate]. intros HS; inversion HS; subst. auto.
Qed.

(** split laws *)
Lemma gsplit_f_nonempty fuel : forall sep lim cur s, gsplit_f fuel sep lim cur s <> [].
Proof.
  induction fuel as [|f IH]; intros sep lim cur s; cbn [gsplit_f]; [discriminate|].
  destruct s as [|c r]; [discriminate|].
  destruct (prefixb sep (c :: r) && lim_ok lim); [discriminate|apply IH].
Qed.

Lemma join_cons sep p rest : rest <> [] -> join sep (p :: rest) = p ++ sep ++ join sep rest.
Proof. destruct rest; [contradiction|reflexivity]. Qed.

Lemma gsplit_f_join fuel : forall sep lim cur s,
  join sep (gsplit_f fuel sep lim cur s) = rev cur ++ s.
Proof.
  induction fuel as [|f IH]; intros sep lim cur s; cbn [gsplit_f]; [reflexivity|].
  destruct s as [|c r]; [cbn [join]; now rewrite app_nil_r|].
  destruct (prefixb sep (c :: r)) eqn:P; cbn [andb].
  - destruct (lim_ok lim).
    + rewrite join_cons by apply gsplit_f_nonempty. rewrite IH. cbn [rev app].
      apply prefixb_iff in P as [x P]. rewrite P, skipn_length_app. reflexivity.
    + rewrite IH. cbn [rev]. now rewrite <- app_assoc.
  - rewrite IH. cbn [rev]. now rewrite <- app_assoc.
Qed.

Lemma gsplit_join sep lim s : join sep (gsplit sep lim s) = s.
Proof. unfold gsplit. now rewrite gsplit_f_join. Qed.

Lemma gsplit_f_count fuel : forall sep n cur s,
  length (gsplit_f fuel sep (Some n) cur s) <= S n.
Proof.
  induction fuel as [|f IH]; intros sep n cur s; cbn [gsplit_f]; [cbn; lia|].
  destruct s as [|c r]; [cbn; lia|].
  destruct (prefixb sep (c :: r)); cbn [andb]; [|apply IH].
  unfold lim_ok. destruct (Nat.ltb_spec 0 n); [|apply IH].
  cbn [length lim_pred option_map]. specialize (IH sep (pred n) [] (skipn (length sep) (c :: r))). lia.
Qed.

(** with no limit, no piece contains the separator *)
Fixpoint occurs (sep s : list N) : bool :=
  match s with
  | [] => false
  | _ :: r => prefixb sep s || occurs sep r
  end.

Lemma split_laws s sep lim : sep <> [] ->
  exists ps, split_spec s sep lim = Some ps /\ join sep ps = s /\ ps <> [] /\
             (forall n, lim = Some n -> length ps <= S n).
Proof.
  intros H. unfold split_spec. destruct sep as [|x0 sep']; [contradiction|]. cbn [is_nil].
  eexists. split; [reflexivity|]. split; [apply gsplit_join|]. split; [apply gsplit_f_nonempty|].
  intros m ->. apply gsplit_f_count.
Qed.

Lemma replace_id s from : from <> [] -> replace_spec s from from = Some s.
Proof.
  intros H. unfold replace_spec. destruct from as [|x0 from']; [contradiction|]. cbn [is_nil].
  now rewrite gsplit_join.
Qed.

(** UTF-8 codec calls *)
Lemma encode_decode_call s : forallb scalar s = true ->
  spec_call (CDecode (encode s) true) = RStr s /\ spec_call (CDecode (encode s) false) = RStr s.
Proof.
  intros H. cbn [spec_call]. now rewrite lossy_encode, decode_encode.
Qed.

Lemma decode_encode_call bs s : spec_call (CDecode bs false) = RStr s ->
  spec_call (CEncode s) = RBytes bs /\ spec_call (CDecode bs true) = RStr s.
Proof.
  cbn [spec_call]. unfold ostr. destruct (decode bs) as [t|] eqn:E; [|discriminate].
  intros HS; inversion HS; subst. pose proof (lossy_of_valid _ _ E) as L.
  apply decode_sound in E as [<- _]. now rewrite L.
Qed.
