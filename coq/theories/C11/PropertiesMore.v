(** C11, second part — property theorems only (byte-level refinements of the remaining string builtins,
    escapers against their unescaping relations, parseInt).  Each is closed by [exact] of a lemma of
    ProofsMore.v and followed by [Print Assumptions]; statements are pinned again in PinsMore.v. *)
From Coq Require Import List NArith ZArith Bool.
From JrV Require Import Common.Utf8 C11.Model C11.ModelMore C11.ProofsMore.
Import ListNotations.

(** str::to_ascii_uppercase, a per-BYTE map over the UTF-8 text, is the per-code-point definition (only a..z move), for ALL strings *)
Theorem C11_asciiUpper_refines :
  forall s, upper_impl (encode s) = encode (upper_spec s).
Proof. exact upper_refines. Qed.
Print Assumptions C11_asciiUpper_refines.

(** the same for to_ascii_lowercase *)
Theorem C11_asciiLower_refines :
  forall s, lower_impl (encode s) = encode (lower_spec s).
Proof. exact lower_refines. Qed.
Print Assumptions C11_asciiLower_refines.

(** only ASCII lower-case letters change, each to the letter 32 below; everything else (incl. sharp s, dotted I, combining marks) stays *)
Theorem C11_asciiUpper_pointwise :
  forall s, Forall2 (fun x y => y = x \/ (97 <= x /\ x <= 122 /\ y = x - 32))%N s (upper_spec s).
Proof. exact upper_pointwise. Qed.
Print Assumptions C11_asciiUpper_pointwise.

(** only ASCII upper-case letters change *)
Theorem C11_asciiLower_pointwise :
  forall s, Forall2 (fun x y => y = x \/ (65 <= x /\ x <= 90 /\ y = x + 32))%N s (lower_spec s).
Proof. exact lower_pointwise. Qed.
Print Assumptions C11_asciiLower_pointwise.

(** length preserved, idempotent, absorbed by asciiLower, scalar values stay scalar values *)
Theorem C11_asciiUpper_laws :
  forall s, length (upper_spec s) = length s /\ upper_spec (upper_spec s) = upper_spec s /\
    lower_spec (upper_spec s) = lower_spec s /\
    (forallb scalar s = true -> forallb scalar (upper_spec s) = true).
Proof. exact upper_laws. Qed.
Print Assumptions C11_asciiUpper_laws.

(** the same for asciiLower *)
Theorem C11_asciiLower_laws :
  forall s, length (lower_spec s) = length s /\ lower_spec (lower_spec s) = lower_spec s /\
    upper_spec (lower_spec s) = upper_spec s /\
    (forallb scalar s = true -> forallb scalar (lower_spec s) = true).
Proof. exact lower_laws. Qed.
Print Assumptions C11_asciiLower_laws.

(** str::eq_ignore_ascii_case (byte lengths equal and bytes equal after u8::to_ascii_lowercase) = asciiLower(a) == asciiLower(b) on code points *)
Theorem C11_equalsIgnoreCase_refines :
  forall a b, forallb scalar a = true -> forallb scalar b = true ->
    eq_ic_impl (encode a) (encode b) = eq_ic_spec a b.
Proof. exact eq_ic_refines. Qed.
Print Assumptions C11_equalsIgnoreCase_refines.

(** reflexive, blind to asciiUpper, symmetric *)
Theorem C11_equalsIgnoreCase_laws :
  forall a, eq_ic_spec a a = true /\ eq_ic_spec (upper_spec a) a = true /\
    (forall b, eq_ic_spec a b = eq_ic_spec b a).
Proof. exact eq_ic_laws. Qed.
Print Assumptions C11_equalsIgnoreCase_laws.

(** String::is_empty on the bytes = std.length(s) == 0 *)
Theorem C11_isEmpty_refines :
  forall s, is_empty_impl (encode s) = is_empty_spec s.
Proof. exact is_empty_refines. Qed.
Print Assumptions C11_isEmpty_refines.

(** chars().count() (number of non-continuation bytes) = number of code points *)
Theorem C11_length_refines :
  forall s, forallb scalar s = true -> length_impl (encode s) = length s.
Proof. exact length_refines. Qed.
Print Assumptions C11_length_refines.

(** the chars() iterator gives makeArray(length(s), i => s[i]); concatenating the pieces gives the string back *)
Theorem C11_stringChars_refines :
  forall s, forallb scalar s = true ->
    chars_impl (encode s) = map encode (chars_ref s) /\ concat (chars_ref s) = s.
Proof. exact chars_refines. Qed.
Print Assumptions C11_stringChars_refines.

(** the builtin (is_empty guards, then the trim_* method read from the source) = the recursive definition *)
Theorem C11_lstripChars_refines :
  forall s cs, lstrip_chars_impl s cs = lstrip_spec s cs.
Proof. exact lstrip_chars_refines. Qed.
Print Assumptions C11_lstripChars_refines.

(** the same for rstripChars *)
Theorem C11_rstripChars_builtin_refines :
  forall s cs, rstrip_chars_impl s cs = rstrip_spec s cs.
Proof. exact rstrip_chars_refines. Qed.
Print Assumptions C11_rstripChars_builtin_refines.

(** the same for stripChars *)
Theorem C11_stripChars_builtin_refines :
  forall s cs, strip_chars_impl s cs = strip_spec s cs.
Proof. exact strip_chars_refines. Qed.
Print Assumptions C11_stripChars_builtin_refines.

(** trim_matches with the character set of the closure in the source = stripChars(s, the documented white space set) *)
Theorem C11_trim_refines :
  forall s, trim_impl s = trim_spec s.
Proof. exact trim_refines. Qed.
Print Assumptions C11_trim_refines.

(** what stripChars returns: s = a ++ kept ++ b, a and b made of stripped characters only, kept neither starts nor ends with one *)
Theorem C11_strip_shape :
  forall cs s, exists a b, s = a ++ strip_spec s cs ++ b /\
    forallb (fun c => memb c cs) a = true /\ forallb (fun c => memb c cs) b = true /\
    (match strip_spec s cs with c :: _ => memb c cs = false | [] => True end) /\
    (match rev (strip_spec s cs) with c :: _ => memb c cs = false | [] => True end).
Proof. exact strip_shape. Qed.
Print Assumptions C11_strip_shape.

(** str::replace as leftmost non-overlapping search on the BYTES = the code-point definition join(to, split(s, from)); empty from refused *)
Theorem C11_strReplace_refines :
  forall s from to, forallb scalar s = true -> forallb scalar from = true ->
    str_replace_impl s from to = option_map encode (replace_spec s from to).
Proof. exact str_replace_refines. Qed.
Print Assumptions C11_strReplace_refines.

(** replace(QUOTE, REPL) on the bytes + insert/push of QUOTE, with the constants read from the source = the documented definition *)
Theorem C11_escapeStringBash_refines :
  forall s, forallb scalar s = true -> esc_bash_impl s = encode (esc_bash_spec s).
Proof. exact esc_bash_refines. Qed.
Print Assumptions C11_escapeStringBash_refines.

(** replace(dollar, two dollars) on the bytes = the documented definition *)
Theorem C11_escapeStringDollars_refines :
  forall s, forallb scalar s = true -> esc_dollars_impl s = encode (esc_dollars_spec s).
Proof. exact esc_dollars_refines. Qed.
Print Assumptions C11_escapeStringDollars_refines.

(** escape_string_xml_buf's position/split_at/push_str loop over the BYTES with its found flag, byte class and arms read from the source, = the per-code-point definition; it never reaches unreachable!() and never runs out of fuel *)
Theorem C11_escapeStringXml_refines :
  forall s, esc_xml_impl (encode s) = Some (encode (esc_xml_spec s)).
Proof. exact esc_xml_refines. Qed.
Print Assumptions C11_escapeStringXml_refines.

(** escape_string_json_buf (C05's model, table regenerated from the source) on the bytes = the reference std.jsonnet definition, for every string WITHOUT U+007F..U+009F *)
Theorem C11_escapeStringJson_refines :
  forall s, has_del_c1 s = false -> esc_json_impl s = Some (encode (esc_json_spec s)).
Proof. exact esc_json_refines. Qed.
Print Assumptions C11_escapeStringJson_refines.

(** ... and NOT for all strings: DEL and the C1 controls are left raw where the reference writes a u-escape (known finding C11-escapeStringJson-del-c1-raw) *)
Theorem C11_escapeStringJson_refuted :
  exists s, forallb scalar s = true /\ esc_json_impl s <> Some (encode (esc_json_spec s)).
Proof. exact esc_json_refuted. Qed.
Print Assumptions C11_escapeStringJson_refuted.

(** reading $$ as $ recovers the argument: the escaper is injective and its output has no single $ *)
Theorem C11_escapeStringDollars_roundtrip :
  forall s, undollar (esc_dollars_spec s) = Some s.
Proof. exact undollar_esc. Qed.
Print Assumptions C11_escapeStringDollars_roundtrip.

(** resolving the five predefined entities recovers the argument; the output has no raw less-than, greater-than, quote or apostrophe and no ampersand outside an entity *)
Theorem C11_escapeStringXml_roundtrip :
  forall s, unxml (esc_xml_spec s) = Some s.
Proof. exact unxml_esc. Qed.
Print Assumptions C11_escapeStringXml_roundtrip.

(** POSIX quote removal on the output (one word made of single-quoted and double-quoted sections) recovers the argument *)
Theorem C11_escapeStringBash_roundtrip :
  forall s, sh_unquote ShOut (esc_bash_spec s) = Some s.
Proof. exact sh_unquote_esc. Qed.
Print Assumptions C11_escapeStringBash_roundtrip.

(** strip_prefix('-') + parse_nat::<10> (constants read from the source): a decimal numeral with optional minus whose value is below 2^53 in magnitude parses to exactly that integer *)
Theorem C11_parseInt_exact :
  forall s z, int_spec s = Some z -> (Z.abs z < 2 ^ 53)%Z -> parse_int_impl s = RInt z.
Proof. exact parse_int_exact. Qed.
Print Assumptions C11_parseInt_exact.

(** everything else (empty, a lone minus, a sign other than one leading minus, any non-digit) is an error *)
Theorem C11_parseInt_rejects :
  forall s, int_spec s = None -> parse_int_impl s = RErr.
Proof. exact parse_int_rejects. Qed.
Print Assumptions C11_parseInt_rejects.

(** the same for parseOctal / parseHex with the bases read from the source *)
Theorem C11_parseOctal_parseHex :
  forall s,
    (forall v, nat_spec 8 s = Some v -> (v < 2 ^ 53)%N -> parse_octal_impl s = RInt (Z.of_N v)) /\
    (nat_spec 8 s = None -> parse_octal_impl s = RErr) /\
    (forall v, nat_spec 16 s = Some v -> (v < 2 ^ 53)%N -> parse_hex_impl s = RInt (Z.of_N v)) /\
    (nat_spec 16 s = None -> parse_hex_impl s = RErr).
Proof. exact parse_octal_hex. Qed.
Print Assumptions C11_parseOctal_parseHex.

