(** Statements of the C11 property theorems, pinned: weakening one breaks this file. *)
From Coq Require Import List NArith ZArith Bool.
From JrV Require Import Common.Utf8 C11.Model C11.ProofsB64 C11.Properties.
Import ListNotations.

Check C11_utf8_roundtrip :
  forall s, forallb scalar s = true -> decode (encode s) = Some s.
Check C11_utf8_decode_sound :
  forall bs s, decode bs = Some s -> encode s = bs /\ forallb scalar s = true.
Check C11_utf8_lossy_agrees :
  forall bs s, decode bs = Some s -> decode_lossy bs = s.
Check C11_utf8_prefix :
  forall p s x, forallb scalar p = true -> forallb scalar s = true ->
    encode p ++ x = encode s -> firstn (length p) s = p /\ encode (skipn (length p) s) = x.
Check C11_utf8_injective :
  forall a b, forallb scalar a = true -> forallb scalar b = true -> encode a = encode b -> a = b.
Check C11_utf8_byte_classes :
  forall c, (c <= 1114111)%N ->
    exists h t, enc1 c = h :: t /\ is_cont h = false /\ forallb is_cont t = true.
Check C11_findSubstr_refines :
  forall pat s, forallb scalar pat = true -> forallb scalar s = true ->
    find_impl pat s = find_spec pat s.
Check C11_findSubstr_sound :
  forall pat s i, In i (find_spec pat s) ->
    firstn (length pat) (skipn i s) = pat /\ i + length pat <= length s.
Check C11_findSubstr_complete :
  forall pat s i, pat <> [] ->
    firstn (length pat) (skipn i s) = pat -> i + length pat <= length s -> In i (find_spec pat s).
Check C11_startsWith_refines :
  forall a b, forallb scalar a = true -> forallb scalar b = true ->
    starts_impl a b = starts_spec a b.
Check C11_substr_spec :
  forall s from len, substr_impl s from len = substr_spec s from len.
Check C11_split_spec :
  forall s sep lim, sep <> [] ->
    exists ps, split_spec s sep lim = Some ps /\ join sep ps = s /\ ps <> [] /\
               (forall n, lim = Some n -> length ps <= S n).
Check C11_strReplace_identity :
  forall s from, from <> [] -> replace_spec s from from = Some s.
Check C11_parse_nat_exact :
  forall base s v, (base = 8 \/ base = 10 \/ base = 16)%N ->
    nat_spec base s = Some v -> (v < 2 ^ 53)%N ->
    nat_impl base s = PFin v.
Check C11_parse_nat_rejects :
  forall base s, (base = 8 \/ base = 10 \/ base = 16)%N ->
    nat_spec base s = None -> nat_impl base s = PBad.
Check C11_digit_alphabet :
  forall base c, (base = 8 \/ base = 10 \/ base = 16)%N ->
    (exists d, digit_spec base c = Some d) <->
    ((48 <= c /\ c < 48 + N.min base 10) \/ (base = 16 /\ ((97 <= c <= 102) \/ (65 <= c <= 70))))%N.
Check C11_codepoint_char_inverse :
  forall c, scalar c = true ->
    char_spec (Z.of_N c) = Some [c] /\ codepoint_spec [c] = Some c.
Check C11_char_defined_iff_scalar :
  forall n s, char_spec n = Some s ->
    (0 <= n)%Z /\ scalar (Z.to_N n) = true /\ codepoint_spec s = Some (Z.to_N n).
Check C11_encode_decode_inverse :
  forall s, forallb scalar s = true ->
    spec_call (CDecode (encode s) true) = RStr s /\ spec_call (CDecode (encode s) false) = RStr s.
Check C11_decode_encode_inverse :
  forall bs s, spec_call (CDecode bs false) = RStr s ->
    spec_call (CEncode s) = RBytes bs /\ spec_call (CDecode bs true) = RStr s.
Check C11_base64_roundtrip :
  forall bs, bytes_ok bs = true -> b64_decode (b64_encode bs) = Some bs.
Check C11_base64_length :
  forall bs, length (b64_encode bs) = 4 * ((length bs + 2) / 3).
Check C11_base64_alphabet :
  forall bs, bytes_ok bs = true -> forallb is_b64_char (b64_encode bs) = true.
Check C11_base64_string_roundtrip :
  forall s, forallb scalar s = true ->
    spec_call (CB64Dec (b64_encode (encode s))) = RStr s.

Check C11_utf8_selfsync :
  forall s p x y,
    forallb scalar s = true -> forallb scalar p = true -> p <> [] ->
    encode s = x ++ encode p ++ y ->
    exists a b, s = a ++ p ++ b /\ x = encode a /\ y = encode b.
Check C11_split_refines :
  forall s sep lim, sep <> [] ->
    forallb scalar s = true -> forallb scalar sep = true ->
    bsplit s sep lim = map encode (gsplit sep lim s).
Check C11_endsWith_refines :
  forall a b, forallb scalar a = true -> forallb scalar b = true ->
    ends_impl a b = ends_spec a b.
Check C11_rstrip_refines :
  forall chars s, rstrip_impl s chars = rstrip_spec s chars.
Check C11_strip_spec :
  forall chars s, strip_impl s chars = strip_spec s chars.
Check eq_refl : bsplit [97; 233; 44; 128512]%N [44]%N None = [[97; 195; 169]; [240; 159; 152; 128]]%N.
Check eq_refl : ends_impl [97; 233]%N [233]%N = true.
Check eq_refl : ends_spec [97; 233]%N [169]%N = false.
Check eq_refl : strip_impl [97; 98; 97]%N [97]%N = [98]%N.
(** non-vacuity of the hypotheses and the definitions the statements rest on, pinned by evaluation *)
Check eq_refl : forallb scalar [97; 233; 19990; 128512; 769; 65533]%N = true.
Check eq_refl : scalar 55296%N = false.
Check eq_refl : scalar 1114112%N = false.
Check eq_refl : encode [97; 233; 19990; 128512]%N = [97; 195; 169; 228; 184; 150; 240; 159; 152; 128]%N.
Check eq_refl : decode [237; 160; 128]%N = None.
Check eq_refl : decode [192; 175]%N = None.
Check eq_refl : decode [244; 144; 128; 128]%N = None.
Check eq_refl : decode [226; 130]%N = None.
Check eq_refl : decode_lossy [97; 240; 159; 152; 98; 128; 237; 160; 128]%N = [97; 65533; 98; 65533; 65533; 65533; 65533]%N.
Check eq_refl : find_spec [97; 97]%N [97; 97; 97; 97]%N = [0; 1; 2].
Check eq_refl : find_impl [233]%N [97; 233; 233; 128512; 233]%N = [1; 2; 4].
Check eq_refl : find_spec [233]%N [97; 233; 233; 128512; 233]%N = [1; 2; 4].
Check eq_refl : find_spec []%N [97]%N = [].
Check eq_refl : substr_spec [97; 233; 19990; 128512]%N 1 2 = [233; 19990]%N.
Check eq_refl : substr_spec [97; 98]%N 5 1 = [].
Check eq_refl : split_spec [97; 44; 98; 44; 99]%N [44]%N (Some 1) = Some [[97]; [98; 44; 99]]%N.
Check eq_refl : split_spec [97; 97; 97]%N [97; 97]%N None = Some [[]; [97]]%N.
Check eq_refl : splitr_spec [97; 97; 97]%N [97; 97]%N (Some 1) = Some [[97]; []]%N.
Check eq_refl : split_spec [97]%N [] None = None.
Check eq_refl : replace_spec [97; 97; 97]%N [97; 97]%N [98]%N = Some [98; 97]%N.
Check eq_refl : strip_spec [32; 97; 32; 98; 32]%N [32]%N = [97; 32; 98]%N.
Check eq_refl : rstrip_spec [97; 98; 98]%N [98]%N = [97]%N.
Check eq_refl : nat_spec 16 [102; 70]%N = Some 255%N.
Check eq_refl : nat_spec 8 [56]%N = None.
Check eq_refl : nat_spec 10 []%N = None.
Check eq_refl : int_spec [45; 49; 50]%N = Some (-12)%Z.
Check eq_refl : int_spec [45]%N = None.
Check eq_refl : nat_impl 10 [57; 48; 48; 55; 49; 57; 57; 50; 53; 52; 55; 52; 48; 57; 57; 51]%N = PFin 9007199254740992%N.
Check eq_refl : nat_impl 16 [58]%N = PBad.
Check eq_refl : nat_impl 16 [49; 63]%N = PBad.
Check eq_refl : nat_impl 16 [102; 70; 57]%N = PFin 4089%N.
Check eq_refl : b64_encode [77; 97; 110]%N = [84; 87; 70; 117]%N.
Check eq_refl : b64_encode [77; 97]%N = [84; 87; 69; 61]%N.
Check eq_refl : b64_encode [77]%N = [84; 81; 61; 61]%N.
Check eq_refl : b64_decode [84; 82; 61; 61]%N = None.
Check eq_refl : b64_decode [84; 81; 61]%N = None.
Check eq_refl : b64_decode [84; 81; 61; 61; 84; 81; 61; 61]%N = None.
Check eq_refl : bytes_ok [0; 255; 128]%N = true.
Check eq_refl : char_spec 55296%Z = None.
Check eq_refl : char_spec (-1)%Z = None.
Check eq_refl : esc_bash_spec [97; 39; 98]%N = [39; 97; 39; 34; 39; 34; 39; 98; 39]%N.
Check eq_refl : esc_xml_spec [60; 38]%N = [38; 108; 116; 59; 38; 97; 109; 112; 59]%N.
Check eq_refl : upper_spec [97; 233; 122; 123; 96]%N = [65; 233; 90; 123; 96]%N.
