(** C11, second part — byte-level IMPL-MODELs of the string builtins whose first model was only the
    code-point definition, their reference definitions (SPEC) where Model.v had none, and the
    unescaping relations the escapers are judged against.

    What a Rust [str] holds is [Utf8.encode s]; every [*_impl] below works on those BYTES (or on
    the [char]s the Rust code iterates over, where it does) and takes the tables / constants it is
    driven by from Gen/GenStr.v and Gen/GenEscape.v, regenerated from the source on every run:

      [ascii_map]/[upper_impl]/[lower_impl]  str::to_ascii_uppercase / lowercase: a per-BYTE map
                               ([b ^ 0x20] / [b | 0x20] on ASCII letters), method from GenStr
      [eq_ic_impl]             str::eq_ignore_ascii_case: equal byte length and per-byte compare
      [is_empty_impl]          String::is_empty on the bytes
      [length_impl]            chars().count() = number of non-continuation bytes
      [chars_impl]             ArrValue::chars(str.chars())
      [strip_builtin]          the [is_empty] guards of l/r/stripChars + the trim_* method (GenStr)
      [trim_impl]              trim_matches with the closure's character set (GenStr.trim_filter)
      [replace_bytes]          str::replace = segments between leftmost non-overlapping matches
      [esc_bash_impl]/[esc_dollars_impl]/[str_replace_impl]   on [replace_bytes] (GenStr constants)
      [xml_loop]/[esc_xml_impl]   escape_string_xml_buf: position / split_at / push_str loop with
                               the [found] flag; class and arms from GenStr
      [esc_json_impl]          C05's escape_string_json_buf model on the bytes (GenEscape table)
      [parse_int_impl] ...     strip_prefix(minus) + parse_nat::<BASE> with GenStr's constants
      [resolve_impl]           f.rfind('/') on the bytes, &f[..=pos] ++ r

    SPEC additions (reference std.jsonnet): [chars_ref], [esc_json_spec], [resolve_spec].
    Unescapers (what a consumer of the escaped text does): [undollar], [unxml], [sh_unquote].
    Definitions only. *)
From Coq Require Import List NArith ZArith Bool.
From JrV Require Import Common.Utf8 Gen.GenStr C11.Model.
From JrV Require C05.Model.
Import ListNotations.

(** * asciiUpper / asciiLower / equalsIgnoreCase on bytes *)
(** u8::to_ascii_uppercase: [*self ^ ((self.is_ascii_lowercase() as u8) * 0x20)] *)
Definition up_byte (b : N) : N := if (97 <=? b)%N && (b <=? 122)%N then N.lxor b 32 else b.
(** u8::to_ascii_lowercase: [*self | ((self.is_ascii_uppercase() as u8) * 0x20)] *)
Definition low_byte (b : N) : N := if (65 <=? b)%N && (b <=? 90)%N then N.lor b 32 else b.
(** the method GenStr read from the builtin's body: 1 = to_ascii_uppercase, 2 = to_ascii_lowercase *)
Definition ascii_map (method : N) (bs : list N) : list N :=
  if (method =? 1)%N then map up_byte bs else if (method =? 2)%N then map low_byte bs else bs.
Definition upper_impl (bs : list N) : list N := ascii_map upper_method bs.
Definition lower_impl (bs : list N) : list N := ascii_map lower_method bs.
(** [self.len() == other.len() && iter::zip(self, other).all(|(a, b)| a.eq_ignore_ascii_case(b))],
    u8::eq_ignore_ascii_case = [a.to_ascii_lowercase() == b.to_ascii_lowercase()] *)
Definition eq_ic_impl (a b : list N) : bool :=
  Nat.eqb (length a) (length b) && forallb (fun p => (low_byte (fst p) =? low_byte (snd p))%N) (combine a b).

(** * isEmpty, length, stringChars *)
Definition is_empty_impl (bs : list N) : bool := is_nil bs.
Definition length_impl (bs : list N) : nat := length (filter (fun b => negb (is_cont b)) bs).
(** reference: std.makeArray(std.length(str), function(i) str[i]) *)
Definition chars_ref (s : str) : list str := map (fun i => [nth i s 0%N]) (seq 0 (length s)).
Definition chars_impl (bs : list N) : list (list N) := map enc1 (decode_lossy bs).

(** * lstripChars / rstripChars / stripChars / trim *)
(** 1 = trim_start_matches, 2 = trim_end_matches, 3 = trim_matches *)
Definition strip_by (method : N) (s chars : str) : str :=
  if (method =? 1)%N then lstrip_spec s chars
  else if (method =? 2)%N then rstrip_impl s chars
  else if (method =? 3)%N then strip_impl s chars
  else s.
(** [if str.is_empty() || chars.is_empty() { return Ok(str) }], then the method with the set
    [new_trim_pattern] collects *)
Definition strip_builtin (method : N) (s chars : str) : str :=
  if is_nil (encode s) || is_nil chars then s else strip_by method s chars.
Definition lstrip_chars_impl := strip_builtin lstrip_method.
Definition rstrip_chars_impl := strip_builtin rstrip_method.
Definition strip_chars_impl := strip_builtin strip_method.
Definition trim_impl (s : str) : str := strip_by 3 s trim_filter.

(** * str::replace and the escapers built on it *)
Definition replace_bytes (sb fromb tob : list N) : list N := join tob (gsplit fromb None sb).
Definition str_replace_impl (s from to : str) : option (list N) :=
  if is_nil (encode from) then None else Some (replace_bytes (encode s) (encode from) (encode to)).
(** [let mut out = str_.replace(QUOTE, REPL); out.insert(0, QUOTE); out.push(QUOTE)] *)
Definition esc_bash_impl (s : str) : list N :=
  enc1 bash_quote ++ replace_bytes (encode s) (enc1 bash_quote) (encode bash_repl) ++ enc1 bash_quote.
Definition esc_dollars_impl (s : str) : list N :=
  replace_bytes (encode s) (enc1 dollars_char) (encode dollars_repl).
(** the same escapers with the generated constants, on code points (what the byte versions must equal) *)
Definition repl1 (c : N) (to : str) (x : N) : str := if (x =? c)%N then to else [x].
Definition esc_bash_gen (s : str) : str := bash_quote :: flat_map (repl1 bash_quote bash_repl) s ++ [bash_quote].
Definition esc_dollars_gen (s : str) : str := flat_map (repl1 dollars_char dollars_repl) s.

(** * escapeStringXML: escape_string_xml_buf *)
Fixpoint position (f : N -> bool) (bs : list N) : option nat :=
  match bs with
  | [] => None
  | b :: r => if f b then Some O else option_map S (position f r)
  end.
Definition xml_special (b : N) : bool := memb b xml_class.
Fixpoint assoc (b : N) (l : list (N * list N)) : option (list N) :=
  match l with
  | [] => None
  | (k, v) :: r => if (k =? b)%N then Some v else assoc b r
  end.
(** the [match rem.as_bytes()[0] { .. , _ => unreachable!() }]: [None] is the panic *)
Definition xml_arm (b : N) : option (list N) := option_map encode (assoc b xml_arms).
(** the [while let Some(position) = remaining.bytes().position(..)] loop; result
    (remaining, out, found).  [None]: out of fuel, or the unreachable arm was reached. *)
Fixpoint xml_loop (fuel : nat) (remaining out : list N) (found : bool) : option (list N * list N * bool) :=
  match fuel with
  | O => None
  | S f =>
      match position xml_special remaining with
      | None => Some (remaining, out, found)
      | Some p =>
          let plain := firstn p remaining in
          match skipn p remaining with
          | [] => None
          | b :: rem' =>
              match xml_arm b with
              | None => None
              | Some e => xml_loop f rem' ((out ++ plain) ++ e) true
              end
          end
      end
  end.
Definition esc_xml_impl (bs : list N) : option (list N) :=
  if is_nil bs then Some []
  else match xml_loop (S (length bs)) bs [] false with
       | None => None
       | Some (remaining, out, found) => if found then Some (out ++ remaining) else Some (out ++ bs)
       end.
(** one byte of the input, as the loop treats it *)
Definition xml_byte (b : N) : list N :=
  if xml_special b then match xml_arm b with Some e => e | None => [] end else [b].
Definition xml1_spec (c : N) : str :=
  if (c =? 60)%N then [38; 108; 116; 59]%N
  else if (c =? 62)%N then [38; 103; 116; 59]%N
  else if (c =? 38)%N then [38; 97; 109; 112; 59]%N
  else if (c =? 34)%N then [38; 113; 117; 111; 116; 59]%N
  else if (c =? 39)%N then [38; 97; 112; 111; 115; 59]%N
  else [c].

(** * escapeStringJson / escapeStringPython *)
(** IMPL: manifest.rs escape_string_json_buf on the bytes — C05's transliteration *)
Definition esc_json_impl (s : str) : option (list N) := C05.Model.escape (encode s).
(** SPEC, reference std.jsonnet: the seven short escapes, [\u%04x] for cp < 32 and for
    127 <= cp <= 159, everything else as it is, between double quotes *)
Definition hexdig (d : N) : N := if (d <? 10)%N then (48 + d)%N else (87 + d)%N.
Definition u4 (c : N) : str :=
  [92; 117; hexdig ((c / 4096) mod 16); hexdig ((c / 256) mod 16); hexdig ((c / 16) mod 16); hexdig (c mod 16)]%N.
Definition json1_spec (c : N) : str :=
  if (c =? 34)%N then [92; 34]%N
  else if (c =? 92)%N then [92; 92]%N
  else if (c =? 8)%N then [92; 98]%N
  else if (c =? 12)%N then [92; 102]%N
  else if (c =? 10)%N then [92; 110]%N
  else if (c =? 13)%N then [92; 114]%N
  else if (c =? 9)%N then [92; 116]%N
  else if (c <? 32)%N || ((127 <=? c)%N && (c <=? 159)%N) then u4 c
  else [c].
Definition esc_json_spec (s : str) : str := 34%N :: flat_map json1_spec s ++ [34%N].
(** the known class: DEL and the C1 controls, which the code leaves raw *)
Definition del_c1 (c : N) : bool := (127 <=? c)%N && (c <=? 159)%N.
Definition has_del_c1 (s : str) : bool := existsb del_c1 s.

(** * unescaping relations *)
(** Jsonnet / shell-template text: [$$] stands for [$], a single [$] starts a substitution *)
Fixpoint undollar (s : str) : option str :=
  match s with
  | [] => Some []
  | c :: r =>
      if (c =? 36)%N then
        match r with
        | d :: r' => if (d =? 36)%N then option_map (cons 36%N) (undollar r') else None
        | [] => None
        end
      else option_map (cons c) (undollar r)
  end.
(** XML character data / attribute values: the five predefined entities; a raw less-than, greater-than,
    double quote, apostrophe, or an ampersand that starts no predefined entity is refused *)
Definition xml_entities : list (list N * N) :=
  [([38; 108; 116; 59], 60); ([38; 103; 116; 59], 62); ([38; 97; 109; 112; 59], 38);
   ([38; 113; 117; 111; 116; 59], 34); ([38; 97; 112; 111; 115; 59], 39)]%N.
Fixpoint ent_match (l : list (list N * N)) (s : str) : option (N * nat) :=
  match l with
  | [] => None
  | (e, c) :: r => if prefixb e s then Some (c, length e) else ent_match r s
  end.
Fixpoint unxml_f (fuel : nat) (s : str) : option str :=
  match fuel with
  | O => None
  | S f =>
      match s with
      | [] => Some []
      | c :: r =>
          if (c =? 38)%N then
            match ent_match xml_entities s with
            | Some (ch, n) => option_map (cons ch) (unxml_f f (skipn n s))
            | None => None
            end
          else if (c =? 60)%N || (c =? 62)%N || (c =? 34)%N || (c =? 39)%N then None
          else option_map (cons c) (unxml_f f r)
      end
  end.
Definition unxml (s : str) : option str := unxml_f (S (length s)) s.
(** POSIX sh quote removal on one word made of quoted sections only: inside single quotes every
    character is literal; inside double quotes every character but dollar, backquote, backslash and
    the double quote is literal; anything unquoted is refused *)
Inductive shst := ShOut | ShSingle | ShDouble.
Fixpoint sh_unquote (st : shst) (s : str) : option str :=
  match s with
  | [] => match st with ShOut => Some [] | _ => None end
  | c :: r =>
      match st with
      | ShOut => if (c =? 39)%N then sh_unquote ShSingle r
                 else if (c =? 34)%N then sh_unquote ShDouble r else None
      | ShSingle => if (c =? 39)%N then sh_unquote ShOut r else option_map (cons c) (sh_unquote ShSingle r)
      | ShDouble => if (c =? 34)%N then sh_unquote ShOut r
                    else if (c =? 36)%N || (c =? 96)%N || (c =? 92)%N then None
                    else option_map (cons c) (sh_unquote ShDouble r)
      end
  end.

(** * parseInt / parseOctal / parseHex with the generated constants *)
Definition parse_int_impl (s : str) : res :=
  match s with
  | [] => RErr
  | c :: raw =>
      if (c =? parse_int_minus)%N then
        match raw with
        | [] => RErr
        | _ => pnum_res true (nat_impl parse_int_base_neg raw)
        end
      else pnum_res false (nat_impl parse_int_base_pos s)
  end.
Definition parse_octal_impl (s : str) : res := pnum_res false (nat_impl parse_octal_base s).
Definition parse_hex_impl (s : str) : res := pnum_res false (nat_impl parse_hex_base s).

(** * resolvePath *)
(** reference: local arr = std.split(f, '/'); std.join('/', std.makeArray(std.length(arr) - 1, function(i) arr[i]) + [r]) *)
Definition resolve_spec (f r : str) : str :=
  let arr := gsplit [47%N] None f in join [47%N] (firstn (length arr - 1) arr ++ [r]).
(** [f.rfind(c)]: byte index of the last occurrence *)
Fixpoint rfind (c : N) (bs : list N) : option nat :=
  match bs with
  | [] => None
  | b :: r => match rfind c r with
              | Some p => Some (S p)
              | None => if (b =? c)%N then Some O else None
              end
  end.
Definition resolve_impl (f r : str) : list N :=
  match rfind path_sep (encode f) with
  | None => encode r
  | Some pos => firstn (S pos) (encode f) ++ encode r
  end.

(** * the calls of the second part of the correspondence *)
Inductive call2 :=
| C2Upper (s : str) | C2Lower (s : str) | C2EqIc (a b : str) | C2IsEmpty (s : str) | C2Length (s : str)
| C2Chars (s : str)
| C2Lstrip (s cs : str) | C2Rstrip (s cs : str) | C2Strip (s cs : str) | C2Trim (s : str)
| C2Replace (s from to : str)
| C2EscBash (s : str) | C2EscDollars (s : str) | C2EscXml (s : str) | C2EscJson (s : str)
| C2ParseInt (s : str) | C2ParseOctal (s : str) | C2ParseHex (s : str)
| C2Resolve (f r : str).

Definition spec_call2 (c : call2) : res :=
  match c with
  | C2Upper s => spec_call (CUpper s)
  | C2Lower s => spec_call (CLower s)
  | C2EqIc a b => spec_call (CEqIc a b)
  | C2IsEmpty s => spec_call (CIsEmpty s)
  | C2Length s => spec_call (CLength s)
  | C2Chars s => RStrs (chars_ref s)
  | C2Lstrip s cs => spec_call (CLstrip s cs)
  | C2Rstrip s cs => spec_call (CRstrip s cs)
  | C2Strip s cs => spec_call (CStrip s cs)
  | C2Trim s => spec_call (CTrim s)
  | C2Replace s f t => spec_call (CReplace s f t)
  | C2EscBash s => spec_call (CEscBash s)
  | C2EscDollars s => spec_call (CEscDollars s)
  | C2EscXml s => spec_call (CEscXml s)
  | C2EscJson s => RStr (esc_json_spec s)
  | C2ParseInt s => spec_call (CParseInt s)
  | C2ParseOctal s => spec_call (CParseNat 8 s)
  | C2ParseHex s => spec_call (CParseNat 16 s)
  | C2Resolve f r => RStr (resolve_spec f r)
  end.

(** byte results are read back with the lossy decoder, so a result that is not UTF-8 would show *)
Definition obytes (o : option (list N)) : res :=
  match o with Some bs => RStr (decode_lossy bs) | None => RErr end.
Definition impl_call2 (c : call2) : res :=
  match c with
  | C2Upper s => RStr (decode_lossy (upper_impl (encode s)))
  | C2Lower s => RStr (decode_lossy (lower_impl (encode s)))
  | C2EqIc a b => RBool (eq_ic_impl (encode a) (encode b))
  | C2IsEmpty s => RBool (is_empty_impl (encode s))
  | C2Length s => RInt (Z.of_nat (length_impl (encode s)))
  | C2Chars s => RStrs (map decode_lossy (chars_impl (encode s)))
  | C2Lstrip s cs => RStr (lstrip_chars_impl s cs)
  | C2Rstrip s cs => RStr (rstrip_chars_impl s cs)
  | C2Strip s cs => RStr (strip_chars_impl s cs)
  | C2Trim s => RStr (trim_impl s)
  | C2Replace s f t => obytes (str_replace_impl s f t)
  | C2EscBash s => RStr (decode_lossy (esc_bash_impl s))
  | C2EscDollars s => RStr (decode_lossy (esc_dollars_impl s))
  | C2EscXml s => obytes (esc_xml_impl (encode s))
  | C2EscJson s => obytes (esc_json_impl s)
  | C2ParseInt s => parse_int_impl s
  | C2ParseOctal s => parse_octal_impl s
  | C2ParseHex s => parse_hex_impl s
  | C2Resolve f r => RStr (decode_lossy (resolve_impl f r))
  end.
