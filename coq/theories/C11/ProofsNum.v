(** C11 — parseInt / parseOctal / parseHex: digit classifier and exact accumulation. *)
From Coq Require Import List NArith ZArith Bool Lia.
From JrV Require Import Common.Utf8 C11.Model.
Import ListNotations.
Local Open Scope N_scope.
Local Arguments N.add : simpl never.
Local Arguments N.mul : simpl never.
Local Arguments N.sub : simpl never.
Local Arguments N.leb : simpl never.
Local Arguments N.ltb : simpl never.
Local Arguments N.eqb : simpl never.

Ltac no_if t := lazymatch t with context [if _ then _ else _] => fail | _ => idtac end.
Ltac cmp_all :=
  repeat (match goal with
          | |- context [?a <? ?b] => no_if a; no_if b; destruct (N.ltb_spec a b)
          | |- context [?a <=? ?b] => no_if a; no_if b; destruct (N.leb_spec a b)
          | |- context [?a =? ?b] => no_if a; no_if b; destruct (N.eqb_spec a b)
          end; cbn [andb orb]; try lia).

Lemma digit_agree_base base c : (base = 8 \/ base = 10 \/ base = 16) ->
  digit_impl base c = digit_spec base c.
Proof.
  intros [-> | [-> | ->]]; unfold digit_impl, digit_spec; cmp_all;
    try reflexivity; try (f_equal; lia).
Qed.

Lemma digit_agree base (s : str) : (base = 8 \/ base = 10 \/ base = 16) ->
  forall c, In c s -> digit_impl base c = digit_spec base c.
Proof. intros Hb c _. now apply digit_agree_base. Qed.

Lemma rnd53_small n : n < 2 ^ 53 -> rnd53 n = Some n.
Proof.
  intros H. unfold rnd53. destruct (N.ltb_spec (N.log2 n) 53) as [_|L]; [reflexivity|].
  exfalso. destruct (N.eq_dec n 0) as [->|Hn]; [cbn in L; lia|].
  assert (N.log2 n < 53) by (apply N.log2_lt_pow2; lia). lia.
Qed.

Lemma digits_spec_mono base : 1 <= base -> forall s acc v,
  digits_spec base acc s = Some v -> acc <= v.
Proof.
  intros Hb. induction s as [|c r IH]; intros acc v H; cbn [digits_spec] in H.
  - inversion H. lia.
  - destruct (digit_spec base c) as [d|]; [|discriminate]. apply IH in H. nia.
Qed.

Lemma parse_exact base : 1 <= base -> forall s acc v,
  (forall c, In c s -> digit_impl base c = digit_spec base c) ->
  digits_spec base acc s = Some v -> v < 2 ^ 53 ->
  parse_nat_impl base (PFin acc) s = PFin v.
Proof.
  intros Hb. induction s as [|c r IH]; intros acc v A H Hv; cbn [digits_spec parse_nat_impl] in *.
  - now inversion H.
  - rewrite (A c) by now left. destruct (digit_spec base c) as [d|]; [|discriminate].
    pose proof (digits_spec_mono base Hb _ _ _ H) as M.
    rewrite rnd53_small by lia. apply IH; auto. intros; apply A; now right.
Qed.

Lemma parse_bad base : forall s acc p,
  (forall c, In c s -> digit_impl base c = digit_spec base c) ->
  digits_spec base acc s = None -> parse_nat_impl base p s = PBad.
Proof.
  induction s as [|c r IH]; intros acc p A H; cbn [digits_spec parse_nat_impl] in *.
  - discriminate.
  - rewrite (A c) by now left. destruct (digit_spec base c) as [d|]; [|reflexivity].
    assert (A' : forall c, In c r -> digit_impl base c = digit_spec base c)
      by (intros; apply A; now right).
    destruct p as [a| |].
    + destruct (rnd53 (base * a + d)); eapply IH; eauto.
    + eapply IH; eauto.
    + eapply IH; eauto.
Qed.

(** the two halves of C11_parse_nat_exact *)
Lemma nat_impl_exact base s v : (base = 8 \/ base = 10 \/ base = 16) ->
  nat_spec base s = Some v -> v < 2 ^ 53 -> nat_impl base s = PFin v.
Proof.
  intros Hb H Hv. destruct s as [|c r]; [discriminate|].
  unfold nat_impl, nat_spec in *. apply parse_exact; auto.
  - destruct Hb as [->|[->| ->]]; lia.
  - now apply digit_agree.
Qed.

Lemma nat_impl_bad base s : (base = 8 \/ base = 10 \/ base = 16) ->
  nat_spec base s = None -> nat_impl base s = PBad.
Proof.
  intros Hb H. destruct s as [|c r]; [reflexivity|].
  unfold nat_impl, nat_spec in *. eapply parse_bad; eauto. now apply digit_agree.
Qed.

(** the accepted alphabet of the SPEC classifier is exactly [0-9] / [0-7] / [0-9a-fA-F] *)
Lemma digit_spec_alphabet base c : (base = 8 \/ base = 10 \/ base = 16) ->
  (exists d, digit_spec base c = Some d) <->
  ((48 <= c /\ c < 48 + N.min base 10) \/ (base = 16 /\ ((97 <= c <= 102) \/ (65 <= c <= 70)))).
Proof.
  intros [->|[->| ->]]; unfold digit_spec; cmp_all; split; intros HX;
    try (destruct HX as [d HX]; discriminate); try lia; try (eexists; reflexivity).
Qed.
