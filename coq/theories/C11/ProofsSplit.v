(** C11 — full UTF-8 self-synchronisation, and its consequences: the byte-level search of
    split / splitLimit (str::split, str::splitn) equals the code-point definition; endsWith on
    bytes = on code points. *)
From Coq Require Import List NArith ZArith Bool Lia Arith.
From JrV Require Import Common.Utf8 C11.Model C11.ProofsFind C11.ProofsStr.
Import ListNotations.

Lemma enc1_scalar_shape c : scalar c = true ->
  exists h t, enc1 c = h :: t /\ is_cont h = false /\ forallb is_cont t = true.
Proof. intros H. apply enc1_shape. now apply scalar_le. Qed.

Lemma encode_head_shape p : p <> [] -> forallb scalar p = true ->
  exists h t, encode p = h :: t /\ is_cont h = false.
Proof.
  destruct p as [|c p]; [contradiction|]. intros _ H. cbn [forallb] in H.
  apply andb_true_iff in H as [Hc _].
  destruct (enc1_scalar_shape c Hc) as (h & t & E & Hh & _).
  exists h, (t ++ encode p). cbn [encode flat_map]. rewrite E. split; [reflexivity|assumption].
Qed.

Lemma cont_neq h b : is_cont h = false -> is_cont b = true -> (h =? b)%N = false.
Proof.
  intros Hh Hb. destruct (N.eqb_spec h b) as [->|]; [congruence|reflexivity].
Qed.

(** ** Self-synchronisation: an occurrence of an encoding inside an encoding starts at a
    character boundary and is an occurrence of the code points *)
Lemma selfsync : forall s p x y,
  forallb scalar s = true -> forallb scalar p = true -> p <> [] ->
  encode s = x ++ encode p ++ y ->
  exists a b, s = a ++ p ++ b /\ x = encode a /\ y = encode b.
Proof.
  induction s as [|c r IH]; intros p x y Hs Hp Hne E.
  - exfalso. cbn in E. symmetry in E. apply app_eq_nil in E as [_ E].
    apply app_eq_nil in E as [E _]. apply encode_nil_inv in E. contradiction.
  - assert (BASE : forall y', encode (c :: r) = encode p ++ y' ->
               exists b, c :: r = p ++ b /\ y' = encode b).
    { intros y' E'. symmetry in E'. apply encode_prefix in E' as [F G]; auto.
      exists (skipn (length p) (c :: r)). split; [|now symmetry].
      rewrite <- F at 1. symmetry. apply firstn_skipn. }
    destruct x as [|x1 x'].
    + destruct (BASE y E) as (b & Eb & Ey). exists [], b. auto.
    + pose proof Hs as Hs'. cbn [forallb] in Hs'. apply andb_true_iff in Hs' as [Hc Hr].
      destruct (enc1_scalar_shape c Hc) as (h & t & Ec & Hh & Ht).
      cbn [encode flat_map] in E. fold (encode r) in E. rewrite Ec in E. cbn [app] in E.
      injection E as E1 E2. subst x1.
      apply app_eq_app in E2 as [l [[Et El]|[Ex El]]].
      * (* the occurrence would start inside the character: impossible unless l = [] *)
        destruct l as [|l1 l'].
        -- rewrite app_nil_r in Et. subst x'. cbn [app] in El.
           destruct (IH p [] y Hr Hp Hne) as (a & b & Er & Ea & Ey); [now symmetry|].
           symmetry in Ea. apply encode_nil_inv in Ea. subst a.
           exists [c], b. cbn [app] in *. split; [now rewrite Er|]. split; [|assumption].
           cbn [encode flat_map]. now rewrite Ec, app_nil_r.
        -- exfalso. destruct (encode_head_shape p Hne Hp) as (hp & tp & Ep & Hhp).
           rewrite Ep in El. cbn [app] in El. injection El as E3 _. subst l1.
           rewrite Et, forallb_app in Ht. apply andb_true_iff in Ht as [_ Ht].
           cbn [forallb] in Ht. apply andb_true_iff in Ht as [Ht _]. congruence.
      * destruct (IH p l y Hr Hp Hne El) as (a & b & Er & Ea & Ey).
        exists (c :: a), b. split; [cbn [app]; now rewrite Er|]. split; [|assumption].
        cbn [encode flat_map]. fold (encode a). rewrite Ec, Ex, Ea. reflexivity.
Qed.

(** ** split: byte-level search = code-point definition *)
Lemma gsplit_f_cons f sep lim cur x r :
  gsplit_f (S f) sep lim cur (x :: r) =
  if prefixb sep (x :: r) && lim_ok lim
  then rev cur :: gsplit_f f sep (lim_pred lim) [] (skipn (length sep) (x :: r))
  else gsplit_f f sep lim (x :: cur) r.
Proof. reflexivity. Qed.

(** continuation bytes are stepped over: no separator can start there *)
Lemma cont_run hs ps : is_cont hs = false -> forall t f lim cur rest,
  forallb is_cont t = true ->
  gsplit_f (length t + f) (hs :: ps) lim cur (t ++ rest) =
  gsplit_f f (hs :: ps) lim (rev t ++ cur) rest.
Proof.
  intros Hh. induction t as [|b t IH]; intros f lim cur rest Ht; [reflexivity|].
  cbn [forallb] in Ht. apply andb_true_iff in Ht as [Hb Ht].
  cbn [length Nat.add app]. rewrite gsplit_f_cons. cbn [prefixb].
  rewrite (cont_neq hs b Hh Hb). cbn [andb]. rewrite IH by assumption.
  cbn [rev]. now rewrite <- app_assoc.
Qed.

Lemma split_refine sep : sep <> [] -> forallb scalar sep = true ->
  forall fc s lim cur fb curb,
    forallb scalar s = true -> length s < fc -> length (encode s) < fb ->
    rev curb = encode (rev cur) ->
    gsplit_f fb (encode sep) lim curb (encode s) = map encode (gsplit_f fc sep lim cur s).
Proof.
  intros Hne Hsep.
  destruct (encode_head_shape sep Hne Hsep) as (hs & ps & Esep & Hhs).
  assert (Lsep : 1 <= length sep) by (destruct sep; [contradiction|cbn; lia]).
  assert (Lsepb : 1 <= length (encode sep)) by (rewrite Esep; cbn; lia).
  induction fc as [|fc IH]; intros s lim cur fb curb Hs Lc Lb Hcur; [lia|].
  destruct fb as [|fb]; [lia|].
  destruct s as [|c r].
  - cbn [encode flat_map gsplit_f map]. now rewrite Hcur.
  - pose proof Hs as Hs'. cbn [forallb] in Hs'. apply andb_true_iff in Hs' as [Hc Hr].
    destruct (enc1_scalar_shape c Hc) as (h & t & Ec & Hh & Ht).
    assert (EE : encode (c :: r) = h :: t ++ encode r).
    { cbn [encode flat_map]. now rewrite Ec. }
    (* the branch where no split happens here *)
    assert (ELSE : gsplit_f fb (encode sep) lim (h :: curb) (t ++ encode r)
                   = map encode (gsplit_f fc sep lim (c :: cur) r)).
    { rewrite EE in Lb. cbn [length] in Lb. rewrite app_length in Lb.
      replace fb with (length t + (fb - length t)) by lia.
      rewrite Esep, cont_run by assumption. rewrite <- Esep.
      apply IH; auto; [cbn [length] in Lc; lia | lia |].
      rewrite rev_app_distr, rev_involutive. cbn [rev]. rewrite Hcur, <- app_assoc. cbn [app].
      rewrite encode_app. cbn [encode flat_map]. now rewrite Ec, app_nil_r. }
    rewrite gsplit_f_cons. rewrite EE, gsplit_f_cons. rewrite <- EE.
    rewrite (prefixb_encode sep (c :: r)) by assumption.
    destruct (prefixb sep (c :: r)) eqn:P; cbn [andb]; [|exact ELSE].
    destruct (lim_ok lim); [|exact ELSE].
    apply prefixb_iff in P as [x P]. cbn [map]. rewrite Hcur. f_equal.
    assert (Hx : forallb scalar x = true).
    { rewrite P, forallb_app in Hs. now apply andb_true_iff in Hs as [_ Hs]. }
    rewrite P, encode_app, !skipn_length_app.
    apply IH; auto.
    + rewrite P, app_length in Lc. lia.
    + rewrite P, encode_app, app_length in Lb. lia.
Qed.

Lemma bsplit_refines s sep lim : sep <> [] ->
  forallb scalar s = true -> forallb scalar sep = true ->
  bsplit s sep lim = map encode (gsplit sep lim s).
Proof.
  intros Hne Hs Hsep. unfold bsplit, gsplit. apply split_refine; auto.
Qed.

(** ** endsWith *)
Lemma suffix_iff (p : list N) : forall s, prefixb (rev p) (rev s) = true <-> exists x, s = x ++ p.
Proof.
  intros s. rewrite prefixb_iff. split.
  - intros [x E]. exists (rev x). apply (f_equal (@rev N)) in E.
    rewrite rev_involutive, rev_app_distr, rev_involutive in E. assumption.
  - intros [x ->]. exists (rev x). apply rev_app_distr.
Qed.

Lemma ends_spec_iff a b : ends_spec a b = true <-> exists x, a = x ++ b.
Proof.
  unfold ends_spec. destruct (Nat.ltb_spec (length a) (length b)) as [Hlt|Hge].
  - split; [discriminate|]. intros [x ->]. rewrite app_length in Hlt. lia.
  - rewrite <- substr_refines. unfold substr_impl. rewrite list_eqb_eq.
    rewrite firstn_all2 by (rewrite skipn_length; lia). split.
    + intros E. exists (firstn (length a - length b) a).
      transitivity (firstn (length a - length b) a ++ skipn (length a - length b) a);
        [symmetry; apply firstn_skipn | f_equal; exact E].
    + intros [x ->]. rewrite app_length, Nat.add_sub. apply skipn_length_app.
Qed.

Lemma ends_refines a b : forallb scalar a = true -> forallb scalar b = true ->
  ends_impl a b = ends_spec a b.
Proof.
  intros Ha Hb. apply eq_iff_eq_true. unfold ends_impl. rewrite suffix_iff, ends_spec_iff.
  destruct b as [|b0 b'].
  - split; intros _; [exists a | exists (encode a)]; now rewrite app_nil_r.
  - split.
    + intros [x E]. rewrite <- (app_nil_r (encode (b0 :: b'))) in E.
      apply selfsync in E as (p & q & Ea & _ & Eq); auto; [|discriminate].
      symmetry in Eq. apply encode_nil_inv in Eq. subst q. exists p. now rewrite app_nil_r in Ea.
    + intros [x ->]. exists (encode x). apply encode_app.
Qed.

(** ** stripChars family: scanning from the end / both ends = the recursive definitions *)
Lemma rstrip_spec_snoc chars c : forall s,
  rstrip_spec (s ++ [c]) chars = if memb c chars then rstrip_spec s chars else s ++ [c].
Proof.
  induction s as [|x s IH].
  - cbn [app rstrip_spec]. destruct (memb c chars); reflexivity.
  - cbn [app rstrip_spec]. rewrite IH. destruct (memb c chars); [reflexivity|].
    destruct s; reflexivity.
Qed.

Lemma rstrip_refines chars : forall s, rstrip_impl s chars = rstrip_spec s chars.
Proof.
  unfold rstrip_impl. induction s as [|c s IH] using rev_ind; [reflexivity|].
  rewrite rev_app_distr, rstrip_spec_snoc. cbn [rev app lstrip_spec].
  destruct (memb c chars); [exact IH|]. cbn [rev]. now rewrite rev_involutive.
Qed.

Lemma rstrip_nil_all chars : forall s, rstrip_spec s chars = [] -> lstrip_spec s chars = [].
Proof.
  induction s as [|c s IH]; [reflexivity|]. cbn [rstrip_spec lstrip_spec].
  destruct (rstrip_spec s chars) eqn:E; [|discriminate].
  destruct (memb c chars); [intros _; now apply IH|discriminate].
Qed.

Lemma lstrip_nil_all chars : forall s, lstrip_spec s chars = [] -> rstrip_spec s chars = [].
Proof.
  induction s as [|c s IH]; [reflexivity|]. cbn [rstrip_spec lstrip_spec].
  destruct (memb c chars); [|discriminate]. intros H. now rewrite IH.
Qed.

Lemma strip_commute chars : forall s,
  lstrip_spec (rstrip_spec s chars) chars = rstrip_spec (lstrip_spec s chars) chars.
Proof.
  induction s as [|c s IH]; [reflexivity|]. cbn [rstrip_spec lstrip_spec].
  destruct (memb c chars) eqn:M.
  - destruct (rstrip_spec s chars) as [|t0 t] eqn:E.
    + cbn [lstrip_spec]. symmetry. apply lstrip_nil_all. now apply rstrip_nil_all.
    + cbn [lstrip_spec]. rewrite M. exact IH.
  - cbn [rstrip_spec]. destruct (rstrip_spec s chars) as [|t0 t]; cbn [lstrip_spec]; now rewrite M.
Qed.

Lemma strip_refines chars s : strip_impl s chars = strip_spec s chars.
Proof. unfold strip_impl, strip_spec. now rewrite rstrip_refines, strip_commute. Qed.
