(** C11 — std.findSubstr: the walk over char_indices() with byte bound and byte slices is the
    code-point definition; startsWith on bytes = on code points. *)
From Coq Require Import List NArith ZArith Bool Lia Arith.
From JrV Require Import Common.Utf8 C11.Model.
Import ListNotations.

Lemma list_eqb_eq a : forall b, list_eqb a b = true <-> a = b.
Proof.
  induction a as [|x a IH]; intros [|y b]; cbn [list_eqb]; try (split; [discriminate|congruence]).
  - tauto.
  - rewrite andb_true_iff, N.eqb_eq, IH. split; [intros [-> ->]; reflexivity|].
    intros H; inversion H; auto.
Qed.

Lemma prefixb_iff p : forall s, prefixb p s = true <-> exists x, s = p ++ x.
Proof.
  induction p as [|a p IH]; intros s; cbn [prefixb].
  - split; [intros _; exists s; reflexivity|reflexivity].
  - destruct s as [|b s].
    + split; [discriminate|]. intros [x H]. discriminate.
    + rewrite andb_true_iff, N.eqb_eq, IH. split.
      * intros [-> [x ->]]. exists x. reflexivity.
      * intros [x H]. inversion H; subst. split; [reflexivity|]. exists x. reflexivity.
Qed.

Lemma list_eqb_firstn p : forall s, list_eqb (firstn (length p) s) p = prefixb p s.
Proof.
  induction p as [|a p IH]; intros s; cbn [length firstn].
  - reflexivity.
  - destruct s as [|b s]; cbn [firstn list_eqb prefixb]; [reflexivity|].
    rewrite IH, N.eqb_sym. reflexivity.
Qed.

Lemma prefixb_short p : forall s, length s < length p -> prefixb p s = false.
Proof.
  intros s H. destruct (prefixb p s) eqn:E; [|reflexivity].
  apply prefixb_iff in E as [x ->]. rewrite app_length in H. lia.
Qed.

Lemma prefixb_encode p s : forallb scalar p = true -> forallb scalar s = true ->
  prefixb (encode p) (encode s) = prefixb p s.
Proof.
  intros Hp Hs. apply eq_iff_eq_true. rewrite !prefixb_iff. split.
  - intros [x E]. symmetry in E. apply encode_prefix in E as [F _]; auto.
    exists (skipn (length p) s). rewrite <- F at 1. symmetry. apply firstn_skipn.
  - intros [x ->]. exists (encode x). apply encode_app.
Qed.

Lemma skipn_length_app {A} (a b : list A) : skipn (length a) (a ++ b) = b.
Proof. induction a; [reflexivity|assumption]. Qed.

Lemma encode_nil_inv s : encode s = [] -> s = [].
Proof.
  destruct s as [|c s]; [reflexivity|]. cbn [encode flat_map]. intros H.
  apply app_eq_nil in H as [H _]. now apply enc1_nonempty in H.
Qed.

(** the recursive form both sides are compared with *)
Fixpoint find_rec (pat s : str) (k : nat) : list nat :=
  match s with
  | [] => []
  | c :: r => (if prefixb pat s then [k] else []) ++ find_rec pat r (S k)
  end.

Lemma find_rec_short pat : forall s k, length (encode s) < length (encode pat) -> find_rec pat s k = [].
Proof.
  induction s as [|c r IH]; intros k H; [reflexivity|]. cbn [find_rec].
  destruct (prefixb pat (c :: r)) eqn:E.
  - exfalso. apply prefixb_iff in E as [x E]. rewrite E, encode_app, app_length in H. lia.
  - cbn [app]. apply IH. cbn [encode flat_map] in H. fold (encode r) in H.
    rewrite app_length in H. lia.
Qed.

Lemma find_rec_short_cp pat : forall s k, length s < length pat -> find_rec pat s k = [].
Proof.
  induction s as [|c r IH]; intros k H; [reflexivity|]. cbn [find_rec].
  rewrite prefixb_short by assumption. cbn [app]. apply IH. cbn [length] in H. lia.
Qed.

Lemma walk pat : forallb scalar pat = true -> forall s pre k sb off,
  forallb scalar s = true -> sb = encode pre ++ encode s -> off = length (encode pre) ->
  length (encode pat) <= length sb ->
  map fst (filter (fun p => list_eqb (bslice sb (snd p) (snd p + length (encode pat))) (encode pat))
            (enumerate_from k
               (take_while (fun i => i <=? length sb - length (encode pat)) (char_offsets s off))))
  = find_rec pat s k.
Proof.
  intros Hp. induction s as [|c r IH]; intros pre k sb off Hs Esb Eoff Hlen; [reflexivity|].
  cbn [char_offsets take_while].
  assert (Lsb : length sb = off + length (encode (c :: r))) by (subst; apply app_length).
  destruct (Nat.leb_spec off (length sb - length (encode pat))) as [Hle|Hgt].
  - cbn [enumerate_from filter snd].
    assert (T : list_eqb (bslice sb off (off + length (encode pat))) (encode pat)
                = prefixb pat (c :: r)).
    { unfold bslice. replace (off + length (encode pat) - off) with (length (encode pat)) by lia.
      rewrite Esb, Eoff, skipn_length_app, list_eqb_firstn. now apply prefixb_encode. }
    rewrite T. cbn [find_rec].
    assert (R : map fst (filter
               (fun p => list_eqb (bslice sb (snd p) (snd p + length (encode pat))) (encode pat))
               (enumerate_from (S k)
                  (take_while (fun i => i <=? length sb - length (encode pat))
                     (char_offsets r (off + length (enc1 c)))))) = find_rec pat r (S k)).
    { cbn [forallb] in Hs. apply andb_true_iff in Hs as [_ Hr].
      apply (IH (pre ++ [c])); auto.
      - rewrite Esb, encode_app. cbn [encode flat_map]. rewrite app_nil_r, <- app_assoc. reflexivity.
      - rewrite Eoff, encode_app, app_length. cbn [encode flat_map]. now rewrite app_nil_r. }
    destruct (prefixb pat (c :: r)); cbn [map fst app]; now rewrite R.
  - cbn [enumerate_from filter map]. symmetry. apply find_rec_short. lia.
Qed.

Lemma find_impl_rec pat s : pat <> [] -> forallb scalar pat = true -> forallb scalar s = true ->
  find_impl pat s = find_rec pat s 0.
Proof.
  intros Hne Hp Hs. unfold find_impl.
  assert (Np : is_nil (encode pat) = false).
  { destruct (encode pat) eqn:E; [apply encode_nil_inv in E; contradiction|reflexivity]. }
  rewrite Np. destruct s as [|c r]; [reflexivity|].
  assert (Ns : is_nil (encode (c :: r)) = false).
  { destruct (encode (c :: r)) eqn:E; [apply encode_nil_inv in E; discriminate|reflexivity]. }
  rewrite Ns. cbn [orb].
  destruct (Nat.ltb_spec (length (encode (c :: r))) (length (encode pat))) as [Hlt|Hge].
  - symmetry. now apply find_rec_short.
  - apply (walk pat Hp (c :: r) [] 0 (encode (c :: r)) 0); auto.
Qed.

(** spec side *)
Lemma filter_map_S (f : nat -> bool) l : filter f (map S l) = map S (filter (fun i => f (S i)) l).
Proof.
  induction l as [|x l IH]; [reflexivity|]. cbn [map filter]. destruct (f (S x)); cbn [map]; now rewrite IH.
Qed.

Lemma filter_none {A} (f : A -> bool) l : (forall x, In x l -> f x = false) -> filter f l = [].
Proof.
  induction l as [|x l IH]; intros H; [reflexivity|]. cbn [filter].
  rewrite (H x) by now left. apply IH. intros; apply H; now right.
Qed.

Lemma find_rec_filter pat : forall s k,
  find_rec pat s k = map (Nat.add k) (filter (fun i => prefixb pat (skipn i s)) (seq 0 (length s))).
Proof.
  induction s as [|c r IH]; intros k; [reflexivity|].
  cbn [find_rec length seq filter]. change (skipn 0 (c :: r)) with (c :: r).
  rewrite <- seq_shift, filter_map_S. cbn [skipn]. rewrite IH.
  assert (M : map (Nat.add (S k)) (filter (fun i => prefixb pat (skipn i r)) (seq 0 (length r)))
            = map (Nat.add k) (map S (filter (fun i => prefixb pat (skipn i r)) (seq 0 (length r))))).
  { rewrite map_map. apply map_ext. intros; lia. }
  rewrite M. destruct (prefixb pat (c :: r)); cbn [map app]; [rewrite Nat.add_0_r|]; reflexivity.
Qed.

Lemma find_spec_rec pat s : pat <> [] -> find_spec pat s = find_rec pat s 0.
Proof.
  intros Hne. unfold find_spec. destruct pat as [|p0 pat']; [contradiction|]. cbn [is_nil orb].
  set (pat := p0 :: pat') in *.
  destruct s as [|c0 s']; [reflexivity|]. cbn [is_nil]. set (s := c0 :: s') in *.
  destruct (Nat.ltb_spec (length s) (length pat)) as [Hlt|Hge].
  - symmetry. now apply find_rec_short_cp.
  - rewrite find_rec_filter.
    rewrite (map_ext (Nat.add 0) (fun x => x)) by reflexivity. rewrite map_id.
    rewrite (filter_ext _ (fun i => prefixb pat (skipn i s))) by (intros; apply list_eqb_firstn).
    assert (Hl : length pat >= 1) by (cbn; lia).
    pose proof (seq_app (length s - length pat + 1) (length pat - 1) 0) as Sq.
    cbn [Nat.add] in Sq.
    replace (length s - length pat + 1 + (length pat - 1)) with (length s) in Sq by lia.
    rewrite Sq, filter_app.
    rewrite (filter_none _ (seq (length s - length pat + 1) (length pat - 1))); [now rewrite app_nil_r|].
    intros i Hi. apply in_seq in Hi. apply prefixb_short. rewrite skipn_length. lia.
Qed.

Lemma find_refines pat s : forallb scalar pat = true -> forallb scalar s = true ->
  find_impl pat s = find_spec pat s.
Proof.
  intros Hp Hs. destruct pat as [|p0 pat'].
  - reflexivity.
  - rewrite find_impl_rec, find_spec_rec by (auto; discriminate). reflexivity.
Qed.

(** every reported index is an occurrence, and every occurrence is reported *)
Lemma find_spec_sound pat s i : In i (find_spec pat s) ->
  firstn (length pat) (skipn i s) = pat /\ i + length pat <= length s.
Proof.
  unfold find_spec. destruct (is_nil pat || is_nil s || (length s <? length pat)) eqn:G; [intros []|].
  intros H. apply filter_In in H as [Hi Ht]. apply list_eqb_eq in Ht. apply in_seq in Hi.
  apply orb_false_iff in G as [_ G]. apply Nat.ltb_ge in G. split; [assumption|lia].
Qed.

Lemma find_spec_complete pat s i : pat <> [] ->
  firstn (length pat) (skipn i s) = pat -> i + length pat <= length s -> In i (find_spec pat s).
Proof.
  intros Hne Ht Hi. unfold find_spec.
  destruct pat as [|p0 pat']; [contradiction|]. cbn [is_nil orb].
  destruct s as [|c0 s']; [cbn in Hi; lia|]. cbn [is_nil].
  destruct (Nat.ltb_spec (length (c0 :: s')) (length (p0 :: pat'))) as [Hlt|Hge]; [lia|].
  apply filter_In. split; [apply in_seq; lia|]. now apply list_eqb_eq.
Qed.

(** startsWith *)
Lemma substr_firstn (s : str) n : substr_spec s 0 n = firstn n s.
Proof.
  unfold substr_spec. rewrite Nat.sub_0_r. revert n.
  induction s as [|x s IH]; intros n.
  - rewrite Nat.min_0_r. now destruct n.
  - destruct n as [|n]; [reflexivity|]. cbn [length Nat.min seq map firstn nth Nat.add].
    f_equal. rewrite <- seq_shift, map_map. rewrite <- IH. apply map_ext. intros a.
    rewrite !Nat.add_0_r. reflexivity.
Qed.

Lemma starts_spec_prefixb a b : starts_spec a b = prefixb b a.
Proof.
  unfold starts_spec. destruct (Nat.ltb_spec (length a) (length b)).
  - symmetry. now apply prefixb_short.
  - rewrite substr_firstn. apply list_eqb_firstn.
Qed.

Lemma starts_refines a b : forallb scalar a = true -> forallb scalar b = true ->
  starts_impl a b = starts_spec a b.
Proof. intros. unfold starts_impl. rewrite starts_spec_prefixb. now apply prefixb_encode. Qed.
