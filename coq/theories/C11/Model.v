(** C11 — stdlib string, encoding, parsing and hashing functions match their definitions.

    Strings are lists of Unicode code points ([list N]); what a Rust [str]/[IStr] holds is
    [Utf8.encode s].  Byte arrays are [list N] (< 256).

    SPEC ([*_spec]): the documented definitions of the std functions (the reference
    std.jsonnet formulations: [makeArray]/[filter]/[range] over code-point indices, the [aux]
    loop of [splitLimit], [parse_nat]'s fold, RFC 3629, RFC 4648).
    IMPL-MODEL ([*_impl]): the algorithms of crates/jrsonnet-stdlib/src/{strings,encoding,misc}.rs
    where they are not the definition itself:
      [find_impl]      findSubstr's walk over [char_indices()] with a BYTE bound and BYTE slices
      [substr_impl]    [chars().skip(from).take(len)]
      [rstrip_impl]    [trim_end_matches] (scan from the end), [strip_impl] = [trim_matches]
      [digit_impl]/[parse_nat_impl]  the digit classifier with its checked subtractions and the
                       [mul_add] accumulation on integer-valued doubles ([rnd53] = one rounding
                       to 53 significant bits per step, overflow to infinity)
      [bsplit]         [splitn(n+1)] as leftmost non-overlapping search on the UTF-8 BYTES
      [b64_encode]/[b64_decode]  the base64 crate's STANDARD engine (canonical padding,
                       no trailing bits)
    Definitions only; proofs live in Proofs.v. *)
From Coq Require Import List NArith ZArith Bool.
From JrV Require Import Common.Utf8.
Import ListNotations.

Definition str := list N.

(** * Helpers *)
Fixpoint list_eqb (a b : list N) : bool :=
  match a, b with
  | [], [] => true
  | x :: a', y :: b' => (x =? y)%N && list_eqb a' b'
  | _, _ => false
  end.

Fixpoint prefixb (p s : list N) : bool :=
  match p, s with
  | [], _ => true
  | x :: p', y :: s' => (x =? y)%N && prefixb p' s'
  | _ :: _, [] => false
  end.

Definition is_nil {A} (l : list A) : bool := match l with [] => true | _ => false end.
Definition memb (c : N) (cs : list N) : bool := existsb (N.eqb c) cs.

Fixpoint join (sep : list N) (ps : list (list N)) : list N :=
  match ps with
  | [] => []
  | [p] => p
  | p :: rest => p ++ sep ++ join sep rest
  end.

(** * std.length, std.substr, std.stringChars, std.isEmpty *)
Definition length_spec (s : str) : nat := length s.
(** std.substr: join('', makeArray(max(0, min(len, |s| - from)), function(i) s[i + from])) *)
Definition substr_spec (s : str) (from len : nat) : str :=
  map (fun i => nth (i + from) s 0%N) (seq 0 (Nat.min len (length s - from))).
(** strings.rs: str.chars().skip(from).take(len).collect() *)
Definition substr_impl (s : str) (from len : nat) : str := firstn len (skipn from s).
Definition chars_spec (s : str) : list str := map (fun c => [c]) s.
Definition is_empty_spec (s : str) : bool := Nat.eqb (length s) 0.

(** * std.findSubstr *)
(** reference: if |pat| = 0 or |s| = 0 or |pat| > |s| then [] else
    filter(function(i) s[i : i + |pat|] == pat, range(0, |s| - |pat|)) — code-point indices *)
Definition find_spec (pat s : str) : list nat :=
  if is_nil pat || is_nil s || (length s <? length pat)%nat then []
  else filter (fun i => list_eqb (firstn (length pat) (skipn i s)) pat)
              (seq 0 (length s - length pat + 1)).

(** byte offsets at which the characters of [s] start, as [char_indices()] yields them *)
Fixpoint char_offsets (s : str) (off : nat) : list nat :=
  match s with
  | [] => []
  | c :: r => off :: char_offsets r (off + length (enc1 c))
  end.
Fixpoint take_while {A} (f : A -> bool) (l : list A) : list A :=
  match l with
  | [] => []
  | x :: r => if f x then x :: take_while f r else []
  end.
Fixpoint enumerate_from {A} (k : nat) (l : list A) : list (nat * A) :=
  match l with [] => [] | x :: r => (k, x) :: enumerate_from (S k) r end.
Definition bslice (bs : list N) (i j : nat) : list N := firstn (j - i) (skipn i bs).

(** strings.rs builtin_find_substr, on the bytes of the two strings *)
Definition find_impl (pat s : str) : list nat :=
  let pb := encode pat in
  let sb := encode s in
  if is_nil pb || is_nil sb || (length sb <? length pb)%nat then []
  else
    let max_pos := (length sb - length pb)%nat in
    let idx := take_while (fun i => (i <=? max_pos)%nat) (char_offsets s 0) in
    map fst (filter (fun p => list_eqb (bslice sb (snd p) (snd p + length pb)) pb)
                    (enumerate_from 0 idx)).

(** * std.split / splitLimit / splitLimitR / strReplace *)
(** the [aux] loop of std.splitLimit, on any element lists: scan left to right; where [sep]
    occurs and splits remain, close the current piece and skip |sep| elements. [lim = None]
    is maxsplits = -1.  [fuel] only makes the skip structurally acceptable. *)
Definition lim_ok (lim : option nat) : bool :=
  match lim with None => true | Some n => (0 <? n)%nat end.
Definition lim_pred (lim : option nat) : option nat := option_map pred lim.

Fixpoint gsplit_f (fuel : nat) (sep : list N) (lim : option nat) (cur s : list N) : list (list N) :=
  match fuel with
  | O => [rev cur ++ s]
  | S f =>
      match s with
      | [] => [rev cur]
      | c :: r =>
          if prefixb sep s && lim_ok lim
          then rev cur :: gsplit_f f sep (lim_pred lim) [] (skipn (length sep) s)
          else gsplit_f f sep lim (c :: cur) r
      end
  end.
Definition gsplit (sep : list N) (lim : option nat) (s : list N) : list (list N) :=
  gsplit_f (S (length s)) sep lim [] s.

(** SPEC on code points ([sep] must be non-empty: the documented functions assert it) *)
Definition split_spec (s sep : str) (lim : option nat) : option (list str) :=
  if is_nil sep then None else Some (gsplit sep lim s).
(** IMPL-MODEL: [str::splitn(n+1, sep)] / [str::split(sep)] search the BYTES *)
Definition bsplit (s sep : str) (lim : option nat) : list (list N) :=
  gsplit (encode sep) lim (encode s).
(** splitLimitR: reference = reverse everything, splitLimit, reverse back *)
Definition splitr_spec (s sep : str) (lim : option nat) : option (list str) :=
  if is_nil sep then None
  else match lim with
       | None => Some (gsplit sep None s)
       | Some _ => Some (map (@rev N) (rev (gsplit (rev sep) lim (rev s))))
       end.
Definition replace_spec (s from to : str) : option str :=
  if is_nil from then None else Some (join to (gsplit from None s)).

(** * startsWith / endsWith *)
Definition starts_spec (a b : str) : bool :=
  if (length a <? length b)%nat then false else list_eqb (substr_spec a 0 (length b)) b.
Definition ends_spec (a b : str) : bool :=
  if (length a <? length b)%nat then false
  else list_eqb (substr_spec a (length a - length b) (length b)) b.
(** misc.rs: a.starts_with(b) / a.ends_with(b) on the bytes *)
Definition starts_impl (a b : str) : bool := prefixb (encode b) (encode a).
Definition ends_impl (a b : str) : bool := prefixb (rev (encode b)) (rev (encode a)).

(** * stripChars family, trim *)
Fixpoint lstrip_spec (s chars : str) : str :=
  match s with
  | c :: r => if memb c chars then lstrip_spec r chars else s
  | [] => []
  end.
(** reference rstripChars: drop the last character while it is in [chars] *)
Fixpoint rstrip_spec (s chars : str) : str :=
  match s with
  | [] => []
  | c :: r =>
      match rstrip_spec r chars with
      | [] => if memb c chars then [] else [c]
      | t => c :: t
      end
  end.
Definition strip_spec (s chars : str) : str := lstrip_spec (rstrip_spec s chars) chars.
(** strings.rs: trim_end_matches scans from the end; trim_matches trims the start, then the end
    of what is left *)
Definition rstrip_impl (s chars : str) : str := rev (lstrip_spec (rev s) chars).
Definition strip_impl (s chars : str) : str := rstrip_impl (lstrip_spec s chars) chars.
Definition trim_chars : str := [32; 9; 10; 12; 13; 133; 160]%N.
Definition trim_spec (s : str) : str := strip_spec s trim_chars.

(** * asciiUpper / asciiLower / equalsIgnoreCase *)
Definition up1 (c : N) : N := if (97 <=? c)%N && (c <=? 122)%N then (c - 32)%N else c.
Definition low1 (c : N) : N := if (65 <=? c)%N && (c <=? 90)%N then (c + 32)%N else c.
Definition upper_spec (s : str) : str := map up1 s.
Definition lower_spec (s : str) : str := map low1 s.
Definition eq_ic_spec (a b : str) : bool := list_eqb (lower_spec a) (lower_spec b).

(** * codepoint / char *)
Definition codepoint_spec (s : str) : option N := match s with [c] => Some c | _ => None end.
Definition char_spec (n : Z) : option str :=
  if (n <? 0)%Z then None else if scalar (Z.to_N n) then Some [Z.to_N n] else None.

(** * escapeString{Bash,Dollars,Xml} (escapeStringJson/Python: see C05) *)
Definition esc_bash_spec (s : str) : str :=
  39%N :: flat_map (fun c => if (c =? 39)%N then [39; 34; 39; 34; 39]%N else [c]) s ++ [39%N].
Definition esc_dollars_spec (s : str) : str :=
  flat_map (fun c => if (c =? 36)%N then [36; 36]%N else [c]) s.
Definition esc_xml_spec (s : str) : str :=
  flat_map (fun c =>
    if (c =? 60)%N then [38; 108; 116; 59]%N
    else if (c =? 62)%N then [38; 103; 116; 59]%N
    else if (c =? 38)%N then [38; 97; 109; 112; 59]%N
    else if (c =? 34)%N then [38; 113; 117; 111; 116; 59]%N
    else if (c =? 39)%N then [38; 97; 112; 111; 115; 59]%N
    else [c]) s.

(** * parseInt / parseOctal / parseHex *)
(** SPEC digit value: '0'..'9', and for base 16 'a'..'f' / 'A'..'F' *)
Definition digit_spec (base c : N) : option N :=
  if (48 <=? c)%N && (c <=? 57)%N then (if (c - 48 <? base)%N then Some (c - 48)%N else None)
  else if (base =? 16)%N && (97 <=? c)%N && (c <=? 102)%N then Some (c - 97 + 10)%N
  else if (base =? 16)%N && (65 <=? c)%N && (c <=? 70)%N then Some (c - 65 + 10)%N
  else None.
Fixpoint digits_spec (base : N) (acc : N) (s : str) : option N :=
  match s with
  | [] => Some acc
  | c :: r => match digit_spec base c with
              | Some d => digits_spec base (base * acc + d)%N r
              | None => None
              end
  end.
(** the exact integer a non-empty digit string denotes *)
Definition nat_spec (base : N) (s : str) : option N :=
  match s with [] => None | _ => digits_spec base 0 s end.
Definition int_spec (s : str) : option Z :=
  match s with
  | 45%N :: r => option_map (fun n => (- Z.of_N n)%Z) (nat_spec 10 r)
  | _ => option_map Z.of_N (nat_spec 10 s)
  end.

(** strings.rs parse_nat: [checked_sub_if(BASE > 10, digit, 'a')], then 'A', then
    [digit.checked_sub('0').filter(|d| *d < 10).unwrap_or(BASE)]; accepted when [< BASE] *)
Definition digit_impl (base c : N) : option N :=
  let d := if (10 <? base)%N && (97 <=? c)%N then (c - 97 + 10)%N
           else if (10 <? base)%N && (65 <=? c)%N then (c - 65 + 10)%N
           else if (48 <=? c)%N then (if (c - 48 <? 10)%N then (c - 48)%N else base) else base in
  if (d <? base)%N then Some d else None.
(** round a non-negative integer to 53 significant bits, ties to even: what one f64 operation
    on integer-valued operands returns.  [None] = overflow to infinity. *)
Definition rnd53 (n : N) : option N :=
  let k := N.log2 n in
  if (k <? 53)%N then Some n
  else
    let sh := (k - 52)%N in
    let q := N.shiftr n sh in
    let rem := (n - N.shiftl q sh)%N in
    let half := N.shiftl 1 (sh - 1) in
    let q' := if (half <? rem)%N || ((half =? rem)%N && N.odd q) then (q + 1)%N else q in
    let r := N.shiftl q' sh in
    if (N.log2 r <? 1024)%N then Some r else None.
Inductive pnum := PFin (n : N) | PInf | PBad.
(** try_fold(0f64, |agg, digit| base.mul_add(agg, digit)) *)
Fixpoint parse_nat_impl (base : N) (acc : pnum) (s : str) : pnum :=
  match s with
  | [] => acc
  | c :: r =>
      match digit_impl base c with
      | None => PBad
      | Some d =>
          match acc with
          | PFin a => match rnd53 (base * a + d) with
                      | Some v => parse_nat_impl base (PFin v) r
                      | None => parse_nat_impl base PInf r
                      end
          | other => parse_nat_impl base other r
          end
      end
  end.
Definition nat_impl (base : N) (s : str) : pnum :=
  match s with [] => PBad | _ => parse_nat_impl base (PFin 0) s end.
(** * base64 (RFC 4648 section 4, canonical) *)
Definition b64_char (v : N) : N :=
  if (v <? 26)%N then (65 + v)%N
  else if (v <? 52)%N then (97 + (v - 26))%N
  else if (v <? 62)%N then (48 + (v - 52))%N
  else if (v =? 62)%N then 43%N else 47%N.
Definition b64_val (c : N) : option N :=
  if (65 <=? c)%N && (c <=? 90)%N then Some (c - 65)%N
  else if (97 <=? c)%N && (c <=? 122)%N then Some (c - 97 + 26)%N
  else if (48 <=? c)%N && (c <=? 57)%N then Some (c - 48 + 52)%N
  else if (c =? 43)%N then Some 62%N
  else if (c =? 47)%N then Some 63%N
  else None.
Definition pad : N := 61.

Fixpoint b64_encode (bs : list N) : list N :=
  match bs with
  | [] => []
  | [a] => [b64_char (a / 4); b64_char ((a mod 4) * 16); pad; pad]%N
  | [a; b] => [b64_char (a / 4); b64_char ((a mod 4) * 16 + b / 16);
               b64_char ((b mod 16) * 4); pad]%N
  | a :: b :: c :: r =>
      (b64_char (a / 4) :: b64_char ((a mod 4) * 16 + b / 16)
       :: b64_char ((b mod 16) * 4 + c / 64) :: b64_char (c mod 64) :: b64_encode r)%N
  end.

Definition quad (c1 c2 c3 c4 : N) : option (list N) :=
  match b64_val c1, b64_val c2, b64_val c3, b64_val c4 with
  | Some v1, Some v2, Some v3, Some v4 =>
      Some [v1 * 4 + v2 / 16; (v2 mod 16) * 16 + v3 / 4; (v3 mod 4) * 64 + v4]%N
  | _, _, _, _ => None
  end.
Definition last_quad (c1 c2 c3 c4 : N) : option (list N) :=
  if (c4 =? pad)%N then
    if (c3 =? pad)%N then
      match b64_val c1, b64_val c2 with
      | Some v1, Some v2 => if (v2 mod 16 =? 0)%N then Some [v1 * 4 + v2 / 16]%N else None
      | _, _ => None
      end
    else
      match b64_val c1, b64_val c2, b64_val c3 with
      | Some v1, Some v2, Some v3 =>
          if (v3 mod 4 =? 0)%N then Some [v1 * 4 + v2 / 16; (v2 mod 16) * 16 + v3 / 4]%N else None
      | _, _, _ => None
      end
  else quad c1 c2 c3 c4.
Fixpoint b64_decode (cs : list N) : option (list N) :=
  match cs with
  | [] => Some []
  | c1 :: c2 :: c3 :: c4 :: r =>
      match r with
      | [] => last_quad c1 c2 c3 c4
      | _ => match quad c1 c2 c3 c4, b64_decode r with
             | Some q, Some t => Some (q ++ t)
             | _, _ => None
             end
      end
  | _ => None
  end.
Definition is_b64_char (c : N) : bool :=
  match b64_val c with Some _ => true | None => (c =? pad)%N end.

(** * the calls the correspondence evaluates *)
Inductive call :=
| CLength (s : str) | CSubstr (s : str) (from len : nat) | CChars (s : str) | CIsEmpty (s : str)
| CFind (pat s : str)
| CSplit (s sep : str) (lim : option nat) | CSplitR (s sep : str) (lim : option nat)
| CReplace (s from to : str)
| CStarts (a b : str) | CEnds (a b : str)
| CLstrip (s cs : str) | CRstrip (s cs : str) | CStrip (s cs : str) | CTrim (s : str)
| CUpper (s : str) | CLower (s : str) | CEqIc (a b : str)
| CCodepoint (s : str) | CChar (n : Z)
| CEscBash (s : str) | CEscDollars (s : str) | CEscXml (s : str)
| CParseNat (base : N) (s : str) | CParseInt (s : str)
| CEncode (s : str) | CDecode (bs : list N) (lossy : bool)
| CB64 (s : str) | CB64Bytes (bs : list N) | CB64Dec (s : str) | CB64DecBytes (s : str).

Inductive res :=
| RStr (s : str) | RStrs (l : list str) | RNats (l : list nat) | RBytes (l : list N)
| RInt (z : Z) | RBool (b : bool) | RErr | RInf.

Definition ostr (o : option str) : res := match o with Some s => RStr s | None => RErr end.
Definition ostrs (o : option (list str)) : res := match o with Some s => RStrs s | None => RErr end.

Definition spec_call (c : call) : res :=
  match c with
  | CLength s => RInt (Z.of_nat (length_spec s))
  | CSubstr s f l => RStr (substr_spec s f l)
  | CChars s => RStrs (chars_spec s)
  | CIsEmpty s => RBool (is_empty_spec s)
  | CFind p s => RNats (find_spec p s)
  | CSplit s sep lim => ostrs (split_spec s sep lim)
  | CSplitR s sep lim => ostrs (splitr_spec s sep lim)
  | CReplace s f t => ostr (replace_spec s f t)
  | CStarts a b => RBool (starts_spec a b)
  | CEnds a b => RBool (ends_spec a b)
  | CLstrip s cs => RStr (lstrip_spec s cs)
  | CRstrip s cs => RStr (rstrip_spec s cs)
  | CStrip s cs => RStr (strip_spec s cs)
  | CTrim s => RStr (trim_spec s)
  | CUpper s => RStr (upper_spec s)
  | CLower s => RStr (lower_spec s)
  | CEqIc a b => RBool (eq_ic_spec a b)
  | CCodepoint s => match codepoint_spec s with Some n => RInt (Z.of_N n) | None => RErr end
  | CChar n => ostr (char_spec n)
  | CEscBash s => RStr (esc_bash_spec s)
  | CEscDollars s => RStr (esc_dollars_spec s)
  | CEscXml s => RStr (esc_xml_spec s)
  | CParseNat b s => match nat_spec b s with Some n => RInt (Z.of_N n) | None => RErr end
  | CParseInt s => match int_spec s with Some z => RInt z | None => RErr end
  | CEncode s => RBytes (encode s)
  | CDecode bs lossy =>
      if lossy then RStr (decode_lossy bs) else ostr (decode bs)
  | CB64 s => RStr (b64_encode (encode s))
  | CB64Bytes bs => RStr (b64_encode bs)
  | CB64DecBytes s => match b64_decode s with Some bs => RBytes bs | None => RErr end
  | CB64Dec s => match b64_decode s with
                 | Some bs => ostr (decode bs)
                 | None => RErr
                 end
  end.

Definition pnum_res (neg : bool) (p : pnum) : res :=
  match p with
  | PFin n => RInt (if neg then - Z.of_N n else Z.of_N n)
  | PInf => RInf
  | PBad => RErr
  end.

(** the impl-model's answer; decodes the byte-level pieces back with the lossy decoder so a
    piece that is not UTF-8 would show *)
Definition impl_call (c : call) : res :=
  match c with
  | CSubstr s f l => RStr (substr_impl s f l)
  | CFind p s => RNats (find_impl p s)
  | CSplit s sep lim =>
      if is_nil sep then RErr else RStrs (map decode_lossy (bsplit s sep lim))
  | CStarts a b => RBool (starts_impl a b)
  | CEnds a b => RBool (ends_impl a b)
  | CRstrip s cs => RStr (rstrip_impl s cs)
  | CStrip s cs => RStr (strip_impl s cs)
  | CTrim s => RStr (strip_impl s trim_chars)
  | CParseNat b s => pnum_res false (nat_impl b s)
  | CParseInt s =>
      match s with
      | 45%N :: r => pnum_res true (nat_impl 10 r)
      | _ => pnum_res false (nat_impl 10 s)
      end
  | other => spec_call other
  end.
