(** C07, source tie: lemmas.  The step functions of Gen/GenImport.v (translated from the Rust source
    of the working tree) are, for ALL cache states, paths, worlds (file-system oracle, blobs, fault
    schedule) and evaluation outcomes, the hand-written steps of Model.v; hence the translated machine
    [gen_run_hist] IS [run_hist] and inherits every theorem of Properties.v.

    The translation writes every assignment through the `&mut FileData` into the cache at once, the hand
    model writes once per step: the two differ by [set_entry c a (set_entry c b st)] against
    [set_entry c a st] (and by a write of the value already there).  States hold the cache as a function,
    so these equalities use functional extensionality (standard library axiom, allow-listed). *)
From Coq Require Import List NArith Bool FunctionalExtensionality.
From JrV Require Import C07.Model C07.Proofs Gen.GenImport C07.ModelSource.
Import ListNotations.
Open Scope N_scope.

Lemma state_ext : forall a b,
  (forall c, s_cache a c = s_cache b c) -> s_fields a = s_fields b -> s_log a = s_log b ->
  s_calls a = s_calls b -> a = b.
Proof.
  intros [ca fa la na] [cb fb lb nb]; cbn; intros H E1 E2 E3. subst.
  f_equal. apply functional_extensionality. exact H.
Qed.

Lemma set_entry_twice : forall c a b st, set_entry c a (set_entry c b st) = set_entry c a st.
Proof.
  intros. apply state_ext; cbn; auto. intros c'. destruct (path_eqb c c'); reflexivity.
Qed.

Lemma set_entry_same : forall c en st, s_cache st c = Some en -> set_entry c en st = st.
Proof.
  intros c en st H. apply state_ext; cbn; auto. intros c'.
  destruct (path_eqb c c') eqn:E; auto. apply path_eqb_eq in E. subst. auto.
Qed.

Lemma with_bytes_id : forall en, e_bytes en = true -> with_bytes en = en.
Proof. intros [a b c d e]; cbn; intros; subst; reflexivity. Qed.

(* ------------------------------------------------------------------ FileData *)
Lemma gen_new_bytes_eq : forall d, gen_new_bytes d = new_bytes d.
Proof. reflexivity. Qed.

Lemma gen_get_string_eq : forall w en, gen_get_string w en = get_string w en.
Proof.
  intros. unfold gen_get_string, get_string. cbv beta zeta.
  destruct (e_string en); cbn [negb]; [reflexivity|].
  destruct (utf8 w (e_cid en)); reflexivity.
Qed.

(* ------------------------------------------------------------------ State::import_resolved* *)
Lemma gen_import_resolved_str_eq : forall w c st, gen_import_resolved_str w c st = import_str w c st.
Proof.
  intros. unfold gen_import_resolved_str, import_str, ensure. cbv beta zeta.
  destruct (s_cache st c) as [en|].
  - rewrite gen_get_string_eq. destruct (get_string w en); reflexivity.
  - destruct (do_load w c st) as [[cid|e] st1]; [|reflexivity].
    change (gen_new_bytes cid) with (new_bytes cid).
    rewrite gen_get_string_eq. destruct (get_string w (new_bytes cid)); reflexivity.
Qed.

Lemma gen_import_resolved_bin_eq : forall w c st, gen_import_resolved_bin w c st = import_bin w c st.
Proof.
  intros. unfold gen_import_resolved_bin, import_bin, ensure. cbv beta zeta.
  destruct (s_cache st c) as [en|] eqn:C.
  - destruct (e_bytes en) eqn:B; cbn [negb].
    + rewrite (with_bytes_id en B). rewrite (set_entry_same c en st C). reflexivity.
    + reflexivity.
  - destruct (do_load w c st) as [[cid|e] st1]; [|reflexivity].
    change (gen_new_bytes cid) with (new_bytes cid). cbn [e_bytes new_bytes e_cid].
    change (with_bytes (new_bytes cid)) with (new_bytes cid).
    rewrite set_entry_twice. reflexivity.
Qed.

Lemma gen_begin_tail : forall w c en st,
  match e_evaluated en with
  | Some val => (BDone val, st)
  | None =>
    match gen_get_string w en with
    | None => (BFail EUtf8, st)
    | Some en0 =>
      let st0 := set_entry c en0 st in
      match body_of w (e_cid en0) with
      | None => (BFail ESyntax, st0)
      | Some b =>
        if e_evaluating en0 then (BFail ECycle, st0)
        else let en1 := with_evaluating true en0 in
             let st1 := set_entry c en1 st0 in (BEval b, add_log (EvStart c (b_id b)) st1)
      end
    end
  end
  =
  match e_evaluated en with
  | Some v => (BDone v, st)
  | None =>
    match get_string w en with
    | None => (BFail EUtf8, st)
    | Some en1 =>
      let st2 := set_entry c en1 st in
      match body_of w (e_cid en1) with
      | None => (BFail ESyntax, st2)
      | Some b =>
        if e_evaluating en1 then (BFail ECycle, st2)
        else (BEval b, add_log (EvStart c (b_id b)) (set_entry c (with_evaluating true en1) st2))
      end
    end
  end.
Proof.
  intros. rewrite gen_get_string_eq. reflexivity.
Qed.

Lemma gen_begin_import_eq : forall w c st, gen_begin_import w c st = begin_import w c st.
Proof.
  intros. unfold gen_begin_import, begin_import, ensure. cbv beta zeta.
  destruct (s_cache st c) as [en|].
  - apply gen_begin_tail.
  - destruct (do_load w c st) as [[cid|e] st1]; [|reflexivity].
    change (gen_new_bytes cid) with (new_bytes cid).
    apply (gen_begin_tail w c (new_bytes cid) (set_entry c (new_bytes cid) st1)).
Qed.

Lemma gen_finish_import_eq : forall c id r st,
  gen_finish_import c id r st = (r, finish_import c id r st).
Proof.
  intros. unfold gen_finish_import, finish_import. cbv beta zeta.
  destruct (s_cache st c) as [en|]; [|reflexivity].
  destruct r as [v|e]; [|reflexivity].
  f_equal. apply state_ext; cbn; auto.
  intros c'. destruct (path_eqb c c'); reflexivity.
Qed.

(* ------------------------------------------------------------------ resolution *)
Lemma gen_resolve_libs_eq : forall f libs raw,
  gen_resolve_libs f libs raw = match try_libs f libs raw with RNotFound => None | r => Some r end.
Proof.
  induction libs as [|l r IH]; intros; cbn [gen_resolve_libs try_libs]; [reflexivity|].
  destruct (check_path f (l ++ raw)); auto.
Qed.

Lemma gen_resolve_from_eq : forall f cwd libs from raw,
  gen_resolve_from f cwd libs from raw = resolve_impl f cwd libs from raw.
Proof.
  intros. unfold gen_resolve_from, resolve_impl. cbv beta zeta.
  destruct from; try reflexivity;
    (destruct (check_path f _); try reflexivity;
     rewrite gen_resolve_libs_eq; destruct (try_libs f libs raw); reflexivity).
Qed.

Lemma gen_resolve_from_default_eq : forall f cwd libs raw,
  gen_resolve_from_default f cwd libs raw = resolve_impl f cwd libs SDefault raw.
Proof. intros. apply gen_resolve_from_eq. Qed.

Lemma gen_search_list_eq : forall A (js env : list A), gen_search_list js env = search_list js env.
Proof. reflexivity. Qed.

Lemma gen_do_resolve_eq : forall w from raw st, gen_do_resolve w from raw st = do_resolve w from raw st.
Proof. intros. unfold gen_do_resolve, do_resolve. rewrite gen_resolve_from_eq. reflexivity. Qed.

(* ------------------------------------------------------------------ the machine *)
Lemma gen_run_eq : forall w fuel k st, gen_run w fuel k st = run w fuel k st.
Proof.
  induction fuel as [|f IH]; intros; [reflexivity|].
  destruct k as [c|c j|from t|from ts acc]; cbn [gen_run run].
  - rewrite gen_begin_import_eq. destruct (begin_import w c st) as [b st1].
    destruct b as [v|e|bd]; try reflexivity.
    rewrite IH. destruct (run w f (KSum (SFile c) (b_strict bd) (b_id bd)) st1) as [r st2].
    apply gen_finish_import_eq.
  - destruct (s_fields st c j) as [[|r]|]; try reflexivity.
    destruct (lazy_of w st c j) as [[id ts]|]; try reflexivity.
    rewrite IH. reflexivity.
  - rewrite gen_do_resolve_eq. destruct (do_resolve w from (t_path t) st) as [[c|e] st1]; try reflexivity.
    destruct (t_kind t).
    + rewrite IH. destruct (run w f (KFile c) st1) as [[v|e] st2]; try reflexivity.
      destruct (t_sel t); [reflexivity|apply IH].
    + rewrite gen_import_resolved_str_eq. reflexivity.
    + rewrite gen_import_resolved_bin_eq. reflexivity.
  - destruct ts as [|t rest]; [reflexivity|].
    rewrite IH. destruct (run w f (KTerm from t) st) as [[n|e] st1]; [apply IH|reflexivity].
Qed.

Lemma gen_run_op_eq : forall w fuel o st, gen_run_op w fuel o st = run_op w fuel o st.
Proof.
  intros. unfold gen_run_op, run_op. destruct (t_kind (o_term o)).
  - rewrite gen_run_eq. reflexivity.
  - rewrite gen_do_resolve_eq. destruct (do_resolve _ _ _ _) as [[c|e] st1]; [|reflexivity].
    rewrite gen_import_resolved_str_eq. reflexivity.
  - rewrite gen_do_resolve_eq. destruct (do_resolve _ _ _ _) as [[c|e] st1]; [|reflexivity].
    rewrite gen_import_resolved_bin_eq. reflexivity.
Qed.

Lemma gen_run_hist_eq : forall w fuel h st, gen_run_hist w fuel h st = run_hist w fuel h st.
Proof.
  induction h as [|o rest IH]; intros; [reflexivity|]. cbn [gen_run_hist run_hist].
  rewrite gen_run_op_eq. destruct (run_op w fuel o st) as [v st1]. rewrite IH. reflexivity.
Qed.

Lemma gen_fresh_result_eq : forall w fuel o, gen_fresh_result w fuel o = fresh_result w fuel o.
Proof. intros. unfold gen_fresh_result, fresh_result. rewrite gen_run_op_eq. reflexivity. Qed.

(* ------------------------------------------------------------------ corollaries for the translated machine *)
Lemma src_resolve_refines : forall f cwd libs from raw,
  decides f (candidates cwd libs from raw) (gen_resolve_from f cwd libs from raw).
Proof. intros. rewrite gen_resolve_from_eq. apply resolve_refines. Qed.

Lemma src_cli_path_order : forall A (js : list A) j env,
  gen_search_list (js ++ [j]) env = j :: gen_search_list js env.
Proof. intros. rewrite !gen_search_list_eq. apply search_list_snoc. Qed.

Lemma src_cli_path_env_last : forall A (env : list A), gen_search_list [] env = env.
Proof. intros. rewrite gen_search_list_eq. apply search_list_nil. Qed.

Lemma src_load_once : forall w fuel h c,
  (count (is_ok_load c) (s_log (snd (gen_run_hist w fuel h init))) <= 1)%nat.
Proof. intros. rewrite gen_run_hist_eq. apply load_once. Qed.

Lemma src_eval_once : forall w fuel h c,
  (count (is_done c) (s_log (snd (gen_run_hist w fuel h init))) <= 1)%nat /\
  no_start_after_done c (s_log (snd (gen_run_hist w fuel h init))).
Proof. intros. rewrite gen_run_hist_eq. apply eval_once. Qed.

Lemma src_state_usable : forall w fuel h,
  let st := snd (gen_run_hist w fuel h init) in
  quiescent st /\ no_pending st /\ coherent w st.
Proof. intros w fuel h. rewrite gen_run_hist_eq. apply state_usable. Qed.

Lemma src_strbin_transparent : forall w fuel h o,
  t_kind (o_term o) <> KImp ->
  let st := snd (gen_run_hist w fuel h init) in
  (forall k, s_calls st <= k -> fault w k = false) ->
  fst (gen_run_op w fuel o st) = gen_fresh_result w fuel o.
Proof.
  intros w fuel h o HK. cbv zeta. rewrite gen_run_hist_eq, gen_run_op_eq, gen_fresh_result_eq.
  apply (strbin_transparent w fuel h o HK).
Qed.

Lemma src_content_exact : forall w fuel h o cid,
  let st := snd (gen_run_hist w fuel h init) in
  (fst (gen_run_op w fuel o st) = VStr cid \/ fst (gen_run_op w fuel o st) = VBytes cid) ->
  exists c, gen_resolve_from (w_fs w) (w_cwd w) (w_libs w) (op_src o) (t_path (o_term o)) = RHit c /\
            fs_file (w_fs w) c = Some cid.
Proof.
  intros w fuel h o cid. cbv zeta. rewrite gen_run_hist_eq, gen_run_op_eq, gen_resolve_from_eq.
  apply (content_exact w fuel h o cid).
Qed.

Lemma src_strict_cycle_error : forall w f c st en b,
  s_cache st c = Some en -> e_evaluating en = true -> e_evaluated en = None ->
  e_string en = true -> body_of w (e_cid en) = Some b ->
  fst (gen_run w (S f) (KFile c) st) = Err ECycle /\
  (forall c', s_cache (snd (gen_run w (S f) (KFile c) st)) c' = s_cache st c') /\
  s_log (snd (gen_run w (S f) (KFile c) st)) = s_log st /\
  s_calls (snd (gen_run w (S f) (KFile c) st)) = s_calls st.
Proof. intros w f c st en b. rewrite gen_run_eq. apply strict_cycle_error. Qed.

(** the flag is cleared on BOTH paths of the translated second half, whatever evaluate() answered *)
Lemma src_flag_cleared : forall c id r st en,
  s_cache st c = Some en ->
  fst (gen_finish_import c id r st) = r /\
  exists en', s_cache (snd (gen_finish_import c id r st)) c = Some en' /\ e_evaluating en' = false /\
              e_evaluated en' = match r with Ok v => Some v | Err _ => e_evaluated en end.
Proof.
  intros c id r st en H. rewrite gen_finish_import_eq. cbn [fst snd]. split; [reflexivity|].
  unfold finish_import. rewrite H. destruct r as [v|e]; cbn; rewrite path_eqb_refl; eexists; split;
    try reflexivity; cbn; auto.
Qed.

(* ------------------------------------------------------------------ non-vacuity *)
Example src_nonvac_cycle :
  fst (gen_run_hist wC 100 [mk_op KImp [CN 1] SV; mk_op KImp [CN 7] SV; mk_op KImp [CN 3] SV;
                            mk_op KStr [CN 6] SV; mk_op KBin [CN 8] SV] init)
  = [VErr ECycle; VNum 12; VErr ECycle; VStr 4; VBytes 4].
Proof. vm_compute. reflexivity. Qed.

Example src_nonvac_nonutf8 :
  let r := gen_run_hist wB 50 [mk_op KStr [CN 4] SV; mk_op KStr [CN 4] SV; mk_op KBin [CN 4] SV;
                               mk_op KImp [CN 4] SV] init in
  fst r = [VErr EUtf8; VErr EUtf8; VBytes 0; VErr EUtf8] /\
  count (is_ok_load [0; 4]) (s_log (snd r)) = 1%nat.
Proof. vm_compute. repeat split. Qed.

Example src_nonvac_resolve :
  gen_resolve_from (w_fs wC) [0] [[CN 5]] SDefault [CN 6] = RHit [5; 6] /\
  gen_resolve_from (w_fs wC) [0] [[CN 5]] SNoJ [CN 6] = RNotFound /\
  gen_resolve_from (w_fs wC) [0] [[CN 5]] (SFile [5; 6]) [CUp; CN 0; CN 8] = RHit [5; 6] /\
  gen_resolve_from (w_fs wC) [0] [[CN 5]] SDefault [CUp; CN 5] = RHard /\
  gen_resolve_from (w_fs wC) [0] [[CN 0]; [CN 5]] (SDir [5]) [CN 8] = RHit [5; 6].
Proof. vm_compute. repeat split. Qed.

(** a failing evaluation (the nested import of a missing file) leaves the flag cleared: the retry
    answers the same error, not InfiniteRecursionDetected *)
Definition wE : world :=
  {| w_fs := [([0], NDir); ([0; 1], NFile 0)];
     w_cwd := [0]; w_libs := [];
     w_blobs := [(0, code 1 [T KImp [CN 9] SV] [])];
     w_faults := [] |}.

Example src_nonvac_flag_cleared_on_error :
  fst (gen_run_hist wE 50 [mk_op KImp [CN 1] SV; mk_op KImp [CN 1] SV] init)
  = [VErr ENotFound; VErr ENotFound] /\
  (exists st1 bd en, gen_begin_import wE [0; 1] init = (BEval bd, st1) /\ s_cache st1 [0; 1] = Some en /\
                     e_evaluating en = true).
Proof.
  split; [vm_compute; reflexivity|].
  eexists. eexists. eexists. split; [vm_compute; reflexivity|]. split; vm_compute; reflexivity.
Qed.

Example src_nonvac_strbin :
  let st := snd (gen_run_hist wA 50 [opA] init) in
  (forall k, s_calls st <= k -> fault wA k = false) /\
  fst (gen_run_op wA 50 (mk_op KStr [CN 2] SV) st) = VStr 1.
Proof.
  split.
  - intros k H. vm_compute in H. unfold fault. cbn [w_faults wA existsb].
    destruct (k =? 2) eqn:E; auto. apply N.eqb_eq in E. subst. exfalso. apply H. reflexivity.
  - vm_compute. reflexivity.
Qed.
