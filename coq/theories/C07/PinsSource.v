(** C07, source tie — statements pinned. *)
From Coq Require Import List NArith Bool.
From JrV Require Import C07.Model C07.Proofs Gen.GenImport C07.ModelSource C07.ProofsSource C07.PropertiesSource.
Import ListNotations.
Open Scope N_scope.

Check C07_model_is_translated_source_new_bytes :
  forall d, gen_new_bytes d = new_bytes d.

Check C07_model_is_translated_source_get_string :
  forall w en, gen_get_string w en = get_string w en.

Check C07_model_is_translated_source_importstr :
  forall w c st, gen_import_resolved_str w c st = import_str w c st.

Check C07_model_is_translated_source_importbin :
  forall w c st, gen_import_resolved_bin w c st = import_bin w c st.

Check C07_model_is_translated_source_import_begin :
  forall w c st, gen_begin_import w c st = begin_import w c st.

Check C07_model_is_translated_source_import_finish :
  forall c id r st, gen_finish_import c id r st = (r, finish_import c id r st).

Check C07_model_is_translated_source_resolve :
  forall f cwd libs from raw, gen_resolve_from f cwd libs from raw = resolve_impl f cwd libs from raw.

Check C07_model_is_translated_source_resolve_default :
  forall f cwd libs raw, gen_resolve_from_default f cwd libs raw = resolve_impl f cwd libs SDefault raw.

Check C07_model_is_translated_source_search_list :
  forall A (js env : list A), gen_search_list js env = search_list js env.

Check C07_model_is_translated_source_machine :
  forall w fuel h st, gen_run_hist w fuel h st = run_hist w fuel h st.

Check C07_source_resolve_refines :
  forall f cwd libs from raw, decides f (candidates cwd libs from raw) (gen_resolve_from f cwd libs from raw).

Check C07_source_cli_path_order :
  forall A (js : list A) j env, gen_search_list (js ++ [j]) env = j :: gen_search_list js env.

Check C07_source_cli_path_env_last :
  forall A (env : list A), gen_search_list [] env = env.

Check C07_source_load_once :
  forall w fuel h c, (count (is_ok_load c) (s_log (snd (gen_run_hist w fuel h init))) <= 1)%nat.

Check C07_source_eval_once :
  forall w fuel h c, (count (is_done c) (s_log (snd (gen_run_hist w fuel h init))) <= 1)%nat /\
    no_start_after_done c (s_log (snd (gen_run_hist w fuel h init))).

Check C07_source_state_usable :
  forall w fuel h, let st := snd (gen_run_hist w fuel h init) in quiescent st /\ no_pending st /\ coherent w st.

Check C07_source_fresh_state :
  forall w fuel h o, t_kind (o_term o) <> KImp ->
    let st := snd (gen_run_hist w fuel h init) in
    (forall k, s_calls st <= k -> fault w k = false) ->
    fst (gen_run_op w fuel o st) = gen_fresh_result w fuel o.

Check C07_source_content_exact :
  forall w fuel h o cid, let st := snd (gen_run_hist w fuel h init) in
    (fst (gen_run_op w fuel o st) = VStr cid \/ fst (gen_run_op w fuel o st) = VBytes cid) ->
    exists c, gen_resolve_from (w_fs w) (w_cwd w) (w_libs w) (op_src o) (t_path (o_term o)) = RHit c /\
              fs_file (w_fs w) c = Some cid.

Check C07_source_cycle_error :
  forall w f c st en b,
    s_cache st c = Some en -> e_evaluating en = true -> e_evaluated en = None ->
    e_string en = true -> body_of w (e_cid en) = Some b ->
    fst (gen_run w (S f) (KFile c) st) = Err ECycle /\
    (forall c', s_cache (snd (gen_run w (S f) (KFile c) st)) c' = s_cache st c') /\
    s_log (snd (gen_run w (S f) (KFile c) st)) = s_log st /\
    s_calls (snd (gen_run w (S f) (KFile c) st)) = s_calls st.

Check C07_source_flag_cleared :
  forall c id r st en, s_cache st c = Some en ->
    fst (gen_finish_import c id r st) = r /\
    exists en', s_cache (snd (gen_finish_import c id r st)) c = Some en' /\ e_evaluating en' = false /\
                e_evaluated en' = match r with Ok v => Some v | Err _ => e_evaluated en end.

(* the hand model's definitions the translated ones are compared with, and the worked examples *)
Check eq_refl : new_bytes 7 = {| e_cid := 7; e_string := false; e_bytes := true; e_evaluated := None; e_evaluating := false |}.
Check eq_refl : gen_search_list [1; 2; 3] [8; 9] = [3; 2; 1; 8; 9].
Check eq_refl : gen_resolve_from (w_fs wC) [0] [[CN 5]] SDefault [CN 6] = RHit [5; 6].
Check eq_refl : gen_resolve_from (w_fs wC) [0] [[CN 5]] SNoJ [CN 6] = RNotFound.
Check eq_refl : fst (gen_run_hist wE 50 [mk_op KImp [CN 1] SV; mk_op KImp [CN 1] SV] init) = [VErr ENotFound; VErr ENotFound].
Check src_nonvac_cycle. Check src_nonvac_nonutf8. Check src_nonvac_resolve. Check src_nonvac_flag_cleared_on_error.
Check src_nonvac_strbin.
