(** C07, source tie — property theorems only (statements pinned again in PinsSource.v).
    [gen_*] are the step functions translated from the Rust source of the working tree
    (Gen/GenImport.v, regenerated on every run) and the machine built from them (ModelSource.v). *)
From Coq Require Import List NArith Bool.
From JrV Require Import C07.Model C07.Proofs Gen.GenImport C07.ModelSource C07.ProofsSource.
Import ListNotations.
Open Scope N_scope.

(** FileData::new_bytes *)
Theorem C07_model_is_translated_source_new_bytes :
  forall d, gen_new_bytes d = new_bytes d.
Proof. exact gen_new_bytes_eq. Qed.
Print Assumptions C07_model_is_translated_source_new_bytes.

(** FileData::get_string (lazy bytes -> string conversion, `?` on invalid UTF-8) *)
Theorem C07_model_is_translated_source_get_string :
  forall w en, gen_get_string w en = get_string w en.
Proof. exact gen_get_string_eq. Qed.
Print Assumptions C07_model_is_translated_source_get_string.

(** State::import_resolved_str, for ALL states / paths / worlds *)
Theorem C07_model_is_translated_source_importstr :
  forall w c st, gen_import_resolved_str w c st = import_str w c st.
Proof. exact gen_import_resolved_str_eq. Qed.
Print Assumptions C07_model_is_translated_source_importstr.

(** State::import_resolved_bin *)
Theorem C07_model_is_translated_source_importbin :
  forall w c st, gen_import_resolved_bin w c st = import_bin w c st.
Proof. exact gen_import_resolved_bin_eq. Qed.
Print Assumptions C07_model_is_translated_source_importbin.

(** State::import_resolved up to evaluate(): lookup / load / insert, evaluated hit, get_string, parse, flag tested then set *)
Theorem C07_model_is_translated_source_import_begin :
  forall w c st, gen_begin_import w c st = begin_import w c st.
Proof. exact gen_begin_import_eq. Qed.
Print Assumptions C07_model_is_translated_source_import_begin.

(** State::import_resolved after evaluate(), for BOTH outcomes r: flag cleared, value cached on success only *)
Theorem C07_model_is_translated_source_import_finish :
  forall c id r st, gen_finish_import c id r st = (r, finish_import c id r st).
Proof. exact gen_finish_import_eq. Qed.
Print Assumptions C07_model_is_translated_source_import_finish.

(** FileImportResolver::resolve_from: importer directory, then the library paths in order *)
Theorem C07_model_is_translated_source_resolve :
  forall f cwd libs from raw, gen_resolve_from f cwd libs from raw = resolve_impl f cwd libs from raw.
Proof. exact gen_resolve_from_eq. Qed.
Print Assumptions C07_model_is_translated_source_resolve.

(** resolve_from_default *)
Theorem C07_model_is_translated_source_resolve_default :
  forall f cwd libs raw, gen_resolve_from_default f cwd libs raw = resolve_impl f cwd libs SDefault raw.
Proof. exact gen_resolve_from_default_eq. Qed.
Print Assumptions C07_model_is_translated_source_resolve_default.

(** MiscOpts::import_resolver: -J reversed, then JSONNET_PATH *)
Theorem C07_model_is_translated_source_search_list :
  forall A (js env : list A), gen_search_list js env = search_list js env.
Proof. exact gen_search_list_eq. Qed.
Print Assumptions C07_model_is_translated_source_search_list.

(** the machine over the translated steps IS the hand machine, for every history, world and fault schedule *)
Theorem C07_model_is_translated_source_machine :
  forall w fuel h st, gen_run_hist w fuel h st = run_hist w fuel h st.
Proof. exact gen_run_hist_eq. Qed.
Print Assumptions C07_model_is_translated_source_machine.

(** translated resolution = first candidate, in the documented order, that is not `not found` *)
Theorem C07_source_resolve_refines :
  forall f cwd libs from raw, decides f (candidates cwd libs from raw) (gen_resolve_from f cwd libs from raw).
Proof. exact src_resolve_refines. Qed.
Print Assumptions C07_source_resolve_refines.

(** right-most -J first *)
Theorem C07_source_cli_path_order :
  forall A (js : list A) j env, gen_search_list (js ++ [j]) env = j :: gen_search_list js env.
Proof. exact src_cli_path_order. Qed.
Print Assumptions C07_source_cli_path_order.

(** JSONNET_PATH after every -J *)
Theorem C07_source_cli_path_env_last :
  forall A (env : list A), gen_search_list [] env = env.
Proof. exact src_cli_path_env_last. Qed.
Print Assumptions C07_source_cli_path_env_last.

(** translated machine: each file read at most once per State *)
Theorem C07_source_load_once :
  forall w fuel h c, (count (is_ok_load c) (s_log (snd (gen_run_hist w fuel h init))) <= 1)%nat.
Proof. exact src_load_once. Qed.
Print Assumptions C07_source_load_once.

(** translated machine: each body evaluated at most once *)
Theorem C07_source_eval_once :
  forall w fuel h c, (count (is_done c) (s_log (snd (gen_run_hist w fuel h init))) <= 1)%nat /\
    no_start_after_done c (s_log (snd (gen_run_hist w fuel h init))).
Proof. exact src_eval_once. Qed.
Print Assumptions C07_source_eval_once.

(** translated machine: after ANY history (failing operations, faults) no evaluating flag is left set *)
Theorem C07_source_state_usable :
  forall w fuel h, let st := snd (gen_run_hist w fuel h init) in quiescent st /\ no_pending st /\ coherent w st.
Proof. exact src_state_usable. Qed.
Print Assumptions C07_source_state_usable.

(** translated machine: importstr / importbin answer as in a fresh State *)
Theorem C07_source_fresh_state :
  forall w fuel h o, t_kind (o_term o) <> KImp ->
    let st := snd (gen_run_hist w fuel h init) in
    (forall k, s_calls st <= k -> fault w k = false) ->
    fst (gen_run_op w fuel o st) = gen_fresh_result w fuel o.
Proof. exact src_strbin_transparent. Qed.
Print Assumptions C07_source_fresh_state.

(** translated machine: importstr / importbin = content of the file the path resolves to *)
Theorem C07_source_content_exact :
  forall w fuel h o cid, let st := snd (gen_run_hist w fuel h init) in
    (fst (gen_run_op w fuel o st) = VStr cid \/ fst (gen_run_op w fuel o st) = VBytes cid) ->
    exists c, gen_resolve_from (w_fs w) (w_cwd w) (w_libs w) (op_src o) (t_path (o_term o)) = RHit c /\
              fs_file (w_fs w) c = Some cid.
Proof. exact src_content_exact. Qed.
Print Assumptions C07_source_content_exact.

(** translated machine: import of a file being evaluated = InfiniteRecursionDetected, nothing changes *)
Theorem C07_source_cycle_error :
  forall w f c st en b,
    s_cache st c = Some en -> e_evaluating en = true -> e_evaluated en = None ->
    e_string en = true -> body_of w (e_cid en) = Some b ->
    fst (gen_run w (S f) (KFile c) st) = Err ECycle /\
    (forall c', s_cache (snd (gen_run w (S f) (KFile c) st)) c' = s_cache st c') /\
    s_log (snd (gen_run w (S f) (KFile c) st)) = s_log st /\
    s_calls (snd (gen_run w (S f) (KFile c) st)) = s_calls st.
Proof. exact src_strict_cycle_error. Qed.
Print Assumptions C07_source_cycle_error.

(** translated second half: flag cleared on success AND error, value cached on success only *)
Theorem C07_source_flag_cleared :
  forall c id r st en, s_cache st c = Some en ->
    fst (gen_finish_import c id r st) = r /\
    exists en', s_cache (snd (gen_finish_import c id r st)) c = Some en' /\ e_evaluating en' = false /\
                e_evaluated en' = match r with Ok v => Some v | Err _ => e_evaluated en end.
Proof. exact src_flag_cleared. Qed.
Print Assumptions C07_source_flag_cleared.
