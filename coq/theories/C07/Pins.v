(** Statements of the C07 property theorems, pinned: weakening one breaks this file. *)
From Coq Require Import List NArith Bool.
From JrV Require Import C07.Model C07.Proofs C07.Properties.
Import ListNotations.
Open Scope N_scope.

Check C07_resolve_refines :
  forall f cwd libs from raw,
    decides f (candidates cwd libs from raw) (resolve_impl f cwd libs from raw).
Check C07_resolve_spec_functional :
  forall f cs r1 r2, decides f cs r1 -> decides f cs r2 -> r1 = r2.
Check C07_cli_path_order :
  forall A (js : list A) j env, search_list (js ++ [j]) env = j :: search_list js env.
Check C07_cli_path_env_last :
  forall A (env : list A), search_list [] env = env.
Check C07_load_once :
  forall w fuel h c,
    (count (is_ok_load c) (s_log (snd (run_hist w fuel h init))) <= 1)%nat.
Check C07_eval_once :
  forall w fuel h c,
    (count (is_done c) (s_log (snd (run_hist w fuel h init))) <= 1)%nat /\
    no_start_after_done c (s_log (snd (run_hist w fuel h init))).
Check C07_content_exact :
  forall w fuel h o cid,
    let st := snd (run_hist w fuel h init) in
    (fst (run_op w fuel o st) = VStr cid \/ fst (run_op w fuel o st) = VBytes cid) ->
    exists c, resolve_impl (w_fs w) (w_cwd w) (w_libs w) (op_src o) (t_path (o_term o)) = RHit c /\
              fs_file (w_fs w) c = Some cid.
Check C07_strict_cycle_error :
  forall w f c st en b,
    s_cache st c = Some en -> e_evaluating en = true -> e_evaluated en = None ->
    e_string en = true -> body_of w (e_cid en) = Some b ->
    fst (run w (S f) (KFile c) st) = Err ECycle /\
    (forall c', s_cache (snd (run w (S f) (KFile c) st)) c' = s_cache st c') /\
    s_log (snd (run w (S f) (KFile c) st)) = s_log st /\
    s_calls (snd (run w (S f) (KFile c) st)) = s_calls st.
Check C07_evaluating_flag_set :
  forall w c st bd st1,
    begin_import w c st = (BEval bd, st1) -> good w st ->
    exists en, s_cache st1 c = Some en /\ e_evaluating en = true /\ e_evaluated en = None /\
               e_string en = true /\ body_of w (e_cid en) = Some bd.
Check C07_fault_transparent_partial :
  forall w fuel h,
    let st := snd (run_hist w fuel h init) in
    quiescent st /\ no_pending st /\ coherent w st.
Check C07_cache_monotone :
  forall w fuel h o c en,
    let st := snd (run_hist w fuel h init) in
    s_cache st c = Some en ->
    exists en', s_cache (snd (run_op w fuel o st)) c = Some en' /\ e_cid en' = e_cid en /\
                (forall v, e_evaluated en = Some v -> e_evaluated en' = Some v).
Check C07_strbin_transparent :
  forall w fuel h o,
    t_kind (o_term o) <> KImp ->
    let st := snd (run_hist w fuel h init) in
    (forall k, s_calls st <= k -> fault w k = false) ->
    fst (run_op w fuel o st) = fresh_result w fuel o.
Check C07_fault_transparent_refuted :
  exists w fuel h o,
    let st := snd (run_hist w fuel h init) in
    (forall k, s_calls st <= k -> fault w k = false) /\
    fst (run_op w fuel o st) <> fresh_result w fuel o.
(** the definitions the statements rest on, pinned by evaluation *)
Check eq_refl : search_list [1; 2; 3] [8; 9] = [3; 2; 1; 8; 9].
Check eq_refl : candidates [0] [[CN 5]; [CN 6]] (SFile [0; 7; 1]) [CN 2] = [[CN 0; CN 7; CN 2]; [CN 5; CN 2]; [CN 6; CN 2]].
Check eq_refl : candidates [0] [[CN 5]] SNoJ [CN 2] = [[CN 0; CN 2]].
Check eq_refl : check_path (w_fs wC) [CN 0; CN 8] = CHit [5; 6].
Check eq_refl : check_path (w_fs wC) [CN 0; CN 1; CN 2] = CHard.
Check eq_refl : check_path (w_fs wC) [CN 0; CN 9; CUp; CN 1] = CMiss.
Check eq_refl : count (is_ok_load [1]) [EvLoad [1] (Ok 3); EvLoad [1] (Err EIo); EvLoad [2] (Ok 3); EvLoad [1] (Ok 3)] = 2%nat.
Check eq_refl : count (is_done [1]) [EvDone [1] 7; EvStart [1] 7; EvDone [2] 7] = 1%nat.
Check (conj (fun H => match H with eq_refl => eq_refl end) I) : no_start_after_done [1] [EvDone [1] 7].
