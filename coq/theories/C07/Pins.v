(** C07 Pins — placeholder *)
From JrV Require Import C07.Model.
