(** C07 Properties — placeholder *)
From JrV Require Import C07.Model.
