(** C07 — property theorems only.  Each is closed by [exact] of a lemma from Proofs.v and
    followed by [Print Assumptions]; statements are pinned again in Pins.v. *)
From Coq Require Import List NArith Bool.
From JrV Require Import C07.Model C07.Proofs.
Import ListNotations.
Open Scope N_scope.

(** resolve_from answers what the first candidate (importer's directory, then the library list in
    order; cwd only for the CLI input marker) that is anything but `not found` decides. *)
Theorem C07_resolve_refines :
  forall f cwd libs from raw,
    decides f (candidates cwd libs from raw) (resolve_impl f cwd libs from raw).
Proof. exact resolve_refines. Qed.
Print Assumptions C07_resolve_refines.

(** ... and that specification decides at most one outcome. *)
Theorem C07_resolve_spec_functional :
  forall f cs r1 r2, decides f cs r1 -> decides f cs r2 -> r1 = r2.
Proof. exact decides_functional. Qed.
Print Assumptions C07_resolve_spec_functional.

(** The right-most -J is searched first ... *)
Theorem C07_cli_path_order :
  forall A (js : list A) j env, search_list (js ++ [j]) env = j :: search_list js env.
Proof. exact search_list_snoc. Qed.
Print Assumptions C07_cli_path_order.

(** ... and the JSONNET_PATH entries come after every -J, in order. *)
Theorem C07_cli_path_env_last :
  forall A (env : list A), search_list [] env = env.
Proof. exact search_list_nil. Qed.
Print Assumptions C07_cli_path_env_last.

(** Over EVERY history of operations and EVERY fault schedule: a file (canonical path) is read
    successfully at most once per State, whatever its content (valid UTF-8 or not) and whatever
    spellings, symlinks, import kinds or importers reach it.  (Unrestricted since the repair
    c43636f; before it non-UTF-8 files were read again on every importstr/import.) *)
Theorem C07_load_once :
  forall w fuel h c,
    (count (is_ok_load c) (s_log (snd (run_hist w fuel h init))) <= 1)%nat.
Proof. exact load_once. Qed.
Print Assumptions C07_load_once.

(** Over every history and fault schedule: the body of a file completes evaluation at most once,
    and no evaluation of it starts after one has completed. *)
Theorem C07_eval_once :
  forall w fuel h c,
    (count (is_done c) (s_log (snd (run_hist w fuel h init))) <= 1)%nat /\
    no_start_after_done c (s_log (snd (run_hist w fuel h init))).
Proof. exact eval_once. Qed.
Print Assumptions C07_eval_once.

(** After any history, whatever is cached: importstr / importbin answer exactly the content of the
    file their path resolves to. *)
Theorem C07_content_exact :
  forall w fuel h o cid,
    let st := snd (run_hist w fuel h init) in
    (fst (run_op w fuel o st) = VStr cid \/ fst (run_op w fuel o st) = VBytes cid) ->
    exists c, resolve_impl (w_fs w) (w_cwd w) (w_libs w) (op_src o) (t_path (o_term o)) = RHit c /\
              fs_file (w_fs w) c = Some cid.
Proof. exact content_exact. Qed.
Print Assumptions C07_content_exact.

(** Importing a file whose body is being evaluated is an InfiniteRecursionDetected error that
    changes nothing (no load, no cache change) ... *)
Theorem C07_strict_cycle_error :
  forall w f c st en b,
    s_cache st c = Some en -> e_evaluating en = true -> e_evaluated en = None ->
    e_string en = true -> body_of w (e_cid en) = Some b ->
    fst (run w (S f) (KFile c) st) = Err ECycle /\
    (forall c', s_cache (snd (run w (S f) (KFile c) st)) c' = s_cache st c') /\
    s_log (snd (run w (S f) (KFile c) st)) = s_log st /\
    s_calls (snd (run w (S f) (KFile c) st)) = s_calls st.
Proof. exact strict_cycle_error. Qed.
Print Assumptions C07_strict_cycle_error.

(** ... and while a body is being evaluated its file is in exactly that state.  (The graph-level
    statement `every strict import cycle is an error` is checked on concrete cycles only:
    cycle3_is_an_error_and_the_state_stays_usable and the correspondence.) *)
Theorem C07_evaluating_flag_set :
  forall w c st bd st1,
    begin_import w c st = (BEval bd, st1) -> good w st ->
    exists en, s_cache st1 c = Some en /\ e_evaluating en = true /\ e_evaluated en = None /\
               e_string en = true /\ body_of w (e_cid en) = Some bd.
Proof. exact begin_sets_flag. Qed.
Print Assumptions C07_evaluating_flag_set.

(** PARTIAL.  Full statement (DESIGN 5/C07): for every history h and faulting operation o the cache
    after h ++ [o] is observationally equal to the cache after h, so later operations and retries
    behave as in a fresh state.  Proved here, for every history (failing operations and faults
    anywhere in it): no `evaluating` flag is left set, no field is left pending, and every entry
    holds the content of its file (nothing poisoned); C07_cache_monotone: nothing is dropped;
    C07_strbin_transparent: the full statement for importstr / importbin.  Missing: value
    transparency for `import` (the correspondence checks it on every case); it is FALSE for lazy
    fields of cached objects, see C07_fault_transparent_refuted. *)
Theorem C07_fault_transparent_partial :
  forall w fuel h,
    let st := snd (run_hist w fuel h init) in
    quiescent st /\ no_pending st /\ coherent w st.
Proof. exact state_usable. Qed.
Print Assumptions C07_fault_transparent_partial.

(** No operation, failing or not, drops or changes what an earlier one cached. *)
Theorem C07_cache_monotone :
  forall w fuel h o c en,
    let st := snd (run_hist w fuel h init) in
    s_cache st c = Some en ->
    exists en', s_cache (snd (run_op w fuel o st)) c = Some en' /\ e_cid en' = e_cid en /\
                (forall v, e_evaluated en = Some v -> e_evaluated en' = Some v).
Proof. exact cache_monotone. Qed.
Print Assumptions C07_cache_monotone.

(** Once the resolver failures have cleared, importstr / importbin answer, after ANY history,
    exactly what they answer in a fresh State. *)
Theorem C07_strbin_transparent :
  forall w fuel h o,
    t_kind (o_term o) <> KImp ->
    let st := snd (run_hist w fuel h init) in
    (forall k, s_calls st <= k -> fault w k = false) ->
    fst (run_op w fuel o st) = fresh_result w fuel o.
Proof. exact strbin_transparent. Qed.
Print Assumptions C07_strbin_transparent.

(** KNOWN FINDING C07-field-error-cached: a lazy field of an imported object whose import failed
    once keeps failing on the same State after the failure has cleared. *)
Theorem C07_fault_transparent_refuted :
  exists w fuel h o,
    let st := snd (run_hist w fuel h init) in
    (forall k, s_calls st <= k -> fault w k = false) /\
    fst (run_op w fuel o st) <> fresh_result w fuel o.
Proof. exact fault_transparent_refuted. Qed.
Print Assumptions C07_fault_transparent_refuted.

