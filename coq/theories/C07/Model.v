(** C07 — imports resolve, load and evaluate as specified.

    IMPL-MODEL (transliterations; definitions only, proofs live in Proofs.v):
      - [walk]/[check_path]   : what `fs::metadata` + `Path::canonicalize` answer for a path
                                 (the OS is the oracle here: modelled, tied by correspondence);
      - [resolve_impl]        : crates/jrsonnet-evaluator/src/import.rs
                                 FileImportResolver::resolve_from (+ check_path);
      - [search_list]         : crates/jrsonnet-cli/src/lib.rs MiscOpts::import_resolver;
      - [ensure]/[import_str]/[import_bin]/[begin_import]/[finish_import]/[run]
                              : crates/jrsonnet-evaluator/src/lib.rs FileData,
                                 State::import_resolved(_str/_bin), the Expr::Import arm of
                                 evaluate/mod.rs, and — because imported files evaluate to objects
                                 that the file cache keeps alive — the per-object field cache of
                                 obj/mod.rs ObjValue::get_idx (which caches *errors* too).
    SPEC: [candidates]/[decides] (first candidate that is not "not found" decides),
          [search_list_spec], and the history-level statements of Properties.v. *)
From Coq Require Import List NArith Bool Arith.
Import ListNotations.
Open Scope N_scope.

(* ------------------------------------------------------------------ file system *)
(** A canonical path: names from the root, no `.`/`..`/symlinks. *)
Definition path := list N.
(** One component of a path as spelled in an import or a -J flag. *)
Inductive comp := CN (n : N) | CDot | CUp.
Inductive node := NFile (cid : N) | NDir | NLink (target : list comp).
Definition fs := list (path * node).

Fixpoint path_eqb (a b : path) : bool :=
  match a, b with
  | [], [] => true
  | x :: a', y :: b' => (x =? y) && path_eqb a' b'
  | _, _ => false
  end.

Fixpoint fs_get (f : fs) (p : path) : option node :=
  match f with
  | [] => None
  | (q, n) :: r => if path_eqb q p then Some n else fs_get r p
  end.

Definition fs_file (f : fs) (c : path) : option N :=
  match fs_get f c with Some (NFile cid) => Some cid | _ => None end.

Inductive wres :=
| WFile (c : path) (cid : N)   (* a regular file; [c] is what canonicalize() returns *)
| WDir (c : path)
| WNotFound                    (* ENOENT *)
| WNotDir                      (* ENOTDIR: a regular file used as a directory *)
| WLoop.                       (* fuel: too many symlinks (never judged) *)

(** Linux path resolution from the canonical directory [cur]. *)
Fixpoint walk (f : fs) (fuel : nat) (cur : path) (cs : list comp) : wres :=
  match fuel with
  | O => WLoop
  | S k =>
    match cs with
    | [] => WDir cur
    | CDot :: rest => walk f k cur rest
    | CUp :: rest => walk f k (removelast cur) rest
    | CN n :: rest =>
      let here := cur ++ [n] in
      match fs_get f here with
      | None => WNotFound
      | Some NDir => walk f k here rest
      | Some (NFile cid) => match rest with [] => WFile here cid | _ => WNotDir end
      | Some (NLink t) => walk f k cur (t ++ rest)
      end
    end
  end.

Definition walk_fuel : nat := 64.

(** import.rs check_path: Ok(Some) / Ok(None) / Err. *)
Inductive cres := CHit (c : path) | CMiss | CHard | CFuel.
Definition check_path (f : fs) (abs : list comp) : cres :=
  match walk f walk_fuel [] abs with
  | WFile c _ => CHit c
  | WNotFound => CMiss
  | WDir _ | WNotDir => CHard
  | WLoop => CFuel
  end.

(* ------------------------------------------------------------------ resolution *)
(** Who is importing: a file (its canonical path), a directory (SourceDirectory, used by
    embedders: imports resolve inside it), the default source (snippets, `State::import`:
    cwd then library paths) or the CLI input file marker SourceDefaultIgnoreJpath (cwd only). *)
Inductive src := SFile (c : path) | SDir (d : path) | SDefault | SNoJ.
Inductive rres := RHit (c : path) | RNotFound | RHard | RFuel.

Definition abs_of (d : path) : list comp := map CN d.

Fixpoint try_libs (f : fs) (libs : list (list comp)) (raw : list comp) : rres :=
  match libs with
  | [] => RNotFound
  | l :: r =>
    match check_path f (l ++ raw) with
    | CHit c => RHit c
    | CMiss => try_libs f r raw
    | CHard => RHard
    | CFuel => RFuel
    end
  end.

(** FileImportResolver::resolve_from, branch by branch. *)
Definition resolve_impl (f : fs) (cwd : path) (libs : list (list comp)) (from : src) (raw : list comp)
  : rres :=
  match from with
  | SNoJ =>
    match check_path f (abs_of cwd ++ raw) with
    | CHit c => RHit c
    | CMiss => RNotFound
    | CHard => RHard
    | CFuel => RFuel
    end
  | _ =>
    let direct := match from with SFile c => removelast c | SDir d => d | _ => cwd end in
    match check_path f (abs_of direct ++ raw) with
    | CHit c => RHit c
    | CMiss => try_libs f libs raw
    | CHard => RHard
    | CFuel => RFuel
    end
  end.

(** SPEC.  The candidate list, in priority order ... *)
Definition candidates (cwd : path) (libs : list (list comp)) (from : src) (raw : list comp)
  : list (list comp) :=
  match from with
  | SNoJ => [abs_of cwd ++ raw]
  | SDefault => (abs_of cwd ++ raw) :: map (fun l => l ++ raw) libs
  | SFile c => (abs_of (removelast c) ++ raw) :: map (fun l => l ++ raw) libs
  | SDir d => (abs_of d ++ raw) :: map (fun l => l ++ raw) libs
  end.

(** ... and "the first candidate that is anything but `not found` decides". *)
Definition outcome_of (c : cres) : rres :=
  match c with CHit p => RHit p | CMiss => RNotFound | CHard => RHard | CFuel => RFuel end.

Inductive decides (f : fs) : list (list comp) -> rres -> Prop :=
| D_none : forall cs, Forall (fun x => check_path f x = CMiss) cs -> decides f cs RNotFound
| D_first : forall pre x post,
    Forall (fun y => check_path f y = CMiss) pre ->
    check_path f x <> CMiss ->
    decides f (pre ++ x :: post) (outcome_of (check_path f x)).

(** MiscOpts::import_resolver: clone the -J list, reverse it, extend with JSONNET_PATH. *)
Definition search_list {A} (jflags env : list A) : list A := rev jflags ++ env.

(** SPEC of the search order (stated in Properties.v): the right-most -J is tried first,
    JSONNET_PATH entries come after every -J, each group otherwise in order. *)

(* ------------------------------------------------------------------ programs *)
Inductive ekind := ENotFound | EIo | EUtf8 | ESyntax | ECycle | ENoField | EFuel.
Inductive res (A : Type) := Ok (a : A) | Err (e : ekind).
Arguments Ok {A} a.
Arguments Err {A} e.

Inductive kind := KImp | KStr | KBin.
Inductive sel := SV | SLz (k : nat).
(** `(import p).v`, `(import p).lz<k>`, `std.length(importstr p)`, `std.length(importbin p)` *)
Record term := T { t_kind : kind; t_path : list comp; t_sel : sel }.
(** A generated file
      local s = std.trace("T<id>", <id>) + t1 + ... + tn + std.trace("D<id>", 0);
      assert s >= 0; { v: s, lz0: std.trace("L<id>_0", 0) + u1 + ..., lz1: ... }           *)
Record body := { b_id : N; b_strict : list term; b_lazy : list (list term) }.
(** What a content blob is: valid UTF-8?, length in code points / bytes, and its parse as a
    generated Jsonnet file ([None] = syntax error). *)
Record blob := { bl_utf8 : bool; bl_chars : N; bl_bytes : N; bl_body : option body }.

Record world := {
  w_fs : fs;
  w_cwd : path;
  w_libs : list (list comp);
  w_blobs : list (N * blob);
  w_faults : list N            (* resolver calls (0-based, resolve and load counted together) that fail *)
}.

Definition no_blob : blob := {| bl_utf8 := true; bl_chars := 0; bl_bytes := 0; bl_body := None |}.
Fixpoint blob_of (bs : list (N * blob)) (cid : N) : blob :=
  match bs with
  | [] => no_blob
  | (k, b) :: r => if k =? cid then b else blob_of r cid
  end.
Definition utf8 (w : world) (cid : N) : bool := bl_utf8 (blob_of (w_blobs w) cid).
Definition body_of (w : world) (cid : N) : option body := bl_body (blob_of (w_blobs w) cid).

(* ------------------------------------------------------------------ state *)
(** lib.rs FileData (without `parsed`: re-parsing is not observable). *)
Record entry := {
  e_cid : N;                   (* the content held by string/bytes *)
  e_string : bool;
  e_bytes : bool;
  e_evaluated : option N;      (* Some v: the cached object; v is its field `v` *)
  e_evaluating : bool
}.
Definition new_bytes (cid : N) : entry :=
  {| e_cid := cid; e_string := false; e_bytes := true; e_evaluated := None; e_evaluating := false |}.
Definition with_string (en : entry) : entry :=
  {| e_cid := e_cid en; e_string := true; e_bytes := e_bytes en; e_evaluated := e_evaluated en;
     e_evaluating := e_evaluating en |}.
Definition with_bytes (en : entry) : entry :=
  {| e_cid := e_cid en; e_string := e_string en; e_bytes := true; e_evaluated := e_evaluated en;
     e_evaluating := e_evaluating en |}.
Definition with_evaluating (b : bool) (en : entry) : entry :=
  {| e_cid := e_cid en; e_string := e_string en; e_bytes := e_bytes en; e_evaluated := e_evaluated en;
     e_evaluating := b |}.
Definition with_evaluated (v : N) (en : entry) : entry :=
  {| e_cid := e_cid en; e_string := e_string en; e_bytes := e_bytes en; e_evaluated := Some v;
     e_evaluating := e_evaluating en |}.

(** obj/mod.rs CacheValue for the lazy fields of a cached file object. *)
Inductive fcell := FPending | FDone (r : res N).

Inductive event :=
| EvResolve (from : src) (raw : list comp) (r : res path)
| EvLoad (c : path) (r : res N)
| EvStart (c : path) (id : N)            (* std.trace "T<id>": the body of [c] starts evaluating *)
| EvDone (c : path) (id : N)             (* std.trace "D<id>": ... and completed *)
| EvLazy (c : path) (id : N) (k : nat).  (* std.trace "L<id>_<k>" *)

Record state := {
  s_cache : path -> option entry;
  s_fields : path -> nat -> option fcell;
  s_log : list event;                    (* newest first *)
  s_calls : N
}.

Definition init : state :=
  {| s_cache := fun _ => None; s_fields := fun _ _ => None; s_log := []; s_calls := 0 |}.

Definition add_log (ev : event) (st : state) : state :=
  {| s_cache := s_cache st; s_fields := s_fields st; s_log := ev :: s_log st; s_calls := s_calls st |}.
Definition bump (st : state) : state :=
  {| s_cache := s_cache st; s_fields := s_fields st; s_log := s_log st; s_calls := s_calls st + 1 |}.
Definition set_entry (c : path) (en : entry) (st : state) : state :=
  {| s_cache := fun c' => if path_eqb c c' then Some en else s_cache st c';
     s_fields := s_fields st; s_log := s_log st; s_calls := s_calls st |}.
Definition set_field (c : path) (k : nat) (x : fcell) (st : state) : state :=
  {| s_cache := s_cache st;
     s_fields := fun c' k' => if path_eqb c c' && Nat.eqb k k' then Some x else s_fields st c' k';
     s_log := s_log st; s_calls := s_calls st |}.
(** drop the cached *errors* of lazy fields (used only to classify the known finding
    C07-field-error-cached: what the operation would answer had those errors not been kept) *)
Definition scrub (st : state) : state :=
  {| s_cache := s_cache st;
     s_fields := fun c k => match s_fields st c k with Some (FDone (Err _)) => None | x => x end;
     s_log := s_log st; s_calls := s_calls st |}.

Definition fault (w : world) (k : N) : bool := existsb (N.eqb k) (w_faults w).

(* ------------------------------------------------------------------ resolver calls *)
Definition res_of_rres (r : rres) : res path :=
  match r with RHit c => Ok c | RNotFound => Err ENotFound | RHard => Err EIo | RFuel => Err EFuel end.

(** one `resolve_from` call through the (recording, fault-injecting) resolver *)
Definition do_resolve (w : world) (from : src) (raw : list comp) (st : state) : res path * state :=
  let st1 := bump st in
  let r := if fault w (s_calls st) then Err EIo
           else res_of_rres (resolve_impl (w_fs w) (w_cwd w) (w_libs w) from raw) in
  (r, add_log (EvResolve from raw r) st1).

(** one `load_file_contents` call *)
Definition do_load (w : world) (c : path) (st : state) : res N * state :=
  let st1 := bump st in
  let r := if fault w (s_calls st) then Err EIo
           else match fs_file (w_fs w) c with Some cid => Ok cid | None => Err EIo end in
  (r, add_log (EvLoad c r) st1).

(* ------------------------------------------------------------------ State::import_resolved* *)
(** `match file_cache.entry(path) { Occupied => .., Vacant => load, insert new_bytes }` — since
    c43636f the three import_resolved* functions insert the loaded bytes before any UTF-8
    validation ([bin] is kept only to name the caller). *)
Definition ensure (w : world) (bin : bool) (c : path) (st : state) : res entry * state :=
  match s_cache st c with
  | Some en => (Ok en, st)
  | None =>
    let '(r, st1) := do_load w c st in
    match r with
    | Err e => (Err e, st1)
    | Ok cid => (Ok (new_bytes cid), set_entry c (new_bytes cid) st1)
    end
  end.

(** FileData::get_string *)
Definition get_string (w : world) (en : entry) : option entry :=
  if e_string en then Some en
  else if utf8 w (e_cid en) then Some (with_string en) else None.

Definition import_str (w : world) (c : path) (st : state) : res N * state :=
  let '(r, st1) := ensure w false c st in
  match r with
  | Err e => (Err e, st1)
  | Ok en =>
    match get_string w en with
    | None => (Err EUtf8, st1)
    | Some en' => (Ok (e_cid en'), set_entry c en' st1)
    end
  end.

Definition import_bin (w : world) (c : path) (st : state) : res N * state :=
  let '(r, st1) := ensure w true c st in
  match r with
  | Err e => (Err e, st1)
  | Ok en => (Ok (e_cid en), set_entry c (with_bytes en) st1)
  end.

(** import_resolved up to the call of `evaluate` ... *)
Inductive begin_res := BDone (v : N) | BFail (e : ekind) | BEval (b : body).
Definition begin_import (w : world) (c : path) (st : state) : begin_res * state :=
  let '(r, st1) := ensure w false c st in
  match r with
  | Err e => (BFail e, st1)
  | Ok en =>
    match e_evaluated en with
    | Some v => (BDone v, st1)
    | None =>
      match get_string w en with
      | None => (BFail EUtf8, st1)
      | Some en1 =>
        let st2 := set_entry c en1 st1 in
        match body_of w (e_cid en1) with
        | None => (BFail ESyntax, st2)
        | Some b =>
          if e_evaluating en1 then (BFail ECycle, st2)
          else (BEval b, add_log (EvStart c (b_id b)) (set_entry c (with_evaluating true en1) st2))
        end
      end
    end
  end.

(** ... and after it returned. *)
Definition finish_import (c : path) (id : N) (r : res N) (st : state) : state :=
  match s_cache st c with
  | None => st                                 (* unreachable!("this file was just here") *)
  | Some en =>
    match r with
    | Ok v => add_log (EvDone c id) (set_entry c (with_evaluated v (with_evaluating false en)) st)
    | Err _ => set_entry c (with_evaluating false en) st
    end
  end.

Definition lazy_of (w : world) (st : state) (c : path) (k : nat) : option (N * list term) :=
  match s_cache st c with
  | None => None
  | Some en =>
    match body_of w (e_cid en) with
    | None => None
    | Some b => match nth_error (b_lazy b) k with Some ts => Some (b_id b, ts) | None => None end
    end
  end.

(* ------------------------------------------------------------------ evaluation *)
Inductive task :=
| KFile (c : path)                         (* State::import_resolved c; answers the object's `v` *)
| KField (c : path) (k : nat)              (* ObjValue::get "lz<k>" on the cached object of c *)
| KTerm (from : src) (t : term)            (* the Expr::Import arm + the selection around it *)
| KSum (from : src) (ts : list term) (acc : N).   (* left-to-right `+` *)

Fixpoint run (w : world) (fuel : nat) (k : task) (st : state) : res N * state :=
  match fuel with
  | O => (Err EFuel, st)
  | S f =>
    match k with
    | KFile c =>
      let '(b, st1) := begin_import w c st in
      match b with
      | BDone v => (Ok v, st1)
      | BFail e => (Err e, st1)
      | BEval bd =>
        let '(r, st2) := run w f (KSum (SFile c) (b_strict bd) (b_id bd)) st1 in
        (r, finish_import c (b_id bd) r st2)
      end
    | KField c j =>
      match s_fields st c j with
      | Some (FDone r) => (r, st)
      | Some FPending => (Err ECycle, st)
      | None =>
        match lazy_of w st c j with
        | None => (Err ENoField, st)
        | Some (id, ts) =>
          let st1 := add_log (EvLazy c id j) (set_field c j FPending st) in
          let '(r, st2) := run w f (KSum (SFile c) ts 0) st1 in
          (r, set_field c j (FDone r) st2)       (* Cached(result): errors are cached too *)
        end
      end
    | KTerm from t =>
      let '(r, st1) := do_resolve w from (t_path t) st in
      match r with
      | Err e => (Err e, st1)
      | Ok c =>
        match t_kind t with
        | KImp =>
          let '(r2, st2) := run w f (KFile c) st1 in
          match r2 with
          | Err e => (Err e, st2)
          | Ok v => match t_sel t with SV => (Ok v, st2) | SLz j => run w f (KField c j) st2 end
          end
        | KStr =>
          let '(r2, st2) := import_str w c st1 in
          match r2 with Err e => (Err e, st2)
                      | Ok cid => (Ok (bl_chars (blob_of (w_blobs w) cid)), st2) end
        | KBin =>
          let '(r2, st2) := import_bin w c st1 in
          match r2 with Err e => (Err e, st2)
                      | Ok cid => (Ok (bl_bytes (blob_of (w_blobs w) cid)), st2) end
        end
      end
    | KSum from ts acc =>
      match ts with
      | [] => (Ok acc, st)
      | t :: rest =>
        let '(r, st1) := run w f (KTerm from t) st in
        match r with
        | Err e => (Err e, st1)
        | Ok n => run w f (KSum from rest (acc + n)) st1
        end
      end
    end
  end.

(* ------------------------------------------------------------------ histories *)
(** One top-level operation on the State: a snippet `(import p).sel` / `importstr p` /
    `importbin p` (from = default source), or the same through `State::import_from` /
    `resolve_from` with the CLI's SourceDefaultIgnoreJpath marker or a SourceDirectory. *)
Record op := { o_src : src; o_term : term }.
Inductive oval := VNum (n : N) | VStr (cid : N) | VBytes (cid : N) | VErr (e : ekind).

Definition op_src (o : op) : src := o_src o.

Definition run_op (w : world) (fuel : nat) (o : op) (st : state) : oval * state :=
  let t := o_term o in
  match t_kind t with
  | KImp =>
    let '(r, st1) := run w fuel (KTerm (op_src o) t) st in
    (match r with Ok n => VNum n | Err e => VErr e end, st1)
  | KStr =>
    let '(r, st1) := do_resolve w (op_src o) (t_path t) st in
    match r with
    | Err e => (VErr e, st1)
    | Ok c => let '(r2, st2) := import_str w c st1 in
              (match r2 with Ok cid => VStr cid | Err e => VErr e end, st2)
    end
  | KBin =>
    let '(r, st1) := do_resolve w (op_src o) (t_path t) st in
    match r with
    | Err e => (VErr e, st1)
    | Ok c => let '(r2, st2) := import_bin w c st1 in
              (match r2 with Ok cid => VBytes cid | Err e => VErr e end, st2)
    end
  end.

Fixpoint run_hist (w : world) (fuel : nat) (h : list op) (st : state) : list oval * state :=
  match h with
  | [] => ([], st)
  | o :: rest =>
    let '(v, st1) := run_op w fuel o st in
    let '(vs, st2) := run_hist w fuel rest st1 in
    (v :: vs, st2)
  end.

(** What the correspondence prints: the results, the chronological event log and, per
    operation, the result the same operation has in a fresh state of the fault-free world
    (the SPEC-level expectation for every operation during which no fault fires). *)
Definition with_faults (w : world) (fl : list N) : world :=
  {| w_fs := w_fs w; w_cwd := w_cwd w; w_libs := w_libs w; w_blobs := w_blobs w; w_faults := fl |}.
Definition no_faults (w : world) : world := with_faults w [].
(** per operation: its answer from the state it actually ran in, with cached field errors
    dropped and no fault *)
Fixpoint scrubbed_results (w : world) (fuel : nat) (h : list op) (st : state) : list oval :=
  match h with
  | [] => []
  | o :: rest =>
    fst (run_op (no_faults w) fuel o (scrub st)) :: scrubbed_results w fuel rest (snd (run_op w fuel o st))
  end.

Definition fresh_result (w : world) (fuel : nat) (o : op) : oval :=
  fst (run_op (no_faults w) fuel o init).

Definition run_case (w : world) (fuel : nat) (h : list op) :=
  let '(vs, st) := run_hist w fuel h init in
  (vs, rev (s_log st), map (fresh_result w fuel) h, scrubbed_results w fuel h init, s_calls st).

(** the fault-free run, then every fault set of [fls] that fires at all (some index below the
    number of resolver calls of the fault-free run), each tagged with its fault set *)
Definition run_variants (w : world) (fuel : nat) (h : list op) (fls : list (list N)) :=
  let base := run_case (with_faults w []) fuel h in
  let n := snd base in
  ([], base) ::
  map (fun fl => (fl, run_case (with_faults w fl) fuel h))
      (filter (fun fl => existsb (fun k => k <? n) fl) fls).

(* ------------------------------------------------------------------ log observers (SPEC side) *)
Definition is_ok_load (c : path) (ev : event) : bool :=
  match ev with EvLoad c' (Ok _) => path_eqb c c' | _ => false end.
Definition is_load (c : path) (ev : event) : bool :=
  match ev with EvLoad c' _ => path_eqb c c' | _ => false end.
Definition is_done (c : path) (ev : event) : bool :=
  match ev with EvDone c' _ => path_eqb c c' | _ => false end.
Definition is_start (c : path) (ev : event) : bool :=
  match ev with EvStart c' _ => path_eqb c c' | _ => false end.

Fixpoint count (p : event -> bool) (l : list event) : nat :=
  match l with [] => O | e :: r => (if p e then 1 else 0) + count p r end.

(** no evaluation of [c] starts after one has completed ([l] newest first) *)
Fixpoint no_start_after_done (c : path) (l : list event) : Prop :=
  match l with
  | [] => True
  | e :: r => (is_start c e = true -> count (is_done c) r = O) /\ no_start_after_done c r
  end.

Definition quiescent (st : state) : Prop :=
  forall c en, s_cache st c = Some en -> e_evaluating en = false.
Definition no_pending (st : state) : Prop :=
  forall c k, s_fields st c k <> Some FPending.
(** every cache entry holds the content of the file it is keyed by, and a `string` only
    when that content is valid UTF-8 *)
Definition coherent (w : world) (st : state) : Prop :=
  forall c en, s_cache st c = Some en ->
    fs_file (w_fs w) c = Some (e_cid en) /\
    (e_string en = true -> utf8 w (e_cid en) = true) /\
    (e_string en = true \/ e_bytes en = true).
