(** C07, source tie: the machine of Model.v ([run] / [run_op] / [run_hist]) with every step that
    Model.v transliterates BY HAND replaced by the step function the translator wrote into
    Gen/GenImport.v from the Rust source text of the working tree:

      Model.resolve_impl   ->  GenImport.gen_resolve_from        (import.rs resolve_from)
      Model.import_str     ->  GenImport.gen_import_resolved_str (lib.rs import_resolved_str)
      Model.import_bin     ->  GenImport.gen_import_resolved_bin (lib.rs import_resolved_bin)
      Model.begin_import   ->  GenImport.gen_begin_import        (lib.rs import_resolved, up to evaluate())
      Model.finish_import  ->  GenImport.gen_finish_import       (lib.rs import_resolved, after evaluate())
      Model.search_list    ->  GenImport.gen_search_list         (cli lib.rs import_resolver)

    What stays shared with Model.v: the file-system oracle ([walk]/[check_path]), the recording and
    fault-injecting resolver wrapper ([do_load], and [do_resolve] around the translated resolution),
    the evaluation of the generated file bodies (left-to-right `+`, lazy object fields and their cache).
    Definitions only. *)
From Coq Require Import List NArith Bool.
From JrV Require Import C07.Model Gen.GenImport.
Import ListNotations.
Open Scope N_scope.

(** one `resolve_from` call through the recording resolver, the resolution itself translated *)
Definition gen_do_resolve (w : world) (from : src) (raw : list comp) (st : state) : res path * state :=
  let st1 := bump st in
  let r := if fault w (s_calls st) then Err EIo
           else res_of_rres (gen_resolve_from (w_fs w) (w_cwd w) (w_libs w) from raw) in
  (r, add_log (EvResolve from raw r) st1).

Fixpoint gen_run (w : world) (fuel : nat) (k : task) (st : state) : res N * state :=
  match fuel with
  | O => (Err EFuel, st)
  | S f =>
    match k with
    | KFile c =>
      let '(b, st1) := gen_begin_import w c st in
      match b with
      | BDone v => (Ok v, st1)
      | BFail e => (Err e, st1)
      | BEval bd =>
        let '(r, st2) := gen_run w f (KSum (SFile c) (b_strict bd) (b_id bd)) st1 in
        gen_finish_import c (b_id bd) r st2
      end
    | KField c j =>
      match s_fields st c j with
      | Some (FDone r) => (r, st)
      | Some FPending => (Err ECycle, st)
      | None =>
        match lazy_of w st c j with
        | None => (Err ENoField, st)
        | Some (id, ts) =>
          let st1 := add_log (EvLazy c id j) (set_field c j FPending st) in
          let '(r, st2) := gen_run w f (KSum (SFile c) ts 0) st1 in
          (r, set_field c j (FDone r) st2)
        end
      end
    | KTerm from t =>
      let '(r, st1) := gen_do_resolve w from (t_path t) st in
      match r with
      | Err e => (Err e, st1)
      | Ok c =>
        match t_kind t with
        | KImp =>
          let '(r2, st2) := gen_run w f (KFile c) st1 in
          match r2 with
          | Err e => (Err e, st2)
          | Ok v => match t_sel t with SV => (Ok v, st2) | SLz j => gen_run w f (KField c j) st2 end
          end
        | KStr =>
          let '(r2, st2) := gen_import_resolved_str w c st1 in
          match r2 with Err e => (Err e, st2)
                      | Ok cid => (Ok (bl_chars (blob_of (w_blobs w) cid)), st2) end
        | KBin =>
          let '(r2, st2) := gen_import_resolved_bin w c st1 in
          match r2 with Err e => (Err e, st2)
                      | Ok cid => (Ok (bl_bytes (blob_of (w_blobs w) cid)), st2) end
        end
      end
    | KSum from ts acc =>
      match ts with
      | [] => (Ok acc, st)
      | t :: rest =>
        let '(r, st1) := gen_run w f (KTerm from t) st in
        match r with
        | Err e => (Err e, st1)
        | Ok n => gen_run w f (KSum from rest (acc + n)) st1
        end
      end
    end
  end.

Definition gen_run_op (w : world) (fuel : nat) (o : op) (st : state) : oval * state :=
  let t := o_term o in
  match t_kind t with
  | KImp =>
    let '(r, st1) := gen_run w fuel (KTerm (op_src o) t) st in
    (match r with Ok n => VNum n | Err e => VErr e end, st1)
  | KStr =>
    let '(r, st1) := gen_do_resolve w (op_src o) (t_path t) st in
    match r with
    | Err e => (VErr e, st1)
    | Ok c => let '(r2, st2) := gen_import_resolved_str w c st1 in
              (match r2 with Ok cid => VStr cid | Err e => VErr e end, st2)
    end
  | KBin =>
    let '(r, st1) := gen_do_resolve w (op_src o) (t_path t) st in
    match r with
    | Err e => (VErr e, st1)
    | Ok c => let '(r2, st2) := gen_import_resolved_bin w c st1 in
              (match r2 with Ok cid => VBytes cid | Err e => VErr e end, st2)
    end
  end.

Fixpoint gen_run_hist (w : world) (fuel : nat) (h : list op) (st : state) : list oval * state :=
  match h with
  | [] => ([], st)
  | o :: rest =>
    let '(v, st1) := gen_run_op w fuel o st in
    let '(vs, st2) := gen_run_hist w fuel rest st1 in
    (v :: vs, st2)
  end.

Definition gen_fresh_result (w : world) (fuel : nat) (o : op) : oval :=
  fst (gen_run_op (no_faults w) fuel o init).
