(** C07 Proofs — placeholder *)
From JrV Require Import C07.Model.
