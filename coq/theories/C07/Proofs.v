(** C07 — lemmas.  Properties.v only re-exports. *)
From Coq Require Import List NArith Bool Arith Lia.
From JrV Require Import C07.Model.
Import ListNotations.
Open Scope N_scope.

(* ------------------------------------------------------------------ basics *)
Lemma path_eqb_refl : forall a, path_eqb a a = true.
Proof. induction a; cbn; auto. rewrite N.eqb_refl. auto. Qed.

Lemma path_eqb_eq : forall a b, path_eqb a b = true <-> a = b.
Proof.
  induction a; destruct b; cbn; split; intro H; try congruence; auto.
  - apply andb_true_iff in H. destruct H as [H1 H2]. apply N.eqb_eq in H1. apply IHa in H2. congruence.
  - inversion H; subst. rewrite N.eqb_refl. cbn. apply path_eqb_refl.
Qed.

Lemma path_eqb_neq : forall a b, path_eqb a b = false <-> a <> b.
Proof.
  intros. split; intro H.
  - intro E. apply path_eqb_eq in E. congruence.
  - destruct (path_eqb a b) eqn:E; auto. apply path_eqb_eq in E. contradiction.
Qed.

Lemma path_eqb_sym : forall a b, path_eqb a b = path_eqb b a.
Proof.
  intros. destruct (path_eqb a b) eqn:E.
  - apply path_eqb_eq in E. subst. symmetry. apply path_eqb_refl.
  - symmetry. apply path_eqb_neq. apply path_eqb_neq in E. congruence.
Qed.

(* ------------------------------------------------------------------ resolution *)
Lemma decides_cons_miss : forall f x cs r,
  check_path f x = CMiss -> decides f cs r -> decides f (x :: cs) r.
Proof.
  intros f x cs r Hx H. inversion H; subst.
  - apply D_none. constructor; auto.
  - change (x :: pre ++ x0 :: post) with ((x :: pre) ++ x0 :: post).
    apply D_first; auto.
Qed.

Lemma decides_head : forall f x cs,
  check_path f x <> CMiss -> decides f (x :: cs) (outcome_of (check_path f x)).
Proof. intros. apply (D_first f [] x cs); auto. Qed.

Lemma try_libs_decides : forall f libs raw,
  decides f (map (fun l => l ++ raw) libs) (try_libs f libs raw).
Proof.
  induction libs; intros; cbn.
  - apply D_none. constructor.
  - destruct (check_path f (a ++ raw)) eqn:E.
    + replace (RHit c) with (outcome_of (check_path f (a ++ raw))) by (rewrite E; reflexivity).
      apply decides_head. congruence.
    + apply decides_cons_miss; auto.
    + replace RHard with (outcome_of (check_path f (a ++ raw))) by (rewrite E; reflexivity).
      apply decides_head. congruence.
    + replace RFuel with (outcome_of (check_path f (a ++ raw))) by (rewrite E; reflexivity).
      apply decides_head. congruence.
Qed.

Lemma resolve_refines : forall f cwd libs from raw,
  decides f (candidates cwd libs from raw) (resolve_impl f cwd libs from raw).
Proof.
  intros. destruct from; cbn [resolve_impl candidates].
  - destruct (check_path f (abs_of (removelast c) ++ raw)) eqn:E.
    + replace (RHit c0) with (outcome_of (check_path f (abs_of (removelast c) ++ raw))) by (rewrite E; reflexivity).
      apply decides_head. congruence.
    + apply decides_cons_miss; auto. apply try_libs_decides.
    + replace RHard with (outcome_of (check_path f (abs_of (removelast c) ++ raw))) by (rewrite E; reflexivity).
      apply decides_head. congruence.
    + replace RFuel with (outcome_of (check_path f (abs_of (removelast c) ++ raw))) by (rewrite E; reflexivity).
      apply decides_head. congruence.
  - destruct (check_path f (abs_of d ++ raw)) eqn:E.
    + replace (RHit c) with (outcome_of (check_path f (abs_of d ++ raw))) by (rewrite E; reflexivity).
      apply decides_head. congruence.
    + apply decides_cons_miss; auto. apply try_libs_decides.
    + replace RHard with (outcome_of (check_path f (abs_of d ++ raw))) by (rewrite E; reflexivity).
      apply decides_head. congruence.
    + replace RFuel with (outcome_of (check_path f (abs_of d ++ raw))) by (rewrite E; reflexivity).
      apply decides_head. congruence.
  - destruct (check_path f (abs_of cwd ++ raw)) eqn:E.
    + replace (RHit c) with (outcome_of (check_path f (abs_of cwd ++ raw))) by (rewrite E; reflexivity).
      apply decides_head. congruence.
    + apply decides_cons_miss; auto. apply try_libs_decides.
    + replace RHard with (outcome_of (check_path f (abs_of cwd ++ raw))) by (rewrite E; reflexivity).
      apply decides_head. congruence.
    + replace RFuel with (outcome_of (check_path f (abs_of cwd ++ raw))) by (rewrite E; reflexivity).
      apply decides_head. congruence.
  - destruct (check_path f (abs_of cwd ++ raw)) eqn:E.
    + replace (RHit c) with (outcome_of (check_path f (abs_of cwd ++ raw))) by (rewrite E; reflexivity).
      apply decides_head. congruence.
    + apply D_none. constructor; auto.
    + replace RHard with (outcome_of (check_path f (abs_of cwd ++ raw))) by (rewrite E; reflexivity).
      apply decides_head. congruence.
    + replace RFuel with (outcome_of (check_path f (abs_of cwd ++ raw))) by (rewrite E; reflexivity).
      apply decides_head. congruence.
Qed.

(** the specification is functional: at most one outcome is decided *)
Lemma decides_nil_inv : forall f r, decides f [] r -> r = RNotFound.
Proof.
  intros f r H. inversion H; subst; auto.
  match goal with HH : _ ++ _ :: _ = [] |- _ => destruct pre; discriminate HH end.
Qed.

Lemma decides_cons_inv : forall f x cs r, decides f (x :: cs) r ->
  (check_path f x = CMiss /\ decides f cs r) \/
  (check_path f x <> CMiss /\ r = outcome_of (check_path f x)).
Proof.
  intros f x cs r H. inversion H; subst.
  - match goal with HF : Forall _ (x :: cs) |- _ => inversion HF; subst end.
    left. split; auto. apply D_none; auto.
  - destruct pre as [|z pre]; cbn in *;
      match goal with HH : _ :: _ = _ :: _ |- _ => inversion HH; subst end.
    + right. split; auto.
    + match goal with HF : Forall _ (_ :: _) |- _ => inversion HF; subst end.
      left. split; auto. apply D_first; auto.
Qed.

Lemma decides_functional : forall f cs r1 r2, decides f cs r1 -> decides f cs r2 -> r1 = r2.
Proof.
  intros f cs. induction cs as [|x cs IH]; intros r1 r2 H1 H2.
  - apply decides_nil_inv in H1. apply decides_nil_inv in H2. congruence.
  - apply decides_cons_inv in H1. apply decides_cons_inv in H2.
    destruct H1 as [[M1 D1]|[N1 E1]], H2 as [[M2 D2]|[N2 E2]]; try congruence.
    apply IH; auto.
Qed.

Lemma search_list_nil : forall A (env : list A), search_list [] env = env.
Proof. reflexivity. Qed.

Lemma search_list_snoc : forall A (js : list A) j env,
  search_list (js ++ [j]) env = j :: search_list js env.
Proof. intros. unfold search_list. rewrite rev_app_distr. reflexivity. Qed.

(* ------------------------------------------------------------------ state invariants *)
Definition flag (st : state) (c : path) : bool :=
  match s_cache st c with Some en => e_evaluating en | None => false end.
Definition evald (st : state) (c : path) : option N :=
  match s_cache st c with Some en => e_evaluated en | None => None end.

Definition entry_ok (w : world) (c : path) (en : entry) : Prop :=
  fs_file (w_fs w) c = Some (e_cid en) /\
  (e_string en = true -> utf8 w (e_cid en) = true) /\
  (e_string en = true \/ e_bytes en = true).

Record good (w : world) (st : state) : Prop := mkgood {
  g_coh : forall c en, s_cache st c = Some en -> entry_ok w c en;
  g_load : forall c,
      (s_cache st c = None -> count (is_ok_load c) (s_log st) = O) /\
      (count (is_ok_load c) (s_log st) <= 1)%nat;
  g_eval : forall c,
      (evald st c = None -> count (is_done c) (s_log st) = O) /\
      (count (is_done c) (s_log st) <= 1)%nat /\
      no_start_after_done c (s_log st)
}.

Record ext (st st' : state) : Prop := mkext {
  x_flag : forall c, flag st' c = flag st c;
  x_frozen : forall c, flag st c = true -> evald st' c = evald st c;
  x_mono : forall c en, s_cache st c = Some en ->
      exists en', s_cache st' c = Some en' /\ e_cid en' = e_cid en /\
                  (forall v, e_evaluated en = Some v -> e_evaluated en' = Some v);
  x_pend : forall c k, s_fields st' c k = Some FPending <-> s_fields st c k = Some FPending
}.

Lemma ext_refl : forall st, ext st st.
Proof.
  intro st. constructor; intros; auto; try tauto.
  exists en. auto.
Qed.

Lemma ext_trans : forall a b c, ext a b -> ext b c -> ext a c.
Proof.
  intros a b c [f1 z1 m1 p1] [f2 z2 m2 p2]. constructor; intros.
  - rewrite f2. apply f1.
  - rewrite z2. apply z1; auto. rewrite f1. auto.
  - destruct (m1 _ _ H) as [en1 [H1 [C1 V1]]]. destruct (m2 _ _ H1) as [en2 [H2 [C2 V2]]].
    exists en2. repeat split; auto. congruence.
  - rewrite p2. apply p1.
Qed.

Lemma ext_same : forall st st',
  (forall c, s_cache st' c = s_cache st c) -> (forall c k, s_fields st' c k = s_fields st c k) -> ext st st'.
Proof.
  intros st st' Hc Hf. constructor; intros; unfold flag, evald; try rewrite Hc; try rewrite Hf; auto; try tauto.
  exists en. auto.
Qed.

Definition quiet (ev : event) : Prop :=
  match ev with
  | EvResolve _ _ _ | EvLazy _ _ _ | EvLoad _ (Err _) => True
  | _ => False
  end.

Lemma good_same_cache : forall w st st',
  (forall c, s_cache st' c = s_cache st c) -> s_log st' = s_log st -> good w st -> good w st'.
Proof.
  intros w st st' Hc Hl [g1 g2 g3]. constructor; intros.
  - apply g1. rewrite <- Hc. auto.
  - rewrite Hl, Hc. apply g2.
  - unfold evald. rewrite Hl, Hc. apply g3.
Qed.

Lemma good_add_quiet : forall w ev st, quiet ev -> good w st -> good w (add_log ev st).
Proof.
  intros w ev st Hq [g1 g2 g3]. constructor; intros.
  - apply g1. auto.
  - cbn [s_log s_cache add_log count].
    assert (is_ok_load c ev = false) as E by (destruct ev as [| ? [|] | | |]; cbn in *; tauto).
    rewrite E. apply g2.
  - unfold evald. cbn [s_log s_cache add_log count no_start_after_done].
    assert (is_done c ev = false) as E by (destruct ev as [| ? [|] | | |]; cbn in *; tauto).
    assert (is_start c ev = false) as E2 by (destruct ev as [| ? [|] | | |]; cbn in *; tauto).
    rewrite E, E2. destruct (g3 c) as [a [b d]]. repeat split; auto. discriminate.
Qed.

Lemma good_bump : forall w st, good w st -> good w (bump st).
Proof. intros. apply (good_same_cache w st); auto. Qed.

Lemma ext_add_log : forall ev st, ext st (add_log ev st).
Proof. intros. apply ext_same; auto. Qed.
Lemma ext_bump : forall st, ext st (bump st).
Proof. intros. apply ext_same; auto. Qed.

Lemma good_set_entry : forall w c en st,
  good w st -> entry_ok w c en -> e_evaluated en = evald st c -> good w (set_entry c en st).
Proof.
  intros w c en st [g1 g2 g3] Hok Hev. constructor; intros.
  - cbn [s_cache set_entry] in H. destruct (path_eqb c c0) eqn:E.
    + apply path_eqb_eq in E. subst. inversion H; subst. auto.
    + apply g1. auto.
  - cbn [s_cache s_log set_entry]. destruct (g2 c0) as [a b]. split; auto.
    destruct (path_eqb c c0) eqn:E; auto. discriminate.
  - cbn [s_log set_entry]. destruct (g3 c0) as [a [b d]]. repeat split; auto.
    intro Hn. apply a. unfold evald in *. cbn [s_cache set_entry] in Hn.
    destruct (path_eqb c c0) eqn:E; auto. apply path_eqb_eq in E. subst. rewrite <- Hev. auto.
Qed.

Lemma ext_set_entry : forall c en st,
  e_evaluating en = flag st c -> e_evaluated en = evald st c ->
  (forall en0, s_cache st c = Some en0 -> e_cid en = e_cid en0) ->
  ext st (set_entry c en st).
Proof.
  intros c en st Hf He Hc. constructor; intros.
  - unfold flag. cbn [s_cache set_entry]. destruct (path_eqb c c0) eqn:E; auto.
    apply path_eqb_eq in E. subst. auto.
  - unfold evald. cbn [s_cache set_entry]. destruct (path_eqb c c0) eqn:E; auto.
    apply path_eqb_eq in E. subst. auto.
  - cbn [s_cache set_entry]. destruct (path_eqb c c0) eqn:E.
    + apply path_eqb_eq in E. subst. exists en. repeat split; auto.
      intros v Hv. rewrite He. unfold evald. rewrite H. auto.
    + exists en0. auto.
  - cbn [s_fields set_entry]. tauto.
Qed.

(* ------------------------------------------------------------------ primitives *)
Lemma do_resolve_ok : forall w from raw st r st',
  do_resolve w from raw st = (r, st') -> good w st -> good w st' /\ ext st st'.
Proof.
  unfold do_resolve. intros. inversion H; subst. split.
  - apply good_add_quiet; [exact I|]. apply good_bump; auto.
  - apply ext_same; auto.
Qed.

Lemma ensure_ok : forall w bin c st r st',
  ensure w bin c st = (r, st') -> good w st ->
  good w st' /\ ext st st' /\ (forall en, r = Ok en -> s_cache st' c = Some en).
Proof.
  unfold ensure. intros w bin c st r st' H G.
  destruct (s_cache st c) as [en0|] eqn:EC.
  { inversion H; subst. split; [|split]; auto using ext_refl. intros en9 E. inversion E; subst; auto. }
  unfold do_load in H.
  destruct (fault w (s_calls st)).
  { inversion H; subst. split; [|split].
    - apply good_add_quiet; [exact I|]. apply good_bump; auto.
    - apply ext_same; auto.
    - intros en9 E. discriminate. }
  destruct (fs_file (w_fs w) c) as [cid|] eqn:EF.
  2:{ inversion H; subst. split; [|split].
    - apply good_add_quiet; [exact I|]. apply good_bump; auto.
    - apply ext_same; auto.
    - intros en9 E. discriminate. }
  (* a successful load *)
  assert (forall en, e_cid en = cid -> e_evaluated en = None -> e_evaluating en = false ->
                     (e_string en = true -> utf8 w cid = true) -> (e_string en = true \/ e_bytes en = true) ->
                     good w (set_entry c en (add_log (EvLoad c (Ok cid)) (bump st))) /\
                     ext st (set_entry c en (add_log (EvLoad c (Ok cid)) (bump st)))) as K.
  { intros en Hcid Hev Hfl Hs Hsb. destruct G as [g1 g2 g3]. split.
    - constructor; intros.
      + cbn [s_cache set_entry add_log] in H0. destruct (path_eqb c c0) eqn:E.
        * apply path_eqb_eq in E. subst c0. inversion H0; subst en0. unfold entry_ok. rewrite Hcid. auto.
        * apply g1. auto.
      + cbn [s_cache s_log set_entry add_log count is_ok_load]. destruct (g2 c0) as [a b].
        rewrite (path_eqb_sym c0 c). destruct (path_eqb c c0) eqn:E.
        * apply path_eqb_eq in E. subst c0. cbn [s_log bump] in *. rewrite (a EC). split; [discriminate|lia].
        * cbn [s_cache s_log bump] in *. auto.
      + unfold evald. cbn [s_cache s_log set_entry add_log count is_done no_start_after_done is_start].
        destruct (g3 c0) as [a [b d]]. cbn [s_log bump]. repeat split; auto; try discriminate.
        intro Hn. apply a. unfold evald. destruct (path_eqb c c0) eqn:E; auto.
        apply path_eqb_eq in E. subst c0. rewrite EC. auto.
    - constructor; intros.
      + unfold flag. cbn [s_cache set_entry add_log bump]. destruct (path_eqb c c0) eqn:E; auto.
        apply path_eqb_eq in E. subst c0. rewrite EC. auto.
      + unfold evald. cbn [s_cache set_entry add_log bump]. destruct (path_eqb c c0) eqn:E; auto.
        apply path_eqb_eq in E. subst c0. rewrite EC. auto.
      + cbn [s_cache set_entry add_log bump]. destruct (path_eqb c c0) eqn:E.
        * apply path_eqb_eq in E. subst c0. congruence.
        * exists en0. auto.
      + cbn. tauto. }
  inversion H; subst. destruct (K (new_bytes cid)) as [K1 K2]; cbn; auto; try discriminate.
  split; [|split]; auto. intros en9 E. inversion E; subst. cbn. rewrite path_eqb_refl. auto.
Qed.

Ltac pe c c0 E :=
  destruct (path_eqb c c0) eqn:E; [apply path_eqb_eq in E; subst c0 | ].

Lemma replace_entry_ok : forall w c en en' st,
  good w st -> s_cache st c = Some en ->
  e_cid en' = e_cid en -> e_evaluated en' = e_evaluated en -> e_evaluating en' = e_evaluating en ->
  (e_string en' = true -> utf8 w (e_cid en') = true) -> (e_string en' = true \/ e_bytes en' = true) ->
  good w (set_entry c en' st) /\ ext st (set_entry c en' st).
Proof.
  intros w c en en' st G HC Hcid Hev Hfl Hs Hsb. split.
  - apply good_set_entry; auto.
    + destruct (g_coh _ _ G _ _ HC) as [a [b d]]. unfold entry_ok. rewrite Hcid in *. auto.
    + unfold evald. rewrite HC. auto.
  - apply ext_set_entry.
    + unfold flag. rewrite HC. auto.
    + unfold evald. rewrite HC. auto.
    + intros en0 H0. congruence.
Qed.

Lemma import_str_ok : forall w c st r st',
  import_str w c st = (r, st') -> good w st ->
  good w st' /\ ext st st' /\ (forall cid, r = Ok cid -> fs_file (w_fs w) c = Some cid).
Proof.
  unfold import_str. intros w c st r st' H G.
  destruct (ensure w false c st) as [r1 st1] eqn:E.
  destruct (ensure_ok _ _ _ _ _ _ E G) as [G1 [X1 C1]].
  destruct r1 as [en|e].
  2:{ inversion H; subst. split; [|split]; auto. intros cid K. discriminate. }
  specialize (C1 en eq_refl).
  destruct (g_coh _ _ G1 _ _ C1) as [a [b d]].
  unfold get_string in H. destruct (e_string en) eqn:ES.
  - inversion H; subst.
    destruct (replace_entry_ok w c en en st1 G1 C1) as [K1 K2]; auto.
    split; [|split]; auto. { eapply ext_trans; eauto. }
    intros cid K. inversion K; subst. auto.
  - destruct (utf8 w (e_cid en)) eqn:EU.
    + inversion H; subst.
      destruct (replace_entry_ok w c en (with_string en) st1 G1 C1) as [K1 K2]; cbn; auto.
      split; [|split]; auto. { eapply ext_trans; eauto. }
      intros cid K. inversion K; subst. auto.
    + inversion H; subst. split; [|split]; auto. intros cid K. discriminate.
Qed.

Lemma import_bin_ok : forall w c st r st',
  import_bin w c st = (r, st') -> good w st ->
  good w st' /\ ext st st' /\ (forall cid, r = Ok cid -> fs_file (w_fs w) c = Some cid).
Proof.
  unfold import_bin. intros w c st r st' H G.
  destruct (ensure w true c st) as [r1 st1] eqn:E.
  destruct (ensure_ok _ _ _ _ _ _ E G) as [G1 [X1 C1]].
  destruct r1 as [en|e].
  2:{ inversion H; subst. split; [|split]; auto. intros cid K. discriminate. }
  specialize (C1 en eq_refl).
  destruct (g_coh _ _ G1 _ _ C1) as [a [b d]].
  inversion H; subst.
  destruct (replace_entry_ok w c en (with_bytes en) st1 G1 C1) as [K1 K2]; cbn; auto.
  split; [|split]; auto. { eapply ext_trans; eauto. }
  intros cid K. inversion K; subst. auto.
Qed.

Lemma begin_ok : forall w c st b st1,
  begin_import w c st = (b, st1) -> good w st ->
  match b with
  | BEval bd =>
      exists st2 en1, good w st2 /\ ext st st2 /\ s_cache st2 c = Some en1 /\
        e_evaluating en1 = false /\ e_evaluated en1 = None /\
        st1 = add_log (EvStart c (b_id bd)) (set_entry c (with_evaluating true en1) st2)
  | _ => good w st1 /\ ext st st1
  end.
Proof.
  unfold begin_import. intros w c st b st1 H G.
  destruct (ensure w false c st) as [r1 st0] eqn:E.
  destruct (ensure_ok _ _ _ _ _ _ E G) as [G1 [X1 C1]].
  destruct r1 as [en|e].
  2:{ inversion H; subst. auto. }
  specialize (C1 en eq_refl).
  destruct (g_coh _ _ G1 _ _ C1) as [a [b' d]].
  destruct (e_evaluated en) as [v|] eqn:EV.
  { inversion H; subst. auto. }
  assert (forall en1, get_string w en = Some en1 ->
            e_evaluating en1 = e_evaluating en /\ e_evaluated en1 = None /\ e_cid en1 = e_cid en /\
            good w (set_entry c en1 st0) /\ ext st0 (set_entry c en1 st0)) as K.
  { intros en1 HG. unfold get_string in HG. destruct (e_string en) eqn:ES.
    - inversion HG; subst en1. split; [|split; [|split]]; auto.
      apply (replace_entry_ok w c en en st0); auto.
    - destruct (utf8 w (e_cid en)) eqn:EU; [|discriminate]. inversion HG; subst en1. cbn.
      split; [|split; [|split]]; auto.
      apply (replace_entry_ok w c en (with_string en) st0); cbn; auto. }
  destruct (get_string w en) as [en1|] eqn:EG.
  2:{ inversion H; subst. auto. }
  destruct (K en1 eq_refl) as [K1 [K2 [K3 [K4 K5]]]].
  destruct (body_of w (e_cid en1)) as [bd|].
  2:{ inversion H; subst. split; auto. eapply ext_trans; eauto. }
  destruct (e_evaluating en1) eqn:EE.
  { inversion H; subst. split; auto. eapply ext_trans; eauto. }
  inversion H; subst.
  exists (set_entry c en1 st0), en1. split; [|split; [|split; [|split; [|split]]]]; auto.
  - eapply ext_trans; eauto.
  - cbn. rewrite path_eqb_refl. auto.
Qed.

Lemma begin_good : forall w c id en1 st2,
  good w st2 -> s_cache st2 c = Some en1 -> e_evaluated en1 = None ->
  good w (add_log (EvStart c id) (set_entry c (with_evaluating true en1) st2)).
Proof.
  intros w c id en1 st2 G HC HE.
  assert (good w (set_entry c (with_evaluating true en1) st2)) as G2.
  { apply good_set_entry; auto.
    - destruct (g_coh _ _ G _ _ HC) as [a [b d]]. unfold entry_ok. cbn. auto.
    - unfold evald. rewrite HC. cbn. auto. }
  destruct G2 as [g1 g2 g3]. constructor; intros.
  - apply g1. auto.
  - cbn [s_log s_cache add_log count is_ok_load]. apply g2.
  - unfold evald. cbn [s_log s_cache add_log count is_done no_start_after_done is_start].
    destruct (g3 c0) as [a [b d]]. split; [|split; [|split]]; auto.
    intro HS. rewrite path_eqb_sym in HS. apply path_eqb_eq in HS. subst c0.
    apply a. unfold evald. cbn. rewrite path_eqb_refl. cbn. auto.
Qed.

Lemma finish_ok : forall w c id en1 st2 st3 r,
  good w st2 -> s_cache st2 c = Some en1 -> e_evaluating en1 = false -> e_evaluated en1 = None ->
  good w st3 ->
  ext (add_log (EvStart c id) (set_entry c (with_evaluating true en1) st2)) st3 ->
  good w (finish_import c id r st3) /\ ext st2 (finish_import c id r st3).
Proof.
  intros w c id en1 st2 st3 r G2 HC HF HE G3 X.
  set (st1 := add_log (EvStart c id) (set_entry c (with_evaluating true en1) st2)) in *.
  assert (s_cache st1 c = Some (with_evaluating true en1)) as C1.
  { subst st1. cbn. rewrite path_eqb_refl. auto. }
  assert (forall c0, c0 <> c -> s_cache st1 c0 = s_cache st2 c0) as C1'.
  { intros c0 N. subst st1. cbn. apply path_eqb_neq in N. rewrite path_eqb_sym in N. rewrite N. auto. }
  destruct (x_mono _ _ X _ _ C1) as [en3 [C3 [I3 _]]].
  assert (e_evaluating en3 = true) as F3.
  { pose proof (x_flag _ _ X c) as P. unfold flag in P. rewrite C3, C1 in P. cbn in P. auto. }
  assert (e_evaluated en3 = None) as E3.
  { assert (flag st1 c = true) as Q by (unfold flag; rewrite C1; auto).
    pose proof (x_frozen _ _ X c Q) as P. unfold evald in P. rewrite C3, C1 in P. cbn in P. congruence. }
  destruct (g_coh _ _ G3 _ _ C3) as [a3 [b3 d3]].
  (* everything about the final state that does not depend on r *)
  assert (forall en4 st4,
            e_cid en4 = e_cid en3 -> e_evaluating en4 = false ->
            (forall c0, s_cache st4 c0 = if path_eqb c c0 then Some en4 else s_cache st3 c0) ->
            (forall c0 k, s_fields st4 c0 k = s_fields st3 c0 k) ->
            ext st2 st4) as KX.
  { intros en4 st4 I4 F4 HC4 HF4. constructor; intros.
    - unfold flag. rewrite HC4. pe c c0 E.
      + rewrite HC. congruence.
      + pose proof (x_flag _ _ X c0) as P. unfold flag in P. rewrite P.
        rewrite C1'; auto. apply path_eqb_neq in E. congruence.
    - assert (c0 <> c) as N. { intro; subst c0. unfold flag in H. rewrite HC in H. congruence. }
      unfold evald. rewrite HC4. apply path_eqb_neq in N. rewrite path_eqb_sym in N. rewrite N.
      apply path_eqb_neq in N.
      assert (flag st1 c0 = true) as Q. { unfold flag. rewrite C1'; auto. }
      pose proof (x_frozen _ _ X c0 Q) as P. unfold evald in P. rewrite P. rewrite C1'; auto.
    - rewrite HC4. pe c c0 E.
      + exists en4. split; [|split]; auto.
        * rewrite HC in H. inversion H; subst en. rewrite I4, I3. auto.
        * rewrite HC in H. inversion H; subst en. intros v Hv. congruence.
      + apply path_eqb_neq in E.
        apply (x_mono _ _ X). rewrite C1'; auto.
    - rewrite HF4. rewrite (x_pend _ _ X). subst st1. cbn. tauto. }
  unfold finish_import. rewrite C3. destruct r as [v|e].
  - split.
    + destruct G3 as [g1 g2 g3]. constructor; intros.
      * cbn [s_cache set_entry add_log] in H. pe c c0 E.
        -- inversion H; subst en. unfold entry_ok. cbn. auto.
        -- apply g1; auto.
      * cbn [s_cache s_log set_entry add_log count is_ok_load]. destruct (g2 c0) as [a b]. split; auto.
        pe c c0 E; auto. discriminate.
      * unfold evald. cbn [s_cache s_log set_entry add_log count is_done no_start_after_done is_start].
        destruct (g3 c0) as [a [b d]]. rewrite (path_eqb_sym c0 c). pe c c0 E.
        -- assert (count (is_done c) (s_log st3) = O) as Z.
           { apply a. unfold evald. rewrite C3. auto. }
           rewrite Z. split; [|split; [|split]]; auto; try discriminate.
        -- split; [|split; [|split]]; auto. discriminate.
    + apply (KX (with_evaluated v (with_evaluating false en3))); auto.
  - split.
    + apply good_set_entry; auto.
      * unfold entry_ok. cbn. auto.
      * unfold evald. rewrite C3. cbn. auto.
    + apply (KX (with_evaluating false en3)); auto.
Qed.

(* ------------------------------------------------------------------ the evaluator preserves them *)
Lemma run_ok : forall w fuel k st r st',
  run w fuel k st = (r, st') -> good w st -> good w st' /\ ext st st'.
Proof.
  intros w fuel. induction fuel as [|f IH]; intros k st r st' H G.
  { cbn in H. inversion H; subst. split; auto using ext_refl. }
  destruct k as [c | c j | from t | from ts acc]; cbn [run] in H.
  - (* KFile *)
    destruct (begin_import w c st) as [b st1] eqn:EB.
    pose proof (begin_ok _ _ _ _ _ EB G) as B.
    destruct b as [v | e | bd].
    + inversion H; subst. auto.
    + inversion H; subst. auto.
    + destruct B as [st2 [en1 [G2 [X2 [C2 [F2 [E2 S1]]]]]]].
      destruct (run w f (KSum (SFile c) (b_strict bd) (b_id bd)) st1) as [r3 st3] eqn:ER.
      inversion H; subst r st'.
      assert (good w st1) as G1 by (subst st1; apply begin_good; auto).
      destruct (IH _ _ _ _ ER G1) as [G3 X3]. subst st1.
      destruct (finish_ok w c (b_id bd) en1 st2 st3 r3 G2 C2 F2 E2 G3 X3) as [G4 X4].
      split; auto. eapply ext_trans; eauto.
  - (* KField *)
    destruct (s_fields st c j) as [[|r0]|] eqn:EF.
    + inversion H; subst. split; auto using ext_refl.
    + inversion H; subst. split; auto using ext_refl.
    + destruct (lazy_of w st c j) as [[id ts]|].
      2:{ inversion H; subst. split; auto using ext_refl. }
      set (st1 := add_log (EvLazy c id j) (set_field c j FPending st)) in *.
      destruct (run w f (KSum (SFile c) ts 0) st1) as [r3 st3] eqn:ER.
      inversion H; subst r st'.
      assert (good w st1) as G1.
      { subst st1. apply good_add_quiet; [exact I|]. apply (good_same_cache w st); auto. }
      destruct (IH _ _ _ _ ER G1) as [G3 X3].
      split.
      * apply (good_same_cache w st3); auto.
      * constructor; intros.
        -- pose proof (x_flag _ _ X3 c0) as P. exact P.
        -- pose proof (x_frozen _ _ X3 c0) as P. apply P. exact H0.
        -- apply (x_mono _ _ X3). exact H0.
        -- cbn [s_fields set_field].
           destruct (path_eqb c c0 && Nat.eqb j k) eqn:E.
           ++ apply andb_true_iff in E. destruct E as [E1 E2]. apply path_eqb_eq in E1.
              apply Nat.eqb_eq in E2. subst c0 k. rewrite EF. split; discriminate.
           ++ rewrite (x_pend _ _ X3). subst st1. cbn [s_fields set_field add_log]. rewrite E. tauto.
  - (* KTerm *)
    destruct (do_resolve w from (t_path t) st) as [r1 st1] eqn:ER.
    destruct (do_resolve_ok _ _ _ _ _ _ ER G) as [G1 X1].
    destruct r1 as [c|e].
    2:{ inversion H; subst. auto. }
    destruct (t_kind t).
    + destruct (run w f (KFile c) st1) as [r2 st2] eqn:E2.
      destruct (IH _ _ _ _ E2 G1) as [G2 X2].
      destruct r2 as [v|e].
      2:{ inversion H; subst. split; auto. eapply ext_trans; eauto. }
      destruct (t_sel t).
      * inversion H; subst. split; auto. eapply ext_trans; eauto.
      * destruct (IH _ _ _ _ H G2) as [G3 X3]. split; auto.
        eapply ext_trans; [|eauto]. eapply ext_trans; eauto.
    + destruct (import_str w c st1) as [r2 st2] eqn:E2.
      destruct (import_str_ok _ _ _ _ _ E2 G1) as [G2 [X2 _]].
      assert (st' = st2) by (destruct r2; inversion H; auto). subst st'.
      split; auto. eapply ext_trans; eauto.
    + destruct (import_bin w c st1) as [r2 st2] eqn:E2.
      destruct (import_bin_ok _ _ _ _ _ E2 G1) as [G2 [X2 _]].
      assert (st' = st2) by (destruct r2; inversion H; auto). subst st'.
      split; auto. eapply ext_trans; eauto.
  - (* KSum *)
    destruct ts as [|t rest].
    + inversion H; subst. split; auto using ext_refl.
    + destruct (run w f (KTerm from t) st) as [r1 st1] eqn:E1.
      destruct (IH _ _ _ _ E1 G) as [G1 X1].
      destruct r1 as [n|e].
      * destruct (IH _ _ _ _ H G1) as [G2 X2]. split; auto. eapply ext_trans; eauto.
      * inversion H; subst. auto.
Qed.

Lemma do_resolve_hit : forall w from raw st c st',
  do_resolve w from raw st = (Ok c, st') ->
  resolve_impl (w_fs w) (w_cwd w) (w_libs w) from raw = RHit c.
Proof.
  unfold do_resolve. intros. inversion H. destruct (fault w (s_calls st)); [discriminate|].
  destruct (resolve_impl (w_fs w) (w_cwd w) (w_libs w) from raw); cbn in *; congruence.
Qed.

Lemma run_op_ok : forall w fuel o st v st',
  run_op w fuel o st = (v, st') -> good w st -> good w st' /\ ext st st'.
Proof.
  unfold run_op. intros w fuel o st v st' H G.
  destruct (t_kind (o_term o)).
  - destruct (run w fuel (KTerm (op_src o) (o_term o)) st) as [r st1] eqn:E.
    inversion H; subst. eapply run_ok; eauto.
  - destruct (do_resolve w (op_src o) (t_path (o_term o)) st) as [r st1] eqn:E.
    destruct (do_resolve_ok _ _ _ _ _ _ E G) as [G1 X1].
    destruct r as [c|e]; [|inversion H; subst; auto].
    destruct (import_str w c st1) as [r2 st2] eqn:E2.
    destruct (import_str_ok _ _ _ _ _ E2 G1) as [G2 [X2 _]].
    inversion H; subst. split; auto. eapply ext_trans; eauto.
  - destruct (do_resolve w (op_src o) (t_path (o_term o)) st) as [r st1] eqn:E.
    destruct (do_resolve_ok _ _ _ _ _ _ E G) as [G1 X1].
    destruct r as [c|e]; [|inversion H; subst; auto].
    destruct (import_bin w c st1) as [r2 st2] eqn:E2.
    destruct (import_bin_ok _ _ _ _ _ E2 G1) as [G2 [X2 _]].
    inversion H; subst. split; auto. eapply ext_trans; eauto.
Qed.

Lemma run_hist_ok : forall w fuel h st vs st',
  run_hist w fuel h st = (vs, st') -> good w st -> good w st' /\ ext st st'.
Proof.
  intros w fuel h. induction h as [|o rest IH]; intros st vs st' H G; cbn [run_hist] in H.
  - inversion H; subst. split; auto using ext_refl.
  - destruct (run_op w fuel o st) as [v st1] eqn:E1.
    destruct (run_hist w fuel rest st1) as [vs2 st2] eqn:E2.
    inversion H; subst.
    destruct (run_op_ok _ _ _ _ _ _ E1 G) as [G1 X1].
    destruct (IH _ _ _ E2 G1) as [G2 X2]. split; auto. eapply ext_trans; eauto.
Qed.

Lemma init_good : forall w, good w init.
Proof.
  intro w. constructor; intros; cbn in *; try discriminate; auto.
Qed.

Lemma reach_good : forall w fuel h,
  good w (snd (run_hist w fuel h init)) /\ ext init (snd (run_hist w fuel h init)).
Proof.
  intros. destruct (run_hist w fuel h init) as [vs st] eqn:E. cbn.
  eapply run_hist_ok; eauto using init_good.
Qed.

(* ------------------------------------------------------------------ history theorems *)
Lemma load_once : forall w fuel h c,
  (count (is_ok_load c) (s_log (snd (run_hist w fuel h init))) <= 1)%nat.
Proof.
  intros. destruct (reach_good w fuel h) as [G _]. apply (g_load _ _ G c).
Qed.

Lemma eval_once : forall w fuel h c,
  (count (is_done c) (s_log (snd (run_hist w fuel h init))) <= 1)%nat /\
  no_start_after_done c (s_log (snd (run_hist w fuel h init))).
Proof.
  intros. destruct (reach_good w fuel h) as [G _]. destruct (g_eval _ _ G c) as [_ [b d]]. auto.
Qed.

Lemma state_usable : forall w fuel h,
  let st := snd (run_hist w fuel h init) in
  quiescent st /\ no_pending st /\ coherent w st.
Proof.
  intros. destruct (reach_good w fuel h) as [G X]. fold st in G, X. split; [|split].
  - intros c en HC. pose proof (x_flag _ _ X c) as P. unfold flag in P. rewrite HC in P. cbn in P. auto.
  - intros c k HP. apply (x_pend _ _ X) in HP. cbn in HP. discriminate.
  - intros c en HC. apply (g_coh _ _ G _ _ HC).
Qed.

Lemma cache_monotone : forall w fuel h o c en,
  let st := snd (run_hist w fuel h init) in
  s_cache st c = Some en ->
  exists en', s_cache (snd (run_op w fuel o st)) c = Some en' /\ e_cid en' = e_cid en /\
              (forall v, e_evaluated en = Some v -> e_evaluated en' = Some v).
Proof.
  intros. destruct (reach_good w fuel h) as [G _]. fold st in G.
  destruct (run_op w fuel o st) as [v st'] eqn:E.
  destruct (run_op_ok _ _ _ _ _ _ E G) as [_ X]. cbn. apply (x_mono _ _ X). auto.
Qed.

Lemma content_exact : forall w fuel h o cid,
  let st := snd (run_hist w fuel h init) in
  (fst (run_op w fuel o st) = VStr cid \/ fst (run_op w fuel o st) = VBytes cid) ->
  exists c, resolve_impl (w_fs w) (w_cwd w) (w_libs w) (op_src o) (t_path (o_term o)) = RHit c /\
            fs_file (w_fs w) c = Some cid.
Proof.
  intros w fuel h o cid st H. destruct (reach_good w fuel h) as [G _]. fold st in G.
  unfold run_op in H. destruct (t_kind (o_term o)).
  - destruct (run w fuel (KTerm (op_src o) (o_term o)) st) as [r st1]. cbn in H.
    destruct r; destruct H; discriminate.
  - destruct (do_resolve w (op_src o) (t_path (o_term o)) st) as [r st1] eqn:E.
    destruct r as [c|e]; [|cbn in H; destruct H; discriminate].
    destruct (do_resolve_ok _ _ _ _ _ _ E G) as [G1 _].
    destruct (import_str w c st1) as [r2 st2] eqn:E2.
    destruct (import_str_ok _ _ _ _ _ E2 G1) as [_ [_ K]].
    cbn in H. destruct r2 as [cid2|e2]; destruct H as [H|H]; try discriminate.
    inversion H; subst. exists c. split; auto. eapply do_resolve_hit; eauto.
  - destruct (do_resolve w (op_src o) (t_path (o_term o)) st) as [r st1] eqn:E.
    destruct r as [c|e]; [|cbn in H; destruct H; discriminate].
    destruct (do_resolve_ok _ _ _ _ _ _ E G) as [G1 _].
    destruct (import_bin w c st1) as [r2 st2] eqn:E2.
    destruct (import_bin_ok _ _ _ _ _ E2 G1) as [_ [_ K]].
    cbn in H. destruct r2 as [cid2|e2]; destruct H as [H|H]; try discriminate.
    inversion H; subst. exists c. split; auto. eapply do_resolve_hit; eauto.
Qed.

(** importstr / importbin do not depend on the cache *)
Definition str_answer (w : world) (c : path) : res N :=
  match fs_file (w_fs w) c with
  | Some cid => if utf8 w cid then Ok cid else Err EUtf8
  | None => Err EIo
  end.
Definition bin_answer (w : world) (c : path) : res N :=
  match fs_file (w_fs w) c with Some cid => Ok cid | None => Err EIo end.

Lemma import_str_closed : forall w c st,
  (forall en, s_cache st c = Some en -> entry_ok w c en) -> fault w (s_calls st) = false ->
  fst (import_str w c st) = str_answer w c.
Proof.
  intros w c st HC HF. unfold import_str, ensure, str_answer.
  destruct (s_cache st c) as [en|] eqn:E.
  - destruct (HC en eq_refl) as [a [b d]]. rewrite a. unfold get_string.
    destruct (e_string en) eqn:ES.
    + rewrite (b eq_refl). reflexivity.
    + destruct (utf8 w (e_cid en)); reflexivity.
  - unfold do_load. rewrite HF. destruct (fs_file (w_fs w) c) as [cid|]; [|reflexivity].
    unfold get_string. cbn [e_string new_bytes e_cid]. destruct (utf8 w cid) eqn:EU; reflexivity.
Qed.

Lemma import_bin_closed : forall w c st,
  (forall en, s_cache st c = Some en -> entry_ok w c en) -> fault w (s_calls st) = false ->
  fst (import_bin w c st) = bin_answer w c.
Proof.
  intros w c st HC HF. unfold import_bin, ensure, bin_answer.
  destruct (s_cache st c) as [en|] eqn:E.
  - destruct (HC en eq_refl) as [a [b d]]. rewrite a. reflexivity.
  - unfold do_load. rewrite HF. destruct (fs_file (w_fs w) c) as [cid|]; reflexivity.
Qed.

Lemma strbin_answer : forall w fuel o st,
  t_kind (o_term o) <> KImp ->
  (forall c en, s_cache st c = Some en -> entry_ok w c en) ->
  (forall k, s_calls st <= k -> fault w k = false) ->
  fst (run_op w fuel o st) =
  match res_of_rres (resolve_impl (w_fs w) (w_cwd w) (w_libs w) (op_src o) (t_path (o_term o))) with
  | Err e => VErr e
  | Ok c => match t_kind (o_term o) with
            | KStr => match str_answer w c with Ok cid => VStr cid | Err e => VErr e end
            | _ => match bin_answer w c with Ok cid => VBytes cid | Err e => VErr e end
            end
  end.
Proof.
  intros w fuel o st HK HC HF. unfold run_op, do_resolve.
  rewrite (HF (s_calls st)) by lia.
  destruct (t_kind (o_term o)) eqn:EK; [congruence| |].
  - destruct (res_of_rres _) as [c|e]; [|reflexivity].
    match goal with |- context [import_str w c ?s] =>
      pose proof (import_str_closed w c s) as P; destruct (import_str w c s) as [r2 st2] end.
    cbn in P. cbn. rewrite P; auto. apply HF. lia.
  - destruct (res_of_rres _) as [c|e]; [|reflexivity].
    match goal with |- context [import_bin w c ?s] =>
      pose proof (import_bin_closed w c s) as P; destruct (import_bin w c s) as [r2 st2] end.
    cbn in P. cbn. rewrite P; auto. apply HF. lia.
Qed.

Lemma strbin_transparent : forall w fuel h o,
  t_kind (o_term o) <> KImp ->
  let st := snd (run_hist w fuel h init) in
  (forall k, s_calls st <= k -> fault w k = false) ->
  fst (run_op w fuel o st) = fresh_result w fuel o.
Proof.
  intros w fuel h o HK st HF. destruct (reach_good w fuel h) as [G _]. fold st in G.
  unfold fresh_result.
  rewrite (strbin_answer w fuel o st HK (g_coh _ _ G) HF).
  rewrite (strbin_answer (no_faults w) fuel o init HK).
  - reflexivity.
  - intros c en H. cbn in H. discriminate.
  - intros. reflexivity.
Qed.

(** the `evaluating` flag: importing a file whose body is being evaluated is an error that
    changes nothing *)
Lemma strict_cycle_error : forall w f c st en b,
  s_cache st c = Some en -> e_evaluating en = true -> e_evaluated en = None ->
  e_string en = true -> body_of w (e_cid en) = Some b ->
  fst (run w (S f) (KFile c) st) = Err ECycle /\
  (forall c', s_cache (snd (run w (S f) (KFile c) st)) c' = s_cache st c') /\
  s_log (snd (run w (S f) (KFile c) st)) = s_log st /\
  s_calls (snd (run w (S f) (KFile c) st)) = s_calls st.
Proof.
  intros w f c st en b HC HF HE HS HB. cbn [run]. unfold begin_import, ensure. rewrite HC, HE.
  unfold get_string. rewrite HS, HB, HF. cbn. split; [|split; [|split]]; auto.
  intro c'. destruct (path_eqb c c') eqn:E; auto. apply path_eqb_eq in E. subst. auto.
Qed.

(** ... and that flag is what a strict cycle runs into: while the body of [c] is being
    evaluated ([begin_import] answered [BEval]) the flag is set and no value is cached *)
Lemma begin_sets_flag : forall w c st bd st1,
  begin_import w c st = (BEval bd, st1) -> good w st ->
  exists en, s_cache st1 c = Some en /\ e_evaluating en = true /\ e_evaluated en = None /\
             e_string en = true /\ body_of w (e_cid en) = Some bd.
Proof.
  unfold begin_import. intros w c st bd st1 H G.
  destruct (ensure w false c st) as [r1 st0] eqn:E.
  destruct r1 as [en|e]; [|discriminate].
  destruct (e_evaluated en) eqn:EV; [discriminate|].
  destruct (get_string w en) as [en1|] eqn:EG; [|discriminate].
  assert (e_string en1 = true /\ e_evaluated en1 = None) as [S1 V1].
  { unfold get_string in EG. destruct (e_string en) eqn:ES.
    - inversion EG; subst. auto.
    - destruct (utf8 w (e_cid en)); [|discriminate]. inversion EG; subst. cbn. auto. }
  destruct (body_of w (e_cid en1)) as [b|] eqn:EB; [|discriminate].
  destruct (e_evaluating en1); [discriminate|].
  inversion H; subst. exists (with_evaluating true en1). cbn. rewrite path_eqb_refl. auto.
Qed.

(* ------------------------------------------------------------------ witnesses *)
Definition mk_op (k : kind) (p : list comp) (s : sel) : op :=
  {| o_src := SDefault; o_term := T k p s |}.
Definition code (id : N) (strict : list term) (lz : list (list term)) : blob :=
  {| bl_utf8 := true; bl_chars := 10; bl_bytes := 11;
     bl_body := Some {| b_id := id; b_strict := strict; b_lazy := lz |} |}.

(** names: 0 = main, 1 = a.jsonnet, 2 = b.jsonnet, 3 = c.jsonnet, 4 = u.bin, 5 = lib, 6 = t.txt
    a.jsonnet = { lz0: (import "b.jsonnet").v }, resolver call 2 (resolve b.jsonnet) fails once *)
Definition wA : world :=
  {| w_fs := [([0], NDir); ([0; 1], NFile 0); ([0; 2], NFile 1)];
     w_cwd := [0]; w_libs := [];
     w_blobs := [(0, code 1 [] [[T KImp [CN 2] SV]]); (1, code 2 [] [])];
     w_faults := [2] |}.
Definition opA : op := mk_op KImp [CN 1] (SLz 0).

Lemma fault_transparent_refuted :
  exists w fuel h o,
    let st := snd (run_hist w fuel h init) in
    (forall k, s_calls st <= k -> fault w k = false) /\
    fst (run_op w fuel o st) <> fresh_result w fuel o.
Proof.
  exists wA, 50%nat, [opA], opA. split.
  - intros k H. vm_compute in H. unfold fault. cbn [w_faults wA existsb].
    destruct (k =? 2) eqn:E; auto. apply N.eqb_eq in E. subst. exfalso. apply H. reflexivity.
  - vm_compute. discriminate.
Qed.

(** u.bin is not UTF-8: since c43636f importstr twice (then importbin, then import) reads it once *)
Definition wB : world :=
  {| w_fs := [([0], NDir); ([0; 4], NFile 0)];
     w_cwd := [0]; w_libs := [];
     w_blobs := [(0, {| bl_utf8 := false; bl_chars := 0; bl_bytes := 2; bl_body := None |})];
     w_faults := [] |}.

Example nonutf8_is_read_once :
  let r := run_hist wB 50 [mk_op KStr [CN 4] SV; mk_op KStr [CN 4] SV; mk_op KBin [CN 4] SV;
                           mk_op KImp [CN 4] SV] init in
  fst r = [VErr EUtf8; VErr EUtf8; VBytes 0; VErr EUtf8] /\
  count (is_ok_load [0; 4]) (s_log (snd r)) = 1%nat.
Proof. vm_compute. repeat split. Qed.

(** a -> b -> c -> a strictly; d (name 7) is unrelated; t.txt in lib *)
Definition wC : world :=
  {| w_fs := [([0], NDir); ([5], NDir); ([0; 1], NFile 0); ([0; 2], NFile 1); ([0; 3], NFile 2);
              ([0; 7], NFile 3); ([5; 6], NFile 4); ([0; 8], NLink [CUp; CN 5; CN 6])];
     w_cwd := [0]; w_libs := [[CN 5]];
     w_blobs := [(0, code 1 [T KImp [CN 2] SV] []); (1, code 2 [T KImp [CDot; CN 3] SV] []);
                 (2, code 3 [T KImp [CUp; CN 5; CUp; CN 0; CN 1] SV] []);
                 (3, code 4 [T KStr [CN 6] SV; T KBin [CN 8] SV] []);
                 (4, {| bl_utf8 := true; bl_chars := 3; bl_bytes := 5; bl_body := None |})];
     w_faults := [] |}.

Example cycle3_is_an_error_and_the_state_stays_usable :
  fst (run_hist wC 100 [mk_op KImp [CN 1] SV; mk_op KImp [CN 7] SV; mk_op KImp [CN 3] SV;
                        mk_op KStr [CN 6] SV; mk_op KBin [CN 8] SV] init)
  = [VErr ECycle; VNum 12; VErr ECycle; VStr 4; VBytes 4].
Proof. vm_compute. reflexivity. Qed.

(** non-vacuity of the hypotheses used by the property theorems *)
Example nonvac_load_once :
  count (is_ok_load [5; 6]) (s_log (snd (run_hist wC 100
     [mk_op KImp [CN 7] SV; mk_op KStr [CN 6] SV; mk_op KBin [CN 8] SV] init))) = 1%nat.
Proof. vm_compute. repeat split. Qed.

Example nonvac_eval_once :
  count (is_done [0; 7]) (s_log (snd (run_hist wC 100
     [mk_op KImp [CN 7] SV; mk_op KImp [CDot; CN 7] SV] init))) = 1%nat /\
  count (is_start [0; 7]) (s_log (snd (run_hist wC 100
     [mk_op KImp [CN 7] SV; mk_op KImp [CDot; CN 7] SV] init))) = 1%nat.
Proof. vm_compute. repeat split. Qed.

Example nonvac_strbin_transparent :
  let st := snd (run_hist wA 50 [opA] init) in
  (forall k, s_calls st <= k -> fault wA k = false) /\
  fst (run_op wA 50 (mk_op KStr [CN 2] SV) st) = VStr 1.
Proof.
  split.
  - intros k H. vm_compute in H. unfold fault. cbn [w_faults wA existsb].
    destruct (k =? 2) eqn:E; auto. apply N.eqb_eq in E. subst. exfalso. apply H. reflexivity.
  - vm_compute. reflexivity.
Qed.

Example nonvac_strict_cycle :
  exists st1 bd, begin_import wC [0; 1] init = (BEval bd, st1) /\
                 fst (run wC 1 (KFile [0; 1]) st1) = Err ECycle.
Proof. eexists. eexists. split; [vm_compute; reflexivity | vm_compute; reflexivity]. Qed.

Example nonvac_resolve :
  resolve_impl (w_fs wC) [0] [[CN 5]] SDefault [CN 6] = RHit [5; 6] /\
  resolve_impl (w_fs wC) [0] [[CN 5]] SNoJ [CN 6] = RNotFound /\
  resolve_impl (w_fs wC) [0] [[CN 5]] (SFile [5; 6]) [CUp; CN 0; CN 8] = RHit [5; 6] /\
  resolve_impl (w_fs wC) [0] [[CN 5]] SDefault [CUp; CN 5] = RHard /\
  resolve_impl (w_fs wC) [0] [[CN 5]] SDefault [CN 1; CN 6] = RHard.
Proof. vm_compute. repeat split. Qed.
