(** C08 — reading the functions translated from the source text (Gen/GenArr.v, regenerated from
    arr/spec.rs + arr/mod.rs on every run) as statements about the hand model of Model.v.
    Definitions only. *)
From Coq Require Import List ZArith NArith Bool.
From JrV Require Import Gen.GenConsts Gen.GenArr C08.Model.
Import ListNotations.
Open Scope N_scope.

(** the three accessors every [ArrayLike] implements *)
Inductive accessor := AccGet | AccGetLazy | AccGetCheap.

(** what an accessor result means, given the inner views' own accessor [sub k j]
    (inner view number k at index j); [None] = panic, [Some None] = out of bounds *)
Definition interp (r : acc) (sub : N -> N -> option (option elem)) : option (option elem) :=
  match r with
  | ANone => Some None
  | ADeleg k j => sub k j
  | AElem z => Some (Some (ENum z))
  | ARest => None
  | APanic => None
  end.
Definition sub0 : N -> N -> option (option elem) := fun _ _ => None.
Definition sub1 (f : N -> option (option elem)) : N -> N -> option (option elem) :=
  fun k j => if k =? 0 then f j else None.
Definition sub2 (f g : N -> option (option elem)) : N -> N -> option (option elem) :=
  fun k j => if k =? 0 then f j else if k =? 1 then g j else None.

Definition slice_src (a : accessor) :=
  match a with AccGet => gen_slice_get | AccGetLazy => gen_slice_get_lazy | AccGetCheap => gen_slice_get_cheap end.
Definition rev_src (a : accessor) :=
  match a with AccGet => gen_rev_get | AccGetLazy => gen_rev_get_lazy | AccGetCheap => gen_rev_get_cheap end.
Definition rep_src (a : accessor) :=
  match a with AccGet => gen_rep_get | AccGetLazy => gen_rep_get_lazy | AccGetCheap => gen_rep_get_cheap end.
Definition ext_src (a : accessor) :=
  match a with AccGet => gen_ext_get | AccGetLazy => gen_ext_get_lazy | AccGetCheap => gen_ext_get_cheap end.
Definition range_src (a : accessor) :=
  match a with AccGet => gen_range_get | AccGetLazy => gen_range_get_lazy | AccGetCheap => gen_range_get_cheap end.

(** MappedArray: only the bounds test (and, for [get], the delegated index) is translated
    ([get] hands the mapper the inner element's thunk, `self.inner.get_lazy(index).expect(..)`, or — before
    9dc676b — its value, `self.inner.get(index)`: the same index of the same inner view either way).
    [get_lazy] answers an in-bounds index with a thunk whose evaluation is `self.arr.get(self.index)`,
    i.e. [get] at the same index: [ARest] is read that way.  [get_cheap] is constantly None (not cheap). *)
Definition mapped_src (lazy : bool) (cached_len index : N) : acc :=
  if lazy then match gen_mapped_get_lazy cached_len index with
               | ARest => gen_mapped_get cached_len index
               | r => r
               end
  else gen_mapped_get cached_len index.
Definition mapped_wrap (f : Z) (wi : bool) (i : N) (r : option (option elem)) : option (option elem) :=
  match r with
  | Some (Some e) => Some (Some (if wi then EApI f (as_u32 i) e else EAp f e))
  | _ => None
  end.
Definition mapped_interp (f : Z) (wi : bool) (i : N) (r : acc) (g : N -> option (option elem)) :=
  match r with
  | ANone => Some None
  | ADeleg 0 j => mapped_wrap f wi i (g j)
  | _ => None
  end.

(** RangeArray::empty() = Self::new_exclusive(args): the recursion through [Self::empty] is cut by
    passing the arguments themselves as the (never reached, see the theorem) fallback *)
Definition gen_empty_pair : option (Z * Z) :=
  gen_range_new_exclusive gen_range_empty_args (fst gen_range_empty_args) (snd gen_range_empty_args).
Definition view_of_pair (p : option (Z * Z)) : option view :=
  match p with Some (s, e) => Some (Range s e) | None => None end.

(** ArrValue::slice *)
Definition decode_sres (v : view) (r : sres) : option view :=
  match r with
  | SPanic => None
  | SEmpty => view_of_pair gen_empty_pair
  | SSlice f t s => Some (Slice v f t s)
  end.
Definition pos_ok (p : option Z) : Prop :=
  match p with Some z => (i32_min <= z <= i32_max)%Z | None => True end.   (* an i32, nothing excluded *)

(** ArrValue::extended *)
Definition flatten_order (order : list N) (x y : list elem) : list elem :=
  concat (map (fun k => if k =? 0 then x else if k =? 1 then y else []) order).
Definition decode_eres (a b : view) (r : eres) : option view :=
  match r with
  | EPanic => None
  | ETakeA => Some a
  | ETakeB => Some b
  | ELink => match gen_ext_new (len_impl a) (len_impl b) with Some _ => Some (Ext a b) | None => None end
  | EFlatten order =>
      match to_vec a, to_vec b with
      | Some x, Some y => Some (Vec (flatten_order order x y))
      | _, _ => None
      end
  end.
