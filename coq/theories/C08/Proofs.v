(** C08 proofs: the transliterated [ArrayLike] implementations refine the list spec. *)
From Coq Require Import List ZArith NArith Bool Lia Arith PeanoNat.
From JrV Require Import Gen.GenConsts C08.Model.
Import ListNotations.

(** *** list facts *)

Lemma nth_error_nil {A} (i : nat) : @nth_error A [] i = None.
Proof. destruct i; reflexivity. Qed.

Lemma nth_error_step_from {A} (st : nat) (l : list A) :
  (0 < st)%nat ->
  forall k i, nth_error (step_from st k l) i = nth_error l (k + st * i).
Proof.
  intros Hst. induction l as [|x xs IH]; intros k i.
  - cbn [step_from]. now rewrite !nth_error_nil.
  - cbn [step_from]. destruct k as [|k'].
    + destruct i as [|i'].
      * rewrite Nat.mul_0_r. reflexivity.
      * cbn [nth_error]. rewrite IH.
        replace (0 + st * S i')%nat with (S (st - 1 + st * i'))%nat by nia.
        reflexivity.
    + rewrite IH. reflexivity.
Qed.

Lemma div_step (n st : nat) :
  (0 < st)%nat -> ((n - (st - 1) + st - 1) / st = n / st)%nat.
Proof.
  intros Hst. destruct (Nat.le_gt_cases (st - 1) n) as [H|H].
  - f_equal. lia.
  - replace (n - (st - 1) + st - 1)%nat with (st - 1)%nat by lia.
    rewrite !Nat.div_small by lia. reflexivity.
Qed.

Lemma length_step_from {A} (st : nat) (l : list A) :
  (0 < st)%nat ->
  forall k, length (step_from st k l) = ((length l - k + st - 1) / st)%nat.
Proof.
  intros Hst. induction l as [|x xs IH]; intros k.
  - cbn [step_from length]. rewrite Nat.div_small by lia. reflexivity.
  - cbn [step_from]. destruct k as [|k'].
    + cbn [length]. rewrite IH, div_step by exact Hst.
      replace (S (length xs) - 0 + st - 1)%nat with (length xs + 1 * st)%nat by lia.
      rewrite Nat.div_add by lia. lia.
    + rewrite IH. cbn [length]. f_equal.
Qed.

Lemma nth_error_rev {A} (l : list A) (i : nat) :
  (i < length l)%nat -> nth_error (rev l) i = nth_error l (length l - i - 1).
Proof.
  intros Hi. destruct l as [|d l'] eqn:El; [cbn in Hi; lia|]. rewrite <- El in *.
  assert (Hl : (length l - i - 1 < length l)%nat) by lia.
  rewrite (nth_error_nth' (rev l) d) by (rewrite rev_length; exact Hi).
  rewrite (nth_error_nth' l d) by exact Hl.
  f_equal. rewrite rev_nth by exact Hi. f_equal. lia.
Qed.

Lemma length_concat_repeat {A} (l : list A) (n : nat) :
  length (concat (repeat l n)) = (length l * n)%nat.
Proof.
  induction n as [|n IH]; cbn [repeat concat length].
  - lia.
  - rewrite app_length, IH. lia.
Qed.

Lemma nth_error_concat_repeat {A} (l : list A) (n i : nat) :
  (i < length l * n)%nat ->
  nth_error (concat (repeat l n)) i = nth_error l (i mod length l).
Proof.
  revert i. induction n as [|n IH]; intros i Hi; [lia|].
  cbn [repeat concat].
  assert (Hl : (0 < length l)%nat) by (destruct (length l); lia).
  destruct (Nat.lt_ge_cases i (length l)) as [H|H].
  - rewrite nth_error_app1 by exact H. rewrite Nat.mod_small by exact H. reflexivity.
  - rewrite nth_error_app2 by exact H. rewrite IH by nia.
    f_equal.
    replace i with ((i - length l) + 1 * length l)%nat at 2 by lia.
    rewrite Nat.mod_add by lia. reflexivity.
Qed.

Lemma length_zseq s n : length (zseq s n) = n.
Proof. revert s; induction n as [|n IH]; intros s; cbn [zseq length]; [|rewrite IH]; reflexivity. Qed.

Lemma nth_error_zseq n : forall s i,
  nth_error (zseq s n) i = if (i <? n)%nat then Some (s + Z.of_nat i)%Z else None.
Proof.
  induction n as [|n IH]; intros s i.
  - cbn [zseq]. rewrite nth_error_nil. reflexivity.
  - cbn [zseq]. destruct i as [|i'].
    + cbn. f_equal. lia.
    + cbn [nth_error]. rewrite IH.
      change (S i' <? S n)%nat with (i' <? n)%nat.
      destruct (i' <? n)%nat; [f_equal; lia | reflexivity].
Qed.

Lemma length_mapi_from {A B} (f : N -> A -> B) l : forall i, length (mapi_from f i l) = length l.
Proof. induction l as [|x xs IH]; intros i; cbn [mapi_from length]; [|rewrite IH]; reflexivity. Qed.

Lemma nth_error_mapi_from {A B} (f : N -> A -> B) l : forall s i,
  nth_error (mapi_from f s l) i =
  match nth_error l i with Some x => Some (f (s + N.of_nat i)%N x) | None => None end.
Proof.
  induction l as [|x xs IH]; intros s i.
  - cbn [mapi_from]. rewrite !nth_error_nil. reflexivity.
  - cbn [mapi_from]. destruct i as [|i'].
    + cbn. rewrite N.add_0_r. reflexivity.
    + cbn [nth_error]. rewrite IH. destruct (nth_error xs i'); [|reflexivity].
      f_equal. f_equal. lia.
Qed.

Lemma nth_error_skipn' {A} (l : list A) : forall n i,
  nth_error (skipn n l) i = nth_error l (n + i).
Proof.
  induction l as [|x xs IH]; intros n i.
  - rewrite skipn_nil, !nth_error_nil. reflexivity.
  - destruct n as [|n']; [reflexivity|]. cbn [skipn]. rewrite IH. reflexivity.
Qed.

Lemma nth_error_firstn_lt' {A} (l : list A) : forall n i,
  (i < n)%nat -> nth_error (firstn n l) i = nth_error l i.
Proof.
  induction l as [|x xs IH]; intros n i Hi.
  - rewrite firstn_nil. reflexivity.
  - destruct n as [|n']; [lia|]. cbn [firstn]. destruct i as [|i']; [reflexivity|].
    cbn [nth_error]. apply IH. lia.
Qed.

(** *** arithmetic glue *)

Lemma div_ceil_nat (a st : N) :
  (0 < st)%N ->
  N.of_nat ((N.to_nat a - 0 + N.to_nat st - 1) / N.to_nat st) = div_ceil a st.
Proof.
  intros Hst. unfold div_ceil. rewrite Nat2N.inj_div. f_equal; lia.
Qed.

Lemma div_ceil_le (a st i : N) :
  (0 < st)%N -> (div_ceil a st <= i <-> a <= st * i)%N.
Proof.
  intros Hst. unfold div_ceil. split; intros H.
  - assert (Hd := N.div_mod (a + st - 1) st ltac:(lia)).
    assert (Hm := N.mod_lt (a + st - 1) st ltac:(lia)).
    nia.
  - apply N.lt_succ_r. apply N.div_lt_upper_bound; [lia|]. nia.
Qed.

Lemma ck_small n : (n < usize_lim)%N -> ck n = Some n.
Proof. intros H. unfold ck. destruct (N.ltb_spec n usize_lim); [reflexivity|lia]. Qed.

(** *** the main refinement *)

Definition refines (v : view) : Prop :=
  len_impl v = Some (N.of_nat (length (denote v))) /\
  forall i, get_impl v i = Some (nth_error (denote v) (N.to_nat i)).

Lemma nth_error_beyond {A} (l : list A) i : (length l <= i)%nat -> nth_error l i = None.
Proof. apply nth_error_None. Qed.

Lemma refines_slice inner from to step :
  refines inner ->
  (from < to)%N -> (to <= N.of_nat (length (denote inner)))%N -> (0 < step)%N ->
  refines (Slice inner from to step).
Proof.
  intros [Hl Hg] Hft Hto Hst.
  set (base := firstn (N.to_nat (to - from)) (skipn (N.to_nat from) (denote inner))).
  assert (Hbase : length base = N.to_nat (to - from)).
  { unfold base. rewrite firstn_length, skipn_length. lia. }
  assert (Hlen : len_impl (Slice inner from to step) = Some (div_ceil (to - from) step)).
  { cbn [len_impl]. destruct (N.ltb_spec to from); [lia|].
    destruct (N.eqb_spec step 0); [lia|]. reflexivity. }
  assert (Hdl : N.of_nat (length (denote (Slice inner from to step))) = div_ceil (to - from) step).
  { cbn [denote]. fold base. rewrite length_step_from by lia. rewrite Hbase.
    apply div_ceil_nat. exact Hst. }
  split.
  - rewrite Hlen, Hdl. reflexivity.
  - intros i. cbn [get_impl]. change (if to <? from then _ else _)%N with (len_impl (Slice inner from to step)).
    rewrite Hlen.
    destruct (N.leb_spec (div_ceil (to - from) step) i) as [Hi|Hi].
    + f_equal. symmetry. apply nth_error_beyond. rewrite <- Hdl in Hi. lia.
    + rewrite Hg. f_equal. cbn [denote]. fold base.
      rewrite nth_error_step_from by lia.
      assert (Hlt : (step * i < to - from)%N).
      { destruct (N.lt_ge_cases (step * i) (to - from)) as [|Hge]; [assumption|].
        apply (div_ceil_le _ _ _ Hst) in Hge. lia. }
      unfold base. rewrite nth_error_firstn_lt' by lia.
      rewrite nth_error_skipn'. f_equal. lia.
Qed.

Lemma refines_rev inner : refines inner -> refines (Rev inner).
Proof.
  intros [Hl Hg]. split.
  - cbn [len_impl denote]. rewrite rev_length. exact Hl.
  - intros i. cbn [get_impl denote]. rewrite Hl.
    destruct (N.leb_spec (N.of_nat (length (denote inner))) i) as [Hi|Hi].
    + f_equal. symmetry. apply nth_error_beyond. rewrite rev_length. lia.
    + rewrite Hg. f_equal. rewrite nth_error_rev by lia. f_equal. lia.
Qed.

Lemma refines_rep data n :
  refines data -> (N.of_nat (length (denote data)) * n < usize_lim)%N ->
  refines (Rep data n).
Proof.
  intros [Hl Hg] Hfit.
  assert (Hlen : len_impl (Rep data n) = Some (N.of_nat (length (denote data)) * n)%N).
  { cbn [len_impl]. rewrite Hl. apply ck_small. exact Hfit. }
  assert (Hdl : N.of_nat (length (denote (Rep data n))) = (N.of_nat (length (denote data)) * n)%N).
  { cbn [denote]. rewrite length_concat_repeat. lia. }
  split.
  - rewrite Hlen, Hdl. reflexivity.
  - intros i. cbn [get_impl]. change (match len_impl data with Some l => ck (l * n) | None => None end)
      with (len_impl (Rep data n)). rewrite Hlen, Hl.
    destruct (N.leb_spec (N.of_nat (length (denote data)) * n) i) as [Hi|Hi].
    + f_equal. symmetry. apply nth_error_beyond. lia.
    + destruct (N.eqb_spec (N.of_nat (length (denote data))) 0) as [Hz|Hz]; [nia|].
      rewrite Hg. f_equal. cbn [denote].
      rewrite nth_error_concat_repeat by nia.
      f_equal. rewrite N2Nat.inj_mod. f_equal. lia.
Qed.

Lemma refines_ext a b :
  refines a -> refines b ->
  (N.of_nat (length (denote a)) + N.of_nat (length (denote b)) < usize_lim)%N ->
  refines (Ext a b).
Proof.
  intros [Hla Hga] [Hlb Hgb] Hfit. split.
  - cbn [len_impl denote]. rewrite Hla, Hlb, app_length, ck_small by exact Hfit. f_equal. lia.
  - intros i. cbn [get_impl denote]. rewrite Hla.
    destruct (N.ltb_spec i (N.of_nat (length (denote a)))) as [Hi|Hi].
    + rewrite Hga. f_equal. rewrite nth_error_app1 by lia. reflexivity.
    + rewrite Hgb. f_equal. rewrite nth_error_app2 by lia. f_equal. lia.
Qed.

Lemma refines_range s e :
  (i32_min <= s)%Z -> (e <= i32_max)%Z -> (s <= e + 1)%Z -> refines (Range s e).
Proof.
  intros Hs He Hse. unfold i32_min, i32_max in *. split.
  - cbn [len_impl denote]. rewrite map_length, length_zseq. f_equal.
    rewrite Z.mod_small by (unfold usize_lim; cbn; lia). lia.
  - intros i. cbn [get_impl denote]. rewrite nth_error_map, nth_error_zseq.
    destruct (Z.leb_spec (s + Z.of_N i) e) as [Hi|Hi].
    + destruct (Nat.ltb_spec (N.to_nat i) (Z.to_nat (e - s + 1))) as [H|H]; [|lia].
      cbn [option_map]. do 3 f_equal. lia.
    + destruct (Nat.ltb_spec (N.to_nat i) (Z.to_nat (e - s + 1))) as [H|H]; [lia|].
      reflexivity.
Qed.

Lemma as_u32_small i : (i < u32_lim)%N -> as_u32 i = i.
Proof. intros H. unfold as_u32. apply N.mod_small. exact H. Qed.

Lemma refines_mapped f wi inner :
  refines inner -> (wi = true -> (N.of_nat (length (denote inner)) <= u32_lim)%N) ->
  refines (Mapped f wi inner).
Proof.
  intros [Hl Hg] Hwi. split.
  - cbn [len_impl denote]. rewrite length_mapi_from. exact Hl.
  - intros i. cbn [get_impl denote]. rewrite Hl, nth_error_mapi_from.
    destruct (N.leb_spec (N.of_nat (length (denote inner))) i) as [Hi|Hi].
    + rewrite nth_error_beyond by lia. reflexivity.
    + rewrite Hg.
      destruct (nth_error (denote inner) (N.to_nat i)) as [e|] eqn:He.
      * do 2 f_equal. destruct wi; [|reflexivity].
        rewrite as_u32_small by (specialize (Hwi eq_refl); lia). f_equal. lia.
      * apply nth_error_None in He. lia.
Qed.

Theorem wf_refines (v : view) : wf v -> refines v.
Proof.
  induction v as [l|inner IH from to step|inner IH|data IH n|a IHa b IHb|s e|f wi inner IH];
    cbn [wf]; intros H.
  - split; [reflexivity|]. intros i. cbn [get_impl denote].
    destruct (N.leb_spec (N.of_nat (length l)) i) as [Hi|Hi]; [|reflexivity].
    rewrite nth_error_beyond by lia. reflexivity.
  - destruct H as (Hi & Hft & Hto & Hst). apply refines_slice; auto.
  - apply refines_rev; auto.
  - destruct H as (Hd & Hfit). apply refines_rep; auto.
  - destruct H as (Ha & Hb & Hfit). apply refines_ext; auto.
  - destruct H as (Hs & He & Hse). apply refines_range; auto.
  - destruct H as (Hi & Hwi). apply refines_mapped; auto.
Qed.

Lemma len_refines v : wf v -> len_impl v = Some (N.of_nat (length (denote v))).
Proof. intros H. apply wf_refines. exact H. Qed.

Lemma get_refines v i : wf v -> get_impl v i = Some (nth_error (denote v) (N.to_nat i)).
Proof. intros H. apply wf_refines. exact H. Qed.

(** in bounds: an element; at or beyond the length: out of bounds — at every nesting depth *)
Lemma get_in_bounds v i :
  wf v -> (i < N.of_nat (length (denote v)))%N -> exists e, get_impl v i = Some (Some e).
Proof.
  intros Hw Hi. rewrite get_refines by exact Hw.
  destruct (nth_error (denote v) (N.to_nat i)) as [e|] eqn:He; [eauto|].
  apply nth_error_None in He. lia.
Qed.

Lemma get_out_of_bounds v i :
  wf v -> (N.of_nat (length (denote v)) <= i)%N -> get_impl v i = Some None.
Proof.
  intros Hw Hi. rewrite get_refines by exact Hw. f_equal. apply nth_error_beyond. lia.
Qed.

(** *** constructors *)

Lemma wf_empty : wf empty_view.
Proof. cbn. unfold i32_min, i32_max. lia. Qed.
Lemma denote_empty : denote empty_view = [].
Proof. reflexivity. Qed.

Lemma slice_get_idx_norm pos (len : nat) (d : nat) :
  N.to_nat (slice_get_idx pos (N.of_nat len) (N.of_nat d)) = norm_pos pos len d.
Proof.
  unfold slice_get_idx, norm_pos. destruct pos as [z|]; [|lia].
  destruct (Z.ltb_spec z 0); lia.
Qed.

Lemma slice_get_idx_le pos len d : (d <= len)%N -> (slice_get_idx pos len d <= len)%N.
Proof.
  intros Hd. unfold slice_get_idx. destruct pos as [z|]; [|exact Hd].
  destruct (Z.ltb_spec z 0); lia.
Qed.

Lemma step_from_nil {A} st k : @step_from A st k [] = [].
Proof. reflexivity. Qed.

Theorem slice_ctor_spec v index end_ step :
  wf v ->
  (forall s, step = Some s -> (0 < s)%N) ->
  exists v', slice_ctor v index end_ step = Some v' /\ wf v' /\
             denote v' = slice_spec (denote v) index end_ step.
Proof.
  intros Hw Hstep. unfold slice_ctor. rewrite (len_refines v Hw).
  set (len := length (denote v)) in *.
  set (i := slice_get_idx index (N.of_nat len) 0).
  set (e := slice_get_idx end_ (N.of_nat len) (N.of_nat len)).
  assert (Hi : N.to_nat i = norm_pos index len 0).
  { unfold i. change 0%N with (N.of_nat 0). apply slice_get_idx_norm. }
  assert (He : N.to_nat e = norm_pos end_ len len).
  { unfold e. apply slice_get_idx_norm. }
  assert (Hile : (i <= N.of_nat len)%N) by (apply slice_get_idx_le; lia).
  assert (Hele : (e <= N.of_nat len)%N) by (apply slice_get_idx_le; lia).
  unfold slice_spec. fold len. rewrite <- Hi, <- He.
  destruct (N.leb_spec e i) as [Hei|Hei].
  - exists empty_view. split; [reflexivity|]. split; [apply wf_empty|].
    rewrite denote_empty. replace (N.to_nat e - N.to_nat i)%nat with 0%nat by lia.
    reflexivity.
  - set (st := match step with Some s => s | None => 1%N end).
    assert (Hst : (0 < st)%N).
    { unfold st. destruct step as [s|]; [apply Hstep; reflexivity|lia]. }
    exists (Slice v i e st). split; [reflexivity|]. split.
    + cbn [wf]. repeat split; try assumption; lia.
    + cbn [denote]. replace (N.to_nat st) with (match step with Some s => N.to_nat s | None => 1%nat end)
        by (unfold st; destruct step; reflexivity).
      f_equal. f_equal. lia.
Qed.

Lemma collect_spec v : wf v -> forall n s,
  (N.to_nat s + n <= length (denote v))%nat ->
  collect v s n = Some (firstn n (skipn (N.to_nat s) (denote v))).
Proof.
  intros Hw. induction n as [|n IH]; intros s Hs.
  - reflexivity.
  - cbn [collect]. rewrite (get_refines v s Hw).
    rewrite IH by lia.
    destruct (nth_error (denote v) (N.to_nat s)) as [x|] eqn:Hx.
    + f_equal.
      assert (Hsk : skipn (N.to_nat s) (denote v) = x :: skipn (N.to_nat (s + 1)) (denote v)).
      { replace (N.to_nat (s + 1)) with (S (N.to_nat s)) by lia.
        clear -Hx. revert Hx. generalize (N.to_nat s) as k. generalize (denote v) as l.
        induction l as [|y ys IHl]; intros k Hx.
        - rewrite nth_error_nil in Hx. discriminate.
        - destruct k as [|k'].
          + cbn in Hx. injection Hx as ->. reflexivity.
          + cbn [nth_error] in Hx. cbn [skipn]. apply IHl. exact Hx. }
      rewrite Hsk. reflexivity.
    + apply nth_error_None in Hx. lia.
Qed.

Lemma to_vec_spec v : wf v -> to_vec v = Some (denote v).
Proof.
  intros Hw. unfold to_vec. rewrite (len_refines v Hw), Nat2N.id.
  rewrite collect_spec by (try assumption; cbn; lia).
  cbn [N.to_nat skipn]. rewrite firstn_all. reflexivity.
Qed.

Theorem extended_ctor_spec a b :
  wf a -> wf b ->
  (N.of_nat (length (denote a)) + N.of_nat (length (denote b)) < usize_lim)%N ->
  exists v', extended_ctor a b = Some v' /\ wf v' /\ denote v' = denote a ++ denote b.
Proof.
  intros Ha Hb Hfit. unfold extended_ctor.
  rewrite (len_refines a Ha), (len_refines b Hb).
  destruct (N.eqb_spec (N.of_nat (length (denote a))) 0) as [Hza|Hza].
  { exists b. split; [reflexivity|]. split; [exact Hb|].
    destruct (denote a); [reflexivity|cbn in Hza; lia]. }
  destruct (N.eqb_spec (N.of_nat (length (denote b))) 0) as [Hzb|Hzb].
  { exists a. split; [reflexivity|]. split; [exact Ha|].
    destruct (denote b); [rewrite app_nil_r; reflexivity|cbn in Hzb; lia]. }
  rewrite ck_small by exact Hfit.
  destruct (N.ltb_spec arr_extend_threshold
              (N.of_nat (length (denote a)) + N.of_nat (length (denote b)))) as [Ht|Ht].
  - exists (Ext a b). split; [reflexivity|]. split; [|reflexivity].
    cbn [wf]. auto.
  - rewrite (to_vec_spec a Ha), (to_vec_spec b Hb).
    exists (Vec (denote a ++ denote b)). split; [reflexivity|]. split; [|reflexivity].
    cbn [wf]. rewrite app_length. lia.
Qed.

Theorem repeated_ctor_spec data n :
  wf data ->
  (if (N.of_nat (length (denote data)) * n <? usize_lim)%N
   then exists v', repeated_ctor data n = Some (Some v') /\ wf v' /\
                   denote v' = concat (repeat (denote data) (N.to_nat n))
   else repeated_ctor data n = Some None).
Proof.
  intros Hw. unfold repeated_ctor. rewrite (len_refines data Hw).
  destruct (N.ltb_spec (N.of_nat (length (denote data)) * n) usize_lim) as [H|H].
  - exists (Rep data n). split; [reflexivity|]. split; [|reflexivity]. cbn [wf]. auto.
  - reflexivity.
Qed.

Lemma std_range_spec from to :
  (i32_min <= from <= i32_max)%Z -> (i32_min <= to <= i32_max)%Z ->
  wf (std_range from to) /\
  denote (std_range from to) = map ENum (zseq from (Z.to_nat (to - from + 1))).
Proof.
  intros Hf Ht. unfold std_range. destruct (Z.ltb_spec to from) as [H|H].
  - split; [apply wf_empty|]. rewrite denote_empty.
    replace (Z.to_nat (to - from + 1)) with 0%nat by lia. reflexivity.
  - split; [cbn [wf]; lia|reflexivity].
Qed.

Lemma range_exclusive_spec a b :
  (i32_min <= a <= i32_max)%Z -> (i32_min <= b <= i32_max)%Z -> (a <= b)%Z ->
  wf (range_exclusive a b) /\
  denote (range_exclusive a b) = map ENum (zseq a (Z.to_nat (b - a))).
Proof.
  intros Ha Hb Hab. unfold range_exclusive. destruct (Z.eqb_spec b i32_min) as [H|H].
  - split; [apply wf_empty|]. rewrite denote_empty.
    replace (Z.to_nat (b - a)) with 0%nat by lia. reflexivity.
  - split; [cbn [wf]; lia|]. cbn [denote]. do 2 f_equal. lia.
Qed.


(** *** operation trees *)

Lemma step_from_1 {A} (l : list A) : step_from 1 0 l = l.
Proof. induction l as [|x xs IH]; cbn [step_from]; [reflexivity|]. cbn. f_equal. exact IH. Qed.

Lemma mapi_from_const {A B} (g : A -> B) l : forall i, mapi_from (fun _ e => g e) i l = map g l.
Proof. induction l as [|x xs IH]; intros i; cbn [mapi_from map]; [|rewrite IH]; reflexivity. Qed.

Lemma wf_len_fits v : wf v -> (N.of_nat (length (denote v)) < usize_lim)%N.
Proof.
  induction v as [l|inner IH from to step|inner IH|data IH n|a IHa b IHb|s e|f wi inner IH];
    cbn [wf]; intros H.
  - exact H.
  - destruct H as (Hi & Hft & Hto & Hst). specialize (IH Hi).
    cbn [denote]. rewrite length_step_from by lia.
    rewrite firstn_length, skipn_length.
    assert (((Nat.min (N.to_nat (to - from)) (length (denote inner) - N.to_nat from) - 0
              + N.to_nat step - 1) / N.to_nat step <= N.to_nat (to - from))%nat).
    { apply Nat.div_le_upper_bound; [lia|]. nia. }
    lia.
  - cbn [denote]. rewrite rev_length. auto.
  - destruct H as (Hd & Hfit). cbn [denote]. rewrite length_concat_repeat. lia.
  - destruct H as (Ha & Hb & Hfit). cbn [denote]. rewrite app_length. lia.
  - cbn [denote]. rewrite map_length, length_zseq. unfold i32_min, i32_max, usize_lim in *.
    assert (2 ^ 64 = 18446744073709551616)%N by reflexivity. lia.
  - destruct H as (Hi & _). cbn [denote]. rewrite length_mapi_from. auto.
Qed.

Theorem remove_at_ctor_spec v at_ :
  wf v -> (i32_min <= at_ <= i32_max)%Z ->
  exists v', remove_at_ctor v at_ = Some v' /\ wf v' /\ denote v' = remove_at_spec (denote v) at_.
Proof.
  intros Hw Hat. unfold remove_at_ctor, remove_at_spec. rewrite (len_refines v Hw).
  destruct (Z.ltb_spec at_ 0) as [Hneg|Hpos]; cbn [orb].
  { exists v. auto. }
  destruct (Z.leb_spec (Z.of_N (N.of_nat (length (denote v)))) at_) as [Hbig|Hin].
  { exists v. split; [reflexivity|]. split; [exact Hw|].
    rewrite firstn_all2 by lia. rewrite skipn_all2 by lia. rewrite app_nil_r. reflexivity. }
  destruct (slice_ctor_spec v None (Some at_) None Hw) as (l & Hl & Hwl & Hdl); [discriminate|].
  destruct (slice_ctor_spec v (Some (at_ + 1)%Z) None None Hw) as (r & Hr & Hwr & Hdr); [discriminate|].
  rewrite Hl, Hr.
  assert (Hdl' : denote l = firstn (Z.to_nat at_) (denote v)).
  { rewrite Hdl. unfold slice_spec, norm_pos.
    destruct (Z.ltb_spec at_ 0); [lia|]. rewrite step_from_1. cbn [skipn].
    f_equal. lia. }
  assert (Hdr' : denote r = skipn (S (Z.to_nat at_)) (denote v)).
  { rewrite Hdr. unfold slice_spec, norm_pos.
    destruct (Z.ltb_spec (at_ + 1) 0); [lia|]. rewrite step_from_1.
    replace (Nat.min (Z.to_nat (at_ + 1)) (length (denote v))) with (S (Z.to_nat at_)) by lia.
    apply firstn_all2. rewrite skipn_length. lia. }
  destruct (extended_ctor_spec l r Hwl Hwr) as (x & Hx & Hwx & Hdx).
  { rewrite Hdl', Hdr', firstn_length, skipn_length.
    pose proof (wf_len_fits v Hw). lia. }
  exists x. split; [exact Hx|]. split; [exact Hwx|]. rewrite Hdx, Hdl', Hdr'. reflexivity.
Qed.

Theorem build_spec (o : op) :
  op_ok o -> exists v, build o = BOk v /\ wf v /\ denote v = spec o.
Proof.
  induction o as [l|a IHa b IHb|a IHa i e st|a IHa|a IHa n|f t|n f|f a IHa|f a IHa|a IHa at_];
    cbn [op_ok build spec]; intros H.
  - exists (Vec l). cbn [wf denote]. auto.
  - destruct H as (Ha & Hb & Hfit).
    destruct (IHa Ha) as (va & Ea & Wa & Da). destruct (IHb Hb) as (vb & Eb & Wb & Db).
    rewrite Ea, Eb. cbn [bbind].
    destruct (extended_ctor_spec va vb Wa Wb) as (x & Hx & Wx & Dx); [rewrite Da, Db; exact Hfit|].
    exists x. rewrite Hx. cbn [of_opt]. rewrite Dx, Da, Db. auto.
  - destruct H as (Ha & Hst). destruct (IHa Ha) as (va & Ea & Wa & Da).
    rewrite Ea. cbn [bbind].
    destruct (slice_ctor_spec va i e st Wa Hst) as (x & Hx & Wx & Dx).
    exists x. rewrite Hx. cbn [of_opt]. rewrite Dx, Da. auto.
  - destruct (IHa H) as (va & Ea & Wa & Da). rewrite Ea. cbn [bbind].
    exists (Rev va). cbn [wf denote]. rewrite Da. auto.
  - destruct H as (Ha & Hfit). destruct (IHa Ha) as (va & Ea & Wa & Da).
    rewrite Ea. cbn [bbind].
    pose proof (repeated_ctor_spec va n Wa) as R. rewrite Da in R.
    destruct (N.ltb_spec (N.of_nat (length (spec a)) * n) usize_lim) as [_|Hbad]; [|lia].
    destruct R as (x & Hx & Wx & Dx). exists x. rewrite Hx, Dx. auto.
  - destruct H as (Hf & Ht). destruct (std_range_spec f t Hf Ht) as (W & D).
    exists (std_range f t). auto.
  - destruct (Z.eqb_spec n 0) as [->|Hn].
    + exists empty_view. split; [reflexivity|]. split; [apply wf_empty|reflexivity].
    + destruct (range_exclusive_spec 0 n) as (W & D); [unfold i32_min, i32_max in *; lia ..|].
      exists (Mapped f false (range_exclusive 0 n)). split; [reflexivity|]. split.
      * cbn [wf]. split; [exact W|discriminate].
      * cbn [denote]. rewrite mapi_from_const, D, map_map. rewrite Z.sub_0_r. reflexivity.
  - destruct (IHa H) as (va & Ea & Wa & Da). rewrite Ea. cbn [bbind].
    exists (Mapped f false va). split; [reflexivity|]. split.
    + cbn [wf]. split; [exact Wa|discriminate].
    + cbn [denote]. rewrite mapi_from_const, Da. reflexivity.
  - destruct H as (Ha & Hlen). destruct (IHa Ha) as (va & Ea & Wa & Da). rewrite Ea. cbn [bbind].
    exists (Mapped f true va). split; [reflexivity|]. split.
    + cbn [wf]. split; [exact Wa|]. intros _. rewrite Da. exact Hlen.
    + cbn [denote]. rewrite Da. reflexivity.
  - destruct H as (Ha & Hat). destruct (IHa Ha) as (va & Ea & Wa & Da). rewrite Ea. cbn [bbind].
    destruct (remove_at_ctor_spec va at_ Wa Hat) as (x & Hx & Wx & Dx).
    exists x. rewrite Hx. cbn [of_opt]. rewrite Dx, Da. auto.
Qed.

(** Observable interface of any array built by any composition of the operations:
    length, in-bounds elements and out-of-bounds answers are those of the plain list. *)
Theorem ops_observe (o : op) :
  op_ok o ->
  exists v, build o = BOk v /\
    len_impl v = Some (N.of_nat (length (spec o))) /\
    forall i, get_impl v i = Some (nth_error (spec o) (N.to_nat i)).
Proof.
  intros H. destruct (build_spec o H) as (v & E & W & D).
  exists v. split; [exact E|]. rewrite <- D. split; [apply len_refines|intros i; apply get_refines]; exact W.
Qed.

(** non-vacuity: a 4-deep composition meets every hypothesis *)
Example ops_example_ok :
  op_ok (ORev (OSlice (OCat (ORep (OLit [EId 0; EId 1]) 3) (OMapI 1 (ORange 0 4)))
                      (Some (-7)%Z) None (Some 2%N))).
Proof.
  cbn [op_ok spec]. unfold i32_min, i32_max, usize_lim, u32_lim.
  repeat split; try (vm_compute; congruence).
  intros s Hs. injection Hs as <-. reflexivity.
Qed.
