(** Statements of the C08 source-tie theorems, pinned: weakening one breaks this file. *)
From Coq Require Import List ZArith NArith.
From JrV Require Import Gen.GenArr C08.Model C08.ModelSource C08.PropertiesSource.
Import ListNotations.

Check C08_model_is_translated_source_slice :
  forall (a : accessor) inner from to step i, (to < usize_lim)%N ->
    len_impl (Slice inner from to step) = gen_slice_len from to step /\
    get_impl (Slice inner from to step) i =
    interp (slice_src a from to step i) (sub1 (get_impl inner)).
Check C08_model_is_translated_source_reverse :
  forall (a : accessor) inner i,
    len_impl (Rev inner) = gen_rev_len (len_impl inner) /\
    get_impl (Rev inner) i = interp (rev_src a (len_impl inner) i) (sub1 (get_impl inner)).
Check C08_model_is_translated_source_repeated :
  forall (a : accessor) data repeats i,
    match gen_rep_new (len_impl data) repeats with
    | Some (Some total) =>
        len_impl (Rep data repeats) = gen_rep_len (len_impl data) repeats total /\
        get_impl (Rep data repeats) i =
        interp (rep_src a (len_impl data) repeats total i) (sub1 (get_impl data))
    | _ => len_impl (Rep data repeats) = None /\ get_impl (Rep data repeats) i = None
    end.
Check C08_model_is_translated_source_extended :
  forall (a : accessor) x y i,
    match gen_ext_new (len_impl x) (len_impl y) with
    | Some (split, len) =>
        len_impl (Ext x y) = gen_ext_len split len /\
        get_impl (Ext x y) i = interp (ext_src a split len i) (sub2 (get_impl x) (get_impl y))
    | None => len_impl (Ext x y) = None
    end.
Check C08_model_is_translated_source_range :
  forall (a : accessor) s e i,
    len_impl (Range s e) = gen_range_len s e /\
    gen_range_is_empty s e = gen_is_empty_default (gen_range_len s e) /\
    get_impl (Range s e) i = interp (range_src a s e i) sub0.
Check C08_model_is_translated_source_mapped :
  forall f wi inner i,
    match gen_mapped_new (len_impl inner) with
    | Some cl =>
        len_impl (Mapped f wi inner) = gen_mapped_len cl /\
        (forall lazy, get_impl (Mapped f wi inner) i =
                      mapped_interp f wi i (mapped_src lazy cl i) (get_impl inner)) /\
        gen_mapped_get_cheap cl i = ANone
    | None => len_impl (Mapped f wi inner) = None /\ get_impl (Mapped f wi inner) i = None
    end.
Check C08_model_is_translated_source_slice_ctor :
  forall v index end_ step, pos_ok index -> pos_ok end_ ->
    slice_ctor v index end_ step = decode_sres v (gen_slice (len_impl v) index end_ step).
Check C08_model_is_translated_source_extended_ctor :
  forall a b la lb, len_impl a = Some la -> len_impl b = Some lb ->
    extended_ctor a b = decode_eres a b (gen_extended (len_impl a) (len_impl b)).
Check C08_model_is_translated_source_repeated_ctor :
  forall data repeats,
    repeated_ctor data repeats =
    match gen_repeated (len_impl data) repeats with
    | None => None
    | Some None => Some None
    | Some (Some _) => Some (Some (Rep data repeats))
    end.
Check C08_model_is_translated_source_range_ctor :
  (forall fallback, gen_range_new_exclusive fallback (fst gen_range_empty_args) (snd gen_range_empty_args)
                     = Some (0, -1)%Z) /\
    view_of_pair gen_empty_pair = Some empty_view /\
    forall x y, (i32_min <= y <= i32_max)%Z ->
      view_of_pair (match gen_empty_pair with
                    | Some e => gen_range_new_exclusive e x y
                    | None => None
                    end) = Some (range_exclusive x y).

(** non-vacuity and the definitions the statements rest on, pinned by evaluation: instances whose
    hypotheses hold and where both sides are a real element / a real view *)
Check eq_refl : interp (slice_src AccGetLazy 1 5 2 1) (sub1 (get_impl (Vec [EId 0; EId 1; EId 2; EId 3; EId 4])))
                = Some (Some (EId 3)).
Check eq_refl : gen_slice_get 1 5 2 2 = ANone.
Check eq_refl : gen_slice_get_cheap 1 5 2 1 = ADeleg 0 3.
Check eq_refl : gen_rev_get_lazy (Some 3%N) 0 = ADeleg 0 2.
Check eq_refl : gen_rev_get (Some 3%N) 3 = ANone.
Check eq_refl : gen_rep_new (Some 2%N) 3 = Some (Some 6%N).
Check eq_refl : gen_rep_new (Some 4294967296%N) 4294967296 = Some None.
Check eq_refl : gen_rep_get_cheap (Some 2%N) 3 6 5 = ADeleg 0 1.
Check eq_refl : gen_rep_get (Some 2%N) 3 6 6 = ANone.
Check eq_refl : gen_ext_new (Some 2%N) (Some 3%N) = Some (2%N, 5%N).
Check eq_refl : gen_ext_get_lazy 2 5 2 = ADeleg 1 0.
Check eq_refl : gen_ext_get 2 5 1 = ADeleg 0 1.
Check eq_refl : gen_range_len (-2) 2 = Some 5%N.
Check eq_refl : gen_range_len 0 (-1) = Some 0%N.
Check eq_refl : gen_range_get_lazy (-2) 2 4 = AElem 2.
Check eq_refl : gen_range_get (-2) 2 5 = ANone.
Check eq_refl : mapped_src true 3 2 = ADeleg 0 2.
Check eq_refl : mapped_src true 3 3 = ANone.
Check eq_refl : gen_slice (Some 5%N) (Some (-3)%Z) None None = SSlice 2 5 1.
Check eq_refl : gen_slice (Some 5%N) (Some 4%Z) (Some 2%Z) (Some 3%N) = SEmpty.
Check eq_refl : gen_extended (Some 0%N) (Some 3%N) = ETakeB.
Check eq_refl : gen_extended (Some 3%N) (Some 0%N) = ETakeA.
Check eq_refl : gen_extended (Some 999%N) (Some 1%N) = EFlatten [0%N; 1%N].
Check eq_refl : gen_extended (Some 999%N) (Some 2%N) = ELink.
Check eq_refl : decode_eres (Vec [EId 1]) (Vec [EId 2]) (gen_extended (Some 1%N) (Some 1%N)) = Some (Vec [EId 1; EId 2]).
Check eq_refl : pos_ok (Some (-2147483648)%Z) = ((i32_min <= -2147483648 <= i32_max)%Z).
Check eq_refl : gen_slice (Some 3%N) (Some (-2147483648)%Z) None None = SSlice 0 3 1.
Check eq_refl : gen_slice (Some 3%N) None (Some (-2147483648)%Z) None = SEmpty.
