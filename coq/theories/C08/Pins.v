(** Statements of the C08 property theorems, pinned: weakening one breaks this file. *)
From Coq Require Import List ZArith NArith.
From JrV Require Import C08.Model C08.Properties.
Import ListNotations.

Check C08_len_refines : forall v, wf v -> len_impl v = Some (N.of_nat (length (denote v))).
Check C08_get_refines : forall v i, wf v -> get_impl v i = Some (nth_error (denote v) (N.to_nat i)).
Check C08_out_of_bounds_is_none :
  forall v i, wf v -> (N.of_nat (length (denote v)) <= i)%N -> get_impl v i = Some None.
Check C08_in_bounds_is_elem :
  forall v i, wf v -> (i < N.of_nat (length (denote v)))%N -> exists e, get_impl v i = Some (Some e).
Check C08_slice_ctor_spec :
  forall v index end_ step,
    wf v -> (forall s, step = Some s -> (0 < s)%N) ->
    exists v', slice_ctor v index end_ step = Some v' /\ wf v' /\
               denote v' = slice_spec (denote v) index end_ step.
Check C08_extended_threshold_invisible :
  forall a b, wf a -> wf b ->
    (N.of_nat (length (denote a)) + N.of_nat (length (denote b)) < usize_lim)%N ->
    exists v', extended_ctor a b = Some v' /\ wf v' /\ denote v' = denote a ++ denote b.
Check C08_range_spec :
  forall from to, (i32_min <= from <= i32_max)%Z -> (i32_min <= to <= i32_max)%Z ->
    wf (std_range from to) /\
    denote (std_range from to) = map ENum (zseq from (Z.to_nat (to - from + 1))).
Check C08_remove_at_spec :
  forall v at_, wf v -> (i32_min <= at_ <= i32_max)%Z ->
    exists v', remove_at_ctor v at_ = Some v' /\ wf v' /\ denote v' = remove_at_spec (denote v) at_.
Check C08_ops_observe :
  forall o, op_ok o ->
    exists v, build o = BOk v /\
      len_impl v = Some (N.of_nat (length (spec o))) /\
      forall i, get_impl v i = Some (nth_error (spec o) (N.to_nat i)).
(** the definitions the statements rest on, pinned by evaluation *)
Check eq_refl : denote (Slice (Vec [EId 0; EId 1; EId 2; EId 3; EId 4]) 1 5 2) = [EId 1; EId 3].
Check eq_refl : denote (Rep (Rev (Vec [EId 0; EId 1])) 2) = [EId 1; EId 0; EId 1; EId 0].
Check eq_refl : slice_spec [EId 0; EId 1; EId 2; EId 3] (Some (-3)%Z) (Some 10%Z) None = [EId 1; EId 2; EId 3].
Check eq_refl : remove_at_spec [EId 0; EId 1; EId 2] 1%Z = [EId 0; EId 2].
Check eq_refl : remove_at_spec [EId 0; EId 1; EId 2] (-1)%Z = [EId 0; EId 1; EId 2].
