(** C08 — the hand model of Model.v equals the functions translated from the source text. *)
From Coq Require Import List ZArith NArith Bool Lia.
From JrV Require Import Gen.GenConsts Gen.GenArr C08.Model C08.ModelSource.
Import ListNotations.
Open Scope N_scope.

Ltac Zify.zify_post_hook ::= Z.div_mod_to_equations.

Lemma lim_eq : g_usize_lim = usize_lim.
Proof. reflexivity. Qed.
Lemma lim_val : usize_lim = 18446744073709551616.
Proof. reflexivity. Qed.

Lemma div_ceil_eq (a b : N) :
  0 < b -> div_ceil a b = a / b + (if 0 <? a mod b then 1 else 0).
Proof.
  intros Hb. unfold div_ceil.
  pose proof (N.div_mod a b ltac:(lia)) as E.
  pose proof (N.mod_lt a b ltac:(lia)) as L.
  destruct (N.ltb_spec 0 (a mod b)) as [H|H].
  - symmetry. apply N.div_unique with (r := a mod b - 1); lia.
  - symmetry. apply N.div_unique with (r := b - 1); lia.
Qed.

Ltac unf :=
  unfold u_add, u_mul, u_sub, u_rem, u_div_ceil, u_wrapping_sub, u_wrapping_add, u_saturating_sub, u_min,
    u_checked_add, u_checked_mul, u_ge, u_gt, u_eq, i_ge, i_gt, i_eq, i_neg, i_checked_sub, i_as_usize,
    i_unsigned_abs, o_expect, o_unwrap_or, o_if, olift2, obind, g_ck, acc_if, adeleg, acc_at, interp, sub0, sub1, sub2 in *.

Lemma src_slice_len inner from to step :
  len_impl (Slice inner from to step) = gen_slice_len from to step.
Proof.
  cbn [len_impl]. unfold gen_slice_len. unf.
  destruct (N.ltb_spec to from); [reflexivity|].
  destruct (N.eqb_spec step 0); [reflexivity|].
  rewrite div_ceil_eq by lia. reflexivity.
Qed.

Lemma slice_in_bounds from to step i :
  from <= to -> 0 < step -> i < div_ceil (to - from) step -> from + step * i < to.
Proof.
  intros Hft Hs Hi. rewrite div_ceil_eq in Hi by lia.
  pose proof (N.div_mod (to - from) step ltac:(lia)) as E.
  pose proof (N.mod_lt (to - from) step ltac:(lia)) as L.
  destruct (N.ltb_spec 0 ((to - from) mod step)); nia.
Qed.

Lemma src_slice_get a inner from to step i :
  to < usize_lim ->
  get_impl (Slice inner from to step) i =
  interp (slice_src a from to step i) (sub1 (get_impl inner)).
Proof.
  intros Hto. rewrite lim_val in Hto.
  assert (G : get_impl (Slice inner from to step) i =
              match len_impl (Slice inner from to step) with
              | None => None
              | Some l => if l <=? i then Some None else get_impl inner (from + step * i)
              end) by reflexivity.
  rewrite G. clear G.
  assert (S : slice_src a from to step i = gen_slice_get from to step i) by (destruct a; reflexivity).
  rewrite S. unfold gen_slice_get. rewrite <- (src_slice_len inner).
  cbn [len_impl].
  destruct (N.ltb_spec to from); [reflexivity|].
  destruct (N.eqb_spec step 0); [reflexivity|].
  unf. destruct (N.leb_spec (div_ceil (to - from) step) i); [reflexivity|].
  pose proof (slice_in_bounds from to step i ltac:(lia) ltac:(lia) ltac:(lia)) as B.
  unfold gen_slice_map_idx. unf.
  assert (step * i < 18446744073709551616) by lia.
  destruct (N.ltb_spec (step * i) g_usize_lim); [|unfold g_usize_lim in *; lia].
  destruct (N.ltb_spec (from + step * i) g_usize_lim); [|unfold g_usize_lim in *; lia].
  rewrite N.eqb_refl. reflexivity.
Qed.

(** *** ReverseArray *)
Lemma src_rev a inner i :
  len_impl (Rev inner) = gen_rev_len (len_impl inner) /\
  get_impl (Rev inner) i = interp (rev_src a (len_impl inner) i) (sub1 (get_impl inner)).
Proof.
  split; [reflexivity|].
  assert (S : rev_src a (len_impl inner) i = gen_rev_get (len_impl inner) i) by (destruct a; reflexivity).
  rewrite S. cbn [get_impl]. unfold gen_rev_get. unf.
  destruct (len_impl inner) as [l|]; [|reflexivity].
  destruct (N.leb_spec l i); [reflexivity|].
  destruct (N.ltb_spec l i); [lia|].
  destruct (N.ltb_spec (l - i) 1); [lia|].
  rewrite N.eqb_refl. reflexivity.
Qed.

(** *** RepeatedArray *)
Lemma src_rep a data repeats i :
  match gen_rep_new (len_impl data) repeats with
  | Some (Some total) =>
      len_impl (Rep data repeats) = gen_rep_len (len_impl data) repeats total /\
      get_impl (Rep data repeats) i =
      interp (rep_src a (len_impl data) repeats total i) (sub1 (get_impl data))
  | _ => len_impl (Rep data repeats) = None /\ get_impl (Rep data repeats) i = None
  end.
Proof.
  assert (S : forall t, rep_src a (len_impl data) repeats t i = gen_rep_get (len_impl data) repeats t i)
    by (destruct a; reflexivity).
  unfold gen_rep_new. cbn [get_impl len_impl]. unf.
  destruct (len_impl data) as [dl|]; [|split; reflexivity].
  unfold ck. change usize_lim with g_usize_lim.
  destruct (N.ltb_spec (dl * repeats) g_usize_lim); [|split; reflexivity].
  split; [reflexivity|]. rewrite S. unfold gen_rep_get. unf.
  destruct (N.leb_spec (dl * repeats) i); [reflexivity|].
  destruct (N.eqb_spec dl 0); [reflexivity|].
  rewrite N.eqb_refl. reflexivity.
Qed.

(** *** ExtendedArray *)
Lemma src_ext a x y i :
  match gen_ext_new (len_impl x) (len_impl y) with
  | Some (split, len) =>
      len_impl (Ext x y) = gen_ext_len split len /\
      get_impl (Ext x y) i = interp (ext_src a split len i) (sub2 (get_impl x) (get_impl y))
  | None => len_impl (Ext x y) = None
  end.
Proof.
  assert (S : forall s l, ext_src a s l i = gen_ext_get s l i) by (destruct a; reflexivity).
  (* by cases on the two lengths and computation, whatever order the source binds them in *)
  cbn [get_impl len_impl].
  destruct (len_impl x) as [la|]; destruct (len_impl y) as [lb|];
    unfold gen_ext_new; unf; cbv beta iota; try reflexivity.
  unfold ck. change usize_lim with g_usize_lim.
  destruct (N.ltb_spec (la + lb) g_usize_lim); [|reflexivity].
  split; [reflexivity|]. rewrite S. unfold gen_ext_get. unf.
  destruct (N.ltb_spec i la).
  - rewrite N.eqb_refl. reflexivity.
  - reflexivity.
Qed.

(** *** RangeArray *)
Local Open Scope Z_scope.
Lemma range_len_eq (s e : Z) :
  Z.to_N ((e - s + 1) mod 18446744073709551616)%Z =
  (((Z.to_N (e mod 18446744073709551616) + 18446744073709551616 - Z.to_N (s mod 18446744073709551616) mod 18446744073709551616) mod 18446744073709551616 + 1) mod 18446744073709551616)%N.
Proof.
  pose proof (Z.mod_pos_bound e 18446744073709551616 ltac:(lia)) as He.
  pose proof (Z.mod_pos_bound s 18446744073709551616 ltac:(lia)) as Hs.
  apply N2Z.inj. rewrite Z2N.id by (apply Z.mod_pos_bound; lia).
  rewrite !N2Z.inj_mod, N2Z.inj_add, N2Z.inj_mod.
  rewrite N2Z.inj_sub by (apply N.lt_le_incl; eapply N.lt_le_trans; [apply N.mod_lt; discriminate|lia]).
  rewrite N2Z.inj_add, N2Z.inj_mod, !Z2N.id by lia.
  change (Z.of_N 18446744073709551616) with 18446744073709551616.
  change (Z.of_N 1) with 1.
  set (M := 18446744073709551616) in *.
  rewrite (Z.mod_small (s mod M)) by lia.
  rewrite Zplus_mod_idemp_l.
  replace (e mod M + M - s mod M + 1) with ((e mod M - s mod M + 1) + 1 * M) by lia.
  rewrite Z_mod_plus_full.
  subst M. lia.
Qed.
Local Close Scope Z_scope.

Lemma src_range_len s e : len_impl (Range s e) = gen_range_len s e.
Proof.
  cbn [len_impl]. unfold gen_range_len, gen_range_size. unf. f_equal.
  rewrite lim_val. unfold g_usize_lim. apply range_len_eq.
Qed.

Lemma src_range_get a s e i :
  get_impl (Range s e) i = interp (range_src a s e i) sub0.
Proof.
  assert (S : range_src a s e i = gen_range_get_cheap s e i) by (destruct a; reflexivity).
  rewrite S. cbn [get_impl]. unfold gen_range_get_cheap, gen_range_bounds, range_nth. unf.
  destruct (s + Z.of_N i <=? e)%Z; reflexivity.
Qed.

Lemma src_range_is_empty s e :
  gen_range_is_empty s e = gen_is_empty_default (gen_range_len s e).
Proof. reflexivity. Qed.

(** *** MappedArray *)
Lemma src_mapped f wi inner i :
  match gen_mapped_new (len_impl inner) with
  | Some cl =>
      len_impl (Mapped f wi inner) = gen_mapped_len cl /\
      (forall lazy, get_impl (Mapped f wi inner) i =
                    mapped_interp f wi i (mapped_src lazy cl i) (get_impl inner)) /\
      gen_mapped_get_cheap cl i = ANone
  | None => len_impl (Mapped f wi inner) = None /\ get_impl (Mapped f wi inner) i = None
  end.
Proof.
  unfold gen_mapped_new. cbn [get_impl len_impl].
  destruct (len_impl inner) as [l|]; [|split; reflexivity].
  split; [reflexivity|]. split; [|reflexivity].
  intros lazy. unfold mapped_src, gen_mapped_get_lazy, gen_mapped_get, gen_mapped_len. unf.
  destruct (N.leb_spec l i); destruct lazy; reflexivity.
Qed.

(** *** constructors *)
Lemma src_range_empty :
  (forall fallback, gen_range_new_exclusive fallback (fst gen_range_empty_args) (snd gen_range_empty_args)
                    = Some (0, -1)%Z) /\
  view_of_pair gen_empty_pair = Some empty_view.
Proof. split; [intros fb|]; reflexivity. Qed.

Lemma src_range_exclusive x y :
  (i32_min <= y <= i32_max)%Z ->
  view_of_pair (match gen_empty_pair with
                | Some e => gen_range_new_exclusive e x y
                | None => None
                end) = Some (range_exclusive x y).
Proof.
  intros Hy. change gen_empty_pair with (Some (0, -1)%Z).
  unfold gen_range_new_exclusive, range_exclusive, i32_min, i32_max in *. unf.
  unfold g_i32_min, g_i32_max.
  destruct (Z.eqb_spec y (- 2 ^ 31)) as [E|E].
  - subst y. reflexivity.
  - destruct (Z.leb_spec (-2147483648) (y - 1)); [|lia].
    destruct (Z.leb_spec (y - 1) 2147483647); [|lia].
    reflexivity.
Qed.

Lemma src_repeated data repeats :
  repeated_ctor data repeats =
  match gen_repeated (len_impl data) repeats with
  | None => None
  | Some None => Some None
  | Some (Some _) => Some (Some (Rep data repeats))
  end.
Proof.
  unfold repeated_ctor, gen_repeated, gen_rep_new. unf.
  destruct (len_impl data) as [l|]; [|reflexivity].
  change usize_lim with g_usize_lim.
  destruct (l * repeats <? g_usize_lim); reflexivity.
Qed.

Lemma thr_eq : gen_arr_extend_threshold = arr_extend_threshold.
Proof. reflexivity. Qed.

Lemma src_extended a b la lb :
  len_impl a = Some la -> len_impl b = Some lb ->
  extended_ctor a b = decode_eres a b (gen_extended (len_impl a) (len_impl b)).
Proof.
  intros Ha Hb. unfold extended_ctor, gen_extended, gen_is_empty_default, decode_eres, eres_if.
  rewrite Ha, Hb. unf. rewrite thr_eq.
  destruct (la =? 0); [reflexivity|].
  destruct (lb =? 0); [reflexivity|].
  unfold ck. change usize_lim with g_usize_lim.
  destruct (N.ltb_spec (la + lb) g_usize_lim) as [L|L]; [|reflexivity].
  destruct (arr_extend_threshold <? la + lb).
  - unfold gen_ext_new. unf.
    destruct (N.ltb_spec (la + lb) g_usize_lim); [reflexivity|lia].
  - unfold flatten_order. cbn [map concat]. cbn [N.eqb Pos.eqb].
    destruct (to_vec a); [|reflexivity]. destruct (to_vec b); [|reflexivity].
    rewrite app_nil_r. reflexivity.
Qed.

Lemma src_get_idx pos len default :
  pos_ok pos -> gen_slice_get_idx pos len default = Some (slice_get_idx pos len default).
Proof.
  unfold pos_ok, gen_slice_get_idx, slice_get_idx, i32_min, i32_max. intros H.
  destruct pos as [v|]; [|reflexivity]. unf. unfold g_i32_min, g_usize_lim. cbv beta iota.
  destruct (Z.ltb_spec v 0); f_equal; lia.
Qed.

(** historical: the expression 4b122d6 replaced, `len.saturating_sub((-v) as usize)`, panicked at i32::MIN *)
Lemma old_slice_position_i32_min_negation_panicked len :
  u_saturating_sub (Some len) (i_as_usize (i_neg (Some i32_min))) = None.
Proof. reflexivity. Qed.

Lemma src_slice_ctor v index end_ step :
  pos_ok index -> pos_ok end_ ->
  slice_ctor v index end_ step = decode_sres v (gen_slice (len_impl v) index end_ step).
Proof.
  intros Hi He. unfold slice_ctor, gen_slice.
  destruct (len_impl v) as [len|]; [|reflexivity].
  cbn [obind]. rewrite !src_get_idx by assumption.
  cbn [sres_bind]. unf.
  destruct step as [s|]; cbn [sres_bind];
    (destruct (N.leb_spec (slice_get_idx end_ len len) (slice_get_idx index len 0)); reflexivity).
Qed.
