(** C08 — property theorems only.  Each is closed by [exact] of a lemma from Proofs.v and
    followed by [Print Assumptions]; statements are pinned again in Pins.v. *)
From Coq Require Import List ZArith NArith.
From JrV Require Import C08.Model C08.Proofs.
Import ListNotations.

(** Whatever representation (any nesting of slice / reverse / repeat / concatenation /
    range / mapped views) — the length is the plain list's length. *)
Theorem C08_len_refines :
  forall v, wf v -> len_impl v = Some (N.of_nat (length (denote v))).
Proof. exact len_refines. Qed.
Print Assumptions C08_len_refines.

(** ... and every index, in or out of bounds, answers as the plain list does. *)
Theorem C08_get_refines :
  forall v i, wf v -> get_impl v i = Some (nth_error (denote v) (N.to_nat i)).
Proof. exact get_refines. Qed.
Print Assumptions C08_get_refines.

Theorem C08_out_of_bounds_is_none :
  forall v i, wf v -> (N.of_nat (length (denote v)) <= i)%N -> get_impl v i = Some None.
Proof. exact get_out_of_bounds. Qed.
Print Assumptions C08_out_of_bounds_is_none.

Theorem C08_in_bounds_is_elem :
  forall v i, wf v -> (i < N.of_nat (length (denote v)))%N -> exists e, get_impl v i = Some (Some e).
Proof. exact get_in_bounds. Qed.
Print Assumptions C08_in_bounds_is_elem.

(** Jsonnet slice semantics for every start / end / step and every array length. *)
Theorem C08_slice_ctor_spec :
  forall v index end_ step,
    wf v -> (forall s, step = Some s -> (0 < s)%N) ->
    exists v', slice_ctor v index end_ step = Some v' /\ wf v' /\
               denote v' = slice_spec (denote v) index end_ step.
Proof. exact slice_ctor_spec. Qed.
Print Assumptions C08_slice_ctor_spec.

(** Both branches of the concatenation threshold denote [a ++ b]. *)
Theorem C08_extended_threshold_invisible :
  forall a b, wf a -> wf b ->
    (N.of_nat (length (denote a)) + N.of_nat (length (denote b)) < usize_lim)%N ->
    exists v', extended_ctor a b = Some v' /\ wf v' /\ denote v' = denote a ++ denote b.
Proof. exact extended_ctor_spec. Qed.
Print Assumptions C08_extended_threshold_invisible.

Theorem C08_range_spec :
  forall from to, (i32_min <= from <= i32_max)%Z -> (i32_min <= to <= i32_max)%Z ->
    wf (std_range from to) /\
    denote (std_range from to) = map ENum (zseq from (Z.to_nat (to - from + 1))).
Proof. exact std_range_spec. Qed.
Print Assumptions C08_range_spec.

Theorem C08_remove_at_spec :
  forall v at_, wf v -> (i32_min <= at_ <= i32_max)%Z ->
    exists v', remove_at_ctor v at_ = Some v' /\ wf v' /\ denote v' = remove_at_spec (denote v) at_.
Proof. exact remove_at_ctor_spec. Qed.
Print Assumptions C08_remove_at_spec.

(** Every composition of the array-producing operations, to any depth. *)
Theorem C08_ops_observe :
  forall o, op_ok o ->
    exists v, build o = BOk v /\
      len_impl v = Some (N.of_nat (length (spec o))) /\
      forall i, get_impl v i = Some (nth_error (spec o) (N.to_nat i)).
Proof. exact ops_observe. Qed.
Print Assumptions C08_ops_observe.
