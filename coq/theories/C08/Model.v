(** C08 — arrays behave identically whatever their internal representation.

    IMPL-MODEL: a transliteration of crates/jrsonnet-evaluator/src/arr/{mod,spec}.rs
    (the [ArrayLike] impls and the [ArrValue] constructors) over abstract elements.
    SPEC: [denote], the plain list a view stands for.
    Definitions only; proofs live in Proofs.v so that the model still runs when a proof
    breaks. *)
From Coq Require Import List ZArith NArith Bool.
From JrV Require Import Gen.GenConsts.
Import ListNotations.
Open Scope N_scope.

(** Abstract elements.  [EId] is an opaque base element (its evaluation is C03's business),
    [ENum] a number manufactured by a view (range, bytes), [EAp]/[EApI] the application of
    the [f]-th mapper function by std.map / std.mapWithIndex / std.makeArray. *)
Inductive elem :=
| EId (n : Z)
| ENum (z : Z)
| EAp (f : Z) (e : elem)
| EApI (f : Z) (i : N) (e : elem).

(** One constructor per representation that computes indices.  [Vec] stands for the
    representations that are a stored vector with a bounds-checked [get]:
    EagerArray, LazyArray, ExprArray, CharArray, BytesArray, PickObjectValues. *)
Inductive view :=
| Vec (l : list elem)
| Slice (inner : view) (from to step : N)      (* SliceArray {inner, from:usize, to:usize, step:u32} *)
| Rev (inner : view)                            (* ReverseArray *)
| Rep (data : view) (repeats : N)               (* RepeatedArray; total_len = len*repeats *)
| Ext (a b : view)                              (* ExtendedArray; split = len a *)
| Range (s e : Z)                               (* RangeArray, inclusive, i32 *)
| Mapped (f : Z) (with_index : bool) (inner : view).  (* MappedArray *)

Definition usize_lim : N := 2 ^ 64.
Definition u32_lim : N := 2 ^ 32.
(** `x as u32` on a usize *)
Definition as_u32 (n : N) : N := n mod u32_lim.
(** checked usize arithmetic: [None] models a panic *)
Definition ck (n : N) : option N := if n <? usize_lim then Some n else None.

Definition div_ceil (a b : N) : N := (a + b - 1) / b.

(** [ArrayLike::len].  [None] = panic (u32 underflow in `to - from`, division by zero,
    `expect("too large array value")`). *)
Fixpoint len_impl (v : view) : option N :=
  match v with
  | Vec l => Some (N.of_nat (length l))
  | Slice _ from to step =>
      if to <? from then None
      else if step =? 0 then None
      else Some (div_ceil (to - from) step)
  | Rev inner => len_impl inner
  | Rep data repeats =>
      match len_impl data with Some l => ck (l * repeats) | None => None end
  | Ext a b =>
      match len_impl a, len_impl b with
      | Some la, Some lb => ck (la + lb)
      | _, _ => None
      end
  | Range s e =>
      (* (end as usize).wrapping_sub(start as usize).wrapping_add(1) *)
      Some (Z.to_N ((e - s + 1) mod (Z.of_N usize_lim)))
  | Mapped _ _ inner => len_impl inner
  end.

(** [ArrayLike::get] : [None] = panic, [Some None] = out of bounds, [Some (Some e)] = element. *)
Fixpoint get_impl (v : view) (i : N) : option (option elem) :=
  match v with
  | Vec l =>
      (* the bound test only keeps the model executable for huge [i] (no unary number is built) *)
      Some (if N.of_nat (length l) <=? i then None else nth_error l (N.to_nat i))
  | Slice inner from to step =>
      match len_impl v with
      | None => None
      | Some l =>
          if l <=? i then Some None
          else get_impl inner (from + step * i)
      end
  | Rev inner =>
      match len_impl inner with
      | None => None
      | Some l => if l <=? i then Some None else get_impl inner (l - i - 1)
      end
  | Rep data repeats =>
      match len_impl v, len_impl data with
      | Some total, Some dl =>
          if total <=? i then Some None
          else if dl =? 0 then None (* `index % 0` *)
          else get_impl data (i mod dl)
      | _, _ => None
      end
  | Ext a b =>
      match len_impl a with
      | None => None
      | Some split => if i <? split then get_impl a i else get_impl b (i - split)
      end
  | Range s e =>
      (* (start..=end).nth(index) *)
      if (s + Z.of_N i <=? e)%Z then Some (Some (ENum (s + Z.of_N i))) else Some None
  | Mapped f wi inner =>
      match len_impl inner with
      | None => None
      | Some l =>
          if l <=? i then Some None
          else match get_impl inner i with
               | Some (Some e) => Some (Some (if wi then EApI f (as_u32 i) e else EAp f e))
               | _ => None (* `.expect("index checked")` *)
               end
      end
  end.

(** *** Constructors ([impl ArrValue]) *)

Definition empty_view : view := Range 0 (-1).   (* RangeArray::new_exclusive(0,0) *)

Definition i32_min : Z := (- 2 ^ 31)%Z.
Definition i32_max : Z := (2 ^ 31 - 1)%Z.

Definition range_exclusive (a b : Z) : view :=
  if (b =? i32_min)%Z then empty_view else Range a (b - 1).

(** std.range *)
Definition std_range (from to : Z) : view :=
  if (to <? from)%Z then empty_view else Range from to.

(** `get_idx` closure of ArrValue::slice *)
Definition slice_get_idx (pos : option Z) (len default : N) : N :=
  match pos with
  | Some v => if (v <? 0)%Z then len - Z.to_N (- v) (* saturating_sub *)
              else N.min (Z.to_N v) len
  | None => default
  end.

(** ArrValue::slice; [step = None] is 1.  [None] = panic in `len()`. *)
Definition slice_ctor (v : view) (index end_ : option Z) (step : option N) : option view :=
  match len_impl v with
  | None => None
  | Some len =>
      let i := slice_get_idx index len 0 in
      let e := slice_get_idx end_ len len in
      let st := match step with Some s => s | None => 1 end in
      if e <=? i then Some empty_view
      else Some (Slice v i e st)
  end.

(** all elements by index, as [iter_cheap]/[iter_lazy] do: `get(i).expect("length checked")` *)
Fixpoint collect (v : view) (start : N) (count : nat) : option (list elem) :=
  match count with
  | O => Some []
  | S c =>
      match get_impl v start, collect v (start + 1) c with
      | Some (Some e), Some r => Some (e :: r)
      | _, _ => None
      end
  end.

Definition to_vec (v : view) : option (list elem) :=
  match len_impl v with Some l => collect v 0 (N.to_nat l) | None => None end.

(** ArrValue::extended *)
Definition extended_ctor (a b : view) : option view :=
  match len_impl a, len_impl b with
  | Some la, Some lb =>
      if la =? 0 then Some b
      else if lb =? 0 then Some a
      else match ck (la + lb) with
           | None => None
           | Some s =>
               if arr_extend_threshold <? s then Some (Ext a b)
               else match to_vec a, to_vec b with
                    | Some x, Some y => Some (Vec (x ++ y))
                    | _, _ => None
                    end
           end
  | _, _ => None
  end.

(** ArrValue::repeated: [Some None] = `checked_mul` failed (a Jsonnet error) *)
Definition repeated_ctor (data : view) (repeats : N) : option (option view) :=
  match len_impl data with
  | None => None
  | Some l => if l * repeats <? usize_lim then Some (Some (Rep data repeats)) else Some None
  end.

(** std.removeAt: unchanged when [at] is out of range, else extended(arr[:at], arr[at+1:]) *)
Definition remove_at_ctor (v : view) (at_ : Z) : option view :=
  match len_impl v with
  | None => None
  | Some len =>
      if ((at_ <? 0) || (Z.of_N len <=? at_))%Z then Some v
      else match slice_ctor v None (Some at_) None, slice_ctor v (Some (at_ + 1)%Z) None None with
           | Some l, Some r => extended_ctor l r
           | _, _ => None
           end
  end.

(** std.flattenArrays: balanced tree of [extended] *)
Fixpoint flatten_inner (fuel : nat) (vs : list view) : option view :=
  match fuel with
  | O => None
  | S f =>
      match vs with
      | [] => None
      | [a] => Some a
      | [a; b] => extended_ctor a b
      | _ =>
          let h := Nat.div (length vs) 2 in
          match flatten_inner f (firstn h vs), flatten_inner f (skipn h vs) with
          | Some x, Some y => extended_ctor x y
          | _, _ => None
          end
      end
  end.
Definition flatten_ctor (vs : list view) : option view :=
  match vs with
  | [] => Some empty_view
  | _ => flatten_inner (S (length vs)) vs
  end.

(** *** SPEC: the plain list a view denotes *)

(** take the element under the cursor when the countdown [k] is 0, then every [st]-th *)
Fixpoint step_from {A} (st k : nat) (l : list A) : list A :=
  match l with
  | [] => []
  | x :: xs => match k with
               | O => x :: step_from st (st - 1) xs
               | S k' => step_from st k' xs
               end
  end.

Fixpoint zseq (s : Z) (n : nat) : list Z :=
  match n with O => [] | S m => s :: zseq (s + 1) m end.

Fixpoint mapi_from {A B} (f : N -> A -> B) (i : N) (l : list A) : list B :=
  match l with [] => [] | x :: xs => f i x :: mapi_from f (i + 1) xs end.

Fixpoint denote (v : view) : list elem :=
  match v with
  | Vec l => l
  | Slice inner from to step =>
      step_from (N.to_nat step) 0
        (firstn (N.to_nat (to - from)) (skipn (N.to_nat from) (denote inner)))
  | Rev inner => rev (denote inner)
  | Rep data n => concat (repeat (denote data) (N.to_nat n))
  | Ext a b => denote a ++ denote b
  | Range s e => map ENum (zseq s (Z.to_nat (e - s + 1)))
  | Mapped f wi inner =>
      mapi_from (fun i e => if wi then EApI f i e else EAp f e) 0 (denote inner)
  end.

(** Jsonnet slice semantics on plain lists: negative positions count from the end, all
    positions are clamped to the length, an empty or inverted interval gives []. *)
Definition norm_pos (pos : option Z) (len : nat) (default : nat) : nat :=
  match pos with
  | None => default
  | Some z => if (z <? 0)%Z then Nat.sub len (Z.to_nat (- z)) else Nat.min (Z.to_nat z) len
  end.
Definition slice_spec {A} (l : list A) (index end_ : option Z) (step : option N) : list A :=
  let i := norm_pos index (length l) 0%nat in
  let e := norm_pos end_ (length l) (length l) in
  let st := match step with Some s => N.to_nat s | None => 1%nat end in
  step_from st 0 (firstn (Nat.sub e i) (skipn i l)).

(** std.removeAt per the reference definition
    [arr[i] for i in std.range(0, len-1) if i != at] *)
Definition remove_at_spec {A} (l : list A) (at_ : Z) : list A :=
  if (at_ <? 0)%Z then l
  else firstn (Z.to_nat at_) l ++ skipn (S (Z.to_nat at_)) l.

(** *** Well-formedness: what the constructors establish (and the theorems assume) *)
Fixpoint wf (v : view) : Prop :=
  match v with
  | Vec l => N.of_nat (length l) < usize_lim
  | Slice inner from to step =>
      wf inner /\ from < to /\ to <= N.of_nat (length (denote inner)) /\ 0 < step
  | Rev inner => wf inner
  | Rep data n => wf data /\ N.of_nat (length (denote data)) * n < usize_lim
  | Ext a b => wf a /\ wf b /\ N.of_nat (length (denote a)) + N.of_nat (length (denote b)) < usize_lim
  | Range s e => (i32_min <= s /\ e <= i32_max /\ s <= e + 1)%Z
  | Mapped _ wi inner => wf inner /\ (wi = true -> N.of_nat (length (denote inner)) <= u32_lim)
  end.

(** executable version of the observable interface, used by the correspondence check:
    length, and every element from index 0 to [len+extra] *)
Fixpoint observe_go (v : view) (n : nat) (i : N) : option (list (option elem)) :=
  match n with
  | O => Some []
  | S m => match get_impl v i, observe_go v m (i + 1) with
           | Some x, Some r => Some (x :: r)
           | _, _ => None
           end
  end.
Definition observe (v : view) (extra : N) : option (N * list (option elem)) :=
  match len_impl v with
  | None => None
  | Some l => match observe_go v (N.to_nat (l + extra)) 0 with
              | Some r => Some (l, r)
              | None => None
              end
  end.

(** *** Operation trees: the Jsonnet-level ways of obtaining an array *)
Inductive op :=
| OLit (l : list elem)            (* literal, comprehension, std.filter result, stringChars, ... *)
| OCat (a b : op)                 (* a + b *)
| OSlice (a : op) (i e : option Z) (st : option N)   (* a[i:e:st], std.slice *)
| ORev (a : op)                   (* std.reverse *)
| ORep (a : op) (n : N)           (* std.repeat *)
| ORange (f t : Z)                (* std.range *)
| OMake (n : Z) (f : Z)           (* std.makeArray(n, f) with a non-trivial f *)
| OMap (f : Z) (a : op)           (* std.map *)
| OMapI (f : Z) (a : op)          (* std.mapWithIndex *)
| ORemoveAt (a : op) (at_ : Z).   (* std.removeAt *)

Inductive bres := BOk (v : view) | BErr (* a Jsonnet error *) | BPanic.

Definition bbind (r : bres) (k : view -> bres) : bres :=
  match r with BOk v => k v | BErr => BErr | BPanic => BPanic end.
Definition of_opt (o : option view) : bres :=
  match o with Some v => BOk v | None => BPanic end.

Fixpoint build (o : op) : bres :=
  match o with
  | OLit l => BOk (Vec l)
  | OCat a b => bbind (build a) (fun va => bbind (build b) (fun vb => of_opt (extended_ctor va vb)))
  | OSlice a i e st => bbind (build a) (fun va => of_opt (slice_ctor va i e st))
  | ORev a => bbind (build a) (fun va => BOk (Rev va))
  | ORep a n => bbind (build a) (fun va =>
                  match repeated_ctor va n with
                  | Some (Some v) => BOk v | Some None => BErr | None => BPanic end)
  | ORange f t => BOk (std_range f t)
  | OMake n f => if (n =? 0)%Z then BOk empty_view
                 else BOk (Mapped f false (range_exclusive 0 n))
  | OMap f a => bbind (build a) (fun va => BOk (Mapped f false va))
  | OMapI f a => bbind (build a) (fun va => BOk (Mapped f true va))
  | ORemoveAt a at_ => bbind (build a) (fun va => of_opt (remove_at_ctor va at_))
  end.

Fixpoint spec (o : op) : list elem :=
  match o with
  | OLit l => l
  | OCat a b => spec a ++ spec b
  | OSlice a i e st => slice_spec (spec a) i e st
  | ORev a => rev (spec a)
  | ORep a n => concat (repeat (spec a) (N.to_nat n))
  | ORange f t => map ENum (zseq f (Z.to_nat (t - f + 1)))
  | OMake n f => map (fun i => EAp f (ENum i)) (zseq 0 (Z.to_nat n))
  | OMap f a => map (EAp f) (spec a)
  | OMapI f a => mapi_from (EApI f) 0 (spec a)
  | ORemoveAt a at_ => remove_at_spec (spec a) at_
  end.

(** side conditions under which [build] is specified: argument ranges the typed builtin
    signatures enforce (i32 bounds, positive step) and total sizes that fit a usize *)
Fixpoint op_ok (o : op) : Prop :=
  match o with
  | OLit l => N.of_nat (length l) < usize_lim
  | OCat a b => op_ok a /\ op_ok b /\
                N.of_nat (length (spec a)) + N.of_nat (length (spec b)) < usize_lim
  | OSlice a _ _ st => op_ok a /\ (forall s, st = Some s -> 0 < s)
  | ORev a => op_ok a
  | ORep a n => op_ok a /\ N.of_nat (length (spec a)) * n < usize_lim
  | ORange f t => (i32_min <= f <= i32_max /\ i32_min <= t <= i32_max)%Z
  | OMake n _ => (0 <= n <= i32_max)%Z
  | OMap _ a => op_ok a
  | OMapI _ a => op_ok a /\ N.of_nat (length (spec a)) <= u32_lim
  | ORemoveAt a at_ => op_ok a /\ (i32_min <= at_ <= i32_max)%Z
  end.

(** what the correspondence check evaluates for one case *)
Definition run_case (o : op) (extra : N) : option (N * list (option elem)) * list elem :=
  (match build o with BOk v => observe v extra | _ => None end, spec o).
Definition build_class (o : op) : N :=
  match build o with BOk _ => 0 | BErr => 1 | BPanic => 2 end.
