(** C08 — property theorems tying the hand model (Model.v) to the source text: every function below
    [gen_*] is regenerated from crates/jrsonnet-evaluator/src/arr/{spec,mod}.rs by
    translator/gens/arrviews.py on every run (Gen/GenArr.v).  Each theorem is closed by [exact] of a
    lemma from ProofsSource.v, followed by [Print Assumptions]; statements are pinned in PinsSource.v. *)
From Coq Require Import List ZArith NArith.
From JrV Require Import Gen.GenArr C08.Model C08.ModelSource C08.ProofsSource.
Import ListNotations.

(** SliceArray: len and get / get_lazy / get_cheap (bounds test, map_idx) as written in spec.rs equal the
    model, for every from/to/step that fits a usize and every index; in bounds, map_idx does not overflow. *)
Theorem C08_model_is_translated_source_slice :
  forall (a : accessor) inner from to step i, (to < usize_lim)%N ->
    len_impl (Slice inner from to step) = gen_slice_len from to step /\
    get_impl (Slice inner from to step) i =
    interp (slice_src a from to step i) (sub1 (get_impl inner)).
Proof. exact (fun a inner from to step i H => conj (src_slice_len inner from to step) (src_slice_get a inner from to step i H)). Qed.
Print Assumptions C08_model_is_translated_source_slice.

(** ReverseArray: len and the three accessors (bounds test, `len - index - 1` with checked subtraction). *)
Theorem C08_model_is_translated_source_reverse :
  forall (a : accessor) inner i,
    len_impl (Rev inner) = gen_rev_len (len_impl inner) /\
    get_impl (Rev inner) i = interp (rev_src a (len_impl inner) i) (sub1 (get_impl inner)).
Proof. exact (src_rev). Qed.
Print Assumptions C08_model_is_translated_source_reverse.

(** RepeatedArray: `new` (checked_mul), len and the three accessors (`index >= total_len`, `index % data.len()`). *)
Theorem C08_model_is_translated_source_repeated :
  forall (a : accessor) data repeats i,
    match gen_rep_new (len_impl data) repeats with
    | Some (Some total) =>
        len_impl (Rep data repeats) = gen_rep_len (len_impl data) repeats total /\
        get_impl (Rep data repeats) i =
        interp (rep_src a (len_impl data) repeats total i) (sub1 (get_impl data))
    | _ => len_impl (Rep data repeats) = None /\ get_impl (Rep data repeats) i = None
    end.
Proof. exact (src_rep). Qed.
Print Assumptions C08_model_is_translated_source_repeated.

(** ExtendedArray: `new` (split, checked_add), len and the three accessors (`split > index`, `index - split`). *)
Theorem C08_model_is_translated_source_extended :
  forall (a : accessor) x y i,
    match gen_ext_new (len_impl x) (len_impl y) with
    | Some (split, len) =>
        len_impl (Ext x y) = gen_ext_len split len /\
        get_impl (Ext x y) i = interp (ext_src a split len i) (sub2 (get_impl x) (get_impl y))
    | None => len_impl (Ext x y) = None
    end.
Proof. exact (src_ext). Qed.
Print Assumptions C08_model_is_translated_source_extended.

(** RangeArray: the wrapping length expression of range(), is_empty, and the three accessors, for ALL start/end. *)
Theorem C08_model_is_translated_source_range :
  forall (a : accessor) s e i,
    len_impl (Range s e) = gen_range_len s e /\
    gen_range_is_empty s e = gen_is_empty_default (gen_range_len s e) /\
    get_impl (Range s e) i = interp (range_src a s e i) sub0.
Proof. exact (fun a s e i => conj (src_range_len s e) (conj (src_range_is_empty s e) (src_range_get a s e i))). Qed.
Print Assumptions C08_model_is_translated_source_range.

(** MappedArray: cache length, len, the bounds test of get and get_lazy and the index get delegates to;
    get_cheap is constantly None. *)
Theorem C08_model_is_translated_source_mapped :
  forall f wi inner i,
    match gen_mapped_new (len_impl inner) with
    | Some cl =>
        len_impl (Mapped f wi inner) = gen_mapped_len cl /\
        (forall lazy, get_impl (Mapped f wi inner) i =
                      mapped_interp f wi i (mapped_src lazy cl i) (get_impl inner)) /\
        gen_mapped_get_cheap cl i = ANone
    | None => len_impl (Mapped f wi inner) = None /\ get_impl (Mapped f wi inner) i = None
    end.
Proof. exact (src_mapped). Qed.
Print Assumptions C08_model_is_translated_source_mapped.

(** ArrValue::slice: the get_idx closure, the empty / SliceArray decision and the fields of the view built,
    for every length, every i32 start/end (i32::MIN included since 4b122d6), every step. *)
Theorem C08_model_is_translated_source_slice_ctor :
  forall v index end_ step, pos_ok index -> pos_ok end_ ->
    slice_ctor v index end_ step = decode_sres v (gen_slice (len_impl v) index end_ step).
Proof. exact (src_slice_ctor). Qed.
Print Assumptions C08_model_is_translated_source_slice_ctor.

(** ArrValue::extended: empty operands, ARR_EXTEND_THRESHOLD, link or flatten (a before b). *)
Theorem C08_model_is_translated_source_extended_ctor :
  forall a b la lb, len_impl a = Some la -> len_impl b = Some lb ->
    extended_ctor a b = decode_eres a b (gen_extended (len_impl a) (len_impl b)).
Proof. exact (src_extended). Qed.
Print Assumptions C08_model_is_translated_source_extended_ctor.

(** ArrValue::repeated / RepeatedArray::new: None exactly when the checked multiplication fails. *)
Theorem C08_model_is_translated_source_repeated_ctor :
  forall data repeats,
    repeated_ctor data repeats =
    match gen_repeated (len_impl data) repeats with
    | None => None
    | Some None => Some None
    | Some (Some _) => Some (Some (Rep data repeats))
    end.
Proof. exact (src_repeated). Qed.
Print Assumptions C08_model_is_translated_source_repeated_ctor.

(** RangeArray::empty (its recursion through new_exclusive never reaches the fallback) and new_exclusive. *)
Theorem C08_model_is_translated_source_range_ctor :
  (forall fallback, gen_range_new_exclusive fallback (fst gen_range_empty_args) (snd gen_range_empty_args)
                     = Some (0, -1)%Z) /\
    view_of_pair gen_empty_pair = Some empty_view /\
    forall x y, (i32_min <= y <= i32_max)%Z ->
      view_of_pair (match gen_empty_pair with
                    | Some e => gen_range_new_exclusive e x y
                    | None => None
                    end) = Some (range_exclusive x y).
Proof. exact (conj (proj1 src_range_empty) (conj (proj2 src_range_empty) src_range_exclusive)). Qed.
Print Assumptions C08_model_is_translated_source_range_ctor.
