From Coq Require Import List NArith Bool Arith Permutation Lia.
From JrV Require Import C16.Model.
Import ListNotations.

Section SortFacts.
  Variable A : Type.
  Variable leb : A -> A -> bool.
  Hypothesis Htot : total leb.
  Hypothesis Hanti : antisym leb.
  Hypothesis Htrans : trans leb.

  Lemma insert_perm x l : Permutation (insert leb x l) (x :: l).
  Proof.
    induction l as [|y t IH]; cbn [insert]; [reflexivity|].
    destruct (leb x y); [reflexivity|].
    rewrite IH. apply perm_swap.
  Qed.

  Lemma isort_perm l : Permutation (isort leb l) l.
  Proof.
    induction l as [|x t IH]; cbn [isort]; [reflexivity|]. rewrite insert_perm, IH. reflexivity.
  Qed.

  Lemma insert_sorted x l : sorted leb l -> sorted leb (insert leb x l).
  Proof.
    induction 1 as [|y|y z t Hyz Hs IH]; cbn [insert].
    - constructor.
    - destruct (leb x y) eqn:E; [constructor; [exact E|constructor]|].
      constructor; [|constructor]. destruct (Htot x y) as [H|H]; congruence.
    - destruct (leb x y) eqn:E.
      + constructor; [exact E|]. constructor; assumption.
      + cbn [insert] in IH. destruct (leb x z) eqn:E2.
        * constructor; [destruct (Htot x y); congruence|]. constructor; assumption.
        * constructor; assumption.
  Qed.

  Lemma isort_sorted l : sorted leb (isort leb l).
  Proof. induction l as [|x t IH]; cbn [isort]; [constructor|apply insert_sorted; exact IH]. Qed.

  Lemma sorted_head_le x l : sorted leb (x :: l) -> forall y, In y l -> leb x y = true.
  Proof.
    revert x. induction l as [|z t IH]; intros x Hs y Hy; [contradiction|].
    inversion Hs as [| |? ? ? Hxz Hst]; subst. destruct Hy as [<-|Hy]; [exact Hxz|].
    eapply Htrans; [exact Hxz|]. apply IH; assumption.
  Qed.

  Lemma sorted_tail x l : sorted leb (x :: l) -> sorted leb l.
  Proof. intros H. inversion H; subst; [constructor|assumption]. Qed.

  (** a sorted list is determined by its elements: whatever algorithm sorted it *)
  Lemma sorted_perm_unique l : forall l', sorted leb l -> sorted leb l' -> Permutation l l' -> l = l'.
  Proof.
    induction l as [|x t IH]; intros l' Hs Hs' Hp.
    - apply Permutation_nil in Hp. subst. reflexivity.
    - destruct l' as [|y t']; [apply Permutation_sym, Permutation_nil in Hp; discriminate|].
      assert (Hxy : x = y).
      { assert (Hx : In x (y :: t')) by (eapply Permutation_in; [exact Hp|left; reflexivity]).
        assert (Hy : In y (x :: t)) by (eapply Permutation_in; [apply Permutation_sym; exact Hp|left; reflexivity]).
        destruct Hx as [->|Hx]; [reflexivity|]. destruct Hy as [->|Hy]; [reflexivity|].
        apply Hanti; [eapply sorted_head_le; eauto|eapply sorted_head_le; eauto]. }
      subst y. f_equal. apply IH; [eapply sorted_tail; eauto|eapply sorted_tail; eauto|].
      eapply Permutation_cons_inv. exact Hp.
  Qed.

  Theorem isort_perm_invariant l l' : Permutation l l' -> isort leb l = isort leb l'.
  Proof.
    intros Hp. apply sorted_perm_unique; try apply isort_sorted.
    rewrite !isort_perm. exact Hp.
  Qed.

  Theorem any_sort_is_isort l s : sorted leb s -> Permutation s l -> s = isort leb l.
  Proof.
    intros Hs Hp. apply sorted_perm_unique; [exact Hs|apply isort_sorted|].
    rewrite Hp, isort_perm. reflexivity.
  Qed.
End SortFacts.

(** *** the name order is a total order *)
Lemma name_leb_total : total name_leb.
Proof.
  intros a. induction a as [|x a IH]; intros b; [left; reflexivity|].
  destruct b as [|y b]; [right; reflexivity|]. cbn [name_leb].
  destruct (N.ltb_spec x y), (N.ltb_spec y x); try lia; auto.
Qed.
Lemma name_leb_antisym : antisym name_leb.
Proof.
  intros a. induction a as [|x a IH]; intros b H1 H2.
  - destruct b; [reflexivity|discriminate].
  - destruct b as [|y b]; [discriminate|]. cbn [name_leb] in *.
    destruct (N.ltb_spec x y), (N.ltb_spec y x); try lia; try discriminate.
    assert (x = y) by lia. subst. f_equal. apply IH; assumption.
Qed.
Lemma name_leb_trans : trans name_leb.
Proof.
  intros a. induction a as [|x a IH]; intros b c H1 H2; [reflexivity|].
  destruct b as [|y b]; [discriminate|]. destruct c as [|z c]; [discriminate|]. cbn [name_leb] in *.
  destruct (N.ltb_spec x y), (N.ltb_spec y x), (N.ltb_spec y z), (N.ltb_spec z y),
           (N.ltb_spec x z), (N.ltb_spec z x); try lia; try discriminate; try reflexivity.
  eapply IH; eauto.
Qed.

Section SuggestFacts.
  Variable score : name -> N.
  Lemma cand_leb_total : total (cand_leb score).
  Proof.
    intros a b. unfold cand_leb.
    destruct (N.ltb_spec (score b) (score a)), (N.ltb_spec (score a) (score b)); try lia; auto.
    apply name_leb_total.
  Qed.
  Lemma cand_leb_antisym : antisym (cand_leb score).
  Proof.
    intros a b. unfold cand_leb.
    destruct (N.ltb_spec (score b) (score a)), (N.ltb_spec (score a) (score b)); try lia; try discriminate.
    apply name_leb_antisym.
  Qed.
  Lemma cand_leb_trans : trans (cand_leb score).
  Proof.
    intros a b c. unfold cand_leb.
    destruct (N.ltb_spec (score b) (score a)), (N.ltb_spec (score a) (score b)),
             (N.ltb_spec (score c) (score b)), (N.ltb_spec (score b) (score c)),
             (N.ltb_spec (score c) (score a)), (N.ltb_spec (score a) (score c));
      try lia; try discriminate; try reflexivity.
    apply name_leb_trans.
  Qed.
End SuggestFacts.

Lemma filter_perm {A} (f : A -> bool) l l' : Permutation l l' -> Permutation (filter f l) (filter f l').
Proof.
  induction 1 as [|x l l' _ IH|x y l|l l' l'' _ IH1 _ IH2]; cbn [filter].
  - reflexivity.
  - destruct (f x); [constructor; exact IH|exact IH].
  - destruct (f x), (f y); try reflexivity. apply perm_swap.
  - etransitivity; eauto.
Qed.

Theorem fields_perm_invariant enum enum' : Permutation enum enum' -> fields_ex enum = fields_ex enum'.
Proof.
  apply isort_perm_invariant; [apply name_leb_total|apply name_leb_antisym|apply name_leb_trans].
Qed.

Theorem suggest_perm_invariant score thr enum enum' :
  Permutation enum enum' -> suggest score thr enum = suggest score thr enum'.
Proof.
  intros Hp. unfold suggest.
  apply isort_perm_invariant;
    [apply cand_leb_total|apply cand_leb_antisym|apply cand_leb_trans|apply filter_perm; exact Hp].
Qed.

Theorem first_failing_perm_invariant fails enum enum' :
  Permutation enum enum' -> first_failing fails enum = first_failing fails enum'.
Proof.
  intros Hp. unfold first_failing. pose proof (fields_perm_invariant _ _ Hp) as E.
  unfold fields_ex in E. rewrite E. reflexivity.
Qed.

(** what the code did before the fixes depended on the enumeration *)
Lemma suggest_by_score_refuted :
  exists score enum enum', Permutation enum enum' /\
    suggest_by_score score 0 enum <> suggest_by_score score 0 enum'.
Proof.
  exists (fun _ => 1%N), [[1%N]; [2%N]], [[2%N]; [1%N]]. split; [apply perm_swap|].
  cbn. discriminate.
Qed.
Lemma first_failing_unsorted_refuted :
  exists enum enum', Permutation enum enum' /\
    first_failing_unsorted (fun _ => true) enum <> first_failing_unsorted (fun _ => true) enum'.
Proof. exists [[1%N]; [2%N]], [[2%N]; [1%N]]. split; [apply perm_swap|]. cbn. discriminate. Qed.
