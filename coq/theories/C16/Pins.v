From Coq Require Import List NArith Bool Permutation.
From JrV Require Import C16.Model C16.Properties.
Import ListNotations.
Check C16_sorted_unique : forall (A : Type) (leb : A -> A -> bool), antisym leb -> trans leb ->
    forall l l', sorted leb l -> sorted leb l' -> Permutation l l' -> l = l'.
Check C16_fields_perm_invariant : forall enum enum', Permutation enum enum' -> fields_ex enum = fields_ex enum'.
Check C16_suggest_perm_invariant : forall score thr enum enum',
    Permutation enum enum' -> suggest score thr enum = suggest score thr enum'.
Check C16_tla_error_choice_invariant : forall fails enum enum',
    Permutation enum enum' -> first_failing fails enum = first_failing fails enum'.
Check eq_refl : fields_ex [[98%N]; [97%N; 98%N]; [97%N]] = [[97%N]; [97%N; 98%N]; [98%N]].
Check eq_refl : suggest (fun n => match n with [97%N] => 3 | _ => 5 end)%N 4 [[99%N]; [97%N]; [98%N]] = [[98%N]; [99%N]].
Check C16_score_only_sort_refuted : exists score enum enum', Permutation enum enum' /\
    suggest_by_score score 0 enum <> suggest_by_score score 0 enum'.
Check C16_unsorted_tla_walk_refuted : exists enum enum', Permutation enum enum' /\
    first_failing_unsorted (fun _ => true) enum <> first_failing_unsorted (fun _ => true) enum'.
