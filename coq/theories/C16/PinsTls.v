From Coq Require Import List Arith Bool.
From JrV Require Import Gen.GenStack Gen.GenTls C16.ModelTls C16.PropertiesTls.
Import ListNotations.
Check C16_source_protocols_are_brackets : bracket_laws gen_protos.
Check C16_brackets_restore_tls : forall P, bracket_laws P -> forall (e : ev) (s : tls), snd (run_g P e s) = s.
Check C16_tls_restored : forall (e : ev) (s : tls), snd (run e s) = s.
Check C16_history_independent : forall (ps : list ev) (p : ev) (s : tls), run p (run_history gen_protos ps s) = run p s.
Check C16_history_independent_result : forall (R : Type) (step : tls -> ev -> R) (ps : list ev) (p : ev) (s : tls),
    step (run_history gen_protos ps s) p = step s p.
Check C16_restore_after_question_mark_refuted :
  (exists e s, snd (run_g leaky_assert_protos e s) <> s) /\
  (exists ps p s, fst (run_g leaky_assert_protos p (run_history leaky_assert_protos ps s))
                  <> fst (run_g leaky_assert_protos p s)).
Check C16_evaluating_not_cleared_on_error_refuted :
  exists ps p s, fst (run_g leaky_import_protos p (run_history leaky_import_protos ps s))
                 <> fst (run_g leaky_import_protos p s).
Check C16_forgotten_depth_guard_refuted :
  exists ps p s, fst (run_g leaky_frame_protos p (run_history leaky_frame_protos ps s))
                 <> fst (run_g leaky_frame_protos p s).
(* definitions pinned: what `run` is, what the state is, what the laws demand *)
Check eq_refl : run = run_g gen_protos.
Check eq_refl : gen_protos = mkProtos gen_check_depth gen_in_frame_exit gen_in_description_frame_exit gen_limit gen_limit_drop
           gen_ra_start gen_ra_runs gen_ra_after_ok gen_ra_after_err gen_enter gen_enter_drop
           gen_imp_blocked gen_imp_before gen_imp_after_ok gen_imp_after_err.
Check eq_refl : run (Assert 7 (Seq (Frame false (Leaf true)) (Leaf false))) tls0 = (false, tls0).
Check eq_refl : run_g leaky_assert_protos (Assert 7 (Leaf false)) tls0 = (false, mkTls 0 200 [7] None []).
Check eq_refl : run_g leaky_import_protos (Import 3 (Leaf false)) tls0 = (false, mkTls 0 200 [] None [3]).
Check eq_refl : run_g leaky_frame_protos (Frame false (Leaf false)) tls0 = (false, mkTls 1 200 [] None []).
Check eq_refl : run (Frame false (Leaf true)) (mkTls 5 5 [] None []) = (false, mkTls 5 5 [] None []).
Check (fun P (L : bracket_laws P) => law_ra P L) : forall P, bracket_laws P -> forall o s,
    if p_ra_runs P (fst (p_ra_start P o s))
    then p_ra_ok P o (snd (p_ra_start P o s)) = s /\ p_ra_err P o (snd (p_ra_start P o s)) = s
    else snd (p_ra_start P o s) = s.
