(** C16 — property theorems: no observable depends on hash-map enumeration order. *)
From Coq Require Import List NArith Bool Permutation.
From JrV Require Import C16.Model C16.Proofs.
Import ListNotations.

(** whatever algorithm sorts (Rust's sort_unstable / sort_by), under a total antisymmetric
    order the result is THE sorted arrangement of the key set *)
Theorem C16_sorted_unique :
  forall (A : Type) (leb : A -> A -> bool), antisym leb -> trans leb ->
    forall l l', sorted leb l -> sorted leb l' -> Permutation l l' -> l = l'.
Proof. intros A leb Ha Ht. exact (sorted_perm_unique A leb Ha Ht). Qed.
Print Assumptions C16_sorted_unique.

(** std.objectFields*, manifestation order, `in`, equality: field enumeration *)
Theorem C16_fields_perm_invariant :
  forall enum enum', Permutation enum enum' -> fields_ex enum = fields_ex enum'.
Proof. exact fields_perm_invariant. Qed.
Print Assumptions C16_fields_perm_invariant.

(** 'did you mean' suggestions for an undefined local / unknown field *)
Theorem C16_suggest_perm_invariant :
  forall score thr enum enum', Permutation enum enum' -> suggest score thr enum = suggest score thr enum'.
Proof. exact suggest_perm_invariant. Qed.
Print Assumptions C16_suggest_perm_invariant.

(** which of several failing top-level arguments is reported *)
Theorem C16_tla_error_choice_invariant :
  forall fails enum enum', Permutation enum enum' -> first_failing fails enum = first_failing fails enum'.
Proof. exact first_failing_perm_invariant. Qed.
Print Assumptions C16_tla_error_choice_invariant.

(** the pre-fix algorithms (score-only sort; unsorted argument walk) did depend on it *)
Theorem C16_score_only_sort_refuted :
  exists score enum enum', Permutation enum enum' /\
    suggest_by_score score 0 enum <> suggest_by_score score 0 enum'.
Proof. exact suggest_by_score_refuted. Qed.
Print Assumptions C16_score_only_sort_refuted.

Theorem C16_unsorted_tla_walk_refuted :
  exists enum enum', Permutation enum enum' /\
    first_failing_unsorted (fun _ => true) enum <> first_failing_unsorted (fun _ => true) enum'.
Proof. exact first_failing_unsorted_refuted. Qed.
Print Assumptions C16_unsorted_tla_walk_refuted.
