(** C16 kernel: hash-map enumeration order must not be observable.

    A hash map keyed by interned-string address ([FxHashMap<IStr,_>]) or by a per-process
    random state enumerates its keys in an order the program does not control: the model
    treats the enumeration as an ARBITRARY permutation of the key set.  Every place that turns
    such an enumeration into observable output is a composition of [filter], [map] and a
    comparison sort; the SPEC is that the output is a function of the key SET only. *)
From Coq Require Import List NArith Bool Arith.
Import ListNotations.

Section Sorting.
  Variable A : Type.
  Variable leb : A -> A -> bool.

  Fixpoint insert (x : A) (l : list A) : list A :=
    match l with
    | [] => [x]
    | y :: t => if leb x y then x :: l else y :: insert x t
    end.
  Fixpoint isort (l : list A) : list A :=
    match l with [] => [] | x :: t => insert x (isort t) end.

  Inductive sorted : list A -> Prop :=
  | sorted_nil : sorted []
  | sorted_one x : sorted [x]
  | sorted_cons x y t : leb x y = true -> sorted (y :: t) -> sorted (x :: y :: t).

  (** the comparison is a total order on the keys that occur *)
  Definition total := forall a b, leb a b = true \/ leb b a = true.
  Definition antisym := forall a b, leb a b = true -> leb b a = true -> a = b.
  Definition trans := forall a b c, leb a b = true -> leb b c = true -> leb a c = true.
End Sorting.
Arguments insert {A}. Arguments isort {A}. Arguments sorted {A}.
Arguments total {A}. Arguments antisym {A}. Arguments trans {A}.

Definition name := list N.   (* bytes of the identifier *)

Fixpoint name_leb (a b : name) : bool :=
  match a, b with
  | [], _ => true
  | _ :: _, [] => false
  | x :: a', y :: b' => if N.ltb x y then true else if N.ltb y x then false else name_leb a' b'
  end.

(** ObjValue::fields_ex: collect the keys of the visibility map, `sort_unstable` by content *)
Definition fields_ex (enum : list name) : list name := isort name_leb enum.

(** Context::binding suggestions.  [score] is the (abstract) similarity of a candidate to
    the misspelt name, as an integer rank.  Before commit 73db8f5 candidates were stable-sorted
    by score only ([suggest_by_score]); now ties are broken by name ([suggest]). *)
Section Suggest.
  Variable score : name -> N.
  Variable threshold : N.
  Definition cand_leb (a b : name) : bool :=
    if N.ltb (score b) (score a) then true         (* higher score first *)
    else if N.ltb (score a) (score b) then false
    else name_leb a b.
  Definition suggest (enum : list name) : list name :=
    isort cand_leb (filter (fun k => N.leb threshold (score k)) enum).
  Definition score_leb (a b : name) : bool := N.leb (score b) (score a).
  Definition suggest_by_score (enum : list name) : list name :=
    isort score_leb (filter (fun k => N.leb threshold (score k)) enum).
End Suggest.

(** apply_tla: arguments are visited in name order (since commit 236ca79); the first one that
    fails decides the reported error *)
Definition first_failing (fails : name -> bool) (enum : list name) : option name :=
  find fails (isort name_leb enum).
Definition first_failing_unsorted (fails : name -> bool) (enum : list name) : option name :=
  find fails enum.
