(* C16, second half: thread-local / per-State interpreter state is bracketed, so that what ran earlier on the
   thread cannot change a later result.  Definitions only.

   The protocol transformers are NOT written here: they are the gen_* functions of Gen/GenTls.v (translated
   statement by statement from obj/mod.rs and lib.rs) and Gen/GenStack.v (from stack.rs).  This file defines
   - the thread-local state,
   - a record `protos` of protocol transformers, with `gen_protos` := the translated ones,
   - evaluation histories as trees of bracketed protocol uses and their execution `run_g P`,
   - the bracket laws a `protos` must satisfy,
   - the seeded / pre-fix variants (a restore placed after `?`) as separate `protos`. *)
From Coq Require Import List Arith Bool.
From JrV Require Import Gen.GenStack Gen.GenTls.
Import ListNotations.

(* depth / maxd : STACK_LIMIT.current_depth / max_stack_size      (stack.rs)
   running      : RUNNING_ASSERTIONS, object ids                  (obj/mod.rs)
   cur          : STATE, the entered State                        (lib.rs)
   evalg        : files whose FileData.evaluating is true         (lib.rs) *)
Record tls := mkTls { depth : nat; maxd : nat; running : list nat; cur : option nat; evalg : list nat }.

Record protos := mkProtos {
  p_frame_enter : nat -> nat -> option (nat * nat);      (* check_depth *)
  p_frame_exit : nat -> nat -> nat * nat;                (* what in_frame does to the counters on return *)
  p_dframe_exit : nat -> nat -> nat * nat;               (* same for in_description_frame *)
  p_limit : nat -> nat -> nat -> (nat * nat) * nat;      (* limit_stack_depth *)
  p_limit_drop : nat -> nat -> nat -> nat * nat;
  p_ra_start : nat -> list nat -> bool * list nat;
  p_ra_runs : bool -> bool;
  p_ra_ok : nat -> list nat -> list nat;
  p_ra_err : nat -> list nat -> list nat;
  p_enter : nat -> option nat -> option (option nat);
  p_enter_drop : option nat -> option nat;
  p_imp_blocked : bool -> bool;
  p_imp_before : bool -> bool;
  p_imp_ok : bool -> bool;
  p_imp_err : bool -> bool }.

(* the protocols of the working tree *)
Definition gen_protos : protos :=
  mkProtos gen_check_depth gen_in_frame_exit gen_in_description_frame_exit gen_limit gen_limit_drop
           gen_ra_start gen_ra_runs gen_ra_after_ok gen_ra_after_err
           gen_enter gen_enter_drop
           gen_imp_blocked gen_imp_before gen_imp_after_ok gen_imp_after_err.

(* a boolean flag per file, kept as the set of files whose flag is true *)
Definition flag_get (f : nat) (e : list nat) : bool := ts_mem f e.
Definition flag_set (f : nat) (b : bool) (e : list nat) : list nat := if b then ts_insert f e else ts_remove f e.

(* evaluation histories: trees of bracketed protocol uses *)
Inductive ev : Type :=
| Leaf (ok : bool)                  (* a computation that touches no thread-local state and succeeds / fails
                                       (also: every early return before a protocol's first write) *)
| Seq (a b : ev)                    (* a, then b; a's failure propagates and b does not run *)
| Catch (a : ev)                    (* a's failure is absorbed (the embedder's loop over programs, `std.trace`-like
                                       adapters, the harness running the next program on the same thread) *)
| Frame (d : bool) (body : ev)      (* in_frame (d = false) / in_description_frame (d = true) *)
| Limit (n : nat) (body : ev)       (* limit_stack_depth guard held around body *)
| Assert (o : nat) (body : ev)      (* ObjValue::run_assertions of object o; body = evaluation of its assertions *)
| Enter (st : nat) (body : ev)      (* State::enter guard held around body *)
| Import (f : nat) (body : ev).     (* State::import_resolved of file f; body = evaluation of the file *)

Definition set_stack (s : tls) (cm : nat * nat) : tls := mkTls (fst cm) (snd cm) (running s) (cur s) (evalg s).
Definition set_running (s : tls) (r : list nat) : tls := mkTls (depth s) (maxd s) r (cur s) (evalg s).
Definition set_cur (s : tls) (v : option nat) : tls := mkTls (depth s) (maxd s) (running s) v (evalg s).
Definition set_evalg (s : tls) (e : list nat) : tls := mkTls (depth s) (maxd s) (running s) (cur s) e.

(* run_g P e s = (did e succeed, thread-local state afterwards) *)
Fixpoint run_g (P : protos) (e : ev) (s : tls) : bool * tls :=
  match e with
  | Leaf ok => (ok, s)
  | Seq a b => let r := run_g P a s in if fst r then run_g P b (snd r) else (false, snd r)
  | Catch a => (true, snd (run_g P a s))
  | Frame d body =>
      match p_frame_enter P (depth s) (maxd s) with
      | None => (false, s)                                   (* `check_depth()?` : StackOverflow, nothing written *)
      | Some cm =>
          let r := run_g P body (set_stack s cm) in
          (fst r, set_stack (snd r) ((if d then p_dframe_exit P else p_frame_exit P) (depth (snd r)) (maxd (snd r))))
      end
  | Limit n body =>
      let g := p_limit P n (depth s) (maxd s) in
      let r := run_g P body (set_stack s (fst g)) in
      (fst r, set_stack (snd r) (p_limit_drop P (snd g) (depth (snd r)) (maxd (snd r))))
  | Assert o body =>
      let st := p_ra_start P o (running s) in
      if p_ra_runs P (fst st) then
        let r := run_g P body (set_running s (snd st)) in
        if fst r then (true, set_running (snd r) (p_ra_ok P o (running (snd r))))
        else (false, set_running (snd r) (p_ra_err P o (running (snd r))))
      else (true, set_running s (snd st))
  | Enter st body =>
      match p_enter P st (cur s) with
      | None => (false, s)
      | Some v =>
          let r := run_g P body (set_cur s v) in
          (fst r, set_cur (snd r) (p_enter_drop P (cur (snd r))))
      end
  | Import f body =>
      if p_imp_blocked P (flag_get f (evalg s)) then (false, s)
      else
        let r := run_g P body (set_evalg s (flag_set f (p_imp_before P (flag_get f (evalg s))) (evalg s))) in
        let e1 := evalg (snd r) in
        if fst r then (true, set_evalg (snd r) (flag_set f (p_imp_ok P (flag_get f e1)) e1))
        else (false, set_evalg (snd r) (flag_set f (p_imp_err P (flag_get f e1)) e1))
  end.

(* the code of the working tree *)
Definition run : ev -> tls -> bool * tls := run_g gen_protos.

(* the bracket laws: every protocol's exit undoes its entry *)
Record bracket_laws (P : protos) : Prop := mkLaws {
  law_frame : forall c m cm, p_frame_enter P c m = Some cm ->
              p_frame_exit P (fst cm) (snd cm) = (c, m) /\ p_dframe_exit P (fst cm) (snd cm) = (c, m);
  law_limit : forall n c m, p_limit_drop P (snd (p_limit P n c m)) (fst (fst (p_limit P n c m))) (snd (fst (p_limit P n c m))) = (c, m);
  law_ra : forall o s, if p_ra_runs P (fst (p_ra_start P o s))
                       then p_ra_ok P o (snd (p_ra_start P o s)) = s /\ p_ra_err P o (snd (p_ra_start P o s)) = s
                       else snd (p_ra_start P o s) = s;
  law_enter : forall st v v', p_enter P st v = Some v' -> p_enter_drop P v' = v;
  law_imp : forall f e, p_imp_blocked P (flag_get f e) = false ->
            let e' := flag_set f (p_imp_before P (flag_get f e)) e in
            flag_set f (p_imp_ok P (flag_get f e')) e' = e /\ flag_set f (p_imp_err P (flag_get f e')) e' = e }.

(* a history: programs run one after the other on the same thread, each one's failure absorbed by the embedder *)
Definition run_history (P : protos) (ps : list ev) (s : tls) : tls :=
  fold_left (fun s p => snd (run_g P p s)) ps s.

(* ---- seeded / pre-fix variants: the restore sits after the `?` (or only in the Ok arm) *)
Definition set_ra_err (P : protos) (f : nat -> list nat -> list nat) : protos :=
  mkProtos (p_frame_enter P) (p_frame_exit P) (p_dframe_exit P) (p_limit P) (p_limit_drop P)
           (p_ra_start P) (p_ra_runs P) (p_ra_ok P) f (p_enter P) (p_enter_drop P)
           (p_imp_blocked P) (p_imp_before P) (p_imp_ok P) (p_imp_err P).
Definition set_imp_err (P : protos) (f : bool -> bool) : protos :=
  mkProtos (p_frame_enter P) (p_frame_exit P) (p_dframe_exit P) (p_limit P) (p_limit_drop P)
           (p_ra_start P) (p_ra_runs P) (p_ra_ok P) (p_ra_err P) (p_enter P) (p_enter_drop P)
           (p_imp_blocked P) (p_imp_before P) (p_imp_ok P) f.
Definition set_frame_exit (P : protos) (f : nat -> nat -> nat * nat) : protos :=
  mkProtos (p_frame_enter P) f (p_dframe_exit P) (p_limit P) (p_limit_drop P)
           (p_ra_start P) (p_ra_runs P) (p_ra_ok P) (p_ra_err P) (p_enter P) (p_enter_drop P)
           (p_imp_blocked P) (p_imp_before P) (p_imp_ok P) (p_imp_err P).
(* `ele.0.run_assertions_core(sup_this)?; ... finish_asserting(self);` *)
Definition leaky_assert_protos : protos := set_ra_err gen_protos (fun _ s => s).
(* `let res = evaluate(..)?; file.evaluating = false;` *)
Definition leaky_import_protos : protos := set_imp_err gen_protos (fun b => b).
(* `mem::forget(check_depth()?)` in in_frame *)
Definition leaky_frame_protos : protos := set_frame_exit gen_protos (fun c m => (c, m)).

Definition tls0 : tls := mkTls 0 200 [] None [].
