(** C16, second half — thread-local interpreter state is restored by every bracket protocol, for ALL evaluation
    histories; the protocols are the ones translated from the working tree (Gen/GenTls.v, Gen/GenStack.v). *)
From Coq Require Import List Arith Bool.
From JrV Require Import Gen.GenStack Gen.GenTls C16.ModelTls C16.ProofsTls.
Import ListNotations.

(** SOURCE TIE: the transformers translated statement by statement from obj/mod.rs (run_assertions), lib.rs
    (try_enter / StateEnterGuard::drop, import_resolved, in_frame, in_description_frame) and stack.rs satisfy the
    bracket laws: every exit (success path AND error path) undoes the entry.  Breaks when a restore is moved
    behind a `?`, into the Ok arm only, or a guard is forgotten. *)
Theorem C16_source_protocols_are_brackets : bracket_laws gen_protos.
Proof. exact gen_protos_bracket. Qed.
Print Assumptions C16_source_protocols_are_brackets.

(** for ANY protocols obeying the bracket laws and ANY history tree (arbitrary nesting, every inner computation
    succeeding or failing at an arbitrary point, failures propagating or being absorbed), the thread-local state
    after the evaluation is the state before it *)
Theorem C16_brackets_restore_tls :
  forall P, bracket_laws P -> forall (e : ev) (s : tls), snd (run_g P e s) = s.
Proof. exact run_g_restores. Qed.
Print Assumptions C16_brackets_restore_tls.

(** the code of the working tree: depth counter, stack limit, running-assertions set, current-state slot and
    evaluating flags after ANY top-level evaluation, successful or failed, equal those before it *)
Theorem C16_tls_restored :
  forall (e : ev) (s : tls), snd (run e s) = s.
Proof. exact run_restores. Qed.
Print Assumptions C16_tls_restored.

(** running any list of programs before p leaves p's initial thread-local state, outcome and final state unchanged *)
Theorem C16_history_independent :
  forall (ps : list ev) (p : ev) (s : tls), run p (run_history gen_protos ps s) = run p s.
Proof. exact history_independent. Qed.
Print Assumptions C16_history_independent.

(** ... and therefore the result of any deterministic step function of (thread-local state, program) *)
Theorem C16_history_independent_result :
  forall (R : Type) (step : tls -> ev -> R) (ps : list ev) (p : ev) (s : tls),
    step (run_history gen_protos ps s) p = step s p.
Proof. exact history_independent_result. Qed.
Print Assumptions C16_history_independent_result.

(** seeded variant `run_assertions_core(..)?; .. finish_asserting(self);` (restore after the `?`): one failing
    assertion leaks an entry, and the leak is observable — the same program fails when run fresh and is
    reported as succeeding (assertions silently skipped) after a history that made it fail once *)
Theorem C16_restore_after_question_mark_refuted :
  (exists e s, snd (run_g leaky_assert_protos e s) <> s) /\
  (exists ps p s, fst (run_g leaky_assert_protos p (run_history leaky_assert_protos ps s))
                  <> fst (run_g leaky_assert_protos p s)).
Proof.
  split.
  - exists (Assert 7 (Leaf false)), tls0. rewrite leaky_assert_leaks. discriminate.
  - exists [Assert 7 (Leaf false)], (Assert 7 (Leaf false)), tls0.
    destruct leaky_assert_observable as [A B]. rewrite A, B. discriminate.
Qed.
Print Assumptions C16_restore_after_question_mark_refuted.

(** seeded variant `let res = evaluate(..)?; file.evaluating = false;`: a failing import poisons the file *)
Theorem C16_evaluating_not_cleared_on_error_refuted :
  exists ps p s, fst (run_g leaky_import_protos p (run_history leaky_import_protos ps s))
                 <> fst (run_g leaky_import_protos p s).
Proof.
  exists [Import 3 (Leaf false)], (Import 3 (Leaf true)), tls0.
  destruct leaky_import_observable as [A B]. rewrite A, B. discriminate.
Qed.
Print Assumptions C16_evaluating_not_cleared_on_error_refuted.

(** seeded variant `mem::forget(check_depth()?)` in in_frame: earlier programs use up the frame budget *)
Theorem C16_forgotten_depth_guard_refuted :
  exists ps p s, fst (run_g leaky_frame_protos p (run_history leaky_frame_protos ps s))
                 <> fst (run_g leaky_frame_protos p s).
Proof.
  exists [Frame false (Leaf false); Frame false (Leaf true)], (Frame false (Leaf true)), (mkTls 0 2 [] None []).
  destruct leaky_frame_observable as [A B]. rewrite A, B. discriminate.
Qed.
Print Assumptions C16_forgotten_depth_guard_refuted.

(** non-vacuity: a history that nests every protocol, fails inside, is caught, hits the stack limit and re-enters
    an object / a file / a state; it really changes the state on the way (the inner state differs) *)
Definition nv_tree : ev :=
  Enter 1 (Frame false (Seq (Catch (Import 3 (Frame true (Assert 7 (Seq (Assert 7 (Leaf true)) (Import 3 (Leaf true)))))))
                            (Seq (Catch (Limit 1 (Frame false (Frame false (Leaf true)))))
                                 (Seq (Catch (Enter 2 (Leaf true))) (Assert 8 (Leaf false)))))).
Example C16_tls_nonvacuous :
  run nv_tree tls0 = (false, tls0) /\
  run (Import 3 (Frame true (Assert 7 (Leaf true)))) tls0 = (true, tls0) /\
  (* the inner computation runs in a different state: the brackets are not no-ops *)
  snd (run_g gen_protos (Leaf true) (set_running (set_stack tls0 (1, 200)) (snd (gen_ra_start 7 [])))) = mkTls 1 200 [7] None [] /\
  (* re-entrancy tests fire: nested use of the same object is skipped, of the same file fails, of a state fails *)
  fst (run (Import 3 (Import 3 (Leaf true))) tls0) = false /\
  fst (run (Assert 7 (Assert 7 (Leaf false))) tls0) = true /\
  fst (run (Enter 1 (Enter 2 (Leaf true))) tls0) = false /\
  fst (run (Limit 1 (Frame false (Frame false (Leaf true)))) tls0) = false /\
  run_history gen_protos [nv_tree; Assert 7 (Leaf false); Import 3 (Leaf false)] tls0 = tls0.
Proof. vm_compute. repeat split; reflexivity. Qed.
