From Coq Require Import List Arith Bool Lia.
From JrV Require Import Gen.GenStack Gen.GenTls C16.ModelTls.
Import ListNotations.

(* ---------------------------------------------------------------- list-set facts *)
Lemma ts_remove_notin : forall o s, ts_mem o s = false -> ts_remove o s = s.
Proof.
  unfold ts_mem, ts_remove. induction s as [|x s IH]; cbn [existsb filter]; intros H; [reflexivity|].
  apply orb_false_iff in H. destruct H as [H1 H2]. rewrite H1. cbn [negb]. now rewrite IH.
Qed.

Lemma ts_remove_insert : forall o s, ts_mem o s = false -> ts_remove o (ts_insert o s) = s.
Proof.
  intros o s H. unfold ts_insert. rewrite H. unfold ts_remove. cbn [filter].
  rewrite Nat.eqb_refl. cbn [negb]. now apply ts_remove_notin.
Qed.

Lemma ts_mem_insert : forall o s, ts_mem o (ts_insert o s) = true.
Proof.
  intros o s. unfold ts_insert. destruct (ts_mem o s) eqn:E; [exact E|].
  unfold ts_mem. cbn [existsb]. now rewrite Nat.eqb_refl.
Qed.

Lemma ts_insert_in : forall o s, ts_mem o s = true -> ts_insert o s = s.
Proof. intros o s H. unfold ts_insert. now rewrite H. Qed.

(* ---------------------------------------------------------------- the general theorem *)
Lemma tls_eta : forall s, mkTls (depth s) (maxd s) (running s) (cur s) (evalg s) = s.
Proof. now destruct s. Qed.

Lemma run_g_restores : forall P, bracket_laws P -> forall e s, snd (run_g P e s) = s.
Proof.
  intros P L. induction e; intros s; cbn [run_g]; cbv zeta.
  - reflexivity.
  - destruct (fst (run_g P e1 s)); cbn [snd]; rewrite IHe1; [apply IHe2 | reflexivity].
  - cbn [snd]. apply IHe.
  - destruct (p_frame_enter P (depth s) (maxd s)) as [cm|] eqn:E; [|reflexivity].
    cbn [snd]. rewrite IHe. unfold set_stack. cbn [depth maxd running cur evalg fst snd].
    destruct (law_frame P L _ _ _ E) as [A B].
    destruct d; [rewrite B | rewrite A]; cbn [fst snd]; apply tls_eta.
  - cbn [snd]. rewrite IHe. unfold set_stack. cbn [depth maxd running cur evalg fst snd].
    rewrite (law_limit P L). cbn [fst snd]. apply tls_eta.
  - pose proof (law_ra P L o (running s)) as H.
    destruct (p_ra_runs P (fst (p_ra_start P o (running s)))).
    + destruct H as [A B].
      destruct (fst (run_g P e (set_running s (snd (p_ra_start P o (running s)))))); cbn [snd]; rewrite IHe;
        unfold set_running; cbn [depth maxd running cur evalg]; [rewrite A | rewrite B]; apply tls_eta.
    + cbn [snd]. unfold set_running. rewrite H. apply tls_eta.
  - destruct (p_enter P st (cur s)) as [v|] eqn:E; [|reflexivity].
    cbn [snd]. rewrite IHe. unfold set_cur. cbn [depth maxd running cur evalg].
    rewrite (law_enter P L _ _ _ E). apply tls_eta.
  - destruct (p_imp_blocked P (flag_get f (evalg s))) eqn:E; [reflexivity|].
    destruct (law_imp P L f (evalg s) E) as [A B].
    destruct (fst (run_g P e _)); cbn [snd]; rewrite IHe;
      unfold set_evalg; cbn [depth maxd running cur evalg]; [rewrite A | rewrite B]; apply tls_eta.
Qed.

Lemma run_history_restores : forall P, bracket_laws P -> forall ps s, run_history P ps s = s.
Proof.
  intros P L. unfold run_history. induction ps as [|p ps IH]; intros s; cbn [fold_left]; [reflexivity|].
  rewrite (run_g_restores P L). apply IH.
Qed.

(* ---------------------------------------------------------------- the source tie: the translated protocols are brackets *)
Lemma gen_protos_bracket : bracket_laws gen_protos.
Proof.
  constructor; cbn [gen_protos p_frame_enter p_frame_exit p_dframe_exit p_limit p_limit_drop p_ra_start p_ra_runs
                    p_ra_ok p_ra_err p_enter p_enter_drop p_imp_blocked p_imp_before p_imp_ok p_imp_err].
  - intros c m cm. unfold gen_check_depth, gen_in_frame_exit, gen_in_description_frame_exit, gen_guard_drop.
    destruct (Nat.ltb c m); intros H; inversion H; subst; cbn [fst snd].
    replace (c + 1 - 1) with c by lia. split; reflexivity.
  - intros n c m. unfold gen_limit, gen_limit_drop. reflexivity.
  - intros o s. unfold gen_ra_start, gen_ra_runs, gen_ra_after_ok, gen_ra_after_err. cbn [fst snd].
    destruct (ts_mem o s) eqn:E; cbn [negb].
    + now apply ts_insert_in.
    + split; now apply ts_remove_insert.
  - intros st v v'. unfold gen_enter, gen_enter_drop. destruct v; intros H; inversion H; reflexivity.
  - intros f e. unfold gen_imp_blocked, gen_imp_before, gen_imp_after_ok, gen_imp_after_err, flag_get, flag_set.
    intros E. cbv zeta. split; now apply ts_remove_insert.
Qed.

Lemma run_restores : forall e s, snd (run e s) = s.
Proof. exact (run_g_restores gen_protos gen_protos_bracket). Qed.

Lemma history_independent :
  forall (ps : list ev) (p : ev) (s : tls), run p (run_history gen_protos ps s) = run p s.
Proof. intros. now rewrite (run_history_restores gen_protos gen_protos_bracket). Qed.

Lemma history_independent_result :
  forall (R : Type) (step : tls -> ev -> R) (ps : list ev) (p : ev) (s : tls),
    step (run_history gen_protos ps s) p = step s p.
Proof. intros. now rewrite (run_history_restores gen_protos gen_protos_bracket). Qed.

(* ---------------------------------------------------------------- the seeded variants leak, and the leak is observable *)
Lemma leaky_assert_leaks :
  snd (run_g leaky_assert_protos (Assert 7 (Leaf false)) tls0) = mkTls 0 200 [7] None [].
Proof. vm_compute. reflexivity. Qed.

Lemma leaky_assert_observable :
  (* the object's assertion (which touches a failing sub-computation) is silently skipped the second time *)
  fst (run_g leaky_assert_protos (Assert 7 (Leaf false)) tls0) = false /\
  fst (run_g leaky_assert_protos (Assert 7 (Leaf false))
         (run_history leaky_assert_protos [Assert 7 (Leaf false)] tls0)) = true.
Proof. vm_compute. split; reflexivity. Qed.

Lemma leaky_import_observable :
  fst (run_g leaky_import_protos (Import 3 (Leaf true)) tls0) = true /\
  fst (run_g leaky_import_protos (Import 3 (Leaf true))
         (run_history leaky_import_protos [Import 3 (Leaf false)] tls0)) = false.
Proof. vm_compute. split; reflexivity. Qed.

Lemma leaky_frame_observable :
  fst (run_g leaky_frame_protos (Frame false (Leaf true)) (mkTls 0 2 [] None [])) = true /\
  fst (run_g leaky_frame_protos (Frame false (Leaf true))
         (run_history leaky_frame_protos [Frame false (Leaf false); Frame false (Leaf true)] (mkTls 0 2 [] None []))) = false.
Proof. vm_compute. split; reflexivity. Qed.
