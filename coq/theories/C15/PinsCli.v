From Coq Require Import List Bool Arith String.
From JrV Require Import C15.Model Gen.GenCli C15.ModelCli C15.ProofsCli C15.PropertiesCli.
Import ListNotations.
Open Scope string_scope.
Open Scope list_scope.
Check C15_cli_tla_mapping_refines :
  forall (o : vecs) (n : string),
    match option_map sem (lookup n (cli_tla o)) with
    | Some b => In (n, b) (spec_bindings o)
    | None => forall b, ~ In (n, b) (spec_bindings o)
    end.
Check C15_cli_ext_mapping_refines :
  forall (o : vecs) (n : string),
    match option_map sem (lookup n (cli_ext o)) with
    | Some b => In (n, b) (spec_bindings o)
    | None => forall b, ~ In (n, b) (spec_bindings o)
    end.
Check C15_cli_tla_unique_name :
  forall o n b, about n o = [(n, b)] -> option_map sem (lookup n (cli_tla o)) = Some b.
Check C15_cli_ext_unique_name :
  forall o n b, about n o = [(n, b)] -> option_map sem (lookup n (cli_ext o)) = Some b.
Check C15_cli_tla_repeated_name_last_wins :
  forall o n, option_map sem (lookup n (cli_tla o)) = lastb n (spec_bindings o).
Check C15_cli_ext_repeated_name_last_wins :
  forall o n, option_map sem (lookup n (cli_ext o)) = lastb n (spec_bindings o).
Check C15_cli_tla_independent_of_other_names :
  forall o o' n, about n o = about n o' ->
    option_map sem (lookup n (cli_tla o)) = option_map sem (lookup n (cli_tla o')).
Check C15_cli_ext_independent_of_other_names :
  forall o o' n, about n o = about n o' ->
    option_map sem (lookup n (cli_ext o)) = option_map sem (lookup n (cli_ext o')).
Check C15_cli_search_path_refines :
  forall (A : Type) (jpath : list A) (env : option (list A)),
    gen_import_resolver jpath env = rev jpath ++ match env with Some l => l | None => [] end
    /\ gen_path_env_var = "JSONNET_PATH".
Check C15_cli_jpath_rightmost_wins :
  forall (A : Type) (has : A -> bool) (before : list A) (d : A) (after : list A) (env : option (list A)),
    has d = true -> forallb (fun x => negb (has x)) after = true ->
    first_with has (gen_import_resolver (before ++ d :: after) env) = Some d.
Check C15_cli_select_is_translated_source :
  forall f s y p, writer_of_g (gen_manifest_format (option_map fmt_g f) s y p) = select f s y p.
Check C15_cli_conflicts_as_documented :
  forall f s y p,
    cli_accepts f s y p = negb (s && match f with Some _ => true | None => false end) && negb (y && s).
(* definitions pinned: the SPEC side and the interpretation of the translated loops *)
Check eq_refl : spec_bindings {| v_str := [("a", "1")]; v_str_file := [("b", "/f")]; v_code := [("c", "1+1")]; v_code_file := [("d", "/g")] |}
  = [("a", MStringItself "1"); ("b", MContentsOfFileAsString "/f"); ("c", MValueOfCode "1+1"); ("d", MImportOfFile "/g")].
Check eq_refl : sem (TImportStr "/f") = MContentsOfFileAsString "/f".
Check eq_refl : sem (TImport "/f") = MImportOfFile "/f".
Check eq_refl : sem (TString "s") = MStringItself "s".
Check eq_refl : sem (TInlineCode "s") = MValueOfCode "s".
Check eq_refl : lastb "a" [("a", 1); ("b", 2); ("a", 3)] = Some 3.
Check eq_refl : lookup "a" (insert "a" (TString "2") (insert "a" (TString "1") [])) = Some (TString "2").
Check eq_refl : run_loops [(VStrFile, FName, CImportStr, FName)] {| v_str := []; v_str_file := [("n", "/p")]; v_code := []; v_code_file := [] |}
  = [("n", TImportStr "n")].
Check eq_refl : spec_search_path [1; 2] (Some [3]) = [2; 1; 3].
Check eq_refl : writer_of_g (GW_YamlStreamCli (GW_JsonCli 3)) = WYamlStream (WJson 3).
Check eq_refl : map fmt_g [FString; FJson; FYaml; FToml; FXml; FIni] = [GString; GJson; GYaml; GToml; GXmlJsonml; GIni].
Check eq_refl : cli_accepts None true false None = true.
