(** C15 — property theorems: C-API framing, dependency lister, CLI writer selection. *)
From Coq Require Import List NArith Bool Arith.
From JrV Require Import C15.Model C15.Proofs.
Import ListNotations.

(** the multi/stream framing of libjsonnet is read back exactly by the documented C loop *)
Theorem C15_frame_roundtrip :
  forall kvs, forallb pair_ok kvs = true -> decode (S (length kvs)) (encode kvs) = kvs.
Proof. exact frame_roundtrip. Qed.
Print Assumptions C15_frame_roundtrip.

(** jrsonnet-deps lists exactly the statically reachable files, for every finite import graph
    with any mix of import / importstr / importbin edges in any order *)
Theorem C15_deps_exact :
  forall g root fuel d e,
    deps_of fuel g root = Some (d, e) ->
    (forall m, In m d <-> Listed g root m) /\ (forall n, In n e <-> Expanded g root n).
Proof. exact deps_exact. Qed.
Print Assumptions C15_deps_exact.

(** before commit 2d84f1a a file first seen through importstr was never descended into *)
Theorem C15_deps_old_refuted :
  let g := fun n => match n with 0 => [(1, false); (1, true)] | 1 => [(2, true)] | _ => [] end in
  collect_old 10 g 0 [] = Some [1] /\ Listed g 0 2.
Proof. exact collect_old_refuted. Qed.
Print Assumptions C15_deps_old_refuted.

(** writer selection: total, with the documented defaults *)
Theorem C15_format_selection :
  (forall p, select None false false p = WJson (match p with Some n => n | None => 3 end)) /\
  (forall f y p, select f true y p = if y then WYamlStream WStringRaw else WStringRaw) /\
  (forall p, select None false true p = WYamlStream (WYaml (match p with Some n => n | None => 2 end))) /\
  (forall p, select (Some FToml) false false p = WToml (match p with Some n => n | None => 2 end)) /\
  (forall p, select (Some FString) false false p = WToString) /\
  (forall p, select (Some FXml) false false p = WXml) /\
  (forall p, select (Some FIni) false false p = WIni).
Proof. exact select_table. Qed.
Print Assumptions C15_format_selection.
