(** C15 kernels.
    [Frame]: the multi-output framing of libjsonnet (`k \0 v \0 k \0 v \0 \0`, bindings/jsonnet
    multi_to_raw) and the C consumer's decoder.
    [Deps]: the dependency walk of cmds/jrsonnet-deps (collect_deps) over an abstract import
    graph, and its SPEC: the least sets closed under "the root is expanded; the target of an
    `import` edge of an expanded file is expanded; the target of any edge of an expanded file
    is listed".
    [Fmt]: output format selection of jrsonnet-cli ManifestOpts::manifest_format. *)
From Coq Require Import List NArith Bool Arith.
Import ListNotations.

(** *** Frame *)
Definition bytes := list N.
Definition nonul (b : bytes) : bool := forallb (fun x => negb (N.eqb x 0)) b.

Fixpoint encode_pairs (kvs : list (bytes * bytes)) (first : bool) : bytes :=
  match kvs with
  | [] => []
  | (k, v) :: t => (if first then [] else [0%N]) ++ k ++ [0%N] ++ v ++ encode_pairs t false
  end.
Definition encode (kvs : list (bytes * bytes)) : bytes := encode_pairs kvs true ++ [0%N; 0%N].

(** split off the bytes before the first NUL *)
Fixpoint cstr (b : bytes) : bytes * bytes :=
  match b with
  | [] => ([], [])
  | x :: t => if N.eqb x 0 then ([], t) else let (s, r) := cstr t in (x :: s, r)
  end.

(** the C consumer: `for (c = out; *c; ) { key = c; c += strlen(c)+1; val = c; c += strlen(c)+1; }` *)
Fixpoint decode (fuel : nat) (b : bytes) : list (bytes * bytes) :=
  match fuel with
  | O => []
  | S f =>
      match b with
      | [] => []
      | x :: _ =>
          if N.eqb x 0 then []
          else let (k, r1) := cstr b in
               let (v, r2) := cstr r1 in
               (k, v) :: decode f r2
      end
  end.

(** *** Deps *)
Definition node := nat.
(** edges of a file in source order: (target, is_import_expression) *)
Definition graph := node -> list (node * bool).

Fixpoint mem (n : node) (l : list node) : bool :=
  match l with [] => false | x :: t => Nat.eqb n x || mem n t end.
Definition add (n : node) (l : list node) : list node := if mem n l then l else n :: l.

(** collect_deps after the fix of commit 2d84f1a: [deps] = listed files, [expanded] = files
    whose own imports were followed.  [None] = out of fuel. *)
Fixpoint collect (fuel : nat) (g : graph) (src : node) (deps expanded : list node)
  : option (list node * list node) :=
  match fuel with
  | O => None
  | S f =>
      (fix edges (es : list (node * bool)) (deps expanded : list node) : option (list node * list node) :=
         match es with
         | [] => Some (deps, expanded)
         | (m, is_import) :: t =>
             let deps1 := add m deps in
             if is_import && negb (mem m expanded) then
               match collect f g m deps1 (m :: expanded) with
               | Some (d2, e2) => edges t d2 e2
               | None => None
               end
             else edges t deps1 expanded
         end) (g src) deps expanded
  end.

Definition deps_of (fuel : nat) (g : graph) (root : node) : option (list node * list node) :=
  collect fuel g root [] [root].

(** the walk before the fix: recursion tied to the file being newly LISTED *)
Fixpoint collect_old (fuel : nat) (g : graph) (src : node) (deps : list node) : option (list node) :=
  match fuel with
  | O => None
  | S f =>
      (fix edges (es : list (node * bool)) (deps : list node) : option (list node) :=
         match es with
         | [] => Some deps
         | (m, is_import) :: t =>
             if negb (mem m deps) && is_import then
               match collect_old f g m (m :: deps) with
               | Some d2 => edges t d2
               | None => None
               end
             else edges t (add m deps)
         end) (g src) deps
  end.

(** SPEC *)
Inductive Expanded (g : graph) (root : node) : node -> Prop :=
| ex_root : Expanded g root root
| ex_import n m : Expanded g root n -> In (m, true) (g n) -> Expanded g root m.
Inductive Listed (g : graph) (root : node) : node -> Prop :=
| li_edge n m k : Expanded g root n -> In (m, k) (g n) -> Listed g root m.

(** *** Fmt: which writer the CLI picks *)
Inductive fmt_name := FString | FJson | FYaml | FToml | FXml | FIni.
Inductive writer :=
| WStringRaw                    (* -S: StringFormat *)
| WToString                     (* -f string *)
| WJson (padding : nat) | WYaml (padding : nat) | WToml (padding : nat) | WXml | WIni
| WYamlStream (inner : writer).

Definition select (format : option fmt_name) (string yaml_stream : bool) (line_padding : option nat) : writer :=
  let base :=
    if string then WStringRaw
    else
      let f := match format with
               | Some v => v
               | None => if yaml_stream then FYaml else FJson
               end in
      match f with
      | FString => WToString
      | FJson => WJson (match line_padding with Some p => p | None => 3 end)
      | FYaml => WYaml (match line_padding with Some p => p | None => 2 end)
      | FToml => WToml (match line_padding with Some p => p | None => 2 end)
      | FXml => WXml
      | FIni => WIni
      end in
  if yaml_stream then WYamlStream base else base.
