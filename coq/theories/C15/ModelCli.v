(** C15 — the command line options: what the option structs of crates/jrsonnet-cli do with a parsed command
    line (IMPL: the functions and tables of Gen/GenCli.v, translated from the working tree on every run, under the
    fixed interpretation below) and what the --help texts promise (SPEC).

    The model starts at the parsed option structs (clap's argv parsing is trusted):
      [vecs]  the four repeated options of one family (the --tla-X or the --ext-X options), each a list of NAME=second entries in
              command-line order (ExtStr {name, value} / ExtFile {name, path});
      -J list in command-line order, JSONNET_PATH already split into directories. *)
From Coq Require Import List Bool Arith String.
From JrV Require Import C15.Model Gen.GenCli.
Import ListNotations.
Open Scope string_scope.
Open Scope list_scope.

(** *** vocabulary maps between the translated names and the hand model of C15/Model.v *)
Definition fmt_g (f : fmt_name) : gfmt :=
  match f with FString => GString | FJson => GJson | FYaml => GYaml | FToml => GToml | FXml => GXmlJsonml | FIni => GIni end.
Fixpoint writer_of_g (w : gwriter) : writer :=
  match w with
  | GW_StringFormat => WStringRaw
  | GW_ToStringFormat => WToString
  | GW_JsonCli p => WJson p
  | GW_YamlCli p => WYaml p
  | GW_TomlCli p => WToml p
  | GW_XmlJsonmlCli => WXml
  | GW_IniCli => WIni
  | GW_YamlStreamCli w => WYamlStream (writer_of_g w)
  end.

(** which options are present on a command line, and clap's verdict under the translated conflicts_with table *)
Definition present (f : option fmt_name) (s y : bool) (p : option nat) (o : gopt) : bool :=
  match o with
  | OFormat => match f with Some _ => true | None => false end
  | OString => s
  | OYamlStream => y
  | OLinePadding => match p with Some _ => true | None => false end
  end.
Definition cli_accepts (f : option fmt_name) (s y : bool) (p : option nat) : bool :=
  forallb (fun ab => negb (present f s y p (fst ab) && present f s y p (snd ab))) gen_manifest_conflicts.

(** *** IMPL: interpretation of the translated loops *)
Definition entry := (string * string)%type.       (* NAME = value | path *)
Record vecs := { v_str : list entry; v_str_file : list entry; v_code : list entry; v_code_file : list entry }.
Definition vec_of (o : vecs) (v : gvec) : list entry :=
  match v with VStr => v_str o | VStrFile => v_str_file o | VCode => v_code o | VCodeFile => v_code_file o end.
(** ExtStr has {name, value}, ExtFile has {name, path}: the translator rejects a field the element type lacks *)
Definition field_of (f : gfield) (e : entry) : string :=
  match f with FName => fst e | FValue => snd e | FPath => snd e end.

(** jrsonnet_evaluator::tla::TlaArg *)
Inductive tlaarg := TString (s : string) | TInlineCode (src : string) | TImportStr (path : string) | TImport (path : string).
Definition mk (c : gctor) (s : string) : tlaarg :=
  match c with CString => TString s | CInlineCode => TInlineCode s | CImportStr => TImportStr s | CImport => TImport s end.

(** FxHashMap<IStr, TlaArg>: observed only through lookup; insert replaces *)
Definition amap := list (string * tlaarg).
Definition insert (k : string) (v : tlaarg) (m : amap) : amap := (k, v) :: m.
Fixpoint lookup (n : string) (m : amap) : option tlaarg :=
  match m with
  | [] => None
  | (k, v) :: t => if String.eqb n k then Some v else lookup n t
  end.

Definition run_loop (o : vecs) (m : amap) (l : gvec * gfield * gctor * gfield) : amap :=
  let '(v, kf, c, pf) := l in
  fold_left (fun m e => insert (field_of kf e) (mk c (field_of pf e)) m) (vec_of o v) m.
Definition run_loops (loops : list (gvec * gfield * gctor * gfield)) (o : vecs) : amap :=
  fold_left (run_loop o) loops [].

Definition cli_tla (o : vecs) : amap := run_loops gen_tla_loops o.     (* TlaOpts::tla_opts *)
Definition cli_ext (o : vecs) : amap := run_loops gen_ext_loops o.     (* StdOpts::context_initializer, ext_vars *)

(** *** SPEC, from the --help texts
      --tla-str NAME=DATA        "Add top level string argument"            NAME is bound to the string itself
      --tla-code NAME=SOURCE     "Add top level argument from code"         NAME is bound to the value of the code
      --tla-str-file NAME=PATH   "Read top level argument string from file" NAME is bound to the CONTENTS of PATH, as a string
      --tla-code-file NAME=PATH  "Read top level argument code from file"   NAME is bound to the import of PATH
    and the same four for the --ext-X options. *)
Inductive meaning :=
| MStringItself (s : string) | MValueOfCode (src : string) | MContentsOfFileAsString (path : string) | MImportOfFile (path : string).

(** what the evaluator does with a TlaArg (jrsonnet_evaluator::tla, documented on the enum) *)
Definition sem (a : tlaarg) : meaning :=
  match a with
  | TString s => MStringItself s
  | TInlineCode c => MValueOfCode c
  | TImportStr p => MContentsOfFileAsString p
  | TImport p => MImportOfFile p
  end.

Definition bind_with (f : string -> meaning) (l : list entry) : list (string * meaning) :=
  map (fun e => (fst e, f (snd e))) l.
(** every binding the command line offers, flavour by flavour *)
Definition spec_bindings (o : vecs) : list (string * meaning) :=
  bind_with MStringItself (v_str o) ++ bind_with MContentsOfFileAsString (v_str_file o)
  ++ bind_with MValueOfCode (v_code o) ++ bind_with MImportOfFile (v_code_file o).

(** the last binding of [n] in a list *)
Fixpoint lastb {V : Type} (n : string) (l : list (string * V)) : option V :=
  match l with
  | [] => None
  | (k, v) :: t => match lastb n t with
                   | Some x => Some x
                   | None => if String.eqb n k then Some v else None
                   end
  end.

(** library search path promised by --help of -J: "Library search dirs. (right-most wins) ... can also be specified
    via JSONNET_PATH": the right-most -J first, then the JSONNET_PATH entries in their order *)
Definition spec_search_path {A : Type} (jpath : list A) (env : option (list A)) : list A :=
  rev jpath ++ match env with Some l => l | None => [] end.
