From Coq Require Import List NArith Bool Arith.
From JrV Require Import C15.Model C15.Proofs C15.Properties.
Import ListNotations.
Check C15_frame_roundtrip : forall kvs, forallb pair_ok kvs = true -> decode (S (length kvs)) (encode kvs) = kvs.
Check C15_deps_exact : forall g root fuel d e,
    deps_of fuel g root = Some (d, e) ->
    (forall m, In m d <-> Listed g root m) /\ (forall n, In n e <-> Expanded g root n).
Check C15_deps_old_refuted :
  let g := fun n => match n with 0 => [(1, false); (1, true)] | 1 => [(2, true)] | _ => [] end in
  collect_old 10 g 0 [] = Some [1] /\ Listed g 0 2.
Check C15_format_selection :
  (forall p, select None false false p = WJson (match p with Some n => n | None => 3 end)) /\
  (forall f y p, select f true y p = if y then WYamlStream WStringRaw else WStringRaw) /\
  (forall p, select None false true p = WYamlStream (WYaml (match p with Some n => n | None => 2 end))) /\
  (forall p, select (Some FToml) false false p = WToml (match p with Some n => n | None => 2 end)) /\
  (forall p, select (Some FString) false false p = WToString) /\
  (forall p, select (Some FXml) false false p = WXml) /\
  (forall p, select (Some FIni) false false p = WIni).
Check eq_refl : encode [([97%N], [49%N]); ([98%N], [])] = [97; 0; 49; 0; 98; 0; 0; 0]%N.
Check eq_refl : decode 9 [97; 0; 49; 0; 98; 0; 0; 0]%N = [([97%N], [49%N]); ([98%N], [])].
