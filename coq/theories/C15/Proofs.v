From Coq Require Import List NArith Bool Arith Lia.
From JrV Require Import C15.Model.
Import ListNotations.

(** *** Frame *)
Lemma cstr_app s r : nonul s = true -> cstr (s ++ 0%N :: r) = (s, r).
Proof.
  induction s as [|x s IH]; intros H; cbn [app cstr].
  - reflexivity.
  - cbn [nonul forallb] in H. apply andb_true_iff in H. destruct H as [Hx Hs].
    destruct (N.eqb x 0); [discriminate|]. fold (nonul s) in Hs. rewrite (IH Hs). reflexivity.
Qed.

Fixpoint body (kvs : list (bytes * bytes)) : bytes :=
  match kvs with
  | [] => [0%N]
  | (k, v) :: t => k ++ 0%N :: v ++ 0%N :: body t
  end.

Lemma encode_tail kvs : encode_pairs kvs false ++ [0%N; 0%N] = 0%N :: body kvs.
Proof.
  induction kvs as [|[k v] t IH]; cbn [encode_pairs body app]; [reflexivity|].
  rewrite <- !app_assoc. cbn [app]. rewrite <- !app_assoc. rewrite IH. reflexivity.
Qed.

Lemma encode_body k v t : encode ((k, v) :: t) = body ((k, v) :: t).
Proof.
  unfold encode. cbn [encode_pairs body app]. rewrite <- !app_assoc. cbn [app].
  rewrite <- !app_assoc. rewrite encode_tail. reflexivity.
Qed.

Definition pair_ok (kv : bytes * bytes) : bool :=
  nonul (fst kv) && nonul (snd kv) && negb (Nat.eqb (length (fst kv)) 0).

Lemma decode_body kvs : forall fuel,
  forallb pair_ok kvs = true -> length kvs < fuel -> decode fuel (body kvs) = kvs.
Proof.
  induction kvs as [|[k v] t IH]; intros fuel Hok Hf.
  - destruct fuel; [lia|]. reflexivity.
  - destruct fuel as [|f]; [lia|]. cbn [forallb] in Hok. apply andb_true_iff in Hok. destruct Hok as [Hkv Ht].
    unfold pair_ok in Hkv. cbn [fst snd] in Hkv. apply andb_true_iff in Hkv. destruct Hkv as [Hkv Hne].
    apply andb_true_iff in Hkv. destruct Hkv as [Hk Hv].
    destruct k as [|x k']; [discriminate|].
    cbn [body decode app]. assert (Hx : N.eqb x 0 = false).
    { cbn [nonul forallb] in Hk. apply andb_true_iff in Hk. destruct Hk as [Hx _].
      destruct (N.eqb x 0); [discriminate|reflexivity]. }
    rewrite Hx. change (x :: k' ++ 0%N :: v ++ 0%N :: body t) with ((x :: k') ++ 0%N :: v ++ 0%N :: body t).
    rewrite (cstr_app (x :: k') _ Hk), (cstr_app v _ Hv). f_equal. apply IH; [exact Ht|cbn [length] in Hf; lia].
Qed.

Theorem frame_roundtrip kvs :
  forallb pair_ok kvs = true -> decode (S (length kvs)) (encode kvs) = kvs.
Proof.
  intros H. destruct kvs as [|[k v] t]; [reflexivity|].
  rewrite encode_body. apply decode_body; [exact H|lia].
Qed.

(** an empty key ends the C consumer's loop early: the hypothesis is necessary *)
Lemma frame_empty_key_refuted :
  decode 5 (encode [([], [1%N]); ([2%N], [3%N])]) = [].
Proof. reflexivity. Qed.

(** *** Deps *)
Lemma mem_in n l : mem n l = true <-> In n l.
Proof.
  induction l as [|x t IH]; cbn [mem In]; [split; [discriminate|tauto]|].
  rewrite orb_true_iff, IH, Nat.eqb_eq. split; intros [H|H]; auto.
Qed.
Lemma in_add n m l : In n (add m l) <-> n = m \/ In n l.
Proof.
  unfold add. destruct (mem m l) eqn:E.
  - apply mem_in in E. split; [auto|]. intros [->|H]; assumption.
  - cbn [In]. split; intros [H|H]; auto.
Qed.

Section DepsFacts.
  Variable g : graph.
  Variable root : node.

  Definition sound (deps expanded : list node) : Prop :=
    (forall m, In m deps -> Listed g root m) /\ (forall n, In n expanded -> Expanded g root n).

  Definition closed (n : node) (deps expanded : list node) : Prop :=
    forall m k, In (m, k) (g n) -> In m deps /\ (k = true -> In m expanded).

  Lemma closed_mono n d e d' e' : incl d d' -> incl e e' -> closed n d e -> closed n d' e'.
  Proof. intros Hd He H m k Hin. destruct (H m k Hin) as [A B]. split; [apply Hd, A|intros K; apply He, B, K]. Qed.

  Definition post (src : node) (deps expanded d' e' : list node) : Prop :=
    incl deps d' /\ incl expanded e' /\
    (forall x, In x e' -> In x expanded \/ closed x d' e').

  Lemma collect_spec fuel : forall src deps expanded d' e',
    collect fuel g src deps expanded = Some (d', e') ->
    (Expanded g root src -> sound deps expanded -> sound d' e') /\
    post src deps expanded d' e' /\ closed src d' e'.
  Proof.
    induction fuel as [|f IH]; intros src deps expanded d' e' H; [discriminate|].
    cbn [collect] in H.
    set (edges := fix edges (es : list (node * bool)) (deps expanded : list node) : option (list node * list node) :=
         match es with
         | [] => Some (deps, expanded)
         | (m, is_import) :: t =>
             let deps1 := add m deps in
             if is_import && negb (mem m expanded) then
               match collect f g m deps1 (m :: expanded) with
               | Some (d2, e2) => edges t d2 e2
               | None => None
               end
             else edges t deps1 expanded
         end) in *.
    assert (Hedges : forall es deps0 exp0 d1 e1,
              edges es deps0 exp0 = Some (d1, e1) ->
              ((forall m k, In (m, k) es -> In (m, k) (g src)) -> Expanded g root src -> sound deps0 exp0 -> sound d1 e1) /\
              post src deps0 exp0 d1 e1 /\
              (forall m k, In (m, k) es -> In m d1 /\ (k = true -> In m e1))).
    { induction es as [|[m k] t IHes]; intros deps0 exp0 d1 e1 He.
      - cbn in He. injection He as <- <-. split; [auto|]. split.
        + repeat split; try apply incl_refl. auto.
        + intros m k [].
      - cbn [edges] in He. fold edges in He.
        destruct (k && negb (mem m exp0)) eqn:Ecase.
        + apply andb_true_iff in Ecase. destruct Ecase as [-> Hnm].
          destruct (collect f g m (add m deps0) (m :: exp0)) as [[d2 e2]|] eqn:Hc; [|discriminate].
          destruct (IH _ _ _ _ _ Hc) as (Hs2 & (Hd2 & He2 & Hnew2) & Hcl2).
          destruct (IHes _ _ _ _ He) as (Hs3 & (Hd3 & He3 & Hnew3) & Hsat3).
          split; [|split].
          * intros Hsub Hsrc [Sd Se]. apply Hs3; [intros; apply Hsub; right; assumption|exact Hsrc|].
            assert (Hm : Expanded g root m) by (eapply ex_import; [exact Hsrc|apply Hsub; left; reflexivity]).
            apply Hs2; [exact Hm|]. split.
            -- intros x Hx. apply in_add in Hx. destruct Hx as [->|Hx]; [|auto].
               eapply li_edge; [exact Hsrc|apply Hsub; left; reflexivity].
            -- intros x [<-|Hx]; auto.
          * split; [|split].
            -- intros x Hx. apply Hd3, Hd2, in_add. right. exact Hx.
            -- intros x Hx. apply He3, He2. right. exact Hx.
            -- intros x Hx. destruct (Hnew3 x Hx) as [Hx2|Hc3]; [|right; exact Hc3].
               destruct (Hnew2 x Hx2) as [[<-|Hx0]|Hc2].
               ++ right. eapply closed_mono; [exact Hd3|exact He3|exact Hcl2].
               ++ left. exact Hx0.
               ++ right. eapply closed_mono; [exact Hd3|exact He3|exact Hc2].
          * intros m' k' [E|Hin]; [|apply Hsat3; exact Hin]. injection E as <- <-.
            split; [apply Hd3, Hd2, in_add; left; reflexivity|]. intros _. apply He3, He2. left. reflexivity.
        + destruct (IHes _ _ _ _ He) as (Hs3 & (Hd3 & He3 & Hnew3) & Hsat3).
          split; [|split].
          * intros Hsub Hsrc [Sd Se]. apply Hs3; [intros; apply Hsub; right; assumption|exact Hsrc|].
            split; [|exact Se]. intros x Hx. apply in_add in Hx. destruct Hx as [->|Hx]; [|auto].
            eapply li_edge; [exact Hsrc|apply Hsub; left; reflexivity].
          * split; [|split; [exact He3|exact Hnew3]].
            intros x Hx. apply Hd3, in_add. right. exact Hx.
          * intros m' k' [E|Hin]; [|apply Hsat3; exact Hin]. injection E as <- <-.
            split; [apply Hd3, in_add; left; reflexivity|]. intros ->. apply He3.
            cbn [andb] in Ecase. destruct (mem m exp0) eqn:Em; [apply mem_in; exact Em|discriminate]. }
    destruct (Hedges _ _ _ _ _ H) as (Hs & Hp & Hsat).
    split; [intros Hsrc Hsound; apply Hs; auto|]. split; [exact Hp|].
    intros m k Hin. apply Hsat. exact Hin.
  Qed.

  Theorem deps_exact fuel d e :
    deps_of fuel g root = Some (d, e) ->
    (forall m, In m d <-> Listed g root m) /\ (forall n, In n e <-> Expanded g root n).
  Proof.
    intros H. unfold deps_of in H. destruct (collect_spec _ _ _ _ _ _ H) as (Hs & (Hd & He & Hnew) & Hcl).
    destruct Hs as [Sd Se].
    { constructor. }
    { split; [intros m []|]. intros n [<-|[]]. constructor. }
    assert (Hallclosed : forall x, In x e -> closed x d e).
    { intros x Hx. destruct (Hnew x Hx) as [[<-|[]]|Hc]; [exact Hcl|exact Hc]. }
    assert (Hexp : forall n, Expanded g root n -> In n e).
    { induction 1 as [|n m Hn IHn Hin]; [apply He; left; reflexivity|].
      destruct (Hallclosed n IHn m true Hin) as [_ Hm]. apply Hm. reflexivity. }
    split.
    - intros m. split; [apply Sd|]. intros Hl. destruct Hl as [n m k Hn Hin].
      destruct (Hallclosed n (Hexp n Hn) m k Hin) as [Hm _]. exact Hm.
    - intros n. split; [apply Se|apply Hexp].
  Qed.
End DepsFacts.

(** the pre-fix walk misses files: root importstr's 1 and then imports 1, which imports 2 *)
Lemma collect_old_refuted :
  let g := fun n => match n with 0 => [(1, false); (1, true)] | 1 => [(2, true)] | _ => [] end in
  collect_old 10 g 0 [] = Some [1] /\ Listed g 0 2.
Proof.
  cbn zeta. split; [reflexivity|].
  eapply li_edge with (n := 1) (k := true); [|cbn; auto].
  eapply ex_import with (n := 0); [constructor|cbn; auto].
Qed.

Example deps_example :
  let g := fun n => match n with 0 => [(1, false); (1, true); (3, false)] | 1 => [(2, true); (0, true)] | _ => [] end in
  deps_of 10 g 0 = Some ([3; 0; 2; 1], [2; 1; 0]).
Proof. reflexivity. Qed.

(** *** Fmt *)
Lemma select_table :
  (forall p, select None false false p = WJson (match p with Some n => n | None => 3 end)) /\
  (forall f y p, select f true y p = if y then WYamlStream WStringRaw else WStringRaw) /\
  (forall p, select None false true p = WYamlStream (WYaml (match p with Some n => n | None => 2 end))) /\
  (forall p, select (Some FToml) false false p = WToml (match p with Some n => n | None => 2 end)) /\
  (forall p, select (Some FString) false false p = WToString) /\
  (forall p, select (Some FXml) false false p = WXml) /\
  (forall p, select (Some FIni) false false p = WIni).
Proof. repeat split; intros; try reflexivity. Qed.
