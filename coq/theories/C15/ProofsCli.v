(** C15 — proofs about the translated command-line option functions. *)
From Coq Require Import List Bool Arith String.
From JrV Require Import C15.Model Gen.GenCli C15.ModelCli.
Import ListNotations.
Open Scope string_scope.
Open Scope list_scope.

(** the translated tables are the documented ones (fails when the source changes an arm) *)
Definition doc_loops : list (gvec * gfield * gctor * gfield) :=
  [(VStr, FName, CString, FValue); (VStrFile, FName, CImportStr, FPath);
   (VCode, FName, CInlineCode, FValue); (VCodeFile, FName, CImport, FPath)].

Lemma tla_loops_doc : gen_tla_loops = doc_loops.
Proof. reflexivity. Qed.
Lemma ext_loops_doc : gen_ext_loops = doc_loops.
Proof. reflexivity. Qed.

(** *** lastb *)
Lemma lastb_app {V} n (a b : list (string * V)) :
  lastb n (a ++ b) = match lastb n b with Some x => Some x | None => lastb n a end.
Proof.
  induction a as [|[k v] a IH]; cbn [app lastb].
  - destruct (lastb n b); reflexivity.
  - rewrite IH. destruct (lastb n b); reflexivity.
Qed.

Lemma lastb_map {V W} (f : V -> W) n (l : list (string * V)) :
  lastb n (map (fun kv => (fst kv, f (snd kv))) l) = option_map f (lastb n l).
Proof.
  induction l as [|[k v] l IH]; cbn [map lastb fst snd]; [reflexivity|].
  rewrite IH. destruct (lastb n l); cbn [option_map]; [reflexivity|].
  destruct (String.eqb n k); reflexivity.
Qed.

Lemma lastb_some_in {V} n (l : list (string * V)) v : lastb n l = Some v -> In (n, v) l.
Proof.
  induction l as [|[k w] l IH]; cbn [lastb]; [discriminate|].
  destruct (lastb n l) eqn:E.
  - intros H. right. apply IH. exact H.
  - destruct (String.eqb n k) eqn:K; [|discriminate].
    intros H. injection H as ->. apply String.eqb_eq in K. subst k. left. reflexivity.
Qed.

Lemma lastb_none_notin {V} n (l : list (string * V)) : lastb n l = None -> forall v, ~ In (n, v) l.
Proof.
  induction l as [|[k w] l IH]; cbn [lastb]; [intros _ v []|].
  destruct (lastb n l) eqn:E; [discriminate|].
  destruct (String.eqb n k) eqn:K; [discriminate|].
  intros _ v [H|H].
  - injection H as -> _. rewrite String.eqb_refl in K. discriminate.
  - exact (IH eq_refl v H).
Qed.

Lemma lastb_filter {V} n (l : list (string * V)) :
  lastb n l = lastb n (filter (fun kv => String.eqb n (fst kv)) l).
Proof.
  induction l as [|[k v] l IH]; cbn [filter lastb fst]; [reflexivity|].
  destruct (String.eqb n k) eqn:K; cbn [lastb]; rewrite <- IH; [rewrite K; reflexivity|].
  destruct (lastb n l); reflexivity.
Qed.

(** *** one loop of inserts = the last binding wins, older contents stay visible for other names *)
Lemma lookup_fold_insert (kf pf : entry -> string) (c : gctor) n (l : list entry) (m0 : amap) :
  lookup n (fold_left (fun m e => insert (kf e) (mk c (pf e)) m) l m0)
  = match lastb n (map (fun e => (kf e, mk c (pf e))) l) with Some v => Some v | None => lookup n m0 end.
Proof.
  revert m0. induction l as [|e l IH]; intros m0; cbn [fold_left map lastb]; [reflexivity|].
  rewrite IH. destruct (lastb n (map (fun e => (kf e, mk c (pf e))) l)); [reflexivity|].
  unfold insert. cbn [lookup]. destruct (String.eqb n (kf e)); reflexivity.
Qed.

(** the bindings the documented loops insert, as arguments *)
Definition arg_bindings (o : vecs) : list (string * tlaarg) :=
  map (fun e => (fst e, TString (snd e))) (v_str o) ++ map (fun e => (fst e, TImportStr (snd e))) (v_str_file o)
  ++ map (fun e => (fst e, TInlineCode (snd e))) (v_code o) ++ map (fun e => (fst e, TImport (snd e))) (v_code_file o).

Lemma doc_loops_lookup o n : lookup n (run_loops doc_loops o) = lastb n (arg_bindings o).
Proof.
  unfold run_loops, doc_loops, arg_bindings. cbn [fold_left run_loop vec_of].
  rewrite !lookup_fold_insert. cbn [lookup field_of mk].
  rewrite !lastb_app. unfold entry.
  repeat match goal with
         | |- context [match lastb ?a ?b with _ => _ end] => destruct (lastb a b)
         end; reflexivity.
Qed.

Lemma sem_arg_bindings o : map (fun kv => (fst kv, sem (snd kv))) (arg_bindings o) = spec_bindings o.
Proof.
  unfold arg_bindings, spec_bindings, bind_with. rewrite !map_app, !map_map. reflexivity.
Qed.

Lemma doc_loops_last_wins o n : option_map sem (lookup n (run_loops doc_loops o)) = lastb n (spec_bindings o).
Proof. rewrite doc_loops_lookup, <- sem_arg_bindings, lastb_map. reflexivity. Qed.

Lemma tla_last_wins o n : option_map sem (lookup n (cli_tla o)) = lastb n (spec_bindings o).
Proof. unfold cli_tla. rewrite tla_loops_doc. apply doc_loops_last_wins. Qed.
Lemma ext_last_wins o n : option_map sem (lookup n (cli_ext o)) = lastb n (spec_bindings o).
Proof. unfold cli_ext. rewrite ext_loops_doc. apply doc_loops_last_wins. Qed.

Definition refines (m : amap) (o : vecs) : Prop :=
  forall n, match option_map sem (lookup n m) with
            | Some b => In (n, b) (spec_bindings o)
            | None => forall b, ~ In (n, b) (spec_bindings o)
            end.

Lemma refines_of_last_wins m o :
  (forall n, option_map sem (lookup n m) = lastb n (spec_bindings o)) -> refines m o.
Proof.
  intros H n. rewrite H. destruct (lastb n (spec_bindings o)) eqn:E.
  - apply lastb_some_in. exact E.
  - apply lastb_none_notin. exact E.
Qed.

Lemma tla_refines o : refines (cli_tla o) o.
Proof. apply refines_of_last_wins. intros n. apply tla_last_wins. Qed.
Lemma ext_refines o : refines (cli_ext o) o.
Proof. apply refines_of_last_wins. intros n. apply ext_last_wins. Qed.

(** a NAME given exactly once gets exactly the documented meaning *)
Lemma lastb_unique {V} n (l : list (string * V)) v :
  filter (fun kv => String.eqb n (fst kv)) l = [(n, v)] -> lastb n l = Some v.
Proof. intros H. rewrite lastb_filter, H. cbn [lastb]. rewrite String.eqb_refl. reflexivity. Qed.

Definition about (n : string) (o : vecs) := filter (fun kv => String.eqb n (fst kv)) (spec_bindings o).

Lemma tla_unique o n b : about n o = [(n, b)] -> option_map sem (lookup n (cli_tla o)) = Some b.
Proof. intros H. rewrite tla_last_wins. apply lastb_unique. exact H. Qed.
Lemma ext_unique o n b : about n o = [(n, b)] -> option_map sem (lookup n (cli_ext o)) = Some b.
Proof. intros H. rewrite ext_last_wins. apply lastb_unique. exact H. Qed.

Lemma tla_independent o o' n :
  about n o = about n o' -> option_map sem (lookup n (cli_tla o)) = option_map sem (lookup n (cli_tla o')).
Proof. unfold about. intros H. rewrite !tla_last_wins, (lastb_filter n (spec_bindings o)), H, <- lastb_filter. reflexivity. Qed.
Lemma ext_independent o o' n :
  about n o = about n o' -> option_map sem (lookup n (cli_ext o)) = option_map sem (lookup n (cli_ext o')).
Proof. unfold about. intros H. rewrite !ext_last_wins, (lastb_filter n (spec_bindings o)), H, <- lastb_filter. reflexivity. Qed.

(** *** search path *)
Lemma search_path_refines (A : Type) (jpath : list A) env :
  gen_import_resolver jpath env = spec_search_path jpath env /\ gen_path_env_var = "JSONNET_PATH".
Proof.
  split; [|reflexivity]. unfold gen_import_resolver, spec_search_path.
  destruct env; [reflexivity|]. rewrite app_nil_r. reflexivity.
Qed.

Fixpoint first_with {A} (has : A -> bool) (l : list A) : option A :=
  match l with [] => None | d :: t => if has d then Some d else first_with has t end.
Lemma first_with_app {A} (has : A -> bool) a b :
  first_with has (a ++ b) = match first_with has a with Some d => Some d | None => first_with has b end.
Proof. induction a as [|d a IH]; cbn [app first_with]; [reflexivity|]. destruct (has d); [reflexivity|exact IH]. Qed.

(** "right-most wins": a later -J directory that has the file shadows every earlier one and JSONNET_PATH *)
Lemma rightmost_wins (A : Type) (has : A -> bool) (before : list A) (d : A) (after : list A) env :
  has d = true -> forallb (fun x => negb (has x)) after = true ->
  first_with has (gen_import_resolver (before ++ d :: after) env) = Some d.
Proof.
  intros Hd Ha. destruct (search_path_refines A (before ++ d :: after) env) as [-> _].
  unfold spec_search_path. rewrite rev_app_distr. cbn [rev]. rewrite <- !app_assoc, first_with_app.
  assert (first_with has (rev after) = None) as ->.
  { clear Hd. induction after as [|x after IH]; [reflexivity|]. cbn [forallb] in Ha.
    apply andb_true_iff in Ha as [Hx Ha]. cbn [rev]. rewrite first_with_app, (IH Ha). cbn [first_with].
    apply negb_true_iff in Hx. rewrite Hx. reflexivity. }
  cbn [app first_with]. rewrite Hd. reflexivity.
Qed.

(** *** writer selection *)
Lemma select_is_translated f s y p :
  writer_of_g (gen_manifest_format (option_map fmt_g f) s y p) = select f s y p.
Proof. destruct f as [[]|], s, y, p; reflexivity. Qed.

Lemma accepts_documented f s y p :
  cli_accepts f s y p = negb (s && match f with Some _ => true | None => false end) && negb (y && s).
Proof. destruct f, s, y, p; reflexivity. Qed.
