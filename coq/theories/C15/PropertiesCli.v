(** C15 — property theorems about the command-line option structs, stated on the functions and tables that
    translator/gens/cliopts.py regenerates from crates/jrsonnet-cli/src/{manifest,tla,stdlib,lib}.rs on every run. *)
From Coq Require Import List Bool Arith String.
From JrV Require Import C15.Model Gen.GenCli C15.ModelCli C15.ProofsCli.
Import ListNotations.
Open Scope string_scope.
Open Scope list_scope.

(** for every command line: a NAME is bound by TlaOpts::tla_opts iff some --tla-X option names it, and then to the
    documented meaning of one of the options that name it (the string itself / the value of the code / the contents
    of the file at PATH as a string / the import of PATH) *)
Theorem C15_cli_tla_mapping_refines :
  forall (o : vecs) (n : string),
    match option_map sem (lookup n (cli_tla o)) with
    | Some b => In (n, b) (spec_bindings o)
    | None => forall b, ~ In (n, b) (spec_bindings o)
    end.
Proof. exact tla_refines. Qed.
Print Assumptions C15_cli_tla_mapping_refines.

(** the same for the external variables set up by StdOpts::context_initializer *)
Theorem C15_cli_ext_mapping_refines :
  forall (o : vecs) (n : string),
    match option_map sem (lookup n (cli_ext o)) with
    | Some b => In (n, b) (spec_bindings o)
    | None => forall b, ~ In (n, b) (spec_bindings o)
    end.
Proof. exact ext_refines. Qed.
Print Assumptions C15_cli_ext_mapping_refines.

(** a NAME given exactly once gets exactly its documented meaning, whatever else is on the command line *)
Theorem C15_cli_tla_unique_name :
  forall o n b, about n o = [(n, b)] -> option_map sem (lookup n (cli_tla o)) = Some b.
Proof. exact tla_unique. Qed.
Print Assumptions C15_cli_tla_unique_name.
Theorem C15_cli_ext_unique_name :
  forall o n b, about n o = [(n, b)] -> option_map sem (lookup n (cli_ext o)) = Some b.
Proof. exact ext_unique. Qed.
Print Assumptions C15_cli_ext_unique_name.

(** repeated NAMEs have a definite behaviour in the code: the last binding in the order
    (all --X-str) (all --X-str-file) (all --X-code) (all --X-code-file), each group in command-line order, wins *)
Theorem C15_cli_tla_repeated_name_last_wins :
  forall o n, option_map sem (lookup n (cli_tla o)) = lastb n (spec_bindings o).
Proof. exact tla_last_wins. Qed.
Print Assumptions C15_cli_tla_repeated_name_last_wins.
Theorem C15_cli_ext_repeated_name_last_wins :
  forall o n, option_map sem (lookup n (cli_ext o)) = lastb n (spec_bindings o).
Proof. exact ext_last_wins. Qed.
Print Assumptions C15_cli_ext_repeated_name_last_wins.

(** what NAME is bound to depends only on the options that mention NAME *)
Theorem C15_cli_tla_independent_of_other_names :
  forall o o' n, about n o = about n o' ->
    option_map sem (lookup n (cli_tla o)) = option_map sem (lookup n (cli_tla o')).
Proof. exact tla_independent. Qed.
Print Assumptions C15_cli_tla_independent_of_other_names.
Theorem C15_cli_ext_independent_of_other_names :
  forall o o' n, about n o = about n o' ->
    option_map sem (lookup n (cli_ext o)) = option_map sem (lookup n (cli_ext o')).
Proof. exact ext_independent. Qed.
Print Assumptions C15_cli_ext_independent_of_other_names.

(** MiscOpts::import_resolver searches rev(-J list) ++ JSONNET_PATH entries in order *)
Theorem C15_cli_search_path_refines :
  forall (A : Type) (jpath : list A) (env : option (list A)),
    gen_import_resolver jpath env = rev jpath ++ match env with Some l => l | None => [] end
    /\ gen_path_env_var = "JSONNET_PATH".
Proof. exact search_path_refines. Qed.
Print Assumptions C15_cli_search_path_refines.

(** "-J ... (right-most wins)": the last -J directory holding the file is the one found first *)
Theorem C15_cli_jpath_rightmost_wins :
  forall (A : Type) (has : A -> bool) (before : list A) (d : A) (after : list A) (env : option (list A)),
    has d = true -> forallb (fun x => negb (has x)) after = true ->
    first_with has (gen_import_resolver (before ++ d :: after) env) = Some d.
Proof. exact rightmost_wins. Qed.
Print Assumptions C15_cli_jpath_rightmost_wins.

(** the translated ManifestOpts::manifest_format IS the hand model [select] of C15/Model.v, so
    C15_format_selection (defaults 3 for json, 2 for yaml/toml, yaml under -y, ...) speaks about the source *)
Theorem C15_cli_select_is_translated_source :
  forall f s y p, writer_of_g (gen_manifest_format (option_map fmt_g f) s y p) = select f s y p.
Proof. exact select_is_translated. Qed.
Print Assumptions C15_cli_select_is_translated_source.

(** clap's conflicts_with table: -S excludes --format, -y excludes -S, nothing else is rejected *)
Theorem C15_cli_conflicts_as_documented :
  forall f s y p,
    cli_accepts f s y p = negb (s && match f with Some _ => true | None => false end) && negb (y && s).
Proof. exact accepts_documented. Qed.
Print Assumptions C15_cli_conflicts_as_documented.

(** non-vacuity *)
Definition ex_opts : vecs :=
  {| v_str := [("a", "1"); ("b", "x"); ("a", "2")]; v_str_file := [("f", "/p/f.txt"); ("b", "/p/b.txt")];
     v_code := [("c", "1+1")]; v_code_file := [("g", "/p/g.jsonnet"); ("c", "/p/c.jsonnet")] |}.
Example ex_tla_values :
  map (fun n => option_map sem (lookup n (cli_tla ex_opts))) ["a"; "b"; "c"; "f"; "g"; "zz"]
  = [Some (MStringItself "2"); Some (MContentsOfFileAsString "/p/b.txt"); Some (MImportOfFile "/p/c.jsonnet");
     Some (MContentsOfFileAsString "/p/f.txt"); Some (MImportOfFile "/p/g.jsonnet"); None].
Proof. reflexivity. Qed.
Example ex_ext_values :
  map (fun n => option_map sem (lookup n (cli_ext ex_opts))) ["a"; "f"; "zz"]
  = [Some (MStringItself "2"); Some (MContentsOfFileAsString "/p/f.txt"); None].
Proof. reflexivity. Qed.
Example ex_unique_hyp : about "f" ex_opts = [("f", MContentsOfFileAsString "/p/f.txt")].
Proof. reflexivity. Qed.
Example ex_independent_hyp :
  about "f" ex_opts = about "f" {| v_str := [("q", "9")]; v_str_file := [("f", "/p/f.txt")]; v_code := []; v_code_file := [] |}.
Proof. reflexivity. Qed.
Example ex_search_path : gen_import_resolver ["j1"; "j2"; "j3"] (Some ["e1"; "e2"]) = ["j3"; "j2"; "j1"; "e1"; "e2"].
Proof. reflexivity. Qed.
Example ex_rightmost :
  first_with (fun d => orb (String.eqb d "j1") (orb (String.eqb d "j2") (String.eqb d "e1")))
             (gen_import_resolver (["j1"] ++ "j2" :: ["j3"]) (Some ["e1"])) = Some "j2".
Proof. reflexivity. Qed.
Example ex_select :
  writer_of_g (gen_manifest_format (option_map fmt_g None) false true None) = WYamlStream (WYaml 2)
  /\ writer_of_g (gen_manifest_format (option_map fmt_g (Some FToml)) false false (Some 7)) = WToml 7.
Proof. split; reflexivity. Qed.
Example ex_conflicts : cli_accepts (Some FJson) true false None = false /\ cli_accepts None true true None = false
                       /\ cli_accepts (Some FJson) false true (Some 1) = true.
Proof. repeat split; reflexivity. Qed.
