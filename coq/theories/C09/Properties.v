(** C09 — property theorems only.  Each is closed by [exact] of a lemma from Proofs.v and
    followed by [Print Assumptions]; statements are pinned again in Pins.v.
    Theorems that mention real numbers (B2R64, rnd64) depend on the standard library's
    classical-reals axioms through Flocq; the purely combinatorial ones are closed. *)
From Coq Require Import ZArith List Bool Reals Permutation Sorted.
From Flocq Require Import IEEE754.BinarySingleNaN IEEE754.Binary IEEE754.Bits Core.
From JrV Require Import Gen.GenConsts Gen.GenNum C09.Model C09.Proofs C09.ProofsSet.
Import ListNotations.
Open Scope Z_scope.

(** Arithmetic: the result is the correctly rounded (nearest-even, binary64) real result when
    that is below 2^1024 in magnitude, and an error otherwise; never a non-finite value.
    [arith_checked opR impl a b] :=
      let x := rnd64 (opR (B2R64 a) (B2R64 b)) in
      if |x| < 2^1024 then exists r, impl a b = Some r /\ finite r /\ B2R64 r = x else impl a b = None *)
Theorem C09_add_checked :
  forall a b, finite a = true -> finite b = true -> arith_checked Rplus add_impl a b.
Proof. exact add_checked. Qed.
Print Assumptions C09_add_checked.

Theorem C09_sub_checked :
  forall a b, finite a = true -> finite b = true -> arith_checked Rminus sub_impl a b.
Proof. exact sub_checked. Qed.
Print Assumptions C09_sub_checked.

Theorem C09_mul_checked :
  forall a b, finite a = true -> finite b = true -> arith_checked Rmult mul_impl a b.
Proof. exact mul_checked. Qed.
Print Assumptions C09_mul_checked.

(** division by +-0 is an error, otherwise as above *)
Theorem C09_div_checked :
  forall a b, finite a = true -> finite b = true ->
    if Req_bool (B2R64 b) 0 then div_impl a b = None else arith_checked Rdiv div_impl a b.
Proof. exact div_checked. Qed.
Print Assumptions C09_div_checked.

(** PARTIAL for `%`: proved is that modulo by +-0 is an error and that the result is finite.
    Not proved: B2R64 r = a - b * trunc(a / b) for [fmod] (the model's fmod is tied to the code
    only by the correspondence). *)
Theorem C09_div_mod_by_zero_partial :
  forall a b, finite b = true -> B2R64 b = 0%R -> div_impl a b = None /\ mod_impl a b = None.
Proof. exact div_mod_by_zero. Qed.
Print Assumptions C09_div_mod_by_zero_partial.

(** No operator and no modelled std function returns a NaN or an infinity. *)
Theorem C09_no_nonfinite_observable :
  forall a b r,
  add_impl a b = Some r \/ sub_impl a b = Some r \/ mul_impl a b = Some r \/ div_impl a b = Some r \/
  mod_impl a b = Some r \/ band_impl a b = Some r \/ bor_impl a b = Some r \/ bxor_impl a b = Some r \/
  shl_impl a b = Some r \/ shr_impl a b = Some r \/ neg_impl a = Some r \/ bnot_impl a = Some r \/
  abs_impl a = Some r \/ max_impl a b = Some r \/ min_impl a b = Some r ->
  finite r = true.
Proof. exact no_nonfinite. Qed.
Print Assumptions C09_no_nonfinite_observable.

(** Exactly one of a<b, a==b, a>b holds (== is the code's [primitive_equals] on numbers, exact
    since ce0d2fe), and <=, >=, the swapped comparison and != are the derived combinations. *)
Theorem C09_trichotomy :
  forall a b, finite a = true -> finite b = true ->
  exactly_one (lt_impl a b) (eq_impl a b) (gt_impl a b) /\
  le_impl a b = (lt_impl a b || eq_impl a b) /\
  ge_impl a b = (gt_impl a b || eq_impl a b) /\
  gt_impl a b = lt_impl b a /\
  eq_impl a b = eq_impl b a.
Proof. exact trichotomy_impl. Qed.
Print Assumptions C09_trichotomy.

(** the code's `==` on numbers is IEEE equality: equal real values, +0 == -0 ... *)
Theorem C09_eq_is_ieee :
  forall a b, finite a = true -> finite b = true ->
  eq_impl a b = eq_spec a b /\ (eq_impl a b = true <-> B2R64 a = B2R64 b).
Proof. intros a b Ha Hb. split; [apply eq_impl_ieee|now apply eq_impl_key]. Qed.
Print Assumptions C09_eq_is_ieee.

(** ... hence an equivalence relation (it was not under the former epsilon comparison). *)
Theorem C09_eq_equivalence :
  (forall a, finite a = true -> eq_impl a a = true) /\
  (forall a b, finite a = true -> finite b = true -> eq_impl a b = true -> eq_impl b a = true) /\
  (forall a b c, finite a = true -> finite b = true -> finite c = true ->
     eq_impl a b = true -> eq_impl b c = true -> eq_impl a c = true).
Proof. exact eq_impl_equivalence. Qed.
Print Assumptions C09_eq_equivalence.

(** std.sort returns an ascending rearrangement. *)
Theorem C09_sort_sorted :
  forall l, Forall (fun y => finite y = true) l ->
  Sorted lef (sort_impl l) /\ Forall (fun y => finite y = true) (sort_impl l).
Proof. exact sort_sorted. Qed.
Print Assumptions C09_sort_sorted.

Theorem C09_sort_permutation : forall l, Permutation (sort_impl l) l.
Proof. exact sort_perm. Qed.
Print Assumptions C09_sort_permutation.

(** std.uniq / std.set are their IEEE-equality definitions ... *)
Theorem C09_set_is_spec :
  forall l, uniq_impl l = uniq_spec l /\ set_impl l = set_spec l.
Proof. exact set_is_spec. Qed.
Print Assumptions C09_set_is_spec.

(** ... std.set is strictly ascending under <, and std.setMember(x, std.set(l)) is true exactly
    when some element of l is == x: sort, set and setMember agree with < and ==. *)
Theorem C09_sort_set_coherent :
  forall l x, Forall (fun y => finite y = true) l -> finite x = true ->
  Sorted ltk (set_impl l) /\
  set_member_impl x (set_impl l) = Some (existsb (fun y => eq_impl y x) l).
Proof. exact sort_set_coherent. Qed.
Print Assumptions C09_sort_set_coherent.

(** std.setMember's binary search decides == membership on every strictly ascending array. *)
Theorem C09_set_member_complete :
  forall x l, finite x = true -> Forall (fun y => finite y = true) l -> Sorted ltk l ->
  set_member_impl x l = Some (existsb (fun y => eq_spec y x) l).
Proof. exact set_member_complete. Qed.
Print Assumptions C09_set_member_complete.

(** & | ^ : error outside the safe-integer range, otherwise the operation on the integer values. *)
Theorem C09_bitwise_spec :
  forall f a b, finite a = true -> finite b = true -> bitop_impl f a b = bitop_spec f a b.
Proof. exact bitop_refines. Qed.
Print Assumptions C09_bitwise_spec.

(** an operand in the safe range has an integer value of at most 53 bits *)
Theorem C09_safe_integer_value :
  forall a, finite a = true -> safe a = true ->
  -9007199254740991 <= trunc_Z a <= 9007199254740991 /\ trunc_Z a = Ztrunc (B2R64 a).
Proof. intros a Ha S. split; [exact (safe_bounds a Ha S)|exact (trunc_Z_correct a)]. Qed.
Print Assumptions C09_safe_integer_value.

(** `<<`: succeeds iff count >= 0, both operands safe and base * 2^(count mod 64) fits a signed
    64-bit integer, and is then that product — outside the known class (negative base whose
    shift overflows). *)
Theorem C09_shift_guard_exact :
  forall a b, finite a = true -> finite b = true ->
  known_shl_neg a b = false -> shl_impl a b = shl_spec a b.
Proof. exact shl_refines. Qed.
Print Assumptions C09_shift_guard_exact.

Theorem C09_shift_guard_refuted :
  exists a b, finite a = true /\ finite b = true /\
  enc_num (shl_impl a b) = 0 /\ shl_spec a b = None /\ known_shl_neg a b = true.
Proof. exact shl_refuted. Qed.
Print Assumptions C09_shift_guard_refuted.

(** `>>`: count >= 0, both operands in the safe range (8b733a9), arithmetic shift by count mod 64. *)
Theorem C09_shr_spec :
  forall a b, finite a = true -> finite b = true -> shr_impl a b = shr_spec a b.
Proof. exact shr_refines_all. Qed.
Print Assumptions C09_shr_spec.

(** `~`: error outside the safe range (8b733a9), otherwise -x-1 on the integer value. *)
Theorem C09_bitnot_range :
  forall a, finite a = true -> bnot_impl a = bnot_spec a.
Proof. exact bnot_refines_all. Qed.
Print Assumptions C09_bitnot_range.
