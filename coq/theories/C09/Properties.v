(** C09 — property theorems only.  Each is closed by [exact] of a lemma from Proofs.v and
    followed by [Print Assumptions]; statements are pinned again in Pins.v.
    Theorems that mention real numbers (B2R64, rnd64) depend on the standard library's
    classical-reals axioms through Flocq; the purely combinatorial ones are closed. *)
From Coq Require Import ZArith List Bool Reals Permutation Sorted.
From Flocq Require Import IEEE754.BinarySingleNaN IEEE754.Binary IEEE754.Bits Core.
From JrV Require Import Gen.GenConsts Gen.GenNum C09.Model C09.Proofs.
Import ListNotations.
Open Scope Z_scope.

(** Arithmetic: the result is the correctly rounded (nearest-even, binary64) real result when
    that is below 2^1024 in magnitude, and an error otherwise; never a non-finite value.
    [arith_checked opR impl a b] :=
      let x := rnd64 (opR (B2R64 a) (B2R64 b)) in
      if |x| < 2^1024 then exists r, impl a b = Some r /\ finite r /\ B2R64 r = x else impl a b = None *)
Theorem C09_add_checked :
  forall a b, finite a = true -> finite b = true -> arith_checked Rplus add_impl a b.
Proof. exact add_checked. Qed.
Print Assumptions C09_add_checked.

Theorem C09_sub_checked :
  forall a b, finite a = true -> finite b = true -> arith_checked Rminus sub_impl a b.
Proof. exact sub_checked. Qed.
Print Assumptions C09_sub_checked.

Theorem C09_mul_checked :
  forall a b, finite a = true -> finite b = true -> arith_checked Rmult mul_impl a b.
Proof. exact mul_checked. Qed.
Print Assumptions C09_mul_checked.

(** division by +-0 is an error, otherwise as above *)
Theorem C09_div_checked :
  forall a b, finite a = true -> finite b = true ->
    if Req_bool (B2R64 b) 0 then div_impl a b = None else arith_checked Rdiv div_impl a b.
Proof. exact div_checked. Qed.
Print Assumptions C09_div_checked.

(** PARTIAL for `%`: proved is that modulo by +-0 is an error and that the result is finite.
    Not proved: B2R64 r = a - b * trunc(a / b) for [fmod] (the model's fmod is tied to the code
    only by the correspondence). *)
Theorem C09_div_mod_by_zero_partial :
  forall a b, finite b = true -> B2R64 b = 0%R -> div_impl a b = None /\ mod_impl a b = None.
Proof. exact div_mod_by_zero. Qed.
Print Assumptions C09_div_mod_by_zero_partial.

(** No operator and no modelled std function returns a NaN or an infinity. *)
Theorem C09_no_nonfinite_observable :
  forall a b r,
  add_impl a b = Some r \/ sub_impl a b = Some r \/ mul_impl a b = Some r \/ div_impl a b = Some r \/
  mod_impl a b = Some r \/ band_impl a b = Some r \/ bor_impl a b = Some r \/ bxor_impl a b = Some r \/
  shl_impl a b = Some r \/ shr_impl a b = Some r \/ neg_impl a = Some r \/ bnot_impl a = Some r \/
  abs_impl a = Some r \/ max_impl a b = Some r \/ min_impl a b = Some r ->
  finite r = true.
Proof. exact no_nonfinite. Qed.
Print Assumptions C09_no_nonfinite_observable.

(** With IEEE equality exactly one of a<b, a==b, a>b holds and <=, >=, the swapped comparisons
    are the derived combinations. *)
Theorem C09_trichotomy :
  forall a b, finite a = true -> finite b = true ->
  exactly_one (lt_impl a b) (eq_spec a b) (gt_impl a b) /\
  le_impl a b = (lt_impl a b || eq_spec a b) /\
  ge_impl a b = (gt_impl a b || eq_spec a b) /\
  gt_impl a b = lt_impl b a /\
  eq_spec a b = eq_spec b a.
Proof. exact trichotomy. Qed.
Print Assumptions C09_trichotomy.

(** FINDING: the epsilon equality of val.rs breaks the trichotomy (1e-20 vs 2e-20) ... *)
Theorem C09_trichotomy_refuted :
  num_eq_epsilon = true ->
  exists a b, finite a = true /\ finite b = true /\ eq_impl a b = true /\ lt_impl a b = true.
Proof. exact eq_impl_refuted. Qed.
Print Assumptions C09_trichotomy_refuted.

(** ... and is not even an equivalence (0, 2^-52, 2^-51). *)
Theorem C09_eq_epsilon_not_transitive :
  exists a b c, finite a = true /\ finite b = true /\ finite c = true /\
    eq_eps a b = true /\ eq_eps b c = true /\ eq_eps a c = false.
Proof. exact eq_eps_not_transitive. Qed.
Print Assumptions C09_eq_epsilon_not_transitive.

(** Outside the known class (a != b and |a - b| <= 2^-52 as computed in f64) the code's `==`
    is IEEE equality, so the trichotomy above holds for it. *)
Theorem C09_eq_outside_known :
  forall a b, finite a = true -> finite b = true ->
  known_eps a b = false -> eq_impl a b = eq_spec a b.
Proof. exact eq_outside_known. Qed.
Print Assumptions C09_eq_outside_known.

(** std.sort returns an ascending rearrangement ... *)
Theorem C09_sort_sorted :
  forall l, Forall (fun y => finite y = true) l ->
  Sorted lef (sort_impl l) /\ Forall (fun y => finite y = true) (sort_impl l).
Proof. exact sort_sorted. Qed.
Print Assumptions C09_sort_sorted.

Theorem C09_sort_permutation : forall l, Permutation (sort_impl l) l.
Proof. exact sort_perm. Qed.
Print Assumptions C09_sort_permutation.

(** ... and std.uniq / std.set coincide with their IEEE-equality definitions when no two
    elements fall in the known class. *)
Theorem C09_set_outside_known :
  forall l, Forall (fun y => finite y = true) l ->
  (forall a b, In a l -> In b l -> known_eps a b = false) ->
  uniq_impl l = uniq_spec l /\ set_impl l = set_spec l.
Proof. exact set_outside_known. Qed.
Print Assumptions C09_set_outside_known.

(** FINDING: an element of l need not be a setMember of set(l) (uniq merges what sort orders). *)
Theorem C09_sort_set_coherent_refuted :
  num_eq_epsilon = true ->
  exists l x, Forall (fun y => finite y = true) l /\ In x l /\
              set_member_impl x (set_impl l) = Some false /\ set_member_impl x (set_spec l) = Some true.
Proof. exact set_refuted. Qed.
Print Assumptions C09_sort_set_coherent_refuted.

(** PARTIAL for std.setMember: a hit of the binary search is an element comparing equal (any
    array).  Not proved: completeness on strictly ascending arrays (tied by correspondence). *)
Theorem C09_set_member_sound_partial :
  forall x l fuel low high,
  bsearch fuel x l low high = Some true -> exists y, In y l /\ cmp y x = Eq.
Proof. exact bsearch_sound. Qed.
Print Assumptions C09_set_member_sound_partial.

(** & | ^ : error outside the safe-integer range, otherwise the operation on the integer values. *)
Theorem C09_bitwise_spec :
  forall f a b, finite a = true -> finite b = true -> bitop_impl f a b = bitop_spec f a b.
Proof. exact bitop_refines. Qed.
Print Assumptions C09_bitwise_spec.

(** an operand in the safe range has an integer value of at most 53 bits *)
Theorem C09_safe_integer_value :
  forall a, finite a = true -> safe a = true ->
  -9007199254740991 <= trunc_Z a <= 9007199254740991 /\ trunc_Z a = Ztrunc (B2R64 a).
Proof. intros a Ha S. split; [exact (safe_bounds a Ha S)|exact (trunc_Z_correct a)]. Qed.
Print Assumptions C09_safe_integer_value.

(** `<<`: succeeds iff count >= 0, both operands safe and base * 2^(count mod 64) fits a signed
    64-bit integer, and is then that product — outside the known class (negative base whose
    shift overflows). *)
Theorem C09_shift_guard_exact :
  forall a b, finite a = true -> finite b = true ->
  known_shl_neg a b = false -> shl_impl a b = shl_spec a b.
Proof. exact shl_refines. Qed.
Print Assumptions C09_shift_guard_exact.

Theorem C09_shift_guard_refuted :
  exists a b, finite a = true /\ finite b = true /\
  enc_num (shl_impl a b) = 0 /\ shl_spec a b = None /\ known_shl_neg a b = true.
Proof. exact shl_refuted. Qed.
Print Assumptions C09_shift_guard_refuted.

(** `>>`: arithmetic shift by count mod 64 of a safe base, outside the known class (count above
    the safe range is not rejected). *)
Theorem C09_shr_spec :
  forall a b, finite a = true -> finite b = true ->
  known_shr_count a b = false -> shr_impl a b = shr_spec a b.
Proof. exact shr_refines. Qed.
Print Assumptions C09_shr_spec.

Theorem C09_shr_count_refuted :
  shr_count_checked = false -> exists a b, finite a = true /\ finite b = true /\
  enc_num (shr_impl a b) = 4607182418800017408 /\ shr_spec a b = None /\ known_shr_count a b = true.
Proof. exact shr_refuted. Qed.
Print Assumptions C09_shr_count_refuted.

(** `~` *)
Theorem C09_bitnot_range :
  forall a, finite a = true -> known_bnot a = false -> bnot_impl a = bnot_spec a.
Proof. exact bnot_refines. Qed.
Print Assumptions C09_bitnot_range.

Theorem C09_bitnot_range_refuted :
  bitnot_checked = false -> exists a, finite a = true /\
  enc_num (bnot_impl a) = 14114281232179134464 /\ bnot_spec a = None /\ known_bnot a = true.
Proof. exact bnot_refuted. Qed.
Print Assumptions C09_bitnot_range_refuted.
