(** C09 — lemmas.  Real-number facts come from Flocq's correctness theorems. *)
From Coq Require Import ZArith List Bool Reals Lia Lra Permutation Sorted.
From Flocq Require Import IEEE754.BinarySingleNaN IEEE754.Binary IEEE754.Bits Core.
From JrV Require Import Gen.GenConsts Gen.GenNum C09.Model.
Import ListNotations.
Open Scope Z_scope.

Notation B2R64 := (B2R 53 1024).
Notation rnd64 := (round radix2 (FLT_exp (-1074) 53) ZnearestE).

(** * comparisons as real comparisons *)
Lemma cmp_R a b : finite a = true -> finite b = true ->
  cmp a b = Rcompare (B2R64 a) (B2R64 b).
Proof.
  intros Ha Hb. unfold cmp, b64_compare. now rewrite Bcompare_correct.
Qed.

Lemma flt_R a b : finite a = true -> finite b = true ->
  flt a b = Rlt_bool (B2R64 a) (B2R64 b).
Proof.
  intros Ha Hb. unfold flt, b64_compare, Rlt_bool. rewrite Bcompare_correct by assumption.
  now destruct Rcompare.
Qed.

Lemma fle_R a b : finite a = true -> finite b = true ->
  fle a b = Rle_bool (B2R64 a) (B2R64 b).
Proof.
  intros Ha Hb. unfold fle, b64_compare, Rle_bool. rewrite Bcompare_correct by assumption.
  now destruct Rcompare.
Qed.

Lemma feq_R a b : finite a = true -> finite b = true ->
  feq a b = Req_bool (B2R64 a) (B2R64 b).
Proof.
  intros Ha Hb. unfold feq, b64_compare, Req_bool. rewrite Bcompare_correct by assumption.
  now destruct Rcompare.
Qed.

Lemma flt_cmp a b : flt a b = true -> cmp a b = Lt.
Proof. unfold flt, cmp. destruct b64_compare as [[]|]; congruence. Qed.

(** * the finite check *)
Lemma num_new_finite x r : num_new x = Some r -> finite r = true.
Proof. unfold num_new. destruct (finite x) eqn:E; intros H; inversion H; subst; assumption. Qed.

Lemma num_new_some x : finite x = true -> num_new x = Some x.
Proof. unfold num_new. now intros ->. Qed.

Lemma num_new_spec x : num_new x = if finite x then Some x else None.
Proof. reflexivity. Qed.
(** * arithmetic: checked, correctly rounded *)
Definition arith_checked (opR : R -> R -> R) (impl : f64 -> f64 -> option f64) (a b : f64) : Prop :=
  let x := rnd64 (opR (B2R64 a) (B2R64 b)) in
  if Rlt_bool (Rabs x) (bpow radix2 1024)
  then exists r, impl a b = Some r /\ finite r = true /\ B2R64 r = x
  else impl a b = None.

Lemma overflow_not_finite (r : f64) s :
  B2FF 53 1024 r = binary_overflow 53 1024 mode_NE s -> finite r = false.
Proof.
  intros H. rewrite <- is_finite_B2FF, H. reflexivity.
Qed.

Ltac flocq_correct lem :=
  match goal with
  | |- context [Bplus 53 1024 ?h1 ?h2 ?n ?m ?a ?b] => generalize (lem 53 1024 h1 h2 n m a b)
  | |- context [Bminus 53 1024 ?h1 ?h2 ?n ?m ?a ?b] => generalize (lem 53 1024 h1 h2 n m a b)
  | |- context [Bmult 53 1024 ?h1 ?h2 ?n ?m ?a ?b] => generalize (lem 53 1024 h1 h2 n m a b)
  | |- context [Bdiv 53 1024 ?h1 ?h2 ?n ?m ?a ?b] => generalize (lem 53 1024 h1 h2 n m a b)
  end;
  cbv zeta; change (round_mode mode_NE) with ZnearestE;
  change (FLT_exp (3 - 1024 - 53) 53) with (FLT_exp (-1074) 53).

Lemma add_checked a b : finite a = true -> finite b = true -> arith_checked Rplus add_impl a b.
Proof.
  intros Ha Hb. unfold arith_checked, add_impl, b64_plus.
  flocq_correct Bplus_correct. intros H; specialize (H Ha Hb); revert H.
  destruct Rlt_bool.
  - intros (E & F & _). eexists. split; [apply num_new_some, F|]. split; [exact F|exact E].
  - intros (E & _). unfold num_new. now rewrite (overflow_not_finite _ _ E).
Qed.

Lemma sub_checked a b : finite a = true -> finite b = true -> arith_checked Rminus sub_impl a b.
Proof.
  intros Ha Hb. unfold arith_checked, sub_impl, b64_minus.
  flocq_correct Bminus_correct. intros H; specialize (H Ha Hb); revert H.
  destruct Rlt_bool.
  - intros (E & F & _). eexists. split; [apply num_new_some, F|]. split; [exact F|exact E].
  - intros (E & _). unfold num_new. now rewrite (overflow_not_finite _ _ E).
Qed.

Lemma mul_checked a b : finite a = true -> finite b = true -> arith_checked Rmult mul_impl a b.
Proof.
  intros Ha Hb. unfold arith_checked, mul_impl, b64_mult.
  flocq_correct Bmult_correct.
  destruct Rlt_bool.
  - intros (E & F & _). rewrite Ha, Hb in F. eexists. split; [apply num_new_some, F|]. split; [exact F|exact E].
  - intros E. unfold num_new. now rewrite (overflow_not_finite _ _ E).
Qed.

Lemma feq_zero_R b : finite b = true -> feq b f_zero = Req_bool (B2R64 b) 0.
Proof. intros Hb. rewrite feq_R by easy. reflexivity. Qed.

Lemma div_checked a b : finite a = true -> finite b = true ->
  if Req_bool (B2R64 b) 0 then div_impl a b = None else arith_checked Rdiv div_impl a b.
Proof.
  intros Ha Hb. unfold div_impl. rewrite feq_zero_R by assumption.
  destruct (Req_bool_spec (B2R64 b) 0) as [Z|NZ]; [reflexivity|].
  unfold arith_checked. rewrite feq_zero_R by assumption.
  destruct (Req_bool_spec (B2R64 b) 0) as [Z|_]; [contradiction|].
  unfold b64_div.
  flocq_correct Bdiv_correct. intros H; specialize (H NZ); revert H.
  destruct Rlt_bool.
  - intros (E & F & _). rewrite Ha in F. eexists. split; [apply num_new_some, F|]. split; [exact F|exact E].
  - intros E. unfold num_new. now rewrite (overflow_not_finite _ _ E).
Qed.
(** * order and equality *)
Definition exactly_one (p q r : bool) : Prop :=
  (p = true /\ q = false /\ r = false) \/ (p = false /\ q = true /\ r = false) \/
  (p = false /\ q = false /\ r = true).

Lemma cmp_swap a b : finite a = true -> finite b = true -> cmp b a = CompOpp (cmp a b).
Proof.
  intros Ha Hb. rewrite !cmp_R by assumption. apply Rcompare_sym.
Qed.

Lemma eq_spec_cmp a b : finite a = true -> finite b = true -> eq_spec a b = is_eq (cmp a b).
Proof.
  intros Ha Hb. unfold eq_spec, feq, cmp, b64_compare. rewrite Bcompare_correct by assumption. reflexivity.
Qed.

Lemma trichotomy a b : finite a = true -> finite b = true ->
  exactly_one (lt_impl a b) (eq_spec a b) (gt_impl a b) /\
  le_impl a b = (lt_impl a b || eq_spec a b) /\
  ge_impl a b = (gt_impl a b || eq_spec a b) /\
  gt_impl a b = lt_impl b a /\
  eq_spec a b = eq_spec b a.
Proof.
  intros Ha Hb. rewrite (eq_spec_cmp b a), (eq_spec_cmp a b) by assumption.
  unfold lt_impl, gt_impl, le_impl, ge_impl, is_le, is_ge.
  rewrite (cmp_swap a b) by assumption. unfold exactly_one.
  destruct (cmp a b); cbn; intuition.
Qed.

Definition w_1e20 : f64 := b64_of_bits 4307583784117748259.   (* 1e-20 *)
Definition w_2e20 : f64 := b64_of_bits 4312087383745118755.   (* 2e-20 *)

Lemma eq_eps_refuted :
  exists a b, finite a = true /\ finite b = true /\ eq_eps a b = true /\ lt_impl a b = true /\ eq_spec a b = false.
Proof. exists w_1e20, w_2e20. vm_compute. repeat split. Qed.


Lemma eq_eps_not_transitive :
  exists a b c, finite a = true /\ finite b = true /\ finite c = true /\
    eq_eps a b = true /\ eq_eps b c = true /\ eq_eps a c = false.
Proof.
  exists f_zero, f_epsilon, (b64_of_bits 4377498837804122112). vm_compute. repeat split.
Qed.

Lemma B2R_epsilon_pos : (0 < B2R64 f_epsilon)%R.
Proof.
  assert (exists H, f_epsilon = B754_finite 53 1024 false 4503599627370496 (-104) H) as [H ->]
    by (vm_compute; eexists; reflexivity).
  unfold B2R. apply F2R_gt_0. reflexivity.
Qed.

Lemma eq_spec_imp_eps a b : finite a = true -> finite b = true -> eq_spec a b = true -> eq_eps a b = true.
Proof.
  intros Ha Hb E. unfold eq_spec in E. rewrite feq_R in E by assumption.
  destruct (Req_bool_spec (B2R64 a) (B2R64 b)) as [Eab|]; [|discriminate].
  unfold eq_eps, b64_minus.
  flocq_correct Bminus_correct. intros H; specialize (H Ha Hb); revert H.
  rewrite Eab, Rminus_diag_eq by reflexivity. rewrite round_0 by auto with typeclass_instances.
  rewrite Rabs_R0, Rlt_bool_true by apply bpow_gt_0.
  intros (E1 & F1 & _).
  rewrite fle_R.
  - unfold b64_abs. rewrite B2R_Babs, E1, Rabs_R0. apply Rle_bool_true. left. apply B2R_epsilon_pos.
  - unfold b64_abs. now rewrite is_finite_Babs.
  - reflexivity.
Qed.

Lemma eq_outside_known a b : finite a = true -> finite b = true ->
  known_eps a b = false -> eq_impl a b = eq_spec a b.
Proof.
  intros Ha Hb K. unfold eq_impl. destruct num_eq_epsilon; [|reflexivity].
  unfold known_eps in K. destruct (eq_eps a b) eqn:E1, (eq_spec a b) eqn:E2; try reflexivity; try discriminate.
  apply eq_spec_imp_eps in E2; congruence.
Qed.
(** * bitwise operators *)
Lemma trunc_Z_correct a : trunc_Z a = Ztrunc (B2R64 a).
Proof.
  apply eq_IZR. unfold trunc_Z. rewrite Btrunc_correct by exact Hmax1024. apply round_FIX_IZR.
Qed.

Lemma B2R_max_safe : B2R64 f_max_safe = IZR 9007199254740991 /\ finite f_max_safe = true.
Proof.
  assert (exists H, f_max_safe = B754_finite 53 1024 false 9007199254740991 0 H) as [H ->]
    by (vm_compute; eexists; reflexivity).
  split; [|reflexivity].
  change (F2R (Float radix2 9007199254740991 0) = IZR 9007199254740991).
  unfold F2R. cbn [Fnum Fexp bpow]. apply Rmult_1_r.
Qed.

Lemma B2R_min_safe : B2R64 f_min_safe = IZR (-9007199254740991) /\ finite f_min_safe = true.
Proof.
  assert (exists H, f_min_safe = B754_finite 53 1024 true 9007199254740991 0 H) as [H ->]
    by (vm_compute; eexists; reflexivity).
  split; [|reflexivity].
  change (F2R (Float radix2 (-9007199254740991) 0) = IZR (-9007199254740991)).
  unfold F2R. cbn [Fnum Fexp bpow]. apply Rmult_1_r.
Qed.

Lemma B2R_zero : B2R64 f_zero = 0%R /\ finite f_zero = true.
Proof. split; reflexivity. Qed.

Lemma safe_bounds a : finite a = true -> safe a = true ->
  -9007199254740991 <= trunc_Z a <= 9007199254740991.
Proof.
  intros Ha S. unfold safe in S. apply andb_prop in S as [S1 S2].
  destruct B2R_max_safe as [Emax Fmax]. destruct B2R_min_safe as [Emin Fmin].
  rewrite fle_R in S1, S2 by assumption. rewrite Emin in S1. rewrite Emax in S2.
  destruct (Rle_bool_spec (IZR (-9007199254740991)) (B2R64 a)) as [L1|]; [|discriminate].
  destruct (Rle_bool_spec (B2R64 a) (IZR 9007199254740991)) as [L2|]; [|discriminate].
  rewrite trunc_Z_correct.
  apply Ztrunc_le in L1. apply Ztrunc_le in L2. rewrite Ztrunc_IZR in L1, L2. lia.
Qed.

Lemma flt_negb_fle a b : finite a = true -> finite b = true -> flt a b = negb (fle b a).
Proof.
  intros Ha Hb. rewrite flt_R, fle_R by assumption. symmetry. apply negb_Rlt_bool.
Qed.

Lemma tfb_safe a : finite a = true -> tfb a = if safe a then Some (trunc_Z a) else None.
Proof.
  intros Ha. unfold tfb.
  destruct B2R_max_safe as [_ Fmax]. destruct B2R_min_safe as [_ Fmin].
  rewrite !flt_negb_fle by assumption.
  rewrite <- negb_andb. fold (safe a).
  destruct (safe a) eqn:S; cbn; [|reflexivity].
  pose proof (safe_bounds a Ha S). unfold cast_i64, i64_min, i64_max. f_equal. lia.
Qed.

Lemma bitop_refines f a b : finite a = true -> finite b = true ->
  bitop_impl f a b = bitop_spec f a b.
Proof.
  intros Ha Hb. unfold bitop_impl, bitop_spec. rewrite !tfb_safe by assumption.
  destruct (safe a), (safe b); reflexivity.
Qed.

Lemma nonneg_trunc b : finite b = true -> flt b f_zero = false -> 0 <= trunc_Z b.
Proof.
  intros Hb N. rewrite flt_R in N by (assumption || reflexivity).
  destruct (Rlt_bool_spec (B2R64 b) (B2R64 f_zero)) as [|L]; [discriminate|].
  change (B2R64 f_zero) with 0%R in L. rewrite trunc_Z_correct.
  apply Ztrunc_le in L. now rewrite Ztrunc_IZR in L.
Qed.

Lemma land_63 c : 0 <= c -> Z.land c 63 = c mod 64.
Proof. intros. change 63 with (Z.ones 6). rewrite Z.land_ones by lia. reflexivity. Qed.

Lemma wrap64_id z : - 2 ^ 63 <= z <= 2 ^ 63 - 1 -> wrap64 z = z.
Proof.
  intros. unfold wrap64. rewrite Z.mod_small by lia. lia.
Qed.

Lemma shl_refines a b : finite a = true -> finite b = true ->
  known_shl_neg a b = false -> shl_impl a b = shl_spec a b.
Proof.
  intros Ha Hb K. unfold shl_impl, shl_spec, known_shl_neg in *.
  rewrite !tfb_safe by assumption.
  destruct (flt b f_zero) eqn:N; [now rewrite andb_false_r|].
  destruct (safe a) eqn:Sa; [|reflexivity].
  destruct (safe b) eqn:Sb; [|reflexivity].
  cbn [andb negb] in *.
  pose proof (safe_bounds a Ha Sa) as Ba. pose proof (safe_bounds b Hb Sb) as Bb.
  pose proof (nonneg_trunc b Hb N) as Nb.
  unfold shl_count_modulus, shl_guard_min_exp, shl_guard_bits.
  rewrite Z.rem_mod_nonneg by lia.
  set (e := trunc_Z b mod 64) in *. set (x := trunc_Z a) in *.
  assert (He : 0 <= e < 64) by (apply Z.mod_pos_bound; lia).
  rewrite land_63 by lia. rewrite (Z.mod_small e 64) by lia.
  assert (P : 2 ^ 63 = 2 ^ (63 - e) * 2 ^ e) by (rewrite <- Z.pow_add_r by lia; f_equal; lia).
  assert (Pe : 0 < 2 ^ e) by (apply Z.pow_pos_nonneg; lia).
  assert (Pe' : 0 < 2 ^ (63 - e)) by (apply Z.pow_pos_nonneg; lia).
  unfold i64_min, i64_max in *.
  apply Z.ltb_ge in K.
  destruct (Z.leb_spec 1 e) as [E1|E0]; cbn [andb].
  - destruct (Z.leb_spec (2 ^ (63 - e)) x) as [G|G].
    + assert (2 ^ 63 <= x * 2 ^ e) by (rewrite P; apply Z.mul_le_mono_nonneg_r; lia).
      destruct (Z.leb_spec (x * 2 ^ e) (2 ^ 63 - 1)); [lia|]. now rewrite andb_false_r.
    + assert (x * 2 ^ e < 2 ^ 63) by (rewrite P; apply Z.mul_lt_mono_pos_r; lia).
      destruct (Z.leb_spec (-2 ^ 63) (x * 2 ^ e)); [|lia].
      destruct (Z.leb_spec (x * 2 ^ e) (2 ^ 63 - 1)); [|lia].
      cbn [andb]. rewrite wrap64_id by lia. reflexivity.
  - assert (e = 0) by lia. subst e. replace (trunc_Z b mod 64) with 0 in * by lia.
    rewrite Z.pow_0_r, Z.mul_1_r in *.
    destruct (Z.leb_spec (-2 ^ 63) x); [|lia].
    destruct (Z.leb_spec x (2 ^ 63 - 1)); [|lia].
    cbn [andb]. rewrite wrap64_id by lia. reflexivity.
Qed.
Lemma safe_of_nonneg_le b : finite b = true -> flt b f_zero = false -> flt f_max_safe b = false -> safe b = true.
Proof.
  intros Hb N M. destruct B2R_max_safe as [Emax Fmax]. destruct B2R_min_safe as [Emin Fmin].
  unfold safe. rewrite flt_negb_fle in M by assumption. apply negb_false_iff in M. rewrite M, andb_true_r.
  rewrite fle_R by assumption. rewrite flt_R in N by (assumption || reflexivity).
  destruct (Rlt_bool_spec (B2R64 b) (B2R64 f_zero)) as [|L]; [discriminate|].
  change (B2R64 f_zero) with 0%R in L. rewrite Emin. apply Rle_bool_true.
  apply Rle_trans with 0%R; [|assumption]. apply IZR_le. lia.
Qed.

Lemma shr_refines a b : finite a = true -> finite b = true ->
  known_shr_count a b = false -> shr_impl a b = shr_spec a b.
Proof.
  intros Ha Hb K. unfold shr_impl, shr_spec, known_shr_count in *.
  destruct B2R_max_safe as [_ Fmax].
  destruct (flt b f_zero) eqn:N; [now rewrite andb_false_r|].
  rewrite (tfb_safe a Ha), ?(tfb_safe b Hb). cbn [negb]. rewrite andb_true_r.
  assert (C : forall c, 0 <= c -> Z.land (Z.land c shr_count_mask) 63 = c mod 64).
  { intros c Hc. unfold shr_count_mask. rewrite (land_63 c) by assumption. rewrite land_63 by (apply Z.mod_pos_bound; lia).
    apply Z.mod_small. apply Z.mod_pos_bound. lia. }
  pose proof (nonneg_trunc b Hb N) as Nb.
  destruct (safe a) eqn:Sa.
  - destruct (safe b) eqn:Sb.
    + assert (E : (if shr_count_checked then Some (trunc_Z b) else Some (cast_i64 b)) = Some (trunc_Z b)).
      { destruct shr_count_checked; [reflexivity|]. pose proof (safe_bounds b Hb Sb).
        unfold cast_i64, i64_min, i64_max. f_equal. lia. }
      rewrite E. cbn [andb]. rewrite C by assumption.
      rewrite Z.shiftr_div_pow2 by (apply Z.mod_pos_bound; lia). reflexivity.
    + (* b >= 0 and not safe: b is above the range *)
      destruct (flt f_max_safe b) eqn:M.
      * destruct shr_count_checked; [reflexivity|]. cbn in K. discriminate.
      * rewrite (safe_of_nonneg_le b Hb N M) in Sb. discriminate.
  - cbn [andb]. destruct (if shr_count_checked then if safe b then Some (trunc_Z b) else None else Some (cast_i64 b)); reflexivity.
Qed.

Lemma bnot_refines a : finite a = true -> known_bnot a = false -> bnot_impl a = bnot_spec a.
Proof.
  intros Ha K. unfold bnot_impl, bnot_spec, known_bnot in *. rewrite tfb_safe by assumption.
  destruct (safe a) eqn:Sa.
  - assert (E : (if bitnot_checked then Some (trunc_Z a) else Some (cast_i64 a)) = Some (trunc_Z a)).
    { destruct bitnot_checked; [reflexivity|]. pose proof (safe_bounds a Ha Sa).
      unfold cast_i64, i64_min, i64_max. f_equal. lia. }
    rewrite E. unfold Z.lnot. do 2 f_equal; try lia.
  - destruct bitnot_checked; [reflexivity|]. cbn in K. discriminate.
Qed.

Definition w_m2 : f64 := b64_of_bits 13835058055282163712.     (* -2 *)
Definition w_63 : f64 := b64_of_bits 4634063524449746944.      (* 63 *)

(* results are compared as bit patterns ([enc_num]): normalising a float made by [of_Z] would
   also normalise its validity proof *)
Lemma shl_refuted : exists a b, finite a = true /\ finite b = true /\
  enc_num (shl_impl a b) = 0 /\ shl_spec a b = None /\ known_shl_neg a b = true.
Proof. exists w_m2, w_63. vm_compute. repeat split. Qed.



(** * sort / uniq / set / setMember *)
Definition lef (a b : f64) : Prop := le_impl a b = true.

Lemma insert_perm x l : Permutation (insert x l) (x :: l).
Proof.
  induction l as [|y t IH]; cbn; [reflexivity|].
  destruct (is_gt (cmp x y)); [|reflexivity].
  rewrite IH. apply perm_swap.
Qed.

Lemma sort_perm l : Permutation (sort_impl l) l.
Proof.
  induction l as [|x t IH]; cbn; [constructor|].
  fold (sort_impl t). rewrite insert_perm. now constructor.
Qed.

Lemma sort_in x l : In x (sort_impl l) <-> In x l.
Proof. split; apply Permutation_in; [|symmetry]; apply sort_perm. Qed.

Lemma not_gt_le x y : is_gt (cmp x y) = false -> lef x y.
Proof. unfold lef, le_impl, is_le. now intros ->. Qed.

Lemma gt_le_swap x y : finite x = true -> finite y = true -> is_gt (cmp x y) = true -> lef y x.
Proof.
  intros Hx Hy G. unfold lef, le_impl, is_le.
  rewrite (cmp_R y x), Rcompare_sym, <- (cmp_R x y) by assumption.
  destruct (cmp x y); cbn in *; congruence.
Qed.

Lemma insert_sorted x l : finite x = true -> Forall (fun y => finite y = true) l ->
  Sorted lef l -> Sorted lef (insert x l).
Proof.
  intros Hx Fl S. induction l as [|y t IH]; cbn.
  - repeat constructor.
  - inversion Fl as [|? ? Hy Ft]; subst. inversion S as [|? ? St Hd]; subst.
    destruct (is_gt (cmp x y)) eqn:G.
    + constructor; [now apply IH|].
      destruct t as [|z t']; cbn.
      * constructor. now apply gt_le_swap.
      * destruct (is_gt (cmp x z)); constructor; [now inversion Hd|now apply gt_le_swap].
    + constructor; [assumption|]. constructor. now apply not_gt_le.
Qed.

Lemma insert_finite x l : finite x = true -> Forall (fun y => finite y = true) l ->
  Forall (fun y => finite y = true) (insert x l).
Proof.
  intros Hx Fl. eapply Permutation_Forall; [symmetry; apply insert_perm|]. now constructor.
Qed.

Lemma sort_sorted l : Forall (fun y => finite y = true) l ->
  Sorted lef (sort_impl l) /\ Forall (fun y => finite y = true) (sort_impl l).
Proof.
  induction 1 as [|x t Hx Ft [IH1 IH2]]; cbn.
  - split; constructor.
  - fold (sort_impl t). split; [now apply insert_sorted|now apply insert_finite].
Qed.

Lemma uniq_aux_ext (e1 e2 : f64 -> f64 -> bool) l : forall last,
  (forall a b, In a (last :: l) -> In b (last :: l) -> e1 a b = e2 a b) ->
  uniq_aux e1 last l = uniq_aux e2 last l.
Proof.
  induction l as [|x t IH]; intros last H; cbn; [reflexivity|].
  rewrite (H last x) by (cbn; auto).
  rewrite (IH x) by (intros a b Ia Ib; apply H; cbn in *; tauto).
  reflexivity.
Qed.

Lemma uniq_by_ext (e1 e2 : f64 -> f64 -> bool) l :
  (forall a b, In a l -> In b l -> e1 a b = e2 a b) -> uniq_by e1 l = uniq_by e2 l.
Proof.
  intros H. destruct l as [|x t]; [reflexivity|]. unfold uniq_by. f_equal. apply uniq_aux_ext. exact H.
Qed.

(** soundness of the binary search (any list): a hit is an element that compares equal *)
Lemma bsearch_sound x l : forall fuel low high,
  bsearch fuel x l low high = Some true -> exists y, In y l /\ cmp y x = Eq.
Proof.
  induction fuel as [|f IH]; intros low high H; cbn [bsearch] in H; [discriminate|].
  destruct (low <? high)%nat; [|discriminate].
  match type of H with context [nth_error l ?i] => destruct (nth_error l i) as [c|] eqn:E end; [|discriminate].
  destruct (cmp c x) eqn:C.
  - exists c. split; [eapply nth_error_In; eassumption|assumption].
  - eapply IH; eassumption.
  - eapply IH; eassumption.
Qed.



(** * no non-finite number is ever produced *)
Ltac fin_tac :=
  repeat match goal with
  | H : num_new _ = Some _ |- _ => exact (num_new_finite _ _ H)
  | H : match ?x with _ => _ end = Some _ |- _ => destruct x eqn:?; try discriminate
  end.

Lemma no_nonfinite a b r :
  add_impl a b = Some r \/ sub_impl a b = Some r \/ mul_impl a b = Some r \/ div_impl a b = Some r \/
  mod_impl a b = Some r \/ band_impl a b = Some r \/ bor_impl a b = Some r \/ bxor_impl a b = Some r \/
  shl_impl a b = Some r \/ shr_impl a b = Some r \/ neg_impl a = Some r \/ bnot_impl a = Some r \/
  abs_impl a = Some r \/ max_impl a b = Some r \/ min_impl a b = Some r ->
  finite r = true.
Proof.
  unfold add_impl, sub_impl, mul_impl, div_impl, mod_impl, band_impl, bor_impl, bxor_impl, bitop_impl,
    shl_impl, shr_impl, neg_impl, bnot_impl, abs_impl, max_impl, min_impl.
  intros H. repeat (destruct H as [H|H]); fin_tac.
Qed.

Lemma div_mod_by_zero a b : finite b = true -> B2R64 b = 0%R -> div_impl a b = None /\ mod_impl a b = None.
Proof.
  intros Hb Z. unfold div_impl, mod_impl. rewrite feq_zero_R by assumption.
  rewrite Req_bool_true by assumption. split; reflexivity.
Qed.

(** * after the fixes ce0d2fe / 8b733a9: the code's equality is IEEE equality, `>>` and `~`
    range-check their operands — the restrictions disappear (these proofs compute the
    regenerated flags of Gen/GenNum.v and break if a flag flips back) *)
Lemma eq_impl_ieee a b : eq_impl a b = eq_spec a b.
Proof. reflexivity. Qed.

Lemma shr_refines_all a b : finite a = true -> finite b = true -> shr_impl a b = shr_spec a b.
Proof. intros Ha Hb. apply shr_refines; [assumption|assumption|reflexivity]. Qed.

Lemma bnot_refines_all a : finite a = true -> bnot_impl a = bnot_spec a.
Proof. intros Ha. apply bnot_refines; [assumption|reflexivity]. Qed.

Lemma trichotomy_impl a b : finite a = true -> finite b = true ->
  exactly_one (lt_impl a b) (eq_impl a b) (gt_impl a b) /\
  le_impl a b = (lt_impl a b || eq_impl a b) /\
  ge_impl a b = (gt_impl a b || eq_impl a b) /\
  gt_impl a b = lt_impl b a /\
  eq_impl a b = eq_impl b a.
Proof. intros Ha Hb. rewrite !eq_impl_ieee. now apply trichotomy. Qed.

Lemma eq_impl_key a b : finite a = true -> finite b = true ->
  (eq_impl a b = true <-> B2R64 a = B2R64 b).
Proof.
  intros Ha Hb. rewrite eq_impl_ieee. unfold eq_spec. rewrite feq_R by assumption.
  destruct (Req_bool_spec (B2R64 a) (B2R64 b)); split; congruence.
Qed.

Lemma eq_impl_equivalence :
  (forall a, finite a = true -> eq_impl a a = true) /\
  (forall a b, finite a = true -> finite b = true -> eq_impl a b = true -> eq_impl b a = true) /\
  (forall a b c, finite a = true -> finite b = true -> finite c = true ->
     eq_impl a b = true -> eq_impl b c = true -> eq_impl a c = true).
Proof.
  repeat split.
  - intros a Ha. now apply eq_impl_key.
  - intros a b Ha Hb H. apply eq_impl_key in H; try assumption. apply eq_impl_key; auto.
  - intros a b c Ha Hb Hc H1 H2. apply eq_impl_key in H1, H2; try assumption.
    apply eq_impl_key; try assumption. congruence.
Qed.
