From Coq Require Import ZArith List Bool.
From JrV Require Import C09.Model.
