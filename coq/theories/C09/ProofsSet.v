(** C09 — sort / uniq / set / setMember coherence (valid since the code's `==` is IEEE equality). *)
From Coq Require Import ZArith List Bool Reals Lia Lra Permutation Sorted Arith.
From Flocq Require Import IEEE754.BinarySingleNaN IEEE754.Binary IEEE754.Bits Core.
From JrV Require Import Gen.GenConsts Gen.GenNum C09.Model C09.Proofs.
Import ListNotations.

Notation fin_list := (Forall (fun y : f64 => finite y = true)).
Notation key := (B2R 53 1024).
Definition ltk (a b : f64) : Prop := (key a < key b)%R.
Definition lek (a b : f64) : Prop := (key a <= key b)%R.

Lemma eqs_key a b : finite a = true -> finite b = true -> (eq_spec a b = true <-> key a = key b).
Proof. intros. rewrite <- eq_impl_ieee. now apply eq_impl_key. Qed.

Lemma eqs_false_key a b : finite a = true -> finite b = true -> eq_spec a b = false -> key a <> key b.
Proof. intros Ha Hb E K. apply (eqs_key a b Ha Hb) in K. congruence. Qed.

Lemma lef_lek a b : finite a = true -> finite b = true -> lef a b -> lek a b.
Proof.
  intros Ha Hb. unfold lef, le_impl, is_le, is_gt, lek. rewrite cmp_R by assumption.
  destruct (Rcompare_spec (key a) (key b)); intros HH; try discriminate; lra.
Qed.

Lemma sorted_lef_lek l : fin_list l -> Sorted lef l -> Sorted lek l.
Proof.
  intros F S. induction S as [|a l S IH Hd]; [constructor|].
  inversion F as [|? ? Ha Fl]; subst. constructor; [now apply IH|].
  destruct Hd as [|b l' Hab]; constructor. inversion Fl; subst. now apply lef_lek.
Qed.

(** uniq of an ascending list is strictly ascending *)
Lemma uniq_aux_sorted : forall l last, finite last = true -> fin_list l -> Sorted lek (last :: l) ->
  Sorted ltk (uniq_aux eq_spec last l) /\ HdRel ltk last (uniq_aux eq_spec last l).
Proof.
  induction l as [|x t IH]; intros last Hl F S; cbn [uniq_aux].
  - split; constructor.
  - inversion F as [|? ? Hx Ft]; subst.
    inversion S as [|? ? S' Hd]; subst. inversion Hd as [|? ? Hlx]; subst.
    destruct (IH x Hx Ft S') as [IS IH'].
    destruct (eq_spec last x) eqn:E.
    + apply eqs_key in E; try assumption. split; [assumption|].
      destruct IH' as [|b l' Hb]; constructor. unfold ltk in *. rewrite E. assumption.
    + apply eqs_false_key in E; try assumption.
      assert (ltk last x) by (unfold ltk, lek in *; lra).
      split; constructor; assumption.
Qed.

Lemma uniq_sorted l : fin_list l -> Sorted lek l -> Sorted ltk (uniq_by eq_spec l).
Proof.
  intros F S. destruct l as [|x t]; [constructor|]. unfold uniq_by.
  inversion F; subst. destruct (uniq_aux_sorted t x) as [A B]; try assumption. now constructor.
Qed.

Lemma uniq_aux_incl (e : f64 -> f64 -> bool) : forall l last, incl (uniq_aux e last l) l.
Proof.
  induction l as [|x t IH]; intros last; cbn [uniq_aux]; [apply incl_refl|].
  destruct (e last x).
  - apply incl_tl, IH.
  - apply incl_cons; [now left|apply incl_tl, IH].
Qed.

Lemma uniq_incl e l : incl (uniq_by e l) l.
Proof.
  destruct l as [|x t]; [apply incl_refl|]. unfold uniq_by.
  apply incl_cons; [now left|apply incl_tl, uniq_aux_incl].
Qed.

(** every element is represented (same real value) in the uniq'd list *)
Lemma uniq_aux_cover : forall l last, finite last = true -> fin_list l ->
  forall y, In y l -> exists y', In y' (last :: uniq_aux eq_spec last l) /\ key y' = key y.
Proof.
  induction l as [|x t IH]; intros last Hl F y Iy; [destruct Iy|].
  inversion F as [|? ? Hx Ft]; subst. cbn [uniq_aux].
  destruct Iy as [->|Iy].
  - destruct (eq_spec last y) eqn:E.
    + apply eqs_key in E; try assumption. exists last. split; [now left|assumption].
    + exists y. split; [right; now left|reflexivity].
  - destruct (IH x Hx Ft y Iy) as (y' & [<-|I'] & K).
    + destruct (eq_spec last x) eqn:E.
      * apply eqs_key in E; try assumption. exists last. split; [now left|congruence].
      * exists x. split; [right; now left|assumption].
    + destruct (eq_spec last x); exists y'; (split; [|assumption]).
      * now right.
      * right. now right.
Qed.

Lemma uniq_cover l : fin_list l -> forall y, In y l ->
  exists y', In y' (uniq_by eq_spec l) /\ key y' = key y.
Proof.
  intros F y Iy. destruct l as [|x t]; [destruct Iy|]. unfold uniq_by. inversion F; subst.
  destruct Iy as [->|Iy].
  - exists y. split; [now left|reflexivity].
  - now apply uniq_aux_cover.
Qed.

(** positions in a strictly ascending list *)
Lemma ssorted_nth l : StronglySorted ltk l -> forall i j a b, (i < j)%nat ->
  nth_error l i = Some a -> nth_error l j = Some b -> ltk a b.
Proof.
  induction 1 as [|x t S IH Hall]; intros i j a b Hij Ea Eb.
  - destruct i; discriminate.
  - destruct j as [|j]; [lia|]. cbn in Eb. destruct i as [|i]; cbn in Ea.
    + inversion Ea; subst. rewrite Forall_forall in Hall. apply Hall. eapply nth_error_In; eassumption.
    + eapply IH; [|eassumption|eassumption]. lia.
Qed.

Lemma ltk_trans : Relations_1.Transitive ltk.
Proof. intros a b c. unfold ltk. lra. Qed.

Ltac Zify.zify_post_hook ::= Z.div_mod_to_equations.

(** the binary search of std.setMember is complete on strictly ascending arrays *)
Lemma bsearch_complete x l : finite x = true -> fin_list l -> StronglySorted ltk l ->
  forall fuel low high, (high <= length l)%nat -> (high - low < fuel)%nat ->
  (forall i y, (i < low)%nat -> nth_error l i = Some y -> ltk y x) ->
  (forall i y, (high <= i)%nat -> nth_error l i = Some y -> ltk x y) ->
  bsearch fuel x l low high = Some (existsb (fun y => eq_spec y x) l).
Proof.
  intros Hx F S. rewrite Forall_forall in F.
  induction fuel as [|f IH]; intros low high Hh Hf Hlow Hhigh; [lia|].
  cbn [bsearch].
  destruct (Nat.ltb_spec low high) as [Hlt|Hge].
  - set (mid := ((high + low) / 2)%nat).
    assert (Hm : (low <= mid < high)%nat).
    { unfold mid. split.
      - apply Nat.div_le_lower_bound; lia.
      - apply Nat.div_lt_upper_bound; lia. }
    clearbody mid.
    destruct (nth_error l mid) as [c|] eqn:Ec; [|apply nth_error_None in Ec; lia].
    assert (Hc : finite c = true) by (apply F; eapply nth_error_In; eassumption).
    rewrite cmp_R by assumption.
    destruct (Rcompare_spec (key c) (key x)) as [Lt|Eq|Gt].
    + apply IH; try assumption; [lia|].
      intros i y Hi Ey. destruct (Nat.eq_dec i mid) as [->|Hne].
      * rewrite Ec in Ey. inversion Ey; subst. exact Lt.
      * apply (ltk_trans y c x); [|exact Lt].
        eapply (ssorted_nth l S i mid); [lia|eassumption|eassumption].
    + f_equal. symmetry. apply existsb_exists. exists c. split; [eapply nth_error_In; eassumption|].
      apply eqs_key; assumption.
    + apply IH; try assumption; [lia|lia|].
      intros i y Hi Ey. destruct (Nat.eq_dec i mid) as [->|Hne].
      * rewrite Ec in Ey. inversion Ey; subst. exact Gt.
      * apply (ltk_trans x c y); [exact Gt|].
        eapply (ssorted_nth l S mid i); [lia|eassumption|eassumption].
  - f_equal. symmetry. apply not_true_is_false. intros E.
    apply existsb_exists in E as (y & Iy & Ey).
    apply eqs_key in Ey; [|now apply F|assumption].
    apply In_nth_error in Iy as (i & Ei).
    destruct (Nat.lt_ge_cases i low) as [Hi|Hi].
    + specialize (Hlow i y Hi Ei). unfold ltk in Hlow. lra.
    + assert (Hi' : (high <= i)%nat) by lia. specialize (Hhigh i y Hi' Ei). unfold ltk in Hhigh. lra.
Qed.

Lemma set_member_complete x l : finite x = true -> fin_list l -> Sorted ltk l ->
  set_member_impl x l = Some (member_spec x l).
Proof.
  intros Hx F S. unfold set_member_impl, member_spec.
  apply bsearch_complete; try assumption.
  - apply Sorted_StronglySorted; [exact ltk_trans|assumption].
  - lia.
  - lia.
  - intros i y Hi. lia.
  - intros i y Hi Ey. assert (nth_error l i = None) by (apply nth_error_None; lia). congruence.
Qed.

(** uniq / set of the code are the IEEE-equality definitions *)
Lemma set_is_spec l : uniq_impl l = uniq_spec l /\ set_impl l = set_spec l.
Proof. split; apply uniq_by_ext; intros; apply eq_impl_ieee. Qed.

Lemma set_spec_sorted l : fin_list l -> Sorted ltk (set_spec l) /\ fin_list (set_spec l).
Proof.
  intros F. destruct (sort_sorted l F) as [S Fs]. split.
  - apply uniq_sorted; [assumption|]. now apply sorted_lef_lek.
  - rewrite Forall_forall in *. intros y Iy. apply Fs. now apply (uniq_incl eq_spec).
Qed.

(** std.set is strictly ascending, and std.setMember on it decides membership up to `==` *)
Lemma sort_set_coherent l x : fin_list l -> finite x = true ->
  Sorted ltk (set_impl l) /\
  set_member_impl x (set_impl l) = Some (existsb (fun y => eq_impl y x) l).
Proof.
  intros F Hx. destruct (set_is_spec l) as [_ ->]. destruct (set_spec_sorted l F) as [S Fs].
  split; [assumption|].
  rewrite set_member_complete by assumption. f_equal. unfold member_spec.
  rewrite Forall_forall in F, Fs.
  apply eq_true_iff_eq. rewrite !existsb_exists. split.
  - intros (y & Iy & Ey). exists y. split; [|now rewrite eq_impl_ieee].
    apply sort_in. now apply (uniq_incl eq_spec).
  - intros (y & Iy & Ey). rewrite eq_impl_ieee in Ey.
    assert (Fsort : fin_list (sort_impl l)) by (apply sort_sorted; now apply Forall_forall).
    destruct (uniq_cover (sort_impl l) Fsort y) as (y' & Iy' & K); [now apply sort_in|].
    exists y'. split; [exact Iy'|].
    apply eqs_key; [now apply Fs|assumption|]. rewrite K. apply eqs_key; [now apply F|assumption|assumption].
Qed.
