(** Statements of the C09 property theorems, pinned: weakening one breaks this file. *)
From Coq Require Import ZArith List Bool Reals Permutation Sorted.
From Flocq Require Import IEEE754.BinarySingleNaN IEEE754.Binary IEEE754.Bits Core.
From JrV Require Import Gen.GenConsts Gen.GenNum C09.Model C09.Proofs C09.ProofsSet C09.Properties.
Import ListNotations.
Open Scope Z_scope.

Check C09_add_checked :
  forall a b, finite a = true -> finite b = true -> arith_checked Rplus add_impl a b.
Check C09_sub_checked :
  forall a b, finite a = true -> finite b = true -> arith_checked Rminus sub_impl a b.
Check C09_mul_checked :
  forall a b, finite a = true -> finite b = true -> arith_checked Rmult mul_impl a b.
Check C09_div_checked :
  forall a b, finite a = true -> finite b = true ->
    if Req_bool (B2R64 b) 0 then div_impl a b = None else arith_checked Rdiv div_impl a b.
Check C09_div_mod_by_zero_partial :
  forall a b, finite b = true -> B2R64 b = 0%R -> div_impl a b = None /\ mod_impl a b = None.
Check C09_no_nonfinite_observable :
  forall a b r,
  add_impl a b = Some r \/ sub_impl a b = Some r \/ mul_impl a b = Some r \/ div_impl a b = Some r \/
  mod_impl a b = Some r \/ band_impl a b = Some r \/ bor_impl a b = Some r \/ bxor_impl a b = Some r \/
  shl_impl a b = Some r \/ shr_impl a b = Some r \/ neg_impl a = Some r \/ bnot_impl a = Some r \/
  abs_impl a = Some r \/ max_impl a b = Some r \/ min_impl a b = Some r ->
  finite r = true.
Check C09_trichotomy :
  forall a b, finite a = true -> finite b = true ->
  exactly_one (lt_impl a b) (eq_impl a b) (gt_impl a b) /\
  le_impl a b = (lt_impl a b || eq_impl a b) /\
  ge_impl a b = (gt_impl a b || eq_impl a b) /\
  gt_impl a b = lt_impl b a /\
  eq_impl a b = eq_impl b a.
Check C09_eq_is_ieee :
  forall a b, finite a = true -> finite b = true ->
  eq_impl a b = eq_spec a b /\ (eq_impl a b = true <-> B2R64 a = B2R64 b).
Check C09_eq_equivalence :
  (forall a, finite a = true -> eq_impl a a = true) /\
  (forall a b, finite a = true -> finite b = true -> eq_impl a b = true -> eq_impl b a = true) /\
  (forall a b c, finite a = true -> finite b = true -> finite c = true ->
     eq_impl a b = true -> eq_impl b c = true -> eq_impl a c = true).
Check C09_sort_sorted :
  forall l, Forall (fun y => finite y = true) l ->
  Sorted lef (sort_impl l) /\ Forall (fun y => finite y = true) (sort_impl l).
Check C09_sort_permutation : forall l, Permutation (sort_impl l) l.
Check C09_set_is_spec :
  forall l, uniq_impl l = uniq_spec l /\ set_impl l = set_spec l.
Check C09_sort_set_coherent :
  forall l x, Forall (fun y => finite y = true) l -> finite x = true ->
  Sorted ltk (set_impl l) /\
  set_member_impl x (set_impl l) = Some (existsb (fun y => eq_impl y x) l).
Check C09_set_member_complete :
  forall x l, finite x = true -> Forall (fun y => finite y = true) l -> Sorted ltk l ->
  set_member_impl x l = Some (existsb (fun y => eq_spec y x) l).
Check C09_bitwise_spec :
  forall f a b, finite a = true -> finite b = true -> bitop_impl f a b = bitop_spec f a b.
Check C09_safe_integer_value :
  forall a, finite a = true -> safe a = true ->
  -9007199254740991 <= trunc_Z a <= 9007199254740991 /\ trunc_Z a = Ztrunc (B2R64 a).
Check C09_shift_guard_exact :
  forall a b, finite a = true -> finite b = true ->
  known_shl_neg a b = false -> shl_impl a b = shl_spec a b.
Check C09_shift_guard_refuted :
  exists a b, finite a = true /\ finite b = true /\
  enc_num (shl_impl a b) = 0 /\ shl_spec a b = None /\ known_shl_neg a b = true.
Check C09_shr_spec :
  forall a b, finite a = true -> finite b = true -> shr_impl a b = shr_spec a b.
Check C09_bitnot_range :
  forall a, finite a = true -> bnot_impl a = bnot_spec a.
(** the definitions the statements rest on, pinned by evaluation (bit patterns) *)
Goal forall opR impl a b, arith_checked opR impl a b =
  (let x := round radix2 (FLT_exp (-1074) 53) ZnearestE (opR (B2R 53 1024 a) (B2R 53 1024 b)) in
   if Rlt_bool (Rabs x) (bpow radix2 1024)
   then (exists r : f64, impl a b = Some r /\ is_finite 53 1024 r = true /\ B2R 53 1024 r = x)
   else (impl a b = None)).
Proof. reflexivity. Qed.
Goal forall p q r, exactly_one p q r =
  ((p = true /\ q = false /\ r = false) \/ (p = false /\ q = true /\ r = false) \/
   (p = false /\ q = false /\ r = true)).
Proof. reflexivity. Qed.
Goal forall a b, lef a b = (le_impl a b = true).
Proof. reflexivity. Qed.
Goal forall a b, ltk a b = (B2R 53 1024 a < B2R 53 1024 b)%R.
Proof. reflexivity. Qed.
(* the code's equality and the checked operand conversions, as read from the source *)
Check eq_refl : (num_eq_epsilon, shr_count_checked, bitnot_checked) = (false, true, true).
Check eq_refl : bits_of_b64 (of_Z max_safe_integer) = bits_of_b64 f_max_safe.
Check eq_refl : bits_of_b64 (of_Z min_safe_integer) = bits_of_b64 f_min_safe.
Check eq_refl : bits_of_b64 f_epsilon = 4372995238176751616.   (* 2^-52 *)
Check eq_refl : enc_num (add_impl (b64_of_bits 4591870180066957722) (b64_of_bits 4596373779694328218))
                = 4599075939470750516.   (* 0.1 + 0.2 = 0.30000000000000004 *)
Check eq_refl : enc_num (mod_impl (b64_of_bits 13837309855095848960) (b64_of_bits 4611686018427387904))
                = 13830554455654793216.  (* -3 % 2 = -1 *)
Check eq_refl : enc_num (div_impl (of_Z 1) (b64_of_bits 9223372036854775808)) = -3.   (* 1 / -0 *)
Check eq_refl : enc_num (bitop_spec Z.land (of_Z (-2)) (of_Z 7)) = bits_of_b64 (of_Z 6).
Check eq_refl : enc_num (shl_spec (of_Z 1) (of_Z 62)) = bits_of_b64 (of_Z (2 ^ 62)).
Check eq_refl : enc_num (shl_spec (of_Z 1) (of_Z 63)) = -3.
Check eq_refl : enc_num (shl_spec (of_Z (-1)) (of_Z 63)) = bits_of_b64 (of_Z (- 2 ^ 63)).
Check eq_refl : enc_num (shl_spec (of_Z 1) (of_Z 64)) = bits_of_b64 (of_Z 1).       (* count mod 64 *)
Check eq_refl : enc_num (shr_spec (of_Z (-5)) (of_Z 1)) = bits_of_b64 (of_Z (-3)).  (* arithmetic shift *)
Check eq_refl : enc_num (bnot_spec (of_Z 5)) = bits_of_b64 (of_Z (-6)).
Check eq_refl : map bits_of_b64 (set_spec [of_Z 3; of_Z 1; of_Z 3; of_Z 2]) = map bits_of_b64 [of_Z 1; of_Z 2; of_Z 3].
