(** C09 — numbers are IEEE-754 doubles with checked range and coherent comparison.

    IMPL-MODEL: a transliteration of the numeric kernel of
      crates/jrsonnet-evaluator/src/val.rs            (NumValue::new, Ord, truncate_for_bitwise,
                                                       primitive_equals on numbers)
      crates/jrsonnet-evaluator/src/evaluate/operator.rs (unary/binary operators on numbers)
      crates/jrsonnet-stdlib/src/{sort,sets,math}.rs  (sort / uniq / set / setMember / minArray /
                                                       maxArray / abs / sign / max / min)
    over Flocq's binary64, *with the code's real arithmetic*: saturating `as i64`, wrapping
    shifts, the epsilon equality.  Constants and the shape of the shift / equality code are
    regenerated from the source (Gen/GenNum.v, Gen/GenConsts.v).
    SPEC: the [_spec] definitions, written from the Jsonnet language reference (IEEE
    comparison, bitwise operators on the integer value of safe-range operands, shift count
    modulo 64, overflow is an error) and, for the arithmetic, the real-number statements in
    Properties.v.
    Definitions only; proofs live in Proofs.v. *)
From Coq Require Import ZArith List Bool.
From Flocq Require Import IEEE754.BinarySingleNaN IEEE754.Binary IEEE754.Bits Core.
From JrV Require Import Gen.GenConsts Gen.GenNum.
Import ListNotations.
Open Scope Z_scope.

Notation f64 := binary64.
Notation finite := (is_finite 53 1024).

Definition Hprec53 : Prec_gt_0 53 := eq_refl.
Definition Hmax1024 : Prec_lt_emax 53 1024 := eq_refl.

(** * Basic values *)
Definition f_zero : f64 := B754_zero 53 1024 false.
(** `i64 as f64` (also u64/usize as f64): round to nearest even; never overflows *)
Definition of_Z (z : Z) : f64 := binary_normalize 53 1024 Hprec53 Hmax1024 mode_NE z 0 false.
Definition f_one : f64 := of_Z 1.
(** MAX_SAFE_INTEGER / MIN_SAFE_INTEGER = +-(2^53 - 1) as doubles; Pins.v checks that these
    bit patterns are [of_Z] of the constants read from conversions.rs *)
Definition f_max_safe : f64 := b64_of_bits 4845873199050653695.
Definition f_min_safe : f64 := b64_of_bits 14069245235905429503.
(** f64::EPSILON = 2^-52 *)
Definition f_epsilon : f64 := b64_of_bits 4372995238176751616.

(** [NumValue::new] / [Val::try_num] / [IntoUntyped for f64]: the finite check every result
    goes through.  [None] is a Jsonnet error. *)
Definition num_new (x : f64) : option f64 := if finite x then Some x else None.

(** * Comparison: [Ord for NumValue] is [partial_cmp(..).unwrap_unchecked()] *)
Definition cmp (a b : f64) : comparison :=
  match b64_compare a b with Some c => c | None => Eq end.
Definition is_lt (c : comparison) := match c with Lt => true | _ => false end.
Definition is_gt (c : comparison) := match c with Gt => true | _ => false end.
Definition is_le (c : comparison) := negb (is_gt c).
Definition is_ge (c : comparison) := negb (is_lt c).
Definition is_eq (c : comparison) := match c with Eq => true | _ => false end.
Definition lt_impl a b := is_lt (cmp a b).
Definition gt_impl a b := is_gt (cmp a b).
Definition le_impl a b := is_le (cmp a b).
Definition ge_impl a b := is_ge (cmp a b).

(** raw f64 comparisons `x < y`, `x <= y`, `x == y` (false when unordered) *)
Definition flt (a b : f64) := match b64_compare a b with Some Lt => true | _ => false end.
Definition fle (a b : f64) := match b64_compare a b with Some Lt | Some Eq => true | _ => false end.
Definition feq (a b : f64) := match b64_compare a b with Some Eq => true | _ => false end.

(** * Equality *)
(** SPEC: IEEE equality *)
Definition eq_spec (a b : f64) : bool := feq a b.
(** what val.rs did before ce0d2fe: `(a - b).abs() <= f64::EPSILON` (kept: the translator still
    recognises that form and the model then follows it) *)
Definition eq_eps (a b : f64) : bool := fle (b64_abs (b64_minus mode_NE a b)) f_epsilon.
(** IMPL-MODEL of [primitive_equals] on numbers (shape read from the source) *)
Definition eq_impl (a b : f64) : bool := if num_eq_epsilon then eq_eps a b else feq a b.
(** the input class on which the epsilon equality differs from IEEE equality *)
Definition known_eps (a b : f64) : bool := eq_eps a b && negb (eq_spec a b).

(** * Arithmetic *)
Definition neg_impl (a : f64) : option f64 := num_new (b64_opp a).
Definition add_impl (a b : f64) : option f64 := num_new (b64_plus mode_NE a b).
Definition sub_impl (a b : f64) : option f64 := num_new (b64_minus mode_NE a b).
Definition mul_impl (a b : f64) : option f64 := num_new (b64_mult mode_NE a b).
(** [is_attempt_to_divide_by_zero]: `**b == 0.` *)
Definition div_impl (a b : f64) : option f64 :=
  if feq b f_zero then None else num_new (b64_div mode_NE a b).

(** Rust `%` on f64 is C `fmod`: the exact remainder of the truncated division, with the
    sign of the dividend.  [None] = NaN. *)
Definition fmod (a b : f64) : option f64 :=
  match a, b with
  | B754_zero _ _ _, B754_finite _ _ _ _ _ _ => Some a
  | B754_finite _ _ _ _ _ _, B754_infinity _ _ _ => Some a
  | B754_zero _ _ _, B754_infinity _ _ _ => Some a
  | B754_finite _ _ sa ma ea _, B754_finite _ _ _ mb eb _ =>
      let e := Z.min ea eb in
      let xa := Zpos ma * 2 ^ (ea - e) in
      let xb := Zpos mb * 2 ^ (eb - e) in
      Some (binary_normalize 53 1024 Hprec53 Hmax1024 mode_NE (cond_Zopp sa (xa mod xb)) e sa)
  | _, _ => None
  end.
Definition mod_impl (a b : f64) : option f64 :=
  if feq b f_zero then None
  else match fmod a b with Some r => num_new r | None => None end.

(** * Bitwise operators *)
Definition i64_min : Z := - 2 ^ 63.
Definition i64_max : Z := 2 ^ 63 - 1.
Definition wrap64 (z : Z) : Z := (z + 2 ^ 63) mod 2 ^ 64 - 2 ^ 63.
(** integer value: truncation toward zero *)
Definition trunc_Z (a : f64) : Z := Btrunc 53 1024 a.
(** `x as i64` on a finite f64: truncation, saturating *)
Definition cast_i64 (a : f64) : Z := Z.max i64_min (Z.min i64_max (trunc_Z a)).
(** [NumValue::truncate_for_bitwise] *)
Definition tfb (a : f64) : option Z :=
  if flt a f_min_safe || flt f_max_safe a then None else Some (cast_i64 a).

Definition bitop_impl (f : Z -> Z -> Z) (a b : f64) : option f64 :=
  match tfb a, tfb b with
  | Some x, Some y => num_new (of_Z (f x y))
  | _, _ => None
  end.
Definition band_impl := bitop_impl Z.land.
Definition bor_impl := bitop_impl Z.lor.
Definition bxor_impl := bitop_impl Z.lxor.

(** `<<` *)
Definition shl_impl (a b : f64) : option f64 :=
  if flt b f_zero then None
  else match tfb a, tfb b with
       | Some base, Some c =>
           let exp := Z.rem c shl_count_modulus in
           if (shl_guard_min_exp <=? exp) && (2 ^ (shl_guard_bits - exp) <=? base) then None
           else num_new (of_Z (wrap64 (base * 2 ^ (Z.land exp 63))))  (* wrapping_shl *)
       | _, _ => None
       end.
(** `>>` : i64 arithmetic shift (wrapping_shr masks the count with 63) *)
Definition shr_impl (a b : f64) : option f64 :=
  if flt b f_zero then None
  else
    let count := if shr_count_checked then tfb b else Some (cast_i64 b) in
    match count, tfb a with
    | Some c, Some x =>
        let exp := Z.land c shr_count_mask in
        num_new (of_Z (Z.shiftr x (Z.land exp 63)))
    | _, _ => None
    end.
(** `~` *)
Definition bnot_impl (a : f64) : option f64 :=
  match (if bitnot_checked then tfb a else Some (cast_i64 a)) with
  | Some x => num_new (of_Z (Z.lnot x))
  | None => None
  end.

(** SPEC of the bitwise operators: both operands in the safe-integer range, the result is the
    operation on their integer values; shift counts are non-negative and taken modulo 64; a
    left shift whose mathematical result does not fit a signed 64-bit integer is an error.
    The integer result converts to the nearest double ([of_Z], exact up to 2^53 and for every
    shifted safe integer: C09_of_Z_exact) and passes the same finite check as every number. *)
Definition safe (a : f64) : bool := fle f_min_safe a && fle a f_max_safe.
Definition bitop_spec (f : Z -> Z -> Z) (a b : f64) : option f64 :=
  if safe a && safe b then num_new (of_Z (f (trunc_Z a) (trunc_Z b))) else None.
Definition shl_spec (a b : f64) : option f64 :=
  if safe a && safe b && negb (flt b f_zero) then
    let r := trunc_Z a * 2 ^ (trunc_Z b mod 64) in
    if (i64_min <=? r) && (r <=? i64_max) then num_new (of_Z r) else None
  else None.
Definition shr_spec (a b : f64) : option f64 :=
  if safe a && safe b && negb (flt b f_zero) then
    num_new (of_Z (trunc_Z a / 2 ^ (trunc_Z b mod 64)))
  else None.
Definition bnot_spec (a : f64) : option f64 :=
  if safe a then num_new (of_Z (- trunc_Z a - 1)) else None.

(** input classes on which the code leaves / left the spec.  [known_shr_count] and [known_bnot]
    are empty since 8b733a9 (the regenerated flags make them [false]), [known_eps] is no longer
    consulted since ce0d2fe; [known_shl_neg] is a standing known finding. *)
Definition known_shl_neg (a b : f64) : bool :=      (* negative base whose shift overflows *)
  safe a && safe b && negb (flt b f_zero) && (trunc_Z a * 2 ^ (trunc_Z b mod 64) <? i64_min).
Definition known_shr_count (a b : f64) : bool :=    (* count above the safe-integer range *)
  negb shr_count_checked && safe a && flt f_max_safe b.
Definition known_bnot (a : f64) : bool :=           (* operand outside the safe-integer range *)
  negb bitnot_checked && negb (safe a).

(** * std.sort / std.uniq / std.set / std.setMember / std.minArray / std.maxArray on numbers *)
(** sort.rs sorts number arrays with the stable [sort_by_key] under [Ord for NumValue]; every
    stable sort gives the same list.  Modelled as (stable) insertion sort. *)
Fixpoint insert (x : f64) (l : list f64) : list f64 :=
  match l with
  | [] => [x]
  | y :: t => if is_gt (cmp x y) then y :: insert x t else x :: l
  end.
Definition sort_impl (l : list f64) : list f64 := fold_right insert [] l.

(** [uniq_identity]: keep an element iff it is not equal to its predecessor *)
Fixpoint uniq_aux (eq : f64 -> f64 -> bool) (last : f64) (l : list f64) : list f64 :=
  match l with
  | [] => []
  | x :: t => if eq last x then uniq_aux eq x t else x :: uniq_aux eq x t
  end.
Definition uniq_by (eq : f64 -> f64 -> bool) (l : list f64) : list f64 :=
  match l with [] => [] | x :: t => x :: uniq_aux eq x t end.
Definition uniq_impl := uniq_by eq_impl.
Definition uniq_spec := uniq_by eq_spec.
Definition set_impl (l : list f64) := uniq_impl (sort_impl l).
Definition set_spec (l : list f64) := uniq_spec (sort_impl l).

(** [builtin_set_member]: binary search with [evaluate_compare_op].  [None] = out of fuel
    (excluded by the theorems) or an index out of bounds (`expect("in bounds")`). *)
Fixpoint bsearch (fuel : nat) (x : f64) (l : list f64) (low high : nat) : option bool :=
  match fuel with
  | O => None
  | S f =>
      if (low <? high)%nat then
        let middle := ((high + low) / 2)%nat in
        match nth_error l middle with
        | None => None
        | Some c =>
            match cmp c x with
            | Lt => bsearch f x l (S middle) high
            | Eq => Some true
            | Gt => bsearch f x l low middle
            end
        end
      else Some false
  end.
Definition set_member_impl (x : f64) (l : list f64) : option bool :=
  bsearch (S (length l)) x l 0%nat (length l).
Definition member_spec (x : f64) (l : list f64) : bool := existsb (fun y => eq_spec y x) l.

(** [array_top1]: first element that is strictly better than every earlier one *)
Definition top1 (want : comparison) (l : list f64) : option f64 :=
  match l with
  | [] => None
  | x :: t => Some (fold_left (fun m cur => match cmp cur m, want with
                                            | Lt, Lt => cur | Gt, Gt => cur | _, _ => m end) t x)
  end.
Definition min_array := top1 Lt.
Definition max_array := top1 Gt.

(** math.rs: abs, sign, max, min (f64::max/min on finite operands), and the correctly rounded
    functions IEEE mandates: floor, ceil, round (half away from zero), sqrt, frexp *)
Definition abs_impl (a : f64) : option f64 := num_new (b64_abs a).
Definition sign_impl (a : f64) : option f64 :=
  if feq a f_zero then Some f_zero
  else if flt a f_zero then Some (of_Z (-1)) else Some f_one.
Definition max_impl (a b : f64) : option f64 := num_new (if flt a b then b else a).
Definition min_impl (a b : f64) : option f64 := num_new (if flt b a then b else a).
Definition floor_spec (a : f64) : option f64 := num_new (Bnearbyint 53 1024 Hmax1024 unop_nan_pl64 mode_DN a).
Definition ceil_spec (a : f64) : option f64 := num_new (Bnearbyint 53 1024 Hmax1024 unop_nan_pl64 mode_UP a).
Definition round_spec (a : f64) : option f64 := num_new (Bnearbyint 53 1024 Hmax1024 unop_nan_pl64 mode_NA a).
Definition sqrt_spec (a : f64) : option f64 :=
  if flt a f_zero then None else num_new (b64_sqrt mode_NE a).
(** exact frexp: x = mantissa * 2^exponent, 1/2 <= |mantissa| < 1 (0 for x = 0) *)
Definition mantissa_spec (a : f64) : option f64 :=
  if feq a f_zero then Some a else num_new (fst (Bfrexp 53 1024 Hprec53 a)).
Definition exponent_spec (a : f64) : option f64 :=
  if feq a f_zero then Some f_zero else Some (of_Z (snd (Bfrexp 53 1024 Hprec53 a))).

(** * Executable interface for the correspondence: numbers cross as 64-bit patterns.
    Encoding of an outcome as one integer: bits >= 0 for a number, -1 true, -2 false, -3 error. *)
Definition enc_num (r : option f64) : Z := match r with Some x => bits_of_b64 x | None => -3 end.
Definition enc_bool (b : bool) : Z := if b then -1 else -2.
Definition enc_obool (b : option bool) : Z := match b with Some b => enc_bool b | None => -3 end.

(** binary operators in the harness order: + - * / % < <= > >= == != & | ^ << >> *)
Definition row_impl (a b : f64) : list Z :=
  [ enc_num (add_impl a b); enc_num (sub_impl a b); enc_num (mul_impl a b); enc_num (div_impl a b);
    enc_num (mod_impl a b);
    enc_bool (lt_impl a b); enc_bool (le_impl a b); enc_bool (gt_impl a b); enc_bool (ge_impl a b);
    enc_bool (eq_impl a b); enc_bool (negb (eq_impl a b));
    enc_num (band_impl a b); enc_num (bor_impl a b); enc_num (bxor_impl a b);
    enc_num (shl_impl a b); enc_num (shr_impl a b) ].
(** the positions of a row the SPEC defines separately from the impl-model, in harness order
    < <= > >= == != & | ^ << >>  (comparisons derived from the IEEE order, IEEE equality, bitwise
    spec).  The arithmetic positions are specified by the real-number theorems
    (C09_add_checked ...) about the very functions [row_impl] runs. *)
Definition row_spec (a b : f64) : list Z :=
  [ enc_bool (flt a b); enc_bool (fle a b); enc_bool (flt b a); enc_bool (fle b a);
    enc_bool (eq_spec a b); enc_bool (negb (eq_spec a b));
    enc_num (bitop_spec Z.land a b); enc_num (bitop_spec Z.lor a b); enc_num (bitop_spec Z.lxor a b);
    enc_num (shl_spec a b); enc_num (shr_spec a b) ].
(** known-finding classes of a pair: epsilon equality, negative-base shift overflow,
    right-shift count range *)
Definition row_known (a b : f64) : list Z :=
  [ if known_eps a b then 1 else 0; if known_shl_neg a b then 1 else 0;
    if known_shr_count a b then 1 else 0 ].

(** unary: + - ~ ; impl, then spec of ~ and its known class *)
Definition un_impl (a : f64) : list Z := [enc_num (num_new a); enc_num (neg_impl a); enc_num (bnot_impl a)].

Definition run_row (ai : Z) (d : list Z) : list Z * list Z * list (list Z * list Z * list Z) :=
  let a := b64_of_bits ai in
  (un_impl a, [enc_num (bnot_spec a); if known_bnot a then 1 else 0],
   map (fun bi => let b := b64_of_bits bi in (row_impl a b, row_spec a b, row_known a b)) d).

(** numeric binary operators by index (harness order), for composed expressions *)
Definition binop_impl (k : Z) (a b : f64) : option f64 :=
  match k with
  | 0 => add_impl a b | 1 => sub_impl a b | 2 => mul_impl a b | 3 => div_impl a b | 4 => mod_impl a b
  | 11 => band_impl a b | 12 => bor_impl a b | 13 => bxor_impl a b | 14 => shl_impl a b
  | 15 => shr_impl a b
  | _ => None
  end.
(** (a op1 b) op2 c *)
Definition run_triple (k1 k2 ai bi ci : Z) : Z :=
  match binop_impl k1 (b64_of_bits ai) (b64_of_bits bi) with
  | Some x => enc_num (binop_impl k2 x (b64_of_bits ci))
  | None => -3
  end.

(** list functions: sort, uniq (impl/spec), set (impl/spec), minArray, maxArray, and
    setMember of every x in [qs] in the array [set_spec l]: (impl, spec) *)
Definition run_list (l qs : list Z) :
  list Z * list Z * list Z * list Z * list Z * Z * Z * list (Z * Z) :=
  let fl := map b64_of_bits l in
  let s := set_spec fl in
  (map bits_of_b64 (sort_impl fl), map bits_of_b64 (uniq_impl fl), map bits_of_b64 (uniq_spec fl),
   map bits_of_b64 (set_impl fl), map bits_of_b64 s,
   enc_num (min_array fl), enc_num (max_array fl),
   map (fun x => (enc_obool (set_member_impl (b64_of_bits x) s),
                  enc_bool (member_spec (b64_of_bits x) s))) qs).
(** unary std functions: abs sign floor ceil round sqrt mantissa exponent *)
Definition run_math1 (ai : Z) : list Z :=
  let a := b64_of_bits ai in
  [enc_num (abs_impl a); enc_num (sign_impl a); enc_num (floor_spec a); enc_num (ceil_spec a);
   enc_num (round_spec a); enc_num (sqrt_spec a); enc_num (mantissa_spec a); enc_num (exponent_spec a)].
Definition run_minmax (ai bi : Z) : list Z :=
  let a := b64_of_bits ai in let b := b64_of_bits bi in
  [enc_num (max_impl a b); enc_num (min_impl a b)].
