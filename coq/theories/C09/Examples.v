(** C09 — non-vacuity: the hypotheses of every restricted theorem are satisfiable by
    non-trivial instances (values as bit patterns). *)
From Coq Require Import ZArith List Bool.
From Flocq Require Import IEEE754.BinarySingleNaN IEEE754.Binary IEEE754.Bits Core.
From JrV Require Import Gen.GenConsts Gen.GenNum C09.Model C09.Proofs C09.ProofsSet.
Import ListNotations.
Open Scope Z_scope.

Definition x_third := b64_of_bits 4599676419421066581.  (* 1/3 *)
Definition x_big := b64_of_bits 9214871658872686752.    (* 1e308 *)
Definition x_5 := b64_of_bits 4617315517961601024.      (* 5 *)
Definition x_m7 := b64_of_bits 13842939354630062080.    (* -7 *)
Definition x_40 := b64_of_bits 4630826316843712512.     (* 40 *)

(* arithmetic: a finite result and an overflow both occur *)
Example nv_arith : finite x_third = true /\ finite x_big = true /\
  enc_num (add_impl x_third x_big) = 9214871658872686752 /\ enc_num (mul_impl x_big x_5) = -3 /\
  enc_num (div_impl x_5 x_third) = 4624633867356078080.
Proof. vm_compute. repeat split. Qed.
(* equality: both answers occur; the formerly merged pair 1e-20 / 2e-20 is now distinguished; +0 == -0 *)
Example nv_eq : eq_impl x_third x_5 = false /\ eq_impl x_5 x_5 = true /\
  eq_impl w_1e20 w_2e20 = false /\ lt_impl w_1e20 w_2e20 = true /\
  eq_impl f_zero (b64_of_bits 9223372036854775808) = true.
Proof. vm_compute. repeat split. Qed.
(* sort / set / setMember on a list with duplicates, near-equal values and both zeros *)
Example nv_set : let l := [x_5; w_2e20; x_m7; f_zero; x_5; w_1e20; b64_of_bits 9223372036854775808] in
  Forall (fun y => finite y = true) l /\
  map bits_of_b64 (set_impl l) = map bits_of_b64 [x_m7; f_zero; w_1e20; w_2e20; x_5] /\
  set_member_impl w_2e20 (set_impl l) = Some true /\
  set_member_impl x_third (set_impl l) = Some false.
Proof. vm_compute. repeat split; repeat constructor. Qed.
(* bitwise / shifts: safe operands, a successful and a rejected shift, negative base in range *)
Example nv_bits : safe x_5 = true /\ safe x_m7 = true /\ safe x_big = false /\
  enc_num (band_impl x_m7 x_5) = bits_of_b64 (of_Z 1) /\
  known_shl_neg x_m7 x_40 = false /\ enc_num (shl_impl x_m7 x_40) = bits_of_b64 (of_Z (-7 * 2 ^ 40)) /\
  known_shl_neg x_5 (of_Z 62) = false /\ enc_num (shl_impl x_5 (of_Z 62)) = -3 /\
  known_shr_count x_m7 x_5 = false /\ enc_num (shr_impl x_m7 x_5) = bits_of_b64 (of_Z (-1)) /\
  known_bnot x_m7 = false /\ enc_num (bnot_impl x_m7) = bits_of_b64 (of_Z 6).
Proof. vm_compute. repeat split. Qed.
(* `>>` and `~`: accepted and rejected operands both occur *)
Example nv_range : enc_num (shr_impl x_m7 x_big) = -3 /\ enc_num (bnot_impl x_big) = -3 /\
  enc_num (shr_impl x_big x_5) = -3.
Proof. vm_compute. repeat split. Qed.
