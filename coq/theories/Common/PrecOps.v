(* Operator vocabulary shared by the regenerated precedence tables (Gen/GenPrec.v) and the
   C06 parser models.  Definitions only. *)
From Coq Require Import NArith List Bool.
Import ListNotations.

(* The 19 binary operators of standard Jsonnet (jrsonnet_ir::BinaryOpType without the
   experimental `??`). *)
Inductive binop :=
| Or | And | BitOr | BitXor | BitAnd | Eq | Neq | Lt | Gt | Lte | Gte | In
| Lhs | Rhs | Add | Sub | Mul | Div | Mod.

(* jrsonnet_ir::UnaryOpType *)
Inductive unop := UPlus | UMinus | UNot | UBitNot.

Definition all_binops : list binop :=
  [Or; And; BitOr; BitXor; BitAnd; Eq; Neq; Lt; Gt; Lte; Gte; In; Lhs; Rhs; Add; Sub; Mul; Div; Mod].
Definition all_unops : list unop := [UPlus; UMinus; UNot; UBitNot].

Definition binop_eqb (a b : binop) : bool :=
  match a, b with
  | Or, Or | And, And | BitOr, BitOr | BitXor, BitXor | BitAnd, BitAnd | Eq, Eq | Neq, Neq
  | Lt, Lt | Gt, Gt | Lte, Lte | Gte, Gte | In, In | Lhs, Lhs | Rhs, Rhs | Add, Add | Sub, Sub
  | Mul, Mul | Div, Div | Mod, Mod => true
  | _, _ => false
  end.

Definition unop_eqb (a b : unop) : bool :=
  match a, b with
  | UPlus, UPlus | UMinus, UMinus | UNot, UNot | UBitNot, UBitNot => true
  | _, _ => false
  end.

(* A binding-power table as a Pratt parser uses it: a binary operator is consumed by the loop
   running at minimum power [m] unless [lbp b < m]; its right operand is parsed at [rbp b];
   the operand of a prefix operator is parsed at [pbp u]; [pbp u = None] means the parser has
   no such prefix operator. *)
Record table := Table {
  lbp : binop -> N;
  rbp : binop -> N;
  pbp : unop -> option N;
}.
