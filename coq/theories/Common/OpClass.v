(** Common/OpClass.v — vocabulary of the translated operator dispatch.

    Gen/GenOps.v (written by translator/gens/ops.py from evaluate/operator.rs and val.rs on
    every run) lists the arms of the evaluator's `match` expressions in source order, using the
    types below: a pattern per operand (a [Val] variant or "anything"), an optional guard, and
    the CLASS of what the arm's body does.  Nothing here is executable semantics; C01/ModelOps.v
    gives the first-match reading of the arm lists and C01/ProofsOps.v ties it to Sem. *)
From Coq Require Import List Bool.
From JrV Require Import Sem.Syntax.
Import ListNotations.

(** the variants of [Val] (the exp-bigint variant is outside the checked build) *)
Inductive vty := TNull | TBool | TNum | TStr | TArr | TObj | TFunc.

Inductive pat := PAny | PTy (t : vty).

(** guards the translator recognises: `if a.is_empty()` on the string bound on the left / right,
    `if is_function_like(a) && is_function_like(b)` *)
Inductive guard := GNone | GLeftEmpty | GRightEmpty | GBothFunc.

Inductive arith := OpAdd | OpSub | OpMul | OpDiv | OpRem.
Inductive bitop := OpAnd | OpOr | OpXor.
Inductive ordtest := IsLt | IsGt | IsLe | IsGe.
Inductive side := SideL | SideR.

(** body classes of the arms of evaluate_{add,sub,mul,div,mod}_op *)
Inductive action :=
| ATypeError                 (* bail!(BinaryOperatorDoesNotOperateOnValues(<this operator>, ..)) *)
| ANumArith (o : arith)      (* Val::try_num(l.get() o r.get())? *)
| AStrConcat                 (* Str(StrValue::concat(l, r)) *)
| ADisplayConcat             (* Val::string(format!("{l}{r}")): both payloads through Display *)
| AToStringOf (s : side)     (* Val::string(x.to_string()?): the operand on side s alone *)
| AStrThenToString           (* format!("{l}{}", r.to_string()?) *)
| AToStringThenStr           (* format!("{}{r}", l.to_string()?) *)
| AObjExtend                 (* Obj(r.extend_from(l)) *)
| AArrExtend                 (* ArrValue::extended(l, r) *)
| AStrRepeat (s : side)      (* the string on side s, repeated; the count is on the other side *)
| AFormat.                   (* std_format(l, r) *)

Record arm2 := Arm2 { a2_l : pat; a2_r : pat; a2_g : guard; a2_act : action }.

(** is_attempt_to_divide_by_zero: result class of an arm *)
Inductive zres := ZFalse | ZRightIsZero.
Record zarm := ZArm { z_l : pat; z_r : pat; z_res : zres }.

(** evaluate_compare_op *)
(* CmpPayload: `a.cmp(b)` on the two payloads (numbers or strings) *)
Inductive caction := CmpPayload | CmpArr | CmpTypeError.
Record carm := CArm { c_l : pat; c_r : pat; c_act : caction }.

(** evaluate_binary_op_normal *)
Inductive fn2 := FAdd | FSub | FMul | FDiv | FMod.
Inductive naction :=
| NTypeError
| NEquals (neg : bool)       (* Bool(equals(a, b)?) / Bool(!equals(a, b)?) *)
| NCompare (t : ordtest)     (* Bool(evaluate_compare_op(a, b, op)?.is_xx()) *)
| NIn                        (* Bool(obj.has_field_ex(name, true)) *)
| NBoolAnd | NBoolOr         (* Bool(l && r), Bool(l || r) on the two payloads *)
| NCall (f : fn2)            (* evaluate_<f>_op(a, b)? *)
| NBit (o : bitop)           (* try_num((l.truncate_for_bitwise()? o r.truncate_for_bitwise()?) as f64)? *)
| NShl | NShr.               (* the arms whose result is base.wrapping_shl / wrapping_shr *)
Inductive opat := OAny | OOp (o : binop).
Record narm := NArm { n_l : pat; n_o : opat; n_r : pat; n_act : naction }.

(** evaluate_unary_op *)
Inductive uaction := UaKeep | UaNegate | UaNot | UaBitNot | UaTypeError.
Inductive upat := UAnyOp | UOp (o : unop).
Record uarm := UArm { u_o : upat; u_v : pat; u_act : uaction }.

(** evaluate_binary_op_special: the left operand has been evaluated, the right one is still an
    expression *)
Inductive lpat := LAny | LBool (b : bool).
Inductive saction :=
| SShort (b : bool)          (* Val::Bool(b); the right expression is not mentioned *)
| SNormal.                   (* evaluate_binary_op_normal(&a, op, &evaluate(ctx, eb)?)? *)
Record sarm := SArm { s_l : lpat; s_o : opat; s_act : saction }.

(** val.rs: equals / primitive_equals *)
Inductive eaction := EArrElems | EObjFields | EPrimitive.
Record earm := EArm { e_l : pat; e_r : pat; e_act : eaction }.
Inductive paction :=
| PEqPayload                 (* a == b on bool / string payloads *)
| PEqNum                     (* a.get() == b.get() *)
| PTrue
| PBailContainer             (* bail!("primitiveEquals operates on primitive types, got ..") *)
| PBailFunc                  (* bail!("cannot test equality of functions") *)
| PFalse.
Record parm := PArm { p_l : pat; p_r : pat; p_g : guard; p_act : paction }.
