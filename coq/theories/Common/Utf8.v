(** UTF-8 (RFC 3629 / Unicode table 3-7) on code-point lists and byte lists.

    [encode]        code points -> bytes (what a Rust [str] / [IStr] holds)
    [run]           the well-formed-sequence automaton; emits [Some c] per decoded scalar value
                    and [None] per maximal ill-formed subpart
    [decode]        strict decoder ([String::from_utf8], [IBytes::cast_str])
    [decode_lossy]  U+FFFD per maximal ill-formed subpart ([String::from_utf8_lossy])

    Proved here (all byte / code-point lists, no bound):
      run_encode          run D0 (encode s ++ r) = map Some s ++ run D0 r      (scalar s)
      decode_encode       decode (encode s) = Some s
      decode_sound        decode bs = Some s -> encode s = bs /\ all scalar
      lossy_of_valid      decode bs = Some s -> decode_lossy bs = s
      encode_prefix       encode p ++ x = encode s -> p is the code-point prefix of s
      encode_inj          encode a = encode b -> a = b
      enc1_head_not_cont / enc1_tail_cont   lead bytes are not continuation bytes, all
                          following bytes are (self-synchronisation) *)
From Coq Require Import List NArith ZArith Bool Lia.
Import ListNotations.
Local Open Scope N_scope.

Ltac Zify.zify_post_hook ::= Z.to_euclidean_division_equations.

Definition scalar (c : N) : bool := (c <? 55296) || ((57344 <=? c) && (c <=? 1114111)).

Definition enc1 (c : N) : list N :=
  if c <? 128 then [c]
  else if c <? 2048 then [192 + c / 64; 128 + c mod 64]
  else if c <? 65536 then [224 + c / 4096; 128 + (c / 64) mod 64; 128 + c mod 64]
  else [240 + c / 262144; 128 + (c / 4096) mod 64; 128 + (c / 64) mod 64; 128 + c mod 64].

Definition encode (s : list N) : list N := flat_map enc1 s.

(** [DC n acc lo hi]: inside a sequence; the next byte must lie in [lo..hi]; [n] more
    continuation bytes follow it; [acc] holds the payload bits read so far. *)
Inductive dstate := D0 | DC (n : nat) (acc lo hi : N).

Definition start (b : N) : list (option N) * dstate :=
  if b <? 128 then ([Some b], D0)
  else if b <? 194 then ([None], D0)
  else if b <? 224 then ([], DC 0 (b - 192) 128 191)
  else if b =? 224 then ([], DC 1 (b - 224) 160 191)
  else if b <? 237 then ([], DC 1 (b - 224) 128 191)
  else if b =? 237 then ([], DC 1 (b - 224) 128 159)
  else if b <? 240 then ([], DC 1 (b - 224) 128 191)
  else if b =? 240 then ([], DC 2 (b - 240) 144 191)
  else if b <? 244 then ([], DC 2 (b - 240) 128 191)
  else if b =? 244 then ([], DC 2 (b - 240) 128 143)
  else ([None], D0).

Definition step (st : dstate) (b : N) : list (option N) * dstate :=
  match st with
  | D0 => start b
  | DC n acc lo hi =>
      if (lo <=? b) && (b <=? hi) then
        let acc' := acc * 64 + (b - 128) in
        match n with
        | O => ([Some acc'], D0)
        | S n' => ([], DC n' acc' 128 191)
        end
      else let (o, st') := start b in (None :: o, st')
  end.

Fixpoint run (st : dstate) (bs : list N) : list (option N) :=
  match bs with
  | [] => match st with D0 => [] | _ => [None] end
  | b :: r => let (o, st') := step st b in o ++ run st' r
  end.

Fixpoint sequence (l : list (option N)) : option (list N) :=
  match l with
  | [] => Some []
  | Some c :: r => match sequence r with Some s => Some (c :: s) | None => None end
  | None :: _ => None
  end.

Definition decode (bs : list N) : option (list N) := sequence (run D0 bs).
Definition replacement : N := 65533.
Definition decode_lossy (bs : list N) : list N :=
  map (fun o => match o with Some c => c | None => replacement end) (run D0 bs).
Definition valid_utf8 (bs : list N) : bool := match decode bs with Some _ => true | None => false end.

Definition is_cont (b : N) : bool := (128 <=? b) && (b <=? 191).

(** * Proofs *)
Local Arguments N.add : simpl never.
Local Arguments N.mul : simpl never.
Local Arguments N.sub : simpl never.
Local Arguments N.div : simpl never.
Local Arguments N.modulo : simpl never.
Local Arguments N.leb : simpl never.
Local Arguments N.ltb : simpl never.
Local Arguments N.eqb : simpl never.

Ltac brk :=
  repeat match goal with
  | |- context [if (?a <=? ?b) && (?c <=? ?d) then _ else _] =>
      destruct (N.leb_spec a b); destruct (N.leb_spec c d); cbn [andb]; try lia
  | |- context [if ?a <? ?b then _ else _] => destruct (N.ltb_spec a b); try lia
  | |- context [if ?a =? ?b then _ else _] => destruct (N.eqb_spec a b); try lia
  end.

Lemma scalar_spec c : scalar c = true <-> (c < 55296 \/ (57344 <= c /\ c <= 1114111)).
Proof.
  unfold scalar. rewrite orb_true_iff, andb_true_iff, N.ltb_lt, !N.leb_le. tauto.
Qed.

Ltac go := repeat (progress (cbn [app run step]; unfold start; brk)).

Lemma run_enc1 c r : scalar c = true -> run D0 (enc1 c ++ r) = Some c :: run D0 r.
Proof.
  intros Hs. apply scalar_spec in Hs. unfold enc1.
  destruct (N.ltb_spec c 128); [|destruct (N.ltb_spec c 2048); [|destruct (N.ltb_spec c 65536)]];
    go; f_equal; f_equal; lia.
Qed.

Lemma run_encode s : forall r, forallb scalar s = true ->
  run D0 (encode s ++ r) = map Some s ++ run D0 r.
Proof.
  induction s as [|c s IH]; intros r H; [reflexivity|].
  cbn [forallb] in H. apply andb_true_iff in H as [Hc Hs].
  cbn [encode flat_map]. fold (encode s). rewrite <- app_assoc, run_enc1 by assumption.
  cbn [map app]. now rewrite IH.
Qed.

Lemma sequence_map_Some s : sequence (map Some s) = Some s.
Proof. induction s as [|c s IH]; [reflexivity|]. cbn. now rewrite IH. Qed.

Lemma sequence_Some_inv l s : sequence l = Some s -> l = map Some s.
Proof.
  revert s. induction l as [|[c|] l IH]; intros s H; cbn in H.
  - now inversion H.
  - destruct (sequence l) eqn:E; [|discriminate]. inversion H; subst. cbn. f_equal. now apply IH.
  - discriminate.
Qed.

Lemma decode_encode s : forallb scalar s = true -> decode (encode s) = Some s.
Proof.
  intros H. unfold decode. rewrite <- (app_nil_r (encode s)), run_encode by assumption.
  cbn [run]. rewrite app_nil_r. apply sequence_map_Some.
Qed.

Lemma lossy_encode s : forallb scalar s = true -> decode_lossy (encode s) = s.
Proof.
  intros H. unfold decode_lossy. rewrite <- (app_nil_r (encode s)), run_encode by assumption.
  cbn [run]. rewrite app_nil_r, map_map. apply map_id.
Qed.

(** ** Soundness of the decoder: whatever it accepts is the encoding of what it returns. *)

Ltac brk_in H :=
  repeat match type of H with
  | context [if (?a <=? ?b) && (?c <=? ?d) then _ else _] =>
      destruct (N.leb_spec a b); destruct (N.leb_spec c d); cbn [andb] in H
  | context [if ?a <? ?b then _ else _] => destruct (N.ltb_spec a b)
  | context [if ?a =? ?b then _ else _] => destruct (N.eqb_spec a b)
  end.

Ltac peel r H Hnone :=
  destruct r as [|? r]; cbn [app run step] in H;
  [ exfalso; eapply Hnone; exact H | ];
  brk_in H; try lia; cbn [app run step] in H;
  try (unfold start in H; brk_in H; cbn [app] in H; exfalso; eapply Hnone; exact H).
Ltac finish s r H Hscal :=
  let c := fresh "c" in let s' := fresh "s" in let Hc := fresh "Hc" in let Ht := fresh "Ht" in
  cbn [app] in H; destruct s as [|c s']; [discriminate|]; cbn [map] in H;
  injection H as Hc Ht; subst c; exists r; split;
  [ unfold enc1; brk; cbn [app]; repeat (f_equal; try lia)
  | split; [apply Hscal; lia | exact Ht] ].

(** one decoding step from the initial state, as a relation between the input and the rest *)
Lemma run_D0_inv bs s : run D0 bs = map Some s ->
  match s with
  | [] => bs = []
  | c :: s' => exists r, bs = enc1 c ++ r /\ scalar c = true /\ run D0 r = map Some s'
  end.
Proof.
  destruct bs as [|b1 r1]; cbn [run step].
  { destruct s; [reflexivity|discriminate]. }
  unfold start.
  assert (Hscal : forall c, c < 55296 \/ (57344 <= c /\ c <= 1114111) -> scalar c = true)
    by (intros; now apply scalar_spec).
  destruct (N.ltb_spec b1 128).
  { cbn [app]. destruct s as [|c s']; [discriminate|]. cbn [map]. intros HR.
    injection HR as Hc Ht. subst c. exists r1.
    split; [unfold enc1; brk; reflexivity|]. split; [apply Hscal; lia | exact Ht]. }
  destruct (N.ltb_spec b1 194).
  { cbn [app]. destruct s; discriminate. }
  assert (Hnone : forall l, None :: l = map Some s -> False) by (destruct s; discriminate).
  destruct (N.ltb_spec b1 224).
  { cbn [app]. intros HR. peel r1 HR Hnone. finish s r1 HR Hscal. }
  destruct (N.eqb_spec b1 224).
  { cbn [app]. intros HR. peel r1 HR Hnone. peel r1 HR Hnone. finish s r1 HR Hscal. }
  destruct (N.ltb_spec b1 237).
  { cbn [app]. intros HR. peel r1 HR Hnone. peel r1 HR Hnone. finish s r1 HR Hscal. }
  destruct (N.eqb_spec b1 237).
  { cbn [app]. intros HR. peel r1 HR Hnone. peel r1 HR Hnone. finish s r1 HR Hscal. }
  destruct (N.ltb_spec b1 240).
  { cbn [app]. intros HR. peel r1 HR Hnone. peel r1 HR Hnone. finish s r1 HR Hscal. }
  destruct (N.eqb_spec b1 240).
  { cbn [app]. intros HR. peel r1 HR Hnone. peel r1 HR Hnone. peel r1 HR Hnone. finish s r1 HR Hscal. }
  destruct (N.ltb_spec b1 244).
  { cbn [app]. intros HR. peel r1 HR Hnone. peel r1 HR Hnone. peel r1 HR Hnone. finish s r1 HR Hscal. }
  destruct (N.eqb_spec b1 244).
  { cbn [app]. intros HR. peel r1 HR Hnone. peel r1 HR Hnone. peel r1 HR Hnone. finish s r1 HR Hscal. }
  cbn [app]. intros HR. exfalso. eapply Hnone. exact HR.
Qed.

Lemma run_sound s : forall bs, run D0 bs = map Some s -> encode s = bs /\ forallb scalar s = true.
Proof.
  induction s as [|c s IH]; intros bs H; apply run_D0_inv in H.
  - subst. split; reflexivity.
  - destruct H as (r & -> & Hc & Hr). apply IH in Hr as [<- Hs].
    split; [reflexivity|]. cbn [forallb]. now rewrite Hc, Hs.
Qed.

Lemma decode_sound bs s : decode bs = Some s -> encode s = bs /\ forallb scalar s = true.
Proof. intros H. apply sequence_Some_inv in H. now apply run_sound. Qed.

Lemma lossy_of_valid bs s : decode bs = Some s -> decode_lossy bs = s.
Proof. intros H. apply decode_sound in H as [<- Hs]. now apply lossy_encode. Qed.

Lemma decode_iff bs s : decode bs = Some s <-> (encode s = bs /\ forallb scalar s = true).
Proof. split; [apply decode_sound|]. intros [<- H]. now apply decode_encode. Qed.

(** ** Prefix freedom and injectivity *)

Lemma map_Some_inj (a b : list N) : map Some a = map Some b -> a = b.
Proof.
  revert b; induction a as [|x a IH]; destruct b; cbn; intros H; try discriminate; [reflexivity|].
  inversion H; subst. f_equal. now apply IH.
Qed.

Lemma encode_app a b : encode (a ++ b) = encode a ++ encode b.
Proof. unfold encode. now rewrite flat_map_app. Qed.

Lemma encode_prefix p s x : forallb scalar p = true -> forallb scalar s = true ->
  encode p ++ x = encode s -> firstn (length p) s = p /\ encode (skipn (length p) s) = x.
Proof.
  intros Hp Hs E.
  assert (R : map Some p ++ run D0 x = map Some s).
  { rewrite <- run_encode by assumption. rewrite E.
    rewrite <- (app_nil_r (encode s)), run_encode by assumption. cbn [run]. now rewrite app_nil_r. }
  assert (F : firstn (length p) s = p).
  { apply map_Some_inj. rewrite <- firstn_map. rewrite <- R.
    rewrite <- (map_length Some p) at 1. rewrite firstn_app, firstn_all, Nat.sub_diag. cbn.
    now rewrite app_nil_r. }
  split; [assumption|].
  rewrite <- (firstn_skipn (length p) s) in E at 1. rewrite F, encode_app in E.
  now apply app_inv_head in E.
Qed.

Lemma encode_inj a b : forallb scalar a = true -> forallb scalar b = true ->
  encode a = encode b -> a = b.
Proof.
  intros Ha Hb E. apply map_Some_inj.
  rewrite <- (app_nil_r (map Some a)), <- (app_nil_r (map Some b)).
  change (@nil (option N)) with (run D0 []). rewrite <- !run_encode by assumption. now rewrite E.
Qed.

(** ** Self-synchronisation: lead bytes are never continuation bytes, the others always are *)

Lemma enc1_shape c : c <= 1114111 ->
  exists h t, enc1 c = h :: t /\ is_cont h = false /\ forallb is_cont t = true.
Proof.
  intros Hc. unfold enc1, is_cont.
  destruct (N.ltb_spec c 128); [|destruct (N.ltb_spec c 2048); [|destruct (N.ltb_spec c 65536)]];
    eexists; eexists; (split; [reflexivity|]); cbn [forallb]; split;
    repeat match goal with
    | |- context [(?a <=? ?b)] => destruct (N.leb_spec a b); try lia
    end; reflexivity.
Qed.

Lemma enc1_nonempty c : enc1 c <> [].
Proof.
  unfold enc1. destruct (c <? 128); [discriminate|]. destruct (c <? 2048); [discriminate|].
  destruct (c <? 65536); discriminate.
Qed.

Lemma scalar_le c : scalar c = true -> c <= 1114111.
Proof. intros H. apply scalar_spec in H. lia. Qed.

Lemma length_enc1 c : (1 <= length (enc1 c) <= 4)%nat.
Proof.
  unfold enc1. destruct (c <? 128); [cbn; lia|]. destruct (c <? 2048); [cbn; lia|].
  destruct (c <? 65536); cbn; lia.
Qed.

(** examples / non-vacuity *)
Example utf8_ex1 : encode [97; 233; 19990; 128512] = [97; 195; 169; 228; 184; 150; 240; 159; 152; 128].
Proof. reflexivity. Qed.
Example utf8_ex2 : decode [97; 195; 169; 228; 184; 150; 240; 159; 152; 128] = Some [97; 233; 19990; 128512].
Proof. reflexivity. Qed.
Example utf8_ex3 : decode [237; 160; 128] = None /\ decode [192; 128] = None /\ decode [244; 144; 128; 128] = None.
Proof. repeat split. Qed.
Example utf8_ex4 : decode_lossy [97; 240; 159; 152; 98; 128; 237; 160; 128] = [97; 65533; 98; 65533; 65533; 65533; 65533].
Proof. reflexivity. Qed.
