From Coq Require Import List Arith Bool NArith.
From JrV Require Import Gen.GenStack.
From JrV Require Import C04.Model C04.Proofs C04.Properties C08.Model.
Import ListNotations.
Local Open Scope nat_scope.
Check C04_depth_balanced : forall f s o s', run f s = (o, s') -> cur s' = cur s /\ C04.Model.max s' = C04.Model.max s.
Check C04_history_balanced : forall fs s os s', run_all fs s = (os, s') -> cur s' = cur s /\ C04.Model.max s' = C04.Model.max s.
Check C04_depth_bounded : forall f s o s', has_limit f = false -> cur s <= C04.Model.max s -> peak s <= C04.Model.max s ->
                   run f s = (o, s') -> peak s' <= C04.Model.max s.
Check C04_no_spurious_overflow : forall f s o s', has_limit f = false -> cur s + depth f <= C04.Model.max s ->
                   run f s = (o, s') -> o <> StackOverflow.
Check C04_runaway_stopped_at_limit : forall k s, cur s <= C04.Model.max s ->
    (fst (run (chain k) s) = StackOverflow <-> C04.Model.max s - cur s <= k).
Check C04_site_array_views_safe : forall v i, wf v -> get_impl v i <> None /\ len_impl v <> None.
Check eq_refl : run (chain 2) (mkSt 0 3 0) = (Done, mkSt 0 3 3).
Check eq_refl : run (chain 3) (mkSt 0 3 0) = (StackOverflow, mkSt 0 3 3).
Check C04_model_is_translated_source :
  (forall s, gen_check_depth (cur s) (C04.Model.max s)
             = option_map (fun s' => (cur s', C04.Model.max s')) (enter s)) /\
  (forall s, gen_guard_drop (cur s) (C04.Model.max s) = (cur (leave s), C04.Model.max (leave s))) /\
  (forall n s, gen_limit n (cur s) (C04.Model.max s) = ((cur s, cur s + n), C04.Model.max s)) /\
  (forall old c m, gen_limit_drop old c m = (c, old)).
