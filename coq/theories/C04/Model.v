(** C04 kernel: the evaluation-depth counter of stack.rs.

    [check_depth] increments a thread-local counter when it is below the limit and hands out a
    guard whose Drop decrements it; [limit_stack_depth n] sets max := current + n and restores
    the old max on Drop.  A history is a tree of frames: calls (which may fail after running
    their body, or be refused by the limit) and limit overrides, nested arbitrarily; an error
    unwinds through every enclosing frame, dropping its guards. *)
From Coq Require Import List Arith Bool.
Import ListNotations.

Record st := mkSt { cur : nat; max : nat; peak : nat (* highest [cur] ever seen *) }.

Inductive frame :=
| Call (body : list frame) (fails : bool)    (* in_frame / in_description_frame *)
| Limit (n : nat) (body : list frame).       (* limit_stack_depth guard around body *)

Inductive outcome := Done | Failed | StackOverflow.

Definition enter (s : st) : option st :=
  if Nat.ltb (cur s) (max s)
  then Some (mkSt (S (cur s)) (max s) (Nat.max (peak s) (S (cur s))))
  else None.
Definition leave (s : st) : st := mkSt (cur s - 1) (max s) (peak s).

Fixpoint run (f : frame) (s : st) {struct f} : outcome * st :=
  match f with
  | Call body fails =>
      match enter s with
      | None => (StackOverflow, s)
      | Some s1 =>
          let fix go (fs : list frame) (s : st) : outcome * st :=
            match fs with
            | [] => (Done, s)
            | x :: t => match run x s with
                        | (Done, s') => go t s'
                        | r => r        (* `?`: the rest of the body is skipped *)
                        end
            end in
          match go body s1 with
          | (Done, s2) => (if fails then Failed else Done, leave s2)   (* guard dropped *)
          | (o, s2) => (o, leave s2)                                   (* dropped while unwinding *)
          end
      end
  | Limit n body =>
      let old := max s in
      let s1 := mkSt (cur s) (cur s + n) (peak s) in
      let fix go (fs : list frame) (s : st) : outcome * st :=
        match fs with
        | [] => (Done, s)
        | x :: t => match run x s with
                    | (Done, s') => go t s'
                    | r => r
                    end
        end in
      match go body s1 with
      | (o, s2) => (o, mkSt (cur s2) old (peak s2))
      end
  end.

Fixpoint run_all (fs : list frame) (s : st) : list outcome * st :=
  match fs with
  | [] => ([], s)
  | f :: t => match run f s with
              | (o, s') => let (os, s'') := run_all t s' in (o :: os, s'')
              end
  end.

(** a chain of k nested calls (runaway recursion) *)
Fixpoint chain (k : nat) : frame :=
  match k with O => Call [] false | S k' => Call [chain k'] false end.

(** nesting depth of calls, resetting nothing: what a history needs of the counter *)
Fixpoint depth (f : frame) : nat :=
  match f with
  | Call body _ => S (fold_right (fun x acc => Nat.max (depth x) acc) 0 body)
  | Limit _ body => fold_right (fun x acc => Nat.max (depth x) acc) 0 body
  end.
Fixpoint has_limit (f : frame) : bool :=
  match f with
  | Call body _ => existsb has_limit body
  | Limit _ _ => true
  end.
