From Coq Require Import List Arith Bool Lia.
From JrV Require Import C04.Model.
Import ListNotations.

(** induction principle for the nested inductive [frame] *)
Section FrameInd.
  Variable P : frame -> Prop.
  Hypothesis HCall : forall body fails, Forall P body -> P (Call body fails).
  Hypothesis HLimit : forall n body, Forall P body -> P (Limit n body).
  Fixpoint frame_ind' (f : frame) : P f :=
    match f with
    | Call body fails =>
        HCall body fails ((fix go (l : list frame) : Forall P l :=
                             match l with [] => Forall_nil P | x :: t => Forall_cons x (frame_ind' x) (go t) end) body)
    | Limit n body =>
        HLimit n body ((fix go (l : list frame) : Forall P l :=
                          match l with [] => Forall_nil P | x :: t => Forall_cons x (frame_ind' x) (go t) end) body)
    end.
End FrameInd.

(** the body loop, as a standalone function (definitionally the local fix of [run]) *)
Fixpoint go (fs : list frame) (s : st) : outcome * st :=
  match fs with
  | [] => (Done, s)
  | x :: t => match run x s with
              | (Done, s') => go t s'
              | r => r
              end
  end.

Lemma run_call body fails s :
  run (Call body fails) s =
  match enter s with
  | None => (StackOverflow, s)
  | Some s1 => match go body s1 with
               | (Done, s2) => (if fails then Failed else Done, leave s2)
               | (o, s2) => (o, leave s2)
               end
  end.
Proof. reflexivity. Qed.

Lemma run_limit n body s :
  run (Limit n body) s =
  match go body (mkSt (cur s) (cur s + n) (peak s)) with
  | (o, s2) => (o, mkSt (cur s2) (max s) (peak s2))
  end.
Proof. reflexivity. Qed.

Definition balanced_at (f : frame) : Prop :=
  forall s o s', run f s = (o, s') -> cur s' = cur s /\ max s' = max s.

Lemma go_balanced body :
  Forall balanced_at body -> forall s o s', go body s = (o, s') -> cur s' = cur s /\ max s' = max s.
Proof.
  induction 1 as [|x t Hx _ IH]; intros s o s' H.
  - cbn in H. injection H as <- <-. auto.
  - cbn [go] in H. destruct (run x s) as [ox sx] eqn:Hr. destruct (Hx _ _ _ Hr) as [C M].
    destruct ox; try (injection H as <- <-; auto).
    destruct (IH _ _ _ H) as [C' M']. split; congruence.
Qed.

Theorem run_balanced f : balanced_at f.
Proof.
  induction f as [body fails IH|n body IH] using frame_ind'; intros s o s' H.
  - rewrite run_call in H. unfold enter in H. destruct (Nat.ltb (cur s) (max s)) eqn:Hlt.
    + destruct (go body _) as [ob sb] eqn:Hg. destruct (go_balanced body IH _ _ _ Hg) as [C M].
      cbn [cur max] in C, M.
      assert (cur (leave sb) = cur s /\ max (leave sb) = max s).
      { unfold leave. cbn [cur max]. rewrite C, M. split; [lia|reflexivity]. }
      destruct ob; injection H as <- <-; assumption.
    + injection H as <- <-. auto.
  - rewrite run_limit in H. destruct (go body _) as [ob sb] eqn:Hg.
    destruct (go_balanced body IH _ _ _ Hg) as [C M]. cbn [cur max] in C, M.
    injection H as <- <-. cbn [cur max]. auto.
Qed.

(** after any history of evaluations — finished, failed or cut by the limit — the counter and
    the limit are what they were before *)
Theorem run_all_balanced fs : forall s os s',
  run_all fs s = (os, s') -> cur s' = cur s /\ max s' = max s.
Proof.
  induction fs as [|f t IH]; intros s os s' H.
  - cbn in H. injection H as <- <-. auto.
  - cbn [run_all] in H. destruct (run f s) as [o s1] eqn:Hr. destruct (run_all t s1) as [os1 s2] eqn:Ha.
    injection H as <- <-. destruct (run_balanced f _ _ _ Hr) as [C M]. destruct (IH _ _ _ Ha) as [C' M'].
    split; congruence.
Qed.

(** the counter never exceeds the limit in force *)
Definition bounded_at (f : frame) : Prop :=
  forall s o s', has_limit f = false -> cur s <= max s -> peak s <= max s ->
                 run f s = (o, s') -> peak s' <= max s.

Lemma go_bounded body :
  Forall bounded_at body -> existsb has_limit body = false ->
  forall s o s', cur s <= max s -> peak s <= max s -> go body s = (o, s') -> peak s' <= max s.
Proof.
  induction 1 as [|x t Hx _ IH]; intros Hl s o s' Hc Hp H.
  - cbn in H. injection H as <- <-. exact Hp.
  - cbn [existsb] in Hl. apply orb_false_iff in Hl. destruct Hl as [Hlx Hlt].
    cbn [go] in H. destruct (run x s) as [ox sx] eqn:Hr.
    pose proof (Hx _ _ _ Hlx Hc Hp Hr) as Hpx. destruct (run_balanced x _ _ _ Hr) as [C M].
    destruct ox; try (injection H as <- <-; exact Hpx).
    rewrite <- M. eapply IH; eauto; lia.
Qed.

Theorem run_bounded f : bounded_at f.
Proof.
  induction f as [body fails IH|n body IH] using frame_ind'; intros s o s' Hl Hc Hp H.
  - cbn [has_limit] in Hl. rewrite run_call in H. unfold enter in H.
    destruct (Nat.ltb_spec (cur s) (max s)) as [Hlt|Hge].
    + destruct (go body _) as [ob sb] eqn:Hg.
      assert (Hpb : peak sb <= max s).
      { eapply (go_bounded body IH Hl _ _ _ _ _ Hg). Unshelve. all: cbn [cur max peak]; lia. }
      destruct ob; injection H as <- <-; exact Hpb.
    + injection H as <- <-. exact Hp.
  - discriminate.
Qed.

(** no spurious StackOverflow: a history whose call nesting fits below the limit never
    reports it *)
Definition fits_at (f : frame) : Prop :=
  forall s o s', has_limit f = false -> cur s + depth f <= max s -> run f s = (o, s') -> o <> StackOverflow.

Lemma fold_max_le (body : list frame) x :
  In x body -> depth x <= fold_right (fun y acc => Nat.max (depth y) acc) 0 body.
Proof.
  induction body as [|y t IH]; intros H; [contradiction|]. cbn [fold_right].
  destruct H as [->|H]; [lia|specialize (IH H); lia].
Qed.

Lemma go_fits body :
  Forall fits_at body -> existsb has_limit body = false ->
  forall s o s', cur s + fold_right (fun y acc => Nat.max (depth y) acc) 0 body <= max s ->
                 go body s = (o, s') -> o <> StackOverflow.
Proof.
  induction 1 as [|x t Hx _ IH]; intros Hl s o s' Hd H.
  - cbn in H. injection H as <- <-. discriminate.
  - cbn [existsb] in Hl. apply orb_false_iff in Hl. destruct Hl as [Hlx Hlt].
    cbn [fold_right] in Hd. cbn [go] in H. destruct (run x s) as [ox sx] eqn:Hr.
    assert (Hox : ox <> StackOverflow) by (eapply Hx; eauto; lia).
    destruct (run_balanced x _ _ _ Hr) as [C M].
    destruct ox; try (injection H as <- <-; assumption).
    eapply IH; eauto. lia.
Qed.

Theorem run_fits f : fits_at f.
Proof.
  induction f as [body fails IH|n body IH] using frame_ind'; intros s o s' Hl Hd H.
  - cbn [has_limit] in Hl. cbn [depth] in Hd. rewrite run_call in H. unfold enter in H.
    destruct (Nat.ltb_spec (cur s) (max s)) as [Hlt|Hge]; [|lia].
    destruct (go body _) as [ob sb] eqn:Hg.
    assert (Hob : ob <> StackOverflow).
    { eapply (go_fits body IH Hl _ _ _ _ Hg). Unshelve. cbn [cur max]. lia. }
    destruct ob; injection H as <- <-; try discriminate; try (destruct fails; discriminate). exfalso. apply Hob. reflexivity.
  - discriminate.
Qed.


Lemma chain_overflow k : forall s,
  max s - cur s <= k -> cur s <= max s -> fst (run (chain k) s) = StackOverflow.
Proof.
  induction k as [|k IH]; intros s Hk Hc.
  - cbn [chain]. rewrite run_call. unfold enter. destruct (Nat.ltb_spec (cur s) (max s)); [lia|reflexivity].
  - cbn [chain]. rewrite run_call. unfold enter. destruct (Nat.ltb_spec (cur s) (max s)) as [Hlt|]; [|reflexivity].
    cbn [go].
    specialize (IH (mkSt (S (cur s)) (max s) (Nat.max (peak s) (S (cur s))))). cbn [cur max] in IH.
    destruct (run (chain k) _) as [o s2].
    cbn [fst] in IH. rewrite IH by lia. reflexivity.
Qed.

Lemma chain_depth k : depth (chain k) = S k.
Proof. induction k as [|k IH]; cbn [chain depth fold_right]; [reflexivity|rewrite IH; lia]. Qed.
Lemma chain_no_limit k : has_limit (chain k) = false.
Proof. induction k as [|k IH]; cbn [chain has_limit existsb]; [reflexivity|rewrite IH; reflexivity]. Qed.

(** runaway recursion is stopped exactly at the configured limit *)
Theorem chain_exact k s :
  cur s <= max s ->
  (fst (run (chain k) s) = StackOverflow <-> max s - cur s <= k).
Proof.
  intros Hc. split.
  - intros H. destruct (Nat.le_gt_cases (max s - cur s) k) as [|Hgt]; [assumption|].
    exfalso. destruct (run (chain k) s) as [o s'] eqn:Hr. cbn [fst] in H. subst o.
    eapply (run_fits (chain k)); eauto using chain_no_limit. rewrite chain_depth. lia.
  - intros H. apply chain_overflow; assumption.
Qed.
