(** C04 — property theorems on the depth-counter kernel (stack.rs) and the array index sites. *)
From Coq Require Import List Arith Bool NArith.
From JrV Require Import Gen.GenStack.
From JrV Require Import C04.Model C04.Proofs C08.Model C08.Proofs.
Import ListNotations.
Local Open Scope nat_scope.

(** after any frame — returned, failed, or refused by the limit — counter and limit are restored *)
Theorem C04_depth_balanced :
  forall f s o s', run f s = (o, s') -> cur s' = cur s /\ C04.Model.max s' = C04.Model.max s.
Proof. exact run_balanced. Qed.
Print Assumptions C04_depth_balanced.

(** hence after any history of evaluations the same thread starts from the same state *)
Theorem C04_history_balanced :
  forall fs s os s', run_all fs s = (os, s') -> cur s' = cur s /\ C04.Model.max s' = C04.Model.max s.
Proof. exact run_all_balanced. Qed.
Print Assumptions C04_history_balanced.

(** the counter never exceeds the limit *)
Theorem C04_depth_bounded :
  forall f s o s', has_limit f = false -> cur s <= C04.Model.max s -> peak s <= C04.Model.max s ->
                   run f s = (o, s') -> peak s' <= C04.Model.max s.
Proof. exact run_bounded. Qed.
Print Assumptions C04_depth_bounded.

(** recursion below the limit is never refused ... *)
Theorem C04_no_spurious_overflow :
  forall f s o s', has_limit f = false -> cur s + depth f <= C04.Model.max s ->
                   run f s = (o, s') -> o <> StackOverflow.
Proof. exact run_fits. Qed.
Print Assumptions C04_no_spurious_overflow.

(** ... and runaway recursion is refused exactly at the limit *)
Theorem C04_runaway_stopped_at_limit :
  forall k s, cur s <= C04.Model.max s ->
    (fst (run (chain k) s) = StackOverflow <-> C04.Model.max s - cur s <= k).
Proof. exact chain_exact. Qed.
Print Assumptions C04_runaway_stopped_at_limit.

(** the array index arithmetic named by the property never panics on any well-formed view
    (corollary of C08): [None] is the model of a panic *)
Theorem C04_site_array_views_safe :
  forall v i, wf v -> get_impl v i <> None /\ len_impl v <> None.
Proof.
  intros v i H. rewrite (get_refines v i H), (len_refines v H). split; discriminate.
Qed.
Print Assumptions C04_site_array_views_safe.

Example C04_depth_example :
  run_all [Call [Call [] true; Call [] false] false; chain 5; Limit 1 [chain 3]] (mkSt 0 3 0)
  = ([Failed; StackOverflow; StackOverflow], mkSt 0 3 3).
Proof. reflexivity. Qed.

(** the counter model IS the source: the four state transformers of stack.rs, translated statement by
    statement from /repo's working tree on every run (Gen/GenStack.v), are the model's [enter], [leave]
    and the two halves of a [Limit] frame.  A change of check_depth / the guards' Drop / limit_stack_depth
    that is not extensionally the same function breaks this theorem (or the translation, which then
    says what it could not translate). *)
Theorem C04_model_is_translated_source :
  (forall s, gen_check_depth (cur s) (C04.Model.max s)
             = option_map (fun s' => (cur s', C04.Model.max s')) (enter s)) /\
  (forall s, gen_guard_drop (cur s) (C04.Model.max s) = (cur (leave s), C04.Model.max (leave s))) /\
  (forall n s, gen_limit n (cur s) (C04.Model.max s) = ((cur s, cur s + n), C04.Model.max s)) /\
  (forall old c m, gen_limit_drop old c m = (c, old)).
Proof.
  repeat split.
  - intros s. unfold gen_check_depth, enter. destruct (Nat.ltb (cur s) (C04.Model.max s)); simpl; [|reflexivity].
    rewrite Nat.add_1_r. reflexivity.
Qed.
Print Assumptions C04_model_is_translated_source.
