(* C06 — lemmas.  Stdlib only (List, NArith, Lia). *)
From Coq Require Import NArith List Bool Arith Lia.
From JrV Require Import Common.PrecOps Gen.GenPrec C06.Model.
Import ListNotations.

(* ------------------------------------------------------------------ one-step unfoldings *)
Lemma expr_bp_S f T min ts :
  expr_bp (S f) T min ts =
  match ts with
  | [] => Err
  | t :: rest =>
    match unop_of_tok t with
    | Some u =>
      match pbp T u with
      | None => Err
      | Some p =>
        match expr_bp f T p rest with
        | Ok (rhs, r') => loop f T min (EUn u rhs) r'
        | Err => Err
        | OutOfFuel => OutOfFuel
        end
      end
    | None =>
      match t with
      | TAtom n => loop f T min (EAtom n) rest
      | TLP =>
        match expr_bp f T 0%N rest with
        | Ok (e, TRP :: r') => loop f T min e r'
        | Ok _ => Err
        | Err => Err
        | OutOfFuel => OutOfFuel
        end
      | _ => Err
      end
    end
  end.
Proof. reflexivity. Qed.

Lemma loop_S f T min lhs ts :
  loop (S f) T min lhs ts =
  match ts with
  | [] => Ok (lhs, ts)
  | t :: rest =>
    match binop_of_tok t with
    | None => Ok (lhs, ts)
    | Some b =>
      if (lbp T b <? min)%N then Ok (lhs, ts)
      else
        match expr_bp f T (rbp T b) rest with
        | Ok (rhs, r') => loop f T min (EBin b lhs rhs) r'
        | Err => Err
        | OutOfFuel => OutOfFuel
        end
    end
  end.
Proof. reflexivity. Qed.

(* ------------------------------------------------------------------ fuel monotonicity *)
(* a result other than OutOfFuel does not depend on the fuel *)
Lemma fuel_mono_S : forall f T,
  (forall m ts r, expr_bp f T m ts = r -> r <> OutOfFuel -> expr_bp (S f) T m ts = r) /\
  (forall m l ts r, loop f T m l ts = r -> r <> OutOfFuel -> loop (S f) T m l ts = r).
Proof.
  induction f as [|f IH]; intros T.
  - split; intros; simpl in *; congruence.
  - destruct (IH T) as [IE IL]. split.
    + intros m ts r H NO. rewrite expr_bp_S in H. rewrite expr_bp_S.
      destruct ts as [|t rest]; [exact H|].
      destruct (unop_of_tok t) as [u|].
      * destruct (pbp T u) as [p|]; [|exact H].
        destruct (expr_bp f T p rest) as [[rhs r']| |] eqn:E.
        -- rewrite (IE _ _ _ E) by discriminate. apply IL; assumption.
        -- rewrite (IE _ _ _ E) by discriminate. exact H.
        -- congruence.
      * destruct t; try exact H.
        -- apply IL; assumption.
        -- destruct (expr_bp f T 0%N rest) as [[e r']| |] eqn:E.
           ++ rewrite (IE _ _ _ E) by discriminate.
              destruct r' as [|t' r'']; [exact H|].
              destruct t'; try exact H. apply IL; assumption.
           ++ rewrite (IE _ _ _ E) by discriminate. exact H.
           ++ congruence.
    + intros m l ts r H NO. rewrite loop_S in H. rewrite loop_S.
      destruct ts as [|t rest]; [exact H|].
      destruct (binop_of_tok t) as [b|]; [|exact H].
      destruct (lbp T b <? m)%N; [exact H|].
      destruct (expr_bp f T (rbp T b) rest) as [[rhs r']| |] eqn:E.
      * rewrite (IE _ _ _ E) by discriminate. apply IL; assumption.
      * rewrite (IE _ _ _ E) by discriminate. exact H.
      * congruence.
Qed.

Lemma fuel_mono_expr : forall f f' T m ts r,
  f <= f' -> expr_bp f T m ts = r -> r <> OutOfFuel -> expr_bp f' T m ts = r.
Proof.
  intros f f' T m ts r L. induction L; intros H NO; [exact H|].
  apply (proj1 (fuel_mono_S _ T)); auto.
Qed.

Lemma fuel_mono_loop : forall f f' T m l ts r,
  f <= f' -> loop f T m l ts = r -> r <> OutOfFuel -> loop f' T m l ts = r.
Proof.
  intros f f' T m l ts r L. induction L; intros H NO; [exact H|].
  apply (proj2 (fuel_mono_S _ T)); auto.
Qed.

Lemma fuel_mono_expr_ok : forall f f' T m ts x,
  f <= f' -> expr_bp f T m ts = Ok x -> expr_bp f' T m ts = Ok x.
Proof. intros. eapply fuel_mono_expr; eauto. discriminate. Qed.

Lemma fuel_mono_loop_ok : forall f f' T m l ts x,
  f <= f' -> loop f T m l ts = Ok x -> loop f' T m l ts = Ok x.
Proof. intros. eapply fuel_mono_loop; eauto. discriminate. Qed.

(* ------------------------------------------------------------------ enumerations are complete *)
Lemma all_binops_complete : forall b, List.In b all_binops.
Proof. destruct b; unfold all_binops; simpl; repeat (try (left; reflexivity); right). Qed.

Lemma all_unops_complete : forall u, List.In u all_unops.
Proof. destruct u; unfold all_unops; simpl; repeat (try (left; reflexivity); right). Qed.

Lemma all_minsrc_complete : forall m, List.In m all_minsrc.
Proof.
  intros m. unfold all_minsrc. destruct m as [|u|b].
  - left; reflexivity.
  - right. apply in_or_app. left. apply in_map. apply all_unops_complete.
  - right. apply in_or_app. right. apply in_map. apply all_binops_complete.
Qed.

(* ------------------------------------------------------------------ token-list bookkeeping *)
Lemma binops_of_cons t rest :
  binops_of (t :: rest) = (match binop_of_tok t with Some b => [b] | None => [] end) ++ binops_of rest.
Proof. reflexivity. Qed.

Lemma binops_tail t rest : incl (binops_of rest) (binops_of (t :: rest)).
Proof. rewrite binops_of_cons. apply incl_appr. apply incl_refl. Qed.

Lemma ltb_zero n : (n <? 0)%N = false.
Proof. destruct n; reflexivity. Qed.

Section Equiv.
  Variables (T1 T2 : table) (ok : minsrc -> binop -> bool) (oku : unop -> bool).
  Hypothesis Hok : forall m c, ok m c = true -> agree T1 T2 m c = true.
  Hypothesis Hoku : forall u, oku u = true -> avail T1 T2 u = true.

  Definition mins_agree (m1 m2 : N) (ts : list tok) : Prop :=
    forall c, List.In c (binops_of ts) -> (lbp T1 c <? m1)%N = (lbp T2 c <? m2)%N.

  Lemma mins_agree_incl m1 m2 ts ts' :
    incl (binops_of ts') (binops_of ts) -> mins_agree m1 m2 ts -> mins_agree m1 m2 ts'.
  Proof. intros I H c Hc. apply H. apply I. exact Hc. Qed.

  Lemma agree_spec m c m1 m2 :
    agree T1 T2 m c = true -> minval T1 m = Some m1 -> minval T2 m = Some m2 ->
    (lbp T1 c <? m1)%N = (lbp T2 c <? m2)%N.
  Proof.
    unfold agree. intros A E1 E2. rewrite E1, E2 in A. apply eqb_prop. exact A.
  Qed.

  Lemma mins_from_ok m rest m1 m2 :
    forallb (ok m) (binops_of rest) = true -> minval T1 m = Some m1 -> minval T2 m = Some m2 ->
    mins_agree m1 m2 rest.
  Proof.
    intros F E1 E2 c Hc. rewrite forallb_forall in F.
    eapply agree_spec; eauto.
  Qed.

  (* a successful sub-parse leaves a remainder that still passes the scan (for any table) *)
  Lemma keeps : forall f T,
    (forall m ts e r, expr_bp f T m ts = Ok (e, r) -> lex_ok ok oku true ts = true ->
                      lex_ok ok oku false r = true /\ incl (binops_of r) (binops_of ts)) /\
    (forall m l ts e r, loop f T m l ts = Ok (e, r) -> lex_ok ok oku false ts = true ->
                        lex_ok ok oku false r = true /\ incl (binops_of r) (binops_of ts)).
  Proof.
    induction f as [|f IH]; intros T.
    - split; intros; simpl in *; discriminate.
    - destruct (IH T) as [IE IL]. split.
      + intros m ts e r H LX. rewrite expr_bp_S in H.
        destruct ts as [|t rest]; [discriminate|].
        cbn [lex_ok] in LX.
        destruct (unop_of_tok t) as [u|] eqn:U.
        * destruct (pbp T u) as [p|]; [|discriminate].
          apply andb_prop in LX. destruct LX as [LX L3]. apply andb_prop in LX. destruct LX as [L1 L2].
          destruct (expr_bp f T p rest) as [[rhs r']| |] eqn:E; try discriminate.
          destruct (IE _ _ _ _ E L3) as [K1 K2].
          destruct (IL _ _ _ _ _ H K1) as [K3 K4].
          split; [exact K3|].
          eapply incl_tran; [exact K4|]. eapply incl_tran; [exact K2|]. apply binops_tail.
        * destruct t; try discriminate.
          -- destruct (IL _ _ _ _ _ H LX) as [K3 K4]. split; [exact K3|].
             eapply incl_tran; [exact K4|]. apply binops_tail.
          -- destruct (expr_bp f T 0%N rest) as [[e0 r']| |] eqn:E; try discriminate.
             destruct r' as [|t' r'']; [discriminate|]. destruct t'; try discriminate.
             destruct (IE _ _ _ _ E LX) as [K1 K2]. cbn [lex_ok binop_of_tok] in K1.
             destruct (IL _ _ _ _ _ H K1) as [K3 K4]. split; [exact K3|].
             eapply incl_tran; [exact K4|].
             eapply incl_tran; [apply (binops_tail TRP)|].
             eapply incl_tran; [exact K2|]. apply binops_tail.
      + intros m l ts e r H LX. rewrite loop_S in H.
        destruct ts as [|t rest].
        * inversion H; subst. split; [reflexivity|apply incl_refl].
        * cbn [lex_ok] in LX.
          destruct (binop_of_tok t) as [b|] eqn:B.
          -- destruct (lbp T b <? m)%N.
             ++ inversion H; subst. split; [|apply incl_refl].
                cbn [lex_ok]. rewrite B. exact LX.
             ++ apply andb_prop in LX. destruct LX as [L1 L2].
                destruct (expr_bp f T (rbp T b) rest) as [[rhs r']| |] eqn:E; try discriminate.
                destruct (IE _ _ _ _ E L2) as [K1 K2].
                destruct (IL _ _ _ _ _ H K1) as [K3 K4]. split; [exact K3|].
                eapply incl_tran; [exact K4|]. eapply incl_tran; [exact K2|]. apply binops_tail.
          -- inversion H; subst. split; [|apply incl_refl].
             cbn [lex_ok]. rewrite B. exact LX.
  Qed.

  Lemma equiv_gen : forall f,
    (forall m1 m2 ts, mins_agree m1 m2 ts -> lex_ok ok oku true ts = true ->
                      expr_bp f T1 m1 ts = expr_bp f T2 m2 ts) /\
    (forall m1 m2 l ts, mins_agree m1 m2 ts -> lex_ok ok oku false ts = true ->
                        loop f T1 m1 l ts = loop f T2 m2 l ts).
  Proof.
    induction f as [|f [IE IL]].
    - split; intros; reflexivity.
    - split.
      + intros m1 m2 ts MA LX. rewrite !expr_bp_S.
        destruct ts as [|t rest]; [reflexivity|].
        cbn [lex_ok] in LX.
        destruct (unop_of_tok t) as [u|] eqn:U.
        * apply andb_prop in LX. destruct LX as [LX L3]. apply andb_prop in LX. destruct LX as [L1 L2].
          pose proof (Hoku _ L1) as AV. unfold avail in AV. apply eqb_prop in AV.
          destruct (pbp T1 u) as [p1|] eqn:P1; destruct (pbp T2 u) as [p2|] eqn:P2;
            simpl in AV; try discriminate; [|reflexivity].
          assert (MP : mins_agree p1 p2 rest) by (eapply (mins_from_ok (MUn u)); eauto).
          rewrite <- (IE p1 p2 rest MP L3).
          destruct (expr_bp f T1 p1 rest) as [[rhs r']| |] eqn:E; try reflexivity.
          destruct (proj1 (keeps f T1) _ _ _ _ E L3) as [K1 K2].
          apply IL; [|exact K1].
          eapply mins_agree_incl; [|exact MA]. eapply incl_tran; [exact K2|]. apply binops_tail.
        * destruct t; try reflexivity.
          -- apply IL; [|exact LX]. eapply mins_agree_incl; [|exact MA]. apply binops_tail.
          -- assert (MZ : mins_agree 0%N 0%N rest) by (intros c _; rewrite !ltb_zero; reflexivity).
             rewrite <- (IE _ _ rest MZ LX).
             destruct (expr_bp f T1 0%N rest) as [[e0 r']| |] eqn:E; try reflexivity.
             destruct r' as [|t' r'']; [reflexivity|]. destruct t'; try reflexivity.
             destruct (proj1 (keeps f T1) _ _ _ _ E LX) as [K1 K2]. cbn [lex_ok binop_of_tok] in K1.
             apply IL; [|exact K1].
             eapply mins_agree_incl; [|exact MA].
             eapply incl_tran; [apply (binops_tail TRP)|].
             eapply incl_tran; [exact K2|]. apply binops_tail.
      + intros m1 m2 l ts MA LX. rewrite !loop_S.
        destruct ts as [|t rest]; [reflexivity|].
        cbn [lex_ok] in LX.
        destruct (binop_of_tok t) as [b|] eqn:B; [|reflexivity].
        assert (INB : List.In b (binops_of (t :: rest))).
        { rewrite binops_of_cons, B. left. reflexivity. }
        rewrite <- (MA b INB).
        destruct (lbp T1 b <? m1)%N; [reflexivity|].
        apply andb_prop in LX. destruct LX as [L1 L2].
        assert (MP : mins_agree (rbp T1 b) (rbp T2 b) rest) by (eapply (mins_from_ok (MBin b)); eauto).
        rewrite <- (IE _ _ rest MP L2).
        destruct (expr_bp f T1 (rbp T1 b) rest) as [[rhs r']| |] eqn:E; try reflexivity.
        destruct (proj1 (keeps f T1) _ _ _ _ E L2) as [K1 K2].
        apply IL; [|exact K1].
        eapply mins_agree_incl; [|exact MA]. eapply incl_tran; [exact K2|]. apply binops_tail.
  Qed.

  Lemma equiv_parse_fuel : forall ts, lex_ok ok oku true ts = true ->
    forall fuel, parse_fuel fuel T1 ts = parse_fuel fuel T2 ts.
  Proof.
    intros ts LX fuel. unfold parse_fuel.
    rewrite (proj1 (equiv_gen fuel) 0%N 0%N ts); [reflexivity| |exact LX].
    intros c _. rewrite !ltb_zero. reflexivity.
  Qed.
End Equiv.

Lemma tables_agree_on_spec ok oku T1 T2 :
  tables_agree_on ok oku T1 T2 = true ->
  (forall m c, ok m c = true -> agree T1 T2 m c = true) /\
  (forall u, oku u = true -> avail T1 T2 u = true).
Proof.
  unfold tables_agree_on. intros H. apply andb_prop in H. destruct H as [H1 H2].
  rewrite forallb_forall in H1, H2. split.
  - intros m c O. specialize (H1 m (all_minsrc_complete m)). rewrite forallb_forall in H1.
    specialize (H1 c (all_binops_complete c)). rewrite O in H1. exact H1.
  - intros u O. specialize (H2 u (all_unops_complete u)). rewrite O in H2. exact H2.
Qed.

Lemma bp_equiv_parse_eq : forall T1 T2 ok oku,
  tables_agree_on ok oku T1 T2 = true ->
  forall ts, lex_ok ok oku true ts = true ->
  forall fuel, parse_fuel fuel T1 ts = parse_fuel fuel T2 ts.
Proof.
  intros T1 T2 ok oku H. destruct (tables_agree_on_spec _ _ _ _ H) as [H1 H2].
  intros ts LX fuel. eapply equiv_parse_fuel; eauto.
Qed.

Lemma bp_equiv_parse : forall T1 T2 ok oku,
  tables_agree_on ok oku T1 T2 = true ->
  forall ts, lex_ok ok oku true ts = true -> parse T1 ts = parse T2 ts.
Proof. intros. unfold parse. eapply bp_equiv_parse_eq; eauto. Qed.

(* with no excused comparison every token list passes the scan *)
Definition ok_all (m : minsrc) (c : binop) : bool := true.

Lemma lex_ok_all : forall ts st, lex_ok ok_all oku_all st ts = true.
Proof.
  induction ts as [|t rest IH]; intros st; [reflexivity|].
  assert (F : forall m, forallb (ok_all m) (binops_of rest) = true)
    by (intros m; apply forallb_forall; reflexivity).
  cbn [lex_ok]. destruct st.
  - destruct (unop_of_tok t).
    + rewrite F, IH. reflexivity.
    + destruct t; auto.
  - destruct (binop_of_tok t).
    + rewrite F, IH. reflexivity.
    + destruct t; auto.
Qed.

Lemma bp_equiv_total : forall T1 T2,
  tables_agree_on ok_all oku_all T1 T2 = true ->
  forall ts fuel, parse_fuel fuel T1 ts = parse_fuel fuel T2 ts.
Proof. intros. eapply bp_equiv_parse_eq; eauto. apply lex_ok_all. Qed.

(* ------------------------------------------------------------------ the regenerated tables *)
(* decided by computation over all 24 x 19 comparisons of the REGENERATED tables *)
Lemma ir_ref_agree : tables_agree_on ok_unary_mul oku_all tbl_ir tbl_ref = true.
Proof. vm_compute. reflexivity. Qed.

(* since /repo 1596e0a (`^` left-associative) the legacy parser's level list has no excused comparison *)
Lemma peg_ref_agree : tables_agree_on ok_all oku_all tbl_peg tbl_ref = true.
Proof. vm_compute. reflexivity. Qed.

Lemma rowan_ref_agree : tables_agree_on ok_unary_mul oku_no_plus tbl_rowan tbl_ref = true.
Proof. vm_compute. reflexivity. Qed.

Lemma rowan_ir_agree : tables_agree_on ok_all oku_no_plus tbl_rowan tbl_ir = true.
Proof. vm_compute. reflexivity. Qed.

Lemma negb_false_true b : negb b = false -> b = true.
Proof. destruct b; simpl; congruence. Qed.

Lemma ir_outside_known : forall ts, known_unary_mul ts = false -> parse tbl_ir ts = parse tbl_ref ts.
Proof.
  intros ts K. apply negb_false_true in K.
  eapply bp_equiv_parse; [apply ir_ref_agree|exact K].
Qed.

Lemma peg_is_grammar : forall ts, parse tbl_peg ts = parse tbl_ref ts.
Proof.
  intros ts. eapply bp_equiv_parse; [apply peg_ref_agree|apply lex_ok_all].
Qed.

Lemma rowan_outside_known : forall ts, known_rowan ts = false -> parse tbl_rowan ts = parse tbl_ref ts.
Proof.
  intros ts K. apply negb_false_true in K.
  eapply bp_equiv_parse; [apply rowan_ref_agree|exact K].
Qed.

Definition uses_unary_plus (ts : list tok) : bool := negb (lex_ok ok_all oku_no_plus true ts).

Lemma rowan_ir_outside_uplus : forall ts, uses_unary_plus ts = false -> parse tbl_rowan ts = parse tbl_ir ts.
Proof.
  intros ts K. apply negb_false_true in K.
  eapply bp_equiv_parse; [apply rowan_ir_agree|exact K].
Qed.

(* witnesses *)
Lemma ir_unary_refuted :
  exists ts, known_unary_mul ts = true /\
             parse tbl_ir ts = Ok (EUn UBitNot (EBin Mul (EAtom 0) (EAtom 1))) /\
             parse tbl_ref ts = Ok (EBin Mul (EUn UBitNot (EAtom 0)) (EAtom 1)).
Proof. exists [TBitNot; TAtom 0; TOp Mul; TAtom 1]. vm_compute. auto. Qed.

Lemma rowan_uplus_refuted :
  exists ts, known_rowan ts = true /\ parse tbl_rowan ts = Err /\
             parse tbl_ref ts = Ok (EUn UPlus (EAtom 0)).
Proof. exists [TOp Add; TAtom 0]. vm_compute. auto. Qed.

(* ------------------------------------------------------------------ reference table = grammar *)
Lemma ref_level_bounds : forall b, (1 <= ref_level b <= 10)%N.
Proof. destruct b; simpl; lia. Qed.

Lemma unop_tok_roundtrip u : unop_of_tok (tok_of_unop u) = Some u.
Proof. destruct u; reflexivity. Qed.

Section Roundtrip.
  Variable T : table.
  Hypothesis HL : forall b, lbp T b = (2 * ref_level b)%N.
  Hypothesis HR : forall b, rbp T b = (2 * ref_level b + 1)%N.
  Hypothesis HP : forall u, pbp T u = Some (2 * unary_level)%N.

  Definition allowed (p : pexpr) (min : N) : Prop :=
    match p with PBin b _ _ => (min <= 2 * ref_level b)%N | _ => True end.

  Definition ok_after (p : pexpr) (rest : list tok) : Prop :=
    match p with
    | PBin b _ _ => forall t r c, rest = t :: r -> binop_of_tok t = Some c -> (ref_level c <= ref_level b)%N
    | _ => True
    end.

  Lemma allowed_of_level p min : (min <= 2 * top_level p)%N -> allowed p min.
  Proof. destruct p; simpl; auto. Qed.

  Lemma ok_after_of_level p rest :
    (forall t r c, rest = t :: r -> binop_of_tok t = Some c -> (ref_level c <= top_level p)%N) ->
    ok_after p rest.
  Proof. destruct p; simpl; auto. Qed.

  Lemma loop_stops f min e rest :
    (forall t r c, rest = t :: r -> binop_of_tok t = Some c -> (2 * ref_level c < min)%N) ->
    loop (S f) T min e rest = Ok (e, rest).
  Proof.
    intros H. rewrite loop_S. destruct rest as [|t r]; [reflexivity|].
    destruct (binop_of_tok t) as [c|] eqn:B; [|reflexivity].
    specialize (H t r c eq_refl B). rewrite HL.
    apply N.ltb_lt in H. rewrite H. reflexivity.
  Qed.

  Lemma rt : forall p, wf p = true ->
    forall min rest f res, allowed p min -> ok_after p rest ->
      loop f T min (erase p) rest = Ok res ->
      exists f', expr_bp f' T min (flatten p ++ rest) = Ok res.
  Proof.
    induction p as [n|u q IHq|b l IHl r IHr|q IHq]; intros W min rest f res AL OA H.
    - exists (S f). simpl flatten. simpl app. rewrite expr_bp_S. simpl. exact H.
    - simpl in W. apply andb_prop in W. destruct W as [W1 W2]. apply N.leb_le in W1.
      unfold unary_level in W1.
      assert (Hq : exists f1, expr_bp f1 T (2 * unary_level)%N (flatten q ++ rest) = Ok (erase q, rest)).
      { apply (IHq W2 _ rest 1 (erase q, rest)).
        - apply allowed_of_level. unfold unary_level. lia.
        - apply ok_after_of_level. intros t r c _ _. pose proof (ref_level_bounds c). lia.
        - apply loop_stops. intros t r c _ _. pose proof (ref_level_bounds c). unfold unary_level. lia. }
      destruct Hq as [f1 Hq].
      exists (S (Nat.max f1 f)). simpl flatten. simpl app. rewrite expr_bp_S.
      rewrite unop_tok_roundtrip, HP.
      rewrite (fuel_mono_expr_ok f1 (Nat.max f1 f) _ _ _ _ (Nat.le_max_l _ _) Hq).
      apply (fuel_mono_loop_ok f); [apply Nat.le_max_r|]. exact H.
    - simpl in W. apply andb_prop in W. destruct W as [W Wr]. apply andb_prop in W. destruct W as [W Wl].
      apply andb_prop in W. destruct W as [W1 W2]. apply N.leb_le in W1. apply N.ltb_lt in W2.
      cbn [allowed ok_after erase] in AL, OA, H.
      assert (Hr : exists fr, expr_bp fr T (2 * ref_level b + 1)%N (flatten r ++ rest) = Ok (erase r, rest)).
      { apply (IHr Wr _ rest 1 (erase r, rest)).
        - apply allowed_of_level. lia.
        - apply ok_after_of_level. intros t r0 c E B. specialize (OA t r0 c E B). lia.
        - apply loop_stops. intros t r0 c E B. specialize (OA t r0 c E B). lia. }
      destruct Hr as [fr Hr].
      assert (Hl : loop (S (Nat.max fr f)) T min (erase l) (TOp b :: flatten r ++ rest) = Ok res).
      { rewrite loop_S. cbn [binop_of_tok]. rewrite HL, HR.
        assert (NB : (2 * ref_level b <? min)%N = false) by (apply N.ltb_ge; exact AL).
        rewrite NB.
        rewrite (fuel_mono_expr_ok fr (Nat.max fr f) _ _ _ _ (Nat.le_max_l _ _) Hr).
        apply (fuel_mono_loop_ok f); [apply Nat.le_max_r|]. exact H. }
      destruct (IHl Wl min (TOp b :: flatten r ++ rest) (S (Nat.max fr f)) res) as [f' Hf']; [| |exact Hl|].
      + apply allowed_of_level. lia.
      + apply ok_after_of_level. intros t r0 c E B. inversion E; subst. simpl in B. inversion B; subst. exact W1.
      + exists f'. simpl flatten. rewrite <- app_assoc. simpl app. exact Hf'.
    - simpl in W.
      assert (Hq : exists f1, expr_bp f1 T 0%N (flatten q ++ TRP :: rest) = Ok (erase q, TRP :: rest)).
      { apply (IHq W _ (TRP :: rest) 1 (erase q, TRP :: rest)).
        - apply allowed_of_level. lia.
        - apply ok_after_of_level. intros t r c E B. inversion E; subst. discriminate.
        - reflexivity. }
      destruct Hq as [f1 Hq].
      exists (S (Nat.max f1 f)). simpl flatten. simpl app. rewrite <- app_assoc. simpl app.
      rewrite expr_bp_S. cbn [unop_of_tok].
      rewrite (fuel_mono_expr_ok f1 (Nat.max f1 f) _ _ _ _ (Nat.le_max_l _ _) Hq).
      apply (fuel_mono_loop_ok f); [apply Nat.le_max_r|]. exact H.
  Qed.

  Lemma roundtrip_fuel : forall p, wf p = true ->
    exists fuel, parse_fuel fuel T (flatten p) = Ok (erase p).
  Proof.
    intros p W.
    destruct (rt p W 0%N [] 1 (erase p, [])) as [f' H].
    - apply allowed_of_level. lia.
    - apply ok_after_of_level. intros; discriminate.
    - reflexivity.
    - exists f'. unfold parse_fuel. rewrite app_nil_r in H. rewrite H. reflexivity.
  Qed.
End Roundtrip.

Lemma ref_roundtrip_fuel : forall p, wf p = true ->
  exists fuel, parse_fuel fuel tbl_ref (flatten p) = Ok (erase p).
Proof. apply roundtrip_fuel; intros; reflexivity. Qed.

(* minimal parenthesisation is well-formed and erases to the tree *)
Lemma erase_minimal : forall e, erase (minimal e) = e.
Proof.
  induction e as [n|u x IH|b l IHl r IHr]; simpl.
  - reflexivity.
  - destruct (unary_level <=? top_level (minimal x))%N; simpl; rewrite IH; reflexivity.
  - destruct (ref_level b <=? top_level (minimal l))%N;
      destruct (ref_level b <? top_level (minimal r))%N; simpl; rewrite IHl, IHr; reflexivity.
Qed.

Lemma wf_minimal : forall e, wf (minimal e) = true.
Proof.
  induction e as [n|u x IH|b l IHl r IHr]; simpl.
  - reflexivity.
  - destruct (unary_level <=? top_level (minimal x))%N eqn:E; simpl.
    + rewrite E, IH. reflexivity.
    + rewrite IH. reflexivity.
  - pose proof (ref_level_bounds b) as Bb.
    assert (P1 : (ref_level b <=? unary_level)%N = true) by (apply N.leb_le; unfold unary_level; lia).
    assert (P2 : (ref_level b <? unary_level)%N = true) by (apply N.ltb_lt; unfold unary_level; lia).
    destruct (ref_level b <=? top_level (minimal l))%N eqn:E1;
      destruct (ref_level b <? top_level (minimal r))%N eqn:E2; simpl;
      rewrite ?E1, ?E2, ?P1, ?P2, ?IHl, ?IHr; reflexivity.
Qed.

(* ------------------------------------------------------------------ the fuel of [parse] suffices *)
Lemma shorter : forall f T,
  (forall m ts e r, expr_bp f T m ts = Ok (e, r) -> length r <= length ts) /\
  (forall m l ts e r, loop f T m l ts = Ok (e, r) -> length r <= length ts).
Proof.
  induction f as [|f IH]; intros T.
  - split; intros; simpl in *; discriminate.
  - destruct (IH T) as [IE IL]. split.
    + intros m ts e r H. rewrite expr_bp_S in H.
      destruct ts as [|t rest]; [discriminate|]. simpl length.
      destruct (unop_of_tok t) as [u|].
      * destruct (pbp T u) as [p|]; [|discriminate].
        destruct (expr_bp f T p rest) as [[rhs r']| |] eqn:E; try discriminate.
        apply IE in E. apply IL in H. lia.
      * destruct t; try discriminate.
        -- apply IL in H. lia.
        -- destruct (expr_bp f T 0%N rest) as [[e0 r']| |] eqn:E; try discriminate.
           destruct r' as [|t' r'']; [discriminate|]. destruct t'; try discriminate.
           apply IE in E. apply IL in H. simpl length in E. lia.
    + intros m l ts e r H. rewrite loop_S in H.
      destruct ts as [|t rest]; [inversion H; subst; auto|]. simpl length.
      destruct (binop_of_tok t) as [b|]; [|inversion H; subst; simpl; auto].
      destruct (lbp T b <? m)%N; [inversion H; subst; simpl; auto|].
      destruct (expr_bp f T (rbp T b) rest) as [[rhs r']| |] eqn:E; try discriminate.
      apply IE in E. apply IL in H. lia.
Qed.

Lemma enough : forall f T,
  (forall m ts, 2 * length ts + 1 <= f -> expr_bp f T m ts <> OutOfFuel) /\
  (forall m l ts, 2 * length ts + 1 <= f -> loop f T m l ts <> OutOfFuel).
Proof.
  induction f as [|f IH]; intros T.
  - split; intros; lia.
  - destruct (IH T) as [IE IL]. split.
    + intros m ts H. rewrite expr_bp_S.
      destruct ts as [|t rest]; [discriminate|]. simpl length in H.
      destruct (unop_of_tok t) as [u|].
      * destruct (pbp T u) as [p|]; [|discriminate].
        destruct (expr_bp f T p rest) as [[rhs r']| |] eqn:E.
        -- apply (proj1 (shorter f T)) in E. apply IL. lia.
        -- discriminate.
        -- exfalso. revert E. apply IE. lia.
      * destruct t; try discriminate.
        -- apply IL. lia.
        -- destruct (expr_bp f T 0%N rest) as [[e0 r']| |] eqn:E.
           ++ destruct r' as [|t' r'']; [discriminate|]. destruct t'; try discriminate.
              apply (proj1 (shorter f T)) in E. simpl length in E. apply IL. lia.
           ++ discriminate.
           ++ exfalso. revert E. apply IE. lia.
    + intros m l ts H. rewrite loop_S.
      destruct ts as [|t rest]; [discriminate|]. simpl length in H.
      destruct (binop_of_tok t) as [b|]; [|discriminate].
      destruct (lbp T b <? m)%N; [discriminate|].
      destruct (expr_bp f T (rbp T b) rest) as [[rhs r']| |] eqn:E.
      * apply (proj1 (shorter f T)) in E. apply IL. lia.
      * discriminate.
      * exfalso. revert E. apply IE. lia.
Qed.

Lemma parse_not_out_of_fuel : forall T ts, parse T ts <> OutOfFuel.
Proof.
  intros T ts. unfold parse, parse_fuel.
  pose proof (proj1 (enough (2 * length ts + 2) T) 0%N ts) as H.
  destruct (expr_bp (2 * length ts + 2) T 0%N ts) as [[e r]| |].
  - destruct r; discriminate.
  - discriminate.
  - exfalso. apply H; [lia|reflexivity].
Qed.

Lemma parse_fuel_mono : forall f f' T ts r,
  f <= f' -> parse_fuel f T ts = r -> r <> OutOfFuel -> parse_fuel f' T ts = r.
Proof.
  unfold parse_fuel. intros f f' T ts r L H NO.
  destruct (expr_bp f T 0%N ts) as [x| |] eqn:E.
  - rewrite (fuel_mono_expr f f' _ _ _ _ L E) by discriminate. exact H.
  - rewrite (fuel_mono_expr f f' _ _ _ _ L E) by discriminate. exact H.
  - congruence.
Qed.

Lemma parse_of_fuel : forall T ts f e, parse_fuel f T ts = Ok e -> parse T ts = Ok e.
Proof.
  intros T ts f e H.
  pose proof (parse_not_out_of_fuel T ts) as NO. unfold parse in *.
  set (F := 2 * length ts + 2) in *.
  pose proof (parse_fuel_mono f (Nat.max f F) T ts _ (Nat.le_max_l _ _) H) as H1.
  pose proof (parse_fuel_mono F (Nat.max f F) T ts _ (Nat.le_max_r _ _) eq_refl NO) as H2.
  rewrite H1 in H2 by discriminate. symmetry. exact H2.
Qed.

Lemma ref_roundtrip : forall p, wf p = true -> parse tbl_ref (flatten p) = Ok (erase p).
Proof.
  intros p W. destruct (ref_roundtrip_fuel p W) as [f H]. eapply parse_of_fuel; eauto.
Qed.

Lemma ref_roundtrip_minimal : forall e, parse tbl_ref (render e) = Ok e.
Proof.
  intros e. unfold render. rewrite <- (erase_minimal e) at 2. apply ref_roundtrip. apply wf_minimal.
Qed.

(* the parser the code runs (ir table) on grammar-conforming strings outside the known class *)
Lemma ir_roundtrip_outside_known : forall p, wf p = true -> known_unary_mul (flatten p) = false ->
  parse tbl_ir (flatten p) = Ok (erase p).
Proof. intros p W K. rewrite (ir_outside_known _ K). apply ref_roundtrip. exact W. Qed.

Lemma peg_roundtrip : forall p, wf p = true -> parse tbl_peg (flatten p) = Ok (erase p).
Proof. intros p W. rewrite peg_is_grammar. apply ref_roundtrip. exact W. Qed.

(* ------------------------------------------------------------------ non-vacuity *)
(* a + b * -c << (d - e) - f : passes every scan (hypotheses of the restricted theorems hold) *)
Definition ex_tokens : list tok :=
  [TAtom 0; TOp Add; TAtom 1; TOp Mul; TOp Sub; TAtom 2; TOp Lhs; TLP; TAtom 3; TOp Sub; TAtom 4; TRP;
   TOp Sub; TAtom 5].
Example ex_outside_known :
  known_unary_mul ex_tokens = false /\ known_rowan ex_tokens = false /\
  parse tbl_ref ex_tokens =
    Ok (EBin Lhs (EBin Add (EAtom 0) (EBin Mul (EAtom 1) (EUn UMinus (EAtom 2))))
                 (EBin Sub (EBin Sub (EAtom 3) (EAtom 4)) (EAtom 5))).
Proof. vm_compute. auto. Qed.

Definition ex_pexpr : pexpr :=
  PBin Lt (PBin Sub (PAtom 0) (PParen (PBin Sub (PAtom 1) (PAtom 2))))
          (PBin Add (PUn UNot (PParen (PBin Or (PAtom 3) (PAtom 4)))) (PParen (PParen (PAtom 5)))).
Example ex_wf : wf ex_pexpr = true /\ known_unary_mul (flatten ex_pexpr) = false.
Proof. vm_compute. auto. Qed.

Example ex_tables_agree_nontrivial :
  tables_agree_on ok_all oku_all tbl_ir tbl_ref = false /\
  tables_agree_on ok_all oku_all tbl_rowan tbl_ref = false /\
  tables_agree_on ok_unary_mul oku_all tbl_ir tbl_ref = true.
Proof. vm_compute. auto. Qed.
