(** C06 — property theorems only.  Each is closed by [exact] of a lemma from Proofs.v and
    followed by [Print Assumptions]; statements are pinned again in Pins.v.

    Scope: the operator fragment (atoms, parentheses, the 19 binary and 4 prefix operators) of
    the three bundled parsers, as Pratt loops over binding-power tables REGENERATED from the
    Rust sources (Gen/GenPrec.v).  Everything else of the grammar (suffixes, objects, params /
    args, literals) is tied by the differential correspondence only. *)
From Coq Require Import NArith List Bool.
From JrV Require Import Common.PrecOps Gen.GenPrec C06.Model C06.Proofs.
Import ListNotations.

(** Two tables that give the same outcome for every comparison the loop can make -- except the
    comparisons excused by [ok]/[oku] -- parse EVERY token list identically, provided the list
    never puts an excused pair in a position where it could be compared (decidable lexical scan
    [lex_ok]).  Any fuel; the parser is not assumed to terminate or succeed. *)
Theorem C06_bp_equiv_parse_eq :
  forall T1 T2 ok oku,
    tables_agree_on ok oku T1 T2 = true ->
    forall ts, lex_ok ok oku true ts = true ->
    forall fuel, parse_fuel fuel T1 ts = parse_fuel fuel T2 ts.
Proof. exact bp_equiv_parse_eq. Qed.
Print Assumptions C06_bp_equiv_parse_eq.

(** ... in particular tables with no disagreement at all parse all token lists identically. *)
Theorem C06_bp_equiv_total :
  forall T1 T2,
    tables_agree_on ok_all oku_all T1 T2 = true ->
    forall ts fuel, parse_fuel fuel T1 ts = parse_fuel fuel T2 ts.
Proof. exact bp_equiv_total. Qed.
Print Assumptions C06_bp_equiv_total.

(** The reference table implements the grammar: every token string that is the flattening of a
    tree parenthesised according to the Jsonnet precedence levels and left-associativity
    ([wf]) parses to exactly that tree -- minimal, redundant or nested parentheses alike. *)
Theorem C06_pratt_roundtrip :
  forall p, wf p = true -> parse tbl_ref (flatten p) = Ok (erase p).
Proof. exact ref_roundtrip. Qed.
Print Assumptions C06_pratt_roundtrip.

Theorem C06_pratt_roundtrip_minimal :
  forall e, parse tbl_ref (render e) = Ok e.
Proof. exact ref_roundtrip_minimal. Qed.
Print Assumptions C06_pratt_roundtrip_minimal.

(** [parse] never runs out of fuel (so its verdicts are the verdicts of the unbounded loop). *)
Theorem C06_parse_fuel_sufficient :
  forall T ts, parse T ts <> OutOfFuel.
Proof. exact parse_not_out_of_fuel. Qed.
Print Assumptions C06_parse_fuel_sufficient.

(** The default parser's table (today's source) is the grammar's outside the known class
    "a prefix operator followed later by `*`, `/` or `%`" ...  (full statement, without the
    hypothesis, is FALSE on this tree: [C06_ir_unary_refuted]). *)
Theorem C06_ir_matches_grammar_outside_known :
  forall ts, known_unary_mul ts = false -> parse tbl_ir ts = parse tbl_ref ts.
Proof. exact ir_outside_known. Qed.
Print Assumptions C06_ir_matches_grammar_outside_known.

Theorem C06_ir_unary_refuted :
  exists ts, known_unary_mul ts = true /\
             parse tbl_ir ts = Ok (EUn UBitNot (EBin Mul (EAtom 0) (EAtom 1))) /\
             parse tbl_ref ts = Ok (EBin Mul (EUn UBitNot (EAtom 0)) (EAtom 1)).
Proof. exact ir_unary_refuted. Qed.
Print Assumptions C06_ir_unary_refuted.

(** The legacy parser's level list IS the grammar's (unrestricted since /repo 1596e0a made `^`
    left-associative; before that fix the statement was false: `a ^ b ^ c` parsed as a ^ (b ^ c)). *)
Theorem C06_peg_matches_grammar :
  forall ts, parse tbl_peg ts = parse tbl_ref ts.
Proof. exact peg_is_grammar. Qed.
Print Assumptions C06_peg_matches_grammar.

(** The formatter's parser: same class as ir plus the missing prefix `+`. *)
Theorem C06_rowan_matches_grammar_outside_known :
  forall ts, known_rowan ts = false -> parse tbl_rowan ts = parse tbl_ref ts.
Proof. exact rowan_outside_known. Qed.
Print Assumptions C06_rowan_matches_grammar_outside_known.

Theorem C06_rowan_uplus_refuted :
  exists ts, known_rowan ts = true /\ parse tbl_rowan ts = Err /\
             parse tbl_ref ts = Ok (EUn UPlus (EAtom 0)).
Proof. exact rowan_uplus_refuted. Qed.
Print Assumptions C06_rowan_uplus_refuted.

(** "reports no error exactly for the texts the evaluator's parser accepts": the formatter's
    table and the default parser's table give the same result on every token list that has no
    prefix `+`. *)
Theorem C06_rowan_same_as_ir_outside_unary_plus :
  forall ts, uses_unary_plus ts = false -> parse tbl_rowan ts = parse tbl_ir ts.
Proof. exact rowan_ir_outside_uplus. Qed.
Print Assumptions C06_rowan_same_as_ir_outside_unary_plus.

(** Consequence for the code's tables: grammar-conforming strings outside the known class are
    parsed to the tree the grammar assigns. *)
Theorem C06_ir_roundtrip_outside_known :
  forall p, wf p = true -> known_unary_mul (flatten p) = false ->
    parse tbl_ir (flatten p) = Ok (erase p).
Proof. exact ir_roundtrip_outside_known. Qed.
Print Assumptions C06_ir_roundtrip_outside_known.

Theorem C06_peg_roundtrip :
  forall p, wf p = true -> parse tbl_peg (flatten p) = Ok (erase p).
Proof. exact peg_roundtrip. Qed.
Print Assumptions C06_peg_roundtrip.
