(* C06 — the bundled parsers accept the same language and build the same tree.
   DEFINITIONS ONLY.

   IMPL-MODEL  [expr_bp]/[loop]: transliteration of the Pratt loop that jrsonnet-ir-parser
               (lib.rs: expr_bp) and jrsonnet-rowan-parser (parser.rs: expr_binding_power /
               lhs_basic) run, parameterised by a binding-power table.  The three tables
               [tbl_ir], [tbl_rowan], [tbl_peg] are REGENERATED from the Rust sources on every
               run (Gen/GenPrec.v); peg's `precedence!` level list is read as such a table.
   SPEC        the operator grammar of the Jsonnet specification: ten precedence levels, every
               binary operator left-associative, prefix operators bind tighter than any binary
               operator.  Written twice: as well-formed parenthesised trees [pexpr]/[wf] with
               their token string [flatten] (what a string MEANS), and as the reference table
               [tbl_ref] (hand-written, not generated). *)
From Coq Require Import NArith List Bool Arith.
From JrV Require Import Common.PrecOps Gen.GenPrec.
Import ListNotations.

(* ------------------------------------------------------------------ tokens and trees *)
(* Tokens of the operator fragment.  [TOp Add] is the token `+`, [TOp Sub] the token `-`:
   both are also prefix operators, exactly as in the lexer (one PLUS / MINUS kind). *)
Inductive tok := TAtom (n : N) | TLP | TRP | TOp (b : binop) | TNot | TBitNot.

Inductive expr := EAtom (n : N) | EUn (u : unop) (e : expr) | EBin (b : binop) (l r : expr).

Inductive res (A : Type) := Ok (a : A) | Err | OutOfFuel.
Arguments Ok {A} a.
Arguments Err {A}.
Arguments OutOfFuel {A}.

(* ir-parser: fn unary_op / fn binary_op *)
Definition unop_of_tok (t : tok) : option unop :=
  match t with
  | TOp Add => Some UPlus
  | TOp Sub => Some UMinus
  | TNot => Some UNot
  | TBitNot => Some UBitNot
  | _ => None
  end.

Definition binop_of_tok (t : tok) : option binop :=
  match t with TOp b => Some b | _ => None end.

Definition tok_of_unop (u : unop) : tok :=
  match u with UPlus => TOp Add | UMinus => TOp Sub | UNot => TNot | UBitNot => TBitNot end.

(* ------------------------------------------------------------------ IMPL-MODEL *)
(* fn expr_bp(p, min_bp):
     lhs = if unary_op(peek) { eat; UnaryOp(op, expr_bp(prefix_binding_power(op))) }
           else expr_suffix()            -- atom, or `(` expr `)`
     loop { op = binary_op(peek) else break; (lbp, rbp) = infix_binding_power(op);
            if lbp < min_bp { break }; eat; rhs = expr_bp(rbp); lhs = BinaryOp(lhs, op, rhs) }  *)
Fixpoint expr_bp (fuel : nat) (T : table) (min : N) (ts : list tok) {struct fuel}
  : res (expr * list tok) :=
  match fuel with
  | O => OutOfFuel
  | S f =>
    match ts with
    | [] => Err
    | t :: rest =>
      match unop_of_tok t with
      | Some u =>
        match pbp T u with
        | None => Err
        | Some p =>
          match expr_bp f T p rest with
          | Ok (rhs, r') => loop f T min (EUn u rhs) r'
          | Err => Err
          | OutOfFuel => OutOfFuel
          end
        end
      | None =>
        match t with
        | TAtom n => loop f T min (EAtom n) rest
        | TLP =>
          match expr_bp f T 0%N rest with
          | Ok (e, TRP :: r') => loop f T min e r'
          | Ok _ => Err
          | Err => Err
          | OutOfFuel => OutOfFuel
          end
        | _ => Err
        end
      end
    end
  end
with loop (fuel : nat) (T : table) (min : N) (lhs : expr) (ts : list tok) {struct fuel}
  : res (expr * list tok) :=
  match fuel with
  | O => OutOfFuel
  | S f =>
    match ts with
    | [] => Ok (lhs, ts)
    | t :: rest =>
      match binop_of_tok t with
      | None => Ok (lhs, ts)
      | Some b =>
        if (lbp T b <? min)%N then Ok (lhs, ts)
        else
          match expr_bp f T (rbp T b) rest with
          | Ok (rhs, r') => loop f T min (EBin b lhs rhs) r'
          | Err => Err
          | OutOfFuel => OutOfFuel
          end
      end
    end
  end.

(* pub fn parse: expr(p) then "expected end of file" *)
Definition parse_fuel (fuel : nat) (T : table) (ts : list tok) : res expr :=
  match expr_bp fuel T 0%N ts with
  | Ok (e, []) => Ok e
  | Ok _ => Err
  | Err => Err
  | OutOfFuel => OutOfFuel
  end.

(* every step of a call chain either consumes a token or is followed by one that does *)
Definition parse (T : table) (ts : list tok) : res expr := parse_fuel (2 * length ts + 2) T ts.

(* ------------------------------------------------------------------ SPEC *)
(* Jsonnet specification, "Associativity and Operator Precedence" (tightest first):
   e(...) e[...] e.f | + - ! ~ (unary) | * / % | + - | << >> | < > <= >= in | == != | & | ^ |
   | (bitor) | && | ||  ; all binary operators left-associative.  Levels counted from the loosest. *)
Definition ref_level (b : binop) : N :=
  match b with
  | Or => 1 | And => 2 | BitOr => 3 | BitXor => 4 | BitAnd => 5
  | Eq | Neq => 6
  | Lt | Gt | Lte | Gte | In => 7
  | Lhs | Rhs => 8
  | Add | Sub => 9
  | Mul | Div | Mod => 10
  end%N.

Definition unary_level : N := 11%N.

Definition tbl_ref : table :=
  Table (fun b => 2 * ref_level b)%N (fun b => 2 * ref_level b + 1)%N (fun _ => Some (2 * unary_level)%N).

(* Trees with their parentheses kept: what the writer of a token string meant. *)
Inductive pexpr :=
| PAtom (n : N) | PUn (u : unop) (p : pexpr) | PBin (b : binop) (l r : pexpr) | PParen (p : pexpr).

Fixpoint erase (p : pexpr) : expr :=
  match p with
  | PAtom n => EAtom n
  | PUn u q => EUn u (erase q)
  | PBin b l r => EBin b (erase l) (erase r)
  | PParen q => erase q
  end.

Fixpoint flatten (p : pexpr) : list tok :=
  match p with
  | PAtom n => [TAtom n]
  | PUn u q => tok_of_unop u :: flatten q
  | PBin b l r => flatten l ++ TOp b :: flatten r
  | PParen q => TLP :: flatten q ++ [TRP]
  end.

(* level of the outermost construct; atoms, parenthesised and prefix expressions are primary *)
Definition top_level (p : pexpr) : N :=
  match p with PBin b _ _ => ref_level b | _ => unary_level end.

(* The grammar's disambiguation rules: a prefix operator applies to a primary; the left operand
   of a binary operator may be of the same level (left-associativity), the right operand must
   be of a strictly tighter level. *)
Fixpoint wf (p : pexpr) : bool :=
  match p with
  | PAtom _ => true
  | PParen q => wf q
  | PUn _ q => (unary_level <=? top_level q)%N && wf q
  | PBin b l r => (ref_level b <=? top_level l)%N && (ref_level b <? top_level r)%N && wf l && wf r
  end.

(* the rendering with as few parentheses as the grammar allows *)
Fixpoint minimal (e : expr) : pexpr :=
  match e with
  | EAtom n => PAtom n
  | EUn u x =>
    let q := minimal x in PUn u (if (unary_level <=? top_level q)%N then q else PParen q)
  | EBin b l r =>
    let ql := minimal l in
    let qr := minimal r in
    PBin b (if (ref_level b <=? top_level ql)%N then ql else PParen ql)
           (if (ref_level b <? top_level qr)%N then qr else PParen qr)
  end.

Definition render (e : expr) : list tok := flatten (minimal e).

(* ------------------------------------------------------------------ comparing two tables *)
(* Every comparison the loop can make is `lbp c < m` where m is 0 (top level, after `(`), the
   prefix power of a prefix operator, or the right power of a binary operator. *)
Inductive minsrc := MZero | MUn (u : unop) | MBin (b : binop).

Definition all_minsrc : list minsrc := MZero :: map MUn all_unops ++ map MBin all_binops.

Definition minval (T : table) (m : minsrc) : option N :=
  match m with MZero => Some 0%N | MUn u => pbp T u | MBin b => Some (rbp T b) end.

Definition agree (T1 T2 : table) (m : minsrc) (c : binop) : bool :=
  match minval T1 m, minval T2 m with
  | Some m1, Some m2 => Bool.eqb (lbp T1 c <? m1)%N (lbp T2 c <? m2)%N
  | _, _ => true             (* a missing prefix operator is [avail]'s business *)
  end.

Definition is_some {A} (o : option A) : bool := match o with Some _ => true | None => false end.

Definition avail (T1 T2 : table) (u : unop) : bool :=
  Bool.eqb (is_some (pbp T1 u)) (is_some (pbp T2 u)).

(* [ok]/[oku] name the comparisons (prefix operators) on which the two tables are required to
   agree; the complement is the excused (known) class. *)
Definition tables_agree_on (ok : minsrc -> binop -> bool) (oku : unop -> bool) (T1 T2 : table) : bool :=
  forallb (fun m => forallb (fun c => implb (ok m c) (agree T1 T2 m c)) all_binops) all_minsrc
  && forallb (fun u => implb (oku u) (avail T1 T2 u)) all_unops.

Definition binops_of (ts : list tok) : list binop :=
  flat_map (fun t => match binop_of_tok t with Some b => [b] | None => [] end) ts.

(* Lexical scan of a token list: [st = true] where an operand is expected (start, after `(`,
   after an operator), [false] after an operand.  The list passes when every operator token,
   in the role its position gives it, is [ok] against every operator token that follows it. *)
Fixpoint lex_ok (ok : minsrc -> binop -> bool) (oku : unop -> bool) (st : bool) (ts : list tok) : bool :=
  match ts with
  | [] => true
  | t :: rest =>
    if st then
      match unop_of_tok t with
      | Some u => oku u && forallb (ok (MUn u)) (binops_of rest) && lex_ok ok oku true rest
      | None =>
        match t with
        | TAtom _ => lex_ok ok oku false rest
        | TLP => lex_ok ok oku true rest
        | _ => true          (* every table rejects here *)
        end
      end
    else
      match binop_of_tok t with
      | Some b => forallb (ok (MBin b)) (binops_of rest) && lex_ok ok oku true rest
      | None =>
        match t with
        | TRP => lex_ok ok oku false rest
        | _ => true          (* every loop stops here: rejected by every table *)
        end
      end
  end.

(* ------------------------------------------------------------------ known classes *)
Definition is_mul_level (c : binop) : bool :=
  match c with Mul | Div | Mod => true | _ => false end.

(* C06-ir-unary-vs-mul: a prefix operator whose power equals the left power of `* / %` *)
Definition ok_unary_mul (m : minsrc) (c : binop) : bool :=
  match m with MUn _ => negb (is_mul_level c) | _ => true end.

(* C06-rowan-no-unary-plus *)
Definition oku_no_plus (u : unop) : bool := match u with UPlus => false | _ => true end.
Definition oku_all (u : unop) : bool := true.

(* token lists in the known classes (decidable; evaluated next to the parsers in every run) *)
Definition known_unary_mul (ts : list tok) : bool := negb (lex_ok ok_unary_mul oku_all true ts).
Definition known_rowan (ts : list tok) : bool := negb (lex_ok ok_unary_mul oku_no_plus true ts).

(* ------------------------------------------------------------------ what a run evaluates *)
Definition run_case (ts : list tok) :=
  (parse tbl_ref ts, parse tbl_ir ts, parse tbl_peg ts, parse tbl_rowan ts,
   (known_unary_mul ts, known_rowan ts)).
