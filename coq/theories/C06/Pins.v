(** Statements of the C06 property theorems, pinned: weakening one breaks this file. *)
From Coq Require Import NArith List Bool.
From JrV Require Import Common.PrecOps Gen.GenPrec C06.Model C06.Proofs C06.Properties.
Import ListNotations.

Check C06_bp_equiv_parse_eq :
  forall T1 T2 ok oku,
    tables_agree_on ok oku T1 T2 = true ->
    forall ts, lex_ok ok oku true ts = true ->
    forall fuel, parse_fuel fuel T1 ts = parse_fuel fuel T2 ts.
Check C06_bp_equiv_total :
  forall T1 T2,
    tables_agree_on ok_all oku_all T1 T2 = true ->
    forall ts fuel, parse_fuel fuel T1 ts = parse_fuel fuel T2 ts.
Check C06_pratt_roundtrip : forall p, wf p = true -> parse tbl_ref (flatten p) = Ok (erase p).
Check C06_pratt_roundtrip_minimal : forall e, parse tbl_ref (render e) = Ok e.
Check C06_parse_fuel_sufficient : forall T ts, parse T ts <> OutOfFuel.
Check C06_ir_matches_grammar_outside_known :
  forall ts, known_unary_mul ts = false -> parse tbl_ir ts = parse tbl_ref ts.
Check C06_ir_unary_refuted :
  exists ts, known_unary_mul ts = true /\
             parse tbl_ir ts = Ok (EUn UBitNot (EBin Mul (EAtom 0) (EAtom 1))) /\
             parse tbl_ref ts = Ok (EBin Mul (EUn UBitNot (EAtom 0)) (EAtom 1)).
Check C06_peg_matches_grammar : forall ts, parse tbl_peg ts = parse tbl_ref ts.
Check C06_rowan_matches_grammar_outside_known :
  forall ts, known_rowan ts = false -> parse tbl_rowan ts = parse tbl_ref ts.
Check C06_rowan_uplus_refuted :
  exists ts, known_rowan ts = true /\ parse tbl_rowan ts = Err /\
             parse tbl_ref ts = Ok (EUn UPlus (EAtom 0)).
Check C06_rowan_same_as_ir_outside_unary_plus :
  forall ts, uses_unary_plus ts = false -> parse tbl_rowan ts = parse tbl_ir ts.
Check C06_ir_roundtrip_outside_known :
  forall p, wf p = true -> known_unary_mul (flatten p) = false ->
    parse tbl_ir (flatten p) = Ok (erase p).
Check C06_peg_roundtrip : forall p, wf p = true -> parse tbl_peg (flatten p) = Ok (erase p).

(** the definitions the statements rest on, pinned by evaluation *)
(* the grammar's levels (Jsonnet specification), loosest to tightest *)
Check eq_refl : map ref_level all_binops = [1; 2; 3; 4; 5; 6; 6; 7; 7; 7; 7; 7; 8; 8; 9; 9; 10; 10; 10]%N.
Check eq_refl : map (lbp tbl_ref) all_binops = [2; 4; 6; 8; 10; 12; 12; 14; 14; 14; 14; 14; 16; 16; 18; 18; 20; 20; 20]%N.
Check eq_refl : map (rbp tbl_ref) all_binops = [3; 5; 7; 9; 11; 13; 13; 15; 15; 15; 15; 15; 17; 17; 19; 19; 21; 21; 21]%N.
Check eq_refl : map (pbp tbl_ref) all_unops = [Some 22; Some 22; Some 22; Some 22]%N.
(* a - b - c is (a - b) - c ; a - (b - c) needs its parentheses ; -a * b is (-a) * b *)
Check eq_refl : wf (PBin Sub (PBin Sub (PAtom 0) (PAtom 1)) (PAtom 2)) = true.
Check eq_refl : wf (PBin Sub (PAtom 0) (PBin Sub (PAtom 1) (PAtom 2))) = false.
Check eq_refl : wf (PBin Sub (PAtom 0) (PParen (PBin Sub (PAtom 1) (PAtom 2)))) = true.
Check eq_refl : wf (PBin Mul (PUn UMinus (PAtom 0)) (PAtom 1)) = true.
Check eq_refl : wf (PUn UMinus (PBin Mul (PAtom 0) (PAtom 1))) = false.
Check eq_refl : wf (PBin Add (PAtom 0) (PBin Mul (PAtom 1) (PAtom 2))) = true.
Check eq_refl : wf (PBin Mul (PAtom 0) (PBin Add (PAtom 1) (PAtom 2))) = false.
Check eq_refl : flatten (PBin Mul (PUn UMinus (PParen (PAtom 0))) (PAtom 1))
                = [TOp Sub; TLP; TAtom 0; TRP; TOp Mul; TAtom 1].
Check eq_refl : render (EBin Mul (EBin Add (EAtom 0) (EAtom 1)) (EUn UNot (EBin Mul (EAtom 2) (EAtom 3))))
                = [TLP; TAtom 0; TOp Add; TAtom 1; TRP; TOp Mul; TNot; TLP; TAtom 2; TOp Mul; TAtom 3; TRP].
(* the known classes are what their names say *)
Check eq_refl : known_unary_mul [TOp Sub; TAtom 0; TOp Mul; TAtom 1] = true.
Check eq_refl : known_unary_mul [TAtom 0; TOp Sub; TAtom 1; TOp Mul; TAtom 2] = false.
Check eq_refl : known_unary_mul [TAtom 0; TOp Mul; TOp Sub; TAtom 1; TOp Add; TAtom 2] = false.
Check eq_refl : parse tbl_peg [TAtom 0; TOp BitXor; TAtom 1; TOp BitXor; TAtom 2]
                = Ok (EBin BitXor (EBin BitXor (EAtom 0) (EAtom 1)) (EAtom 2)).
Check eq_refl : known_rowan [TAtom 0; TOp Add; TAtom 1] = false.
Check eq_refl : known_rowan [TAtom 0; TOp Add; TOp Add; TAtom 1] = true.
Check eq_refl : parse tbl_ref [TAtom 0; TOp Add] = Err.
