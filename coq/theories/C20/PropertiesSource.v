(** C20 — source tie, property theorems only: the TRANSLATED children() of Gen/GenFmt.v
    (regenerated from children.rs on every run) never fires one of its asserts. *)
From Coq Require Import List NArith Bool.
From JrV Require Import C19.Model C19.Trivia Gen.GenFmt C19.ModelSource C19.ProofsSource C20.Properties.
Import ListNotations.
Open Scope N_scope.

(** the model C20_children_total speaks about is the translated source *)
Theorem C20_model_is_translated_source_children :
  forall loose trailing items, src_children loose trailing items = children loose trailing items.
Proof. exact src_children_eq. Qed.
Print Assumptions C20_model_is_translated_source_children.

(** corollary: neither `assert!(next.is_empty())`, `expect("checked not none")` nor
    "silently eaten token" fires in the translated loop on a list of child nodes, trivia, error
    elements and `,`/`;` separators *)
Theorem C20_source_children_total :
  forall items, forallb sep_only items = true -> src_children false None items <> None.
Proof. intros items H. rewrite src_children_eq. exact (C20_children_total items H). Qed.
Print Assumptions C20_source_children_total.

(** non-vacuity, and the assert is real: an unexpected token in a strict call does panic *)
Example C20_source_nonvacuous_total :
  src_children false None [INode 1; ISep; ITriv Ws [10]; INode 2] <> None
  /\ src_children false None [INode 1; IOther] = None.
Proof. split; [vm_compute; discriminate | vm_compute; reflexivity]. Qed.
