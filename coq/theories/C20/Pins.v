(** Statements of the C20 property theorems, pinned. *)
From Coq Require Import List NArith Bool.
From JrV Require Import C19.Model C19.Trivia C20.Proofs C20.Properties.
Import ListNotations.
Open Scope N_scope.

Check C20_comment_strip_total : forall body, fmt_ml ([SLASH; STAR] ++ body ++ [STAR; SLASH]) <> None.
Check C20_children_total :
  forall items, forallb sep_only items = true -> children false None items <> None.
Check C20_comment_idempotent_partial :
  forall text body eol, forallb is_ws eol = true ->
    (fmt_slash text = Some body -> fmt_slash (render_slash body ++ eol) = Some body) /\
    (fmt_hash text = Some body -> fmt_hash (render_hash body ++ eol) = Some body).
Check C20_comment_idempotent_refuted :
  ml_text_stable [] doc_blank = false /\ ml_text_stable [] star_gutter_blank = false.
Check C20_comment_tab_in_string_refuted :
  exists tok o, fmt_ml tok = Some o /\ forallb dprint_ok (ml_strings o) = false.
Check eq_refl : sep_only IOther = false.
Check eq_refl : sep_only ISep = true.
Check eq_refl : render_slash [97] = [47; 47; 32; 97].
Check eq_refl : is_ws 10 = true.
Check eq_refl : is_ws 160 = true.
Check eq_refl : is_ws 97 = false.
