(** C20 — property theorems only (formatting is idempotent and never crashes: the two
    hand-written kernels).  Statements are pinned again in Pins.v. *)
From Coq Require Import List NArith Bool.
From JrV Require Import C19.Model C19.Trivia C19.Comments C20.Proofs.
Import ListNotations.
Open Scope N_scope.

(** comments.rs: the `expect("all non-empty lines start with this padding")` (and the two
    delimiter `expect`s) are unreachable for every block comment the lexer can produce *)
Theorem C20_comment_strip_total :
  forall body, fmt_ml ([SLASH; STAR] ++ body ++ [STAR; SLASH]) <> None.
Proof. exact fmt_ml_total. Qed.
Print Assumptions C20_comment_strip_total.

(** children.rs: neither assert fires on a list made of child nodes, trivia, error elements
    and `,`/`;` separators *)
Theorem C20_children_total :
  forall items, forallb sep_only items = true -> children false None items <> None.
Proof. exact children_total. Qed.
Print Assumptions C20_children_total.

(** `// text` and `# text` are fixed points: re-reading the printed comment (with whatever
    line end the lexer attaches) prints the same comment.  PARTIAL: the full statement
      forall c ind, format_comments (render ind (format_comments c)) = format_comments c
    is FALSE for multi-line block comments (refuted below); it is proved for the two
    single-line kinds, for all texts. *)
Theorem C20_comment_idempotent_partial :
  forall text body eol, forallb is_ws eol = true ->
    (fmt_slash text = Some body -> fmt_slash (render_slash body ++ eol) = Some body) /\
    (fmt_hash text = Some body -> fmt_hash (render_hash body ++ eol) = Some body).
Proof.
  intros text body eol He. split; intros H.
  - eapply slash_idem; eauto.
  - eapply hash_idem; eauto.
Qed.
Print Assumptions C20_comment_idempotent_partial.

(** findings: the ordinary doc comment with a blank ` *` line, and the plain block comment
    with a ` * ` gutter and a blank line, are NOT fixed points of print-then-reprint *)
Theorem C20_comment_idempotent_refuted :
  ml_text_stable [] doc_blank = false /\ ml_text_stable [] star_gutter_blank = false.
Proof. split; [exact doc_blank_unstable | exact star_gutter_blank_unstable]. Qed.
Print Assumptions C20_comment_idempotent_refuted.

(** finding: a tab inside a comment line reaches dprint inside a string item (debug builds of
    dprint-core panic on that) *)
Theorem C20_comment_tab_in_string_refuted :
  exists tok o, fmt_ml tok = Some o /\ forallb dprint_ok (ml_strings o) = false.
Proof. exact tab_string_witness. Qed.
Print Assumptions C20_comment_tab_in_string_refuted.

Example C20_nonvacuous_slash : fmt_slash [47;47;32;32;97;32;10] = Some [97].
Proof. vm_compute. reflexivity. Qed.
