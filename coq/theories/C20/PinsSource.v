(** Statements of the C20 source-tie theorems, pinned. *)
From Coq Require Import List NArith Bool.
From JrV Require Import C19.Model C19.Trivia Gen.GenFmt C19.ModelSource C20.PropertiesSource.
Import ListNotations.
Open Scope N_scope.

Check C20_model_is_translated_source_children :
  forall loose trailing items, src_children loose trailing items = children loose trailing items.
Check C20_source_children_total :
  forall items, forallb sep_only items = true -> src_children false None items <> None.
