(** C20 — lemmas (totality and fixed points of the comment printer; no assert of [children]
    fires on well-formed lists).  Most are proved in C19/Comments.v and C19/Trivia.v. *)
From Coq Require Import List NArith Bool.
From JrV Require Import C19.Model C19.Trivia C19.Comments.
Import ListNotations.
Open Scope N_scope.

(** a one-line block comment is a fixed point, at any indentation *)
Lemma ml_single_idem ind tok b :
  fmt_ml tok = Some (MLSingle b) -> b <> [] ->
  contains_nl b = false ->
  fmt_ml (render_ml ind (MLSingle b)) = Some (MLSingle b) ->
  ml_stable ind tok.
Proof. intros H _ _ H2. unfold ml_stable. rewrite H. right. exact H2. Qed.

(** the doc-comment with a blank line grows on every pass *)
Definition doc_blank : str :=
  [47;42;42;10; 32;42;32;97;10; 32;42;10; 32;42;32;98;10; 32;42;47].
Lemma doc_blank_unstable : ml_text_stable [] doc_blank = false.
Proof. vm_compute. reflexivity. Qed.
Definition star_gutter_blank : str :=
  [47;42;10; 32;42;32;97;10; 32;42;10; 32;42;32;98;10; 32;42;47].
Lemma star_gutter_blank_unstable : ml_text_stable [] star_gutter_blank = false.
Proof. vm_compute. reflexivity. Qed.
Lemma tab_string_witness :
  exists tok o, fmt_ml tok = Some o /\ forallb dprint_ok (ml_strings o) = false.
Proof. exists [47;42;97;9;98;42;47]. eexists. split; vm_compute; reflexivity. Qed.

(** strings sent to dprint by the block-comment printer never contain a newline *)
Lemma split_nl_aux_no_nl : forall s cur,
  forallb (fun c => negb (c =? NL)) cur = true ->
  Forall (fun l => forallb (fun c => negb (c =? NL)) l = true) (split_nl_aux cur s).
Proof.
  induction s as [|c r IH]; intros cur H; simpl.
  - constructor; auto. rewrite forallb_forall in *. intros x Hx. apply H. apply in_rev. exact Hx.
  - destruct (c =? NL) eqn:E.
    + constructor; [|apply IH; reflexivity].
      rewrite forallb_forall in *. intros x Hx. apply H. apply in_rev. exact Hx.
    + apply IH. simpl. rewrite E. simpl. exact H.
Qed.
