(** C20 — the definitions are shared with C19 (coq/theories/C19/Model.v): [fmt_ml],
    [render_ml], [fmt_slash], [fmt_hash], [children], [ml_text_stable], [dprint_ok]. *)
From JrV Require Export C19.Model.
