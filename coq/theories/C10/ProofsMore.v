(** C10, part "More" — lemmas about C10/ModelMore.v (lazy elements). *)
From Coq Require Import List ZArith NArith Bool Lia.
From JrV Require Import C10.Model C10.Proofs C10.ModelMore.
From JrV Require C08.Model.
Import ListNotations.
Open Scope nat_scope.

Lemma nth_error_app_pre {X} (pre : list X) t r : nth_error (pre ++ t :: r) (length pre) = Some t.
Proof. rewrite nth_error_app2 by lia. rewrite Nat.sub_diag. reflexivity. Qed.
Lemma app_cons_assoc {X} (pre : list X) t r : pre ++ t :: r = (pre ++ [t]) ++ r.
Proof. rewrite <- app_assoc. reflexivity. Qed.
Lemma length_snoc {X} (pre : list X) t : length (pre ++ [t]) = S (length pre).
Proof. rewrite app_length. cbn. lia. Qed.

(* ------------------------------------------------------------------ any / all *)
Section AnyAllP.
  Context {E : Type}.
  Variable as_bool : E -> option bool.
  Lemma any_aux_app l : forall pre,
    any_aux as_bool (pre ++ l) (length l) (length pre) = any_impl as_bool l.
  Proof.
    induction l as [|t r IH]; intros pre; [reflexivity|].
    cbn [length any_aux any_impl]. rewrite nth_error_app_pre.
    destruct t as [v|]; [|reflexivity]. cbn [bind]. destruct (as_bool v) as [b|]; [|reflexivity]. cbn [bind].
    destruct b; [reflexivity|]. rewrite app_cons_assoc, <- (length_snoc pre (Some v)). apply IH.
  Qed.
  Lemma any_impl_spec l : any_impl as_bool l = any_spec as_bool l.
  Proof. symmetry. apply (any_aux_app l []). Qed.
  Lemma all_aux_app l : forall pre,
    all_aux as_bool (pre ++ l) (length l) (length pre) = all_impl as_bool l.
  Proof.
    induction l as [|t r IH]; intros pre; [reflexivity|].
    cbn [length all_aux all_impl]. rewrite nth_error_app_pre.
    destruct t as [v|]; [|reflexivity]. cbn [bind]. destruct (as_bool v) as [b|]; [|reflexivity]. cbn [bind].
    destruct b; [|reflexivity]. cbn [negb]. rewrite app_cons_assoc, <- (length_snoc pre (Some v)). apply IH.
  Qed.
  Lemma all_impl_spec l : all_impl as_bool l = all_spec as_bool l.
  Proof. symmetry. apply (all_aux_app l []). Qed.
End AnyAllP.

(* ------------------------------------------------------------------ scans *)
Section ScansP.
  Context {A : Type}.
  Variable eqa : A -> A -> option bool.

  Lemma count_impl_acc l x : forall c,
    count_impl eqa l x c = (n <- count_spec eqa l x ;; Some (c + n)).
  Proof.
    unfold count_spec. induction l as [|t r IH]; intros c.
    - cbn. f_equal. lia.
    - cbn [count_impl filter_strict]. destruct (eqt eqa x t) as [b|]; [|reflexivity]. cbn [bind].
      rewrite IH. destruct (filter_strict (eqt eqa x) r) as [ys|]; [|reflexivity]. cbn [bind].
      destruct b; cbn [length]; f_equal; lia.
  Qed.
  Lemma count_impl_spec l x : count_impl eqa l x 0 = count_spec eqa l x.
  Proof. rewrite count_impl_acc. destruct (count_spec eqa l x); reflexivity. Qed.

  Lemma filter_strict_defined {X} (p : X -> option bool) l :
    forallb (fun x => defined (p x)) l = true -> exists ys, filter_strict p l = Some ys.
  Proof.
    induction l as [|x r IH]; intros H; [eexists; reflexivity|].
    cbn in H. apply andb_true_iff in H. destruct H as [H1 H2]. destruct (IH H2) as [ys E].
    cbn. destruct (p x) as [b|]; [|discriminate]. rewrite E. eexists. reflexivity.
  Qed.
  Lemma existsb_neg_forallb {X} (q : X -> bool) l :
    existsb (fun x => negb (q x)) l = false -> forallb q l = true.
  Proof.
    induction l as [|x r IH]; [reflexivity|]. cbn. intros H. apply orb_false_iff in H. destruct H as [H1 H2].
    apply negb_false_iff in H1. rewrite H1, (IH H2). reflexivity.
  Qed.

  Lemma member_restricted l x :
    err_after_match eqa l x = false -> member_impl eqa l x = member_spec eqa l x.
  Proof.
    unfold member_spec, count_spec. induction l as [|t r IH]; intros H; [reflexivity|].
    cbn [member_impl filter_strict err_after_match] in *.
    destruct (eqt eqa x t) as [b|]; [|reflexivity]. cbn [bind]. destruct b.
    - apply existsb_neg_forallb in H. destruct (filter_strict_defined _ _ H) as [ys E]. rewrite E. reflexivity.
    - rewrite (IH H). destruct (filter_strict (eqt eqa x) r); reflexivity.
  Qed.
  (** whenever the definition yields a value, the code yields the same *)
  Lemma member_when_spec_defined l x b :
    member_spec eqa l x = Some b -> member_impl eqa l x = Some b.
  Proof.
    unfold member_spec, count_spec. revert b. induction l as [|t r IH]; intros b H; [exact H|].
    cbn [member_impl filter_strict] in *.
    destruct (eqt eqa x t) as [e|]; [|discriminate]. cbn [bind] in *.
    destruct (filter_strict (eqt eqa x) r) as [ys|] eqn:E; [|discriminate]. cbn [bind] in *.
    destruct e; [exact H|]. apply IH. exact H.
  Qed.

  Lemma contains_impl_spec l x : contains_impl eqa l x = contains_spec eqa l x.
  Proof.
    unfold contains_spec, contains_impl. rewrite <- any_impl_spec.
    induction l as [|t r IH]; [reflexivity|]. cbn [member_impl map any_impl].
    destruct (eqt eqa x t) as [b|]; [|reflexivity]. cbn [bind]. destruct b; [reflexivity|]. exact IH.
  Qed.

  Lemma find_aux_app l x : forall pre,
    filter_strict (fun i => match nth_error (pre ++ l) i with Some t => eqt eqa x t | None => None end)
                  (seq (length pre) (length l))
    = find_impl eqa l x (length pre).
  Proof.
    induction l as [|t r IH]; intros pre; [reflexivity|].
    cbn [length seq filter_strict find_impl]. rewrite nth_error_app_pre.
    destruct (eqt eqa x t) as [b|]; [|reflexivity]. cbn [bind].
    rewrite app_cons_assoc, <- (length_snoc pre t), IH. reflexivity.
  Qed.
  Lemma find_impl_spec l x : find_impl eqa l x 0 = find_spec eqa l x.
  Proof. symmetry. apply (find_aux_app l x []). Qed.

  Lemma find_impl_defined l x : forall i,
    forallb (fun t => defined (eqt eqa x t)) l = true -> exists out, find_impl eqa l x i = Some out.
  Proof.
    induction l as [|t r IH]; intros i H; [eexists; reflexivity|].
    cbn in H. apply andb_true_iff in H. destruct H as [H1 H2]. destruct (IH (S i) H2) as [out E].
    cbn [find_impl]. destruct (eqt eqa x t) as [b|]; [|discriminate]. rewrite E. eexists. reflexivity.
  Qed.
  Lemma remove_scan_find l x : forall i,
    err_after_match eqa l x = false ->
    match remove_scan eqa l x i with
    | None => find_impl eqa l x i = None
    | Some None => find_impl eqa l x i = Some []
    | Some (Some j) => exists rest, find_impl eqa l x i = Some (j :: rest)
    end.
  Proof.
    induction l as [|t r IH]; intros i H; [reflexivity|].
    cbn [remove_scan find_impl err_after_match] in *.
    destruct (eqt eqa x t) as [b|]; [|reflexivity]. cbn [bind]. destruct b.
    - apply existsb_neg_forallb in H. destruct (find_impl_defined r x (S i) H) as [out E]. rewrite E.
      eexists. reflexivity.
    - specialize (IH (S i) H). destruct (remove_scan eqa r x (S i)) as [[j|]|].
      + destruct IH as [rest E]. rewrite E. eexists. reflexivity.
      + rewrite IH. reflexivity.
      + rewrite IH. reflexivity.
  Qed.
  Lemma remove_restricted l x :
    err_after_match eqa l x = false -> remove_impl_l eqa l x = remove_spec_l eqa l x.
  Proof.
    intros H. unfold remove_impl_l, remove_spec_l. rewrite <- find_impl_spec.
    pose proof (remove_scan_find l x 0 H) as R. destruct (remove_scan eqa l x 0) as [[j|]|].
    - destruct R as [rest E]. rewrite E. cbn [bind]. rewrite remove_at_impl_spec. reflexivity.
    - rewrite R. reflexivity.
    - rewrite R. reflexivity.
  Qed.

  (* == / startsWith / endsWith *)
  Lemma eq_aux_app a : forall b pa pb,
    length a = length b -> length pa = length pb ->
    eq_aux eqa (pa ++ a) (pb ++ b) (length a) (length pa) = eq_loop eqa a b.
  Proof.
    induction a as [|ta a IH]; intros [|tb b] pa pb L P; try discriminate; [reflexivity|].
    cbn [length eq_aux eq_loop]. rewrite nth_error_app_pre, P, nth_error_app_pre.
    destruct ta as [x|]; [|reflexivity]. destruct tb as [y|]; [|reflexivity]. cbn [bind].
    destruct (eqa x y) as [e|]; [|reflexivity]. cbn [bind]. destruct e; [|reflexivity]. cbn [negb].
    rewrite (app_cons_assoc pa), (app_cons_assoc pb), <- P, <- (length_snoc pa (Some x)).
    apply IH; [cbn in L; lia|rewrite !length_snoc; lia].
  Qed.
  Lemma arr_equals_impl_spec a b : arr_equals_impl eqa a b = arr_equals_spec eqa a b.
  Proof.
    unfold arr_equals_impl, arr_equals_spec. destruct (length a =? length b) eqn:E; [|reflexivity].
    cbn [negb]. apply Nat.eqb_eq in E. symmetry. apply (eq_aux_app a b [] []); auto.
  Qed.
  Lemma eq_loop_equals a b : length a = length b -> eq_loop eqa a b = arr_equals_spec eqa a b.
  Proof.
    intros L. rewrite <- arr_equals_impl_spec. unfold arr_equals_impl.
    rewrite (proj2 (Nat.eqb_eq _ _) L). reflexivity.
  Qed.
  Lemma starts_with_impl_spec a b : starts_with_impl eqa a b = starts_with_spec eqa a b.
  Proof.
    unfold starts_with_impl, starts_with_spec. destruct (length a <? length b) eqn:E; [reflexivity|].
    apply Nat.ltb_ge in E. destruct (length b =? length a) eqn:E2.
    - apply Nat.eqb_eq in E2. rewrite E2, firstn_all. apply arr_equals_impl_spec.
    - apply eq_loop_equals. rewrite firstn_length. lia.
  Qed.
  Lemma ends_with_impl_spec a b : ends_with_impl eqa a b = ends_with_spec eqa a b.
  Proof.
    unfold ends_with_impl, ends_with_spec. destruct (length a <? length b) eqn:E; [reflexivity|].
    apply Nat.ltb_ge in E. destruct (length b =? length a) eqn:E2.
    - apply Nat.eqb_eq in E2. rewrite E2, Nat.sub_diag. cbn [skipn]. apply arr_equals_impl_spec.
    - apply eq_loop_equals. rewrite skipn_length. lia.
  Qed.
End ScansP.

(* ------------------------------------------------------------------ folds, map, reverse *)
Section FoldsP.
  Context {A B : Type}.
  Variable fl : B -> option A -> option B.
  Variable fr : option A -> B -> option B.

  Lemma foldl_aux_app l : forall pre acc,
    foldl_aux fl (pre ++ l) (length l) (length pre) acc = foldl_impl fl l acc.
  Proof.
    induction l as [|t r IH]; intros pre acc; [reflexivity|].
    cbn [length foldl_aux foldl_impl]. rewrite nth_error_app_pre.
    destruct (fl acc t) as [a|]; [|reflexivity]. cbn [bind].
    rewrite app_cons_assoc, <- (length_snoc pre t). apply IH.
  Qed.
  Lemma foldl_general l acc : foldl_impl fl l acc = foldl_spec fl l acc.
  Proof. symmetry. apply (foldl_aux_app l [] acc). Qed.

  Definition rstep (o : option B) (t : option A) : option B := a <- o ;; fr t a.
  Lemma fold_left_rstep_none l : fold_left rstep l None = None.
  Proof. induction l; [reflexivity|exact IHl]. Qed.
  Lemma foldr_aux_app l : forall post acc,
    foldr_aux fr (l ++ post) (length l) acc = fold_left rstep (rev l) (Some acc).
  Proof.
    induction l as [|t l IH] using rev_ind; intros post acc; [reflexivity|].
    rewrite length_snoc, rev_app_distr. cbn [rev app foldr_aux fold_left].
    rewrite <- app_assoc. cbn [app]. rewrite nth_error_app_pre.
    cbn [rstep bind]. destruct (fr t acc) as [a|].
    - cbn [bind]. apply (IH (t :: post) a).
    - cbn [bind]. rewrite fold_left_rstep_none. reflexivity.
  Qed.
  Lemma foldr_general l acc : foldr_impl fr l acc = foldr_spec fr l acc.
  Proof.
    unfold foldr_impl, foldr_spec. symmetry.
    pose proof (foldr_aux_app l [] acc) as H. rewrite app_nil_r in H. exact H.
  Qed.

  Lemma has_failing_in (l : list (option A)) : has_failing l = false -> ~ In None l.
  Proof.
    unfold has_failing. induction l as [|t r IH]; intros H I; [exact I|].
    cbn in H. apply orb_false_iff in H. destruct H as [H1 H2]. destruct I as [->|I]; [discriminate|].
    exact (IH H2 I).
  Qed.
  Lemma has_failing_somes (l : list (option A)) : has_failing l = false -> exists vs, l = map (@Some A) vs.
  Proof.
    unfold has_failing. induction l as [|t r IH]; intros H; [exists []; reflexivity|].
    cbn in H. apply orb_false_iff in H. destruct H as [H1 H2]. destruct (IH H2) as [vs ->].
    destruct t as [v|]; [|discriminate]. exists (v :: vs). reflexivity.
  Qed.
End FoldsP.

Section MapRevP.
  Context {A B : Type}.
  Variable f : option A -> option B.
  Lemma map_aux_app (l : list (option A)) : forall pre,
    map (fun i => match nth_error (pre ++ l) i with Some t => f t | None => None end)
        (seq (length pre) (length l))
    = map f l.
  Proof.
    induction l as [|t r IH]; intros pre; [reflexivity|].
    cbn [length seq map]. rewrite nth_error_app_pre. f_equal.
    rewrite app_cons_assoc, <- (length_snoc pre t). apply IH.
  Qed.
  Lemma map_general (l : list (option A)) : map_impl f l = map_spec f l.
  Proof.
    unfold map_spec, make_array. pose proof (map_aux_app l []) as M. cbn [app length] in M.
    rewrite M. reflexivity.
  Qed.
  Lemma reverse_impl_spec (l : list A) : reverse_impl l = reverse_spec l.
  Proof.
    unfold reverse_impl, reverse_spec, make_array. apply map_ext_in. intros i I.
    apply in_seq in I. unfold reverse_get. destruct (length l <=? i) eqn:E; [|reflexivity].
    apply Nat.leb_le in E. lia.
  Qed.
  Lemma reverse_spec_rev (l : list A) : reverse_spec l = map (@Some A) (rev l).
  Proof.
    unfold reverse_spec, make_array.
    induction l as [|x r IH] using rev_ind; [reflexivity|].
    rewrite length_snoc, rev_app_distr. cbn [rev app seq map].
    rewrite Nat.sub_0_r. replace (S (length r) - 1) with (length r) by lia.
    rewrite nth_error_app_pre. f_equal.
    rewrite <- seq_shift, map_map, <- IH. apply map_ext_in. intros i I. apply in_seq in I.
    replace (S (length r) - S i - 1) with (length r - i - 1) by lia.
    rewrite nth_error_app1 by lia. reflexivity.
  Qed.
End MapRevP.

(* ------------------------------------------------------------------ mapWithIndex / filter / filterMap / flatMap *)
Section MapFilterFlatP.
  Context {A B : Type}.
  Variable fi : nat -> option A -> option B.
  Variable f : option A -> option B.
  Variable p : option A -> option bool.
  Variable ff : option A -> option (option (list (option B))).

  Lemma mapi_aux_app (l : list (option A)) : forall pre,
    map (fun i => match nth_error (pre ++ l) i with Some t => fi i t | None => None end)
        (seq (length pre) (length l))
    = mapi_impl fi (length pre) l.
  Proof.
    induction l as [|t r IH]; intros pre; [reflexivity|].
    cbn [length seq map mapi_impl]. rewrite nth_error_app_pre. f_equal.
    rewrite app_cons_assoc, <- (length_snoc pre t). apply IH.
  Qed.
  Lemma mapi_impl_spec l : mapi_impl fi 0 l = mapi_spec fi l.
  Proof. symmetry. apply (mapi_aux_app l []). Qed.

  Lemma filter_eager_ok l :
    match filter_eager p l with
    | EOk out => filter_strict p l = Some out
    | EErr => filter_strict p l = None
    | EBreak => True
    end.
  Proof.
    induction l as [|t r IH]; [reflexivity|]. cbn [filter_eager filter_strict].
    destruct t as [v|]; [|exact I]. destruct (p (Some v)) as [b|]; [|reflexivity]. cbn [bind].
    destruct (filter_eager p r); [exact I|rewrite IH; reflexivity|rewrite IH; reflexivity].
  Qed.
  Lemma filter_impl_old_spec l : filter_impl_old p l = filter_spec p l.
  Proof.
    unfold filter_impl_old, filter_spec. pose proof (filter_eager_ok l) as H.
    destruct (filter_eager p l); [reflexivity|symmetry; exact H|symmetry; exact H].
  Qed.
  Lemma filter_impl_spec l : filter_impl p l = filter_spec p l.
  Proof.
    unfold filter_spec. induction l as [|t r IH]; [reflexivity|]. cbn [filter_impl filter_strict].
    destruct (p t) as [b|]; [|reflexivity]. cbn [bind]. rewrite IH.
    destruct (filter_strict p r); reflexivity.
  Qed.
  Lemma filter_map_impl_spec l : filter_map_impl f p l = filter_map_spec f p l.
  Proof.
    unfold filter_map_impl, filter_map_spec. rewrite filter_impl_spec.
    destruct (filter_spec p l); [|reflexivity]. cbn [bind]. rewrite map_general. reflexivity.
  Qed.

  Lemma flatten_strict_map l : forall a,
    returns_null ff l = false ->
    flatten_strict (map ff l) a = (r <- flatmap_impl ff l ;; Some (a ++ r)).
  Proof.
    unfold returns_null. induction l as [|t r IH]; intros a H.
    - cbn. rewrite app_nil_r. reflexivity.
    - cbn [existsb] in H. apply orb_false_iff in H. destruct H as [H1 H2].
      cbn [map flatten_strict flatmap_impl]. destruct (ff t) as [[b|]|]; [|discriminate|reflexivity].
      cbn [bind]. rewrite (IH (a ++ b) H2). destruct (flatmap_impl ff r); [|reflexivity]. cbn [bind].
      rewrite app_assoc. reflexivity.
  Qed.
  Lemma flatmap_restricted l : returns_null ff l = false -> flatmap_impl ff l = flatmap_spec ff l.
  Proof.
    intros H. unfold flatmap_spec, make_array.
    pose proof (map_aux_app ff l []) as M. cbn [app length] in M. rewrite M.
    rewrite (flatten_strict_map l [] H). destruct (flatmap_impl ff l); reflexivity.
  Qed.
End MapFilterFlatP.

(* ------------------------------------------------------------------ minArray / maxArray *)
Section Top1P.
  Context {A K : Type}.
  Variable keyl : option A -> option K.
  Variable cmp : K -> K -> option comparison.
  Hypothesis cmp_antisym : forall a b, cmp b a = option_map CompOpp (cmp a b).
  Hypothesis cmp_refl : forall k c, cmp k k = Some c -> c = Eq.

  Lemma cmp_is_opp c o : cmp_is (CompOpp c) (CompOpp o) = cmp_is c o.
  Proof. destruct c, o; reflexivity. Qed.

  Lemma top1_loop_fold ord vs : forall mn mk,
    keyl (Some mn) = Some mk ->
    top1_loop keyl cmp ord (map (@Some A) vs) mn mk
    = top1_fold keyl cmp (CompOpp ord) (map (@Some A) vs) (Some mn).
  Proof.
    induction vs as [|cur r IH]; intros mn mk Hk; [reflexivity|].
    cbn [map top1_loop top1_fold]. unfold pick. rewrite Hk. cbn [bind].
    destruct (keyl (Some cur)) as [ck|] eqn:Ec; [|reflexivity]. cbn [bind].
    rewrite (cmp_antisym ck mk). destruct (cmp ck mk) as [c|]; [|reflexivity]. cbn [option_map bind].
    rewrite cmp_is_opp. destruct (cmp_is c ord); cbn [bind]; apply IH; assumption.
  Qed.
  Lemma top1_restricted ord l oe :
    ord <> Eq -> has_failing l = false -> first_key_incomparable keyl cmp l = false ->
    top1_impl keyl cmp ord l oe = top1_spec keyl cmp (CompOpp ord) l oe.
  Proof.
    intros NE HF FK. destruct (has_failing_somes l HF) as [vs ->]. destruct vs as [|v vs]; [reflexivity|].
    cbn [map top1_impl top1_spec top1_fold bind]. unfold pick. cbn [first_key_incomparable map] in FK.
    destruct (keyl (Some v)) as [k|] eqn:Ek; [|reflexivity]. cbn [bind].
    destruct (cmp k k) as [c|] eqn:Ec; [|discriminate]. cbn [bind].
    rewrite (cmp_refl k c Ec). replace (cmp_is Eq (CompOpp ord)) with false by (destruct ord; [congruence|reflexivity|reflexivity]).
    cbn [bind]. apply top1_loop_fold. exact Ek.
  Qed.
End Top1P.

(* ------------------------------------------------------------------ the concrete instance *)
Lemma lexo_antisym l : Forall (fun a => forall b, cmp_val b a = option_map CompOpp (cmp_val a b)) l ->
  forall m, lexo m l = option_map CompOpp (lexo l m).
Proof.
  induction 1 as [|x l Hx Hl IH]; intros [|y m]; try reflexivity.
  cbn [lexo]. rewrite (Hx y). destruct (cmp_val x y) as [c|]; [|reflexivity]. cbn [option_map].
  destruct c; cbn [CompOpp]; try reflexivity. apply IH.
Qed.
Lemma cmp_val_antisym : forall a b, cmp_val b a = option_map CompOpp (cmp_val a b).
Proof.
  apply (val_ind' (fun a => forall b, cmp_val b a = option_map CompOpp (cmp_val a b))).
  - intros []; reflexivity.
  - intros x []; reflexivity.
  - intros x []; try reflexivity; cbn [cmp_val option_map]; f_equal; apply Z.compare_antisym.
  - intros []; try reflexivity; cbn [cmp_val option_map]; f_equal; apply Z.compare_antisym.
  - intros s []; try reflexivity. cbn [cmp_val option_map]. f_equal. apply cmp_str_antisym.
  - intros l H []; try reflexivity. rewrite !cmp_val_arr. apply lexo_antisym. exact H.
  - intros []; reflexivity.
Qed.
Lemma cmp_val_refl_eq k c : cmp_val k k = Some c -> c = Eq.
Proof.
  intros H. apply ctot_extends in H. subst c.
  destruct cmp_laws_ctot as [AS _]. specialize (AS k k). destruct (ctot k k); try reflexivity; discriminate.
Qed.

Lemma lflat_never_null g l : returns_null (lflat g) l = false.
Proof.
  unfold returns_null. induction l as [|t r IH]; [reflexivity|]. cbn [existsb]. rewrite IH.
  destruct g, t as [v|]; reflexivity.
Qed.

Lemma lcalls_refine c : lknown c = 0 -> limpl c = lspec c.
Proof.
  destruct c; cbn [lknown limpl lspec]; intros H.
  - rewrite any_impl_spec. reflexivity.
  - rewrite all_impl_spec. reflexivity.
  - rewrite count_impl_spec. reflexivity.
  - rewrite member_restricted; [reflexivity|]. destruct (err_after_match eqv l x); [discriminate|reflexivity].
  - rewrite contains_impl_spec. reflexivity.
  - rewrite find_impl_spec. reflexivity.
  - rewrite remove_restricted; [reflexivity|]. destruct (err_after_match eqv l x); [discriminate|reflexivity].
  - rewrite foldl_general. reflexivity.
  - rewrite foldr_general. reflexivity.
  - rewrite map_general. reflexivity.
  - rewrite mapi_impl_spec. reflexivity.
  - rewrite filter_impl_spec. reflexivity.
  - rewrite filter_map_impl_spec. reflexivity.
  - rewrite flatmap_restricted; [reflexivity|apply lflat_never_null].
  - rewrite reverse_impl_spec. reflexivity.
  - destruct (has_failing l) eqn:E; [discriminate|].
    destruct (first_key_incomparable (lkeyfn k) cmp_val l) eqn:F; [discriminate|].
    rewrite (top1_restricted (lkeyfn k) cmp_val cmp_val_antisym cmp_val_refl_eq Lt l on_empty); auto; discriminate.
  - destruct (has_failing l) eqn:E; [discriminate|].
    destruct (first_key_incomparable (lkeyfn k) cmp_val l) eqn:F; [discriminate|].
    rewrite (top1_restricted (lkeyfn k) cmp_val cmp_val_antisym cmp_val_refl_eq Gt l on_empty); auto; discriminate.
  - rewrite starts_with_impl_spec. reflexivity.
  - rewrite ends_with_impl_spec. reflexivity.
Qed.

(* ------------------------------------------------------------------ statements as used by PropertiesMore.v *)
Lemma any_all_refine (E : Type) (as_bool : E -> option bool) (l : list (option E)) :
  any_impl as_bool l = any_spec as_bool l /\ all_impl as_bool l = all_spec as_bool l.
Proof. split; [apply any_impl_spec|apply all_impl_spec]. Qed.

Lemma count_find_contains_refine (A : Type) (eqa : A -> A -> option bool) (l : list (option A)) (x : A) :
  count_impl eqa l x 0 = count_spec eqa l x /\
  find_impl eqa l x 0 = find_spec eqa l x /\
  contains_impl eqa l x = contains_spec eqa l x.
Proof. repeat split; [apply count_impl_spec|apply find_impl_spec|apply contains_impl_spec]. Qed.

Lemma member_remove_refine (A : Type) (eqa : A -> A -> option bool) (l : list (option A)) (x : A) :
  err_after_match eqa l x = false ->
  member_impl eqa l x = member_spec eqa l x /\ remove_impl_l eqa l x = remove_spec_l eqa l x.
Proof. intros H. split; [apply member_restricted|apply remove_restricted]; exact H. Qed.

Lemma member_remove_refuted :
  exists (l : list (option val)) (x : val),
    err_after_match eqv l x = true /\
    member_impl eqv l x = Some true /\ member_spec eqv l x = None /\
    remove_impl_l eqv l x = Some [None] /\ remove_spec_l eqv l x = None.
Proof. exists [Some (VNum 1); None], (VNum 1). repeat split. Qed.

Lemma folds_map_refine (A B C : Type) (fl : B -> option A -> option B) (fr : option A -> B -> option B)
      (f : option A -> option C) (l : list (option A)) (acc : B) :
  foldl_impl fl l acc = foldl_spec fl l acc /\
  foldr_impl fr l acc = foldr_spec fr l acc /\
  map_impl f l = map_spec f l.
Proof. repeat split; [apply foldl_general|apply foldr_general|apply map_general]. Qed.
(** historical: the loops as they were before 762ca42 / 9dc676b deviated *)
Lemma callback_forced_old_refuted :
  exists (l : list (option val)) (init : val),
    has_failing l = true /\
    foldl_impl_old (fun acc t => lapply2 L2Fst (Some acc) t) l init = None /\
    foldl_spec (fun acc t => lapply2 L2Fst (Some acc) t) l init = Some init /\
    foldr_impl_old (fun t acc => lapply2 L2Snd t (Some acc)) l init = None /\
    foldr_spec (fun t acc => lapply2 L2Snd t (Some acc)) l init = Some init /\
    map_impl_old (lapply FConst) l = [None] /\ map_spec (lapply FConst) l = [Some (VNum 7)].
Proof. exists [None], (VNum 0). repeat split. Qed.
(** still the case: array_top1 forces the element before keyF sees it *)
Lemma top1_key_forced_refuted :
  exists l : list (option val),
    has_failing l = true /\ first_key_incomparable (lkeyfn (Some FConst)) cmp_val l = false /\
    top1_impl (lkeyfn (Some FConst)) cmp_val Lt l None = None /\
    top1_spec (lkeyfn (Some FConst)) cmp_val Gt l None = Some (VNum 1).
Proof. exists [Some (VNum 1); None]. repeat split. Qed.

Lemma mapi_filter_refine (A B : Type) (fi : nat -> option A -> option B) (f : option A -> option B)
      (p : option A -> option bool) (l : list (option A)) :
  mapi_impl fi 0 l = mapi_spec fi l /\
  filter_impl p l = filter_spec p l /\
  filter_map_impl f p l = filter_map_spec f p l.
Proof. repeat split; [apply mapi_impl_spec|apply filter_impl_spec|apply filter_map_impl_spec]. Qed.
Lemma flatmap_refine (A B : Type) (ff : option A -> option (option (list (option B)))) (l : list (option A)) :
  returns_null ff l = false -> flatmap_impl ff l = flatmap_spec ff l.
Proof. apply flatmap_restricted. Qed.

Lemma reverse_refines (A : Type) (l : list A) :
  reverse_impl l = reverse_spec l /\ reverse_spec l = map (@Some A) (rev l).
Proof. split; [apply reverse_impl_spec|apply reverse_spec_rev]. Qed.

Lemma top1_refines (A K : Type) (keyl : option A -> option K) (cmp : K -> K -> option comparison)
      (l : list (option A)) (on_empty : option (option A)) :
  (forall a b, cmp b a = option_map CompOpp (cmp a b)) ->
  (forall k c, cmp k k = Some c -> c = Eq) ->
  has_failing l = false -> first_key_incomparable keyl cmp l = false ->
  top1_impl keyl cmp Lt l on_empty = top1_spec keyl cmp Gt l on_empty /\
  top1_impl keyl cmp Gt l on_empty = top1_spec keyl cmp Lt l on_empty.
Proof.
  intros AS RF HF FK. split.
  - apply (top1_restricted keyl cmp AS RF Lt l on_empty); auto; discriminate.
  - apply (top1_restricted keyl cmp AS RF Gt l on_empty); auto; discriminate.
Qed.
Lemma top1_empty (A K : Type) (keyl : option A -> option K) (cmp : K -> K -> option comparison)
      (ord want : comparison) (on_empty : option (option A)) :
  top1_impl keyl cmp ord [] on_empty = top1_spec keyl cmp want [] on_empty.
Proof. reflexivity. Qed.
Lemma top1_first_key_refuted :
  exists l : list (option val),
    has_failing l = false /\ first_key_incomparable (lkeyfn None) cmp_val l = true /\
    top1_impl (lkeyfn None) cmp_val Lt l None = Some VNull /\
    top1_spec (lkeyfn None) cmp_val Gt l None = None.
Proof. exists [Some VNull]. repeat split. Qed.
Lemma compare_antisym_refl :
  (forall a b, cmp_val b a = option_map CompOpp (cmp_val a b)) /\
  (forall k c, cmp_val k k = Some c -> c = Eq).
Proof. split; [exact cmp_val_antisym|exact cmp_val_refl_eq]. Qed.

Lemma starts_ends_with_refine (A : Type) (eqa : A -> A -> option bool) (a b : list (option A)) :
  arr_equals_impl eqa a b = arr_equals_spec eqa a b /\
  starts_with_impl eqa a b = starts_with_spec eqa a b /\
  ends_with_impl eqa a b = ends_with_spec eqa a b.
Proof. repeat split; [apply arr_equals_impl_spec|apply starts_with_impl_spec|apply ends_with_impl_spec]. Qed.

Lemma lknown_refuted :
  (exists c, lknown c = 1 /\ limpl c <> lspec c) /\
  (exists c, lknown c = 2 /\ limpl c <> lspec c) /\
  (exists c, lknown c = 3 /\ limpl c <> lspec c).
Proof.
  repeat split.
  - exists (LMember [Some (VNum 1); None] (VNum 1)). split; [reflexivity|discriminate].
  - exists (LMinArray [Some (VNum 1); None] (Some FConst) None). split; [reflexivity|discriminate].
  - exists (LMinArray [Some VNull] None None). split; [reflexivity|discriminate].
Qed.
