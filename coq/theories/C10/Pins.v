(** Statements of the C10 property theorems, pinned: weakening one breaks this file. *)
From Coq Require Import List ZArith NArith Bool Lia Sorted Permutation.
From JrV Require Import C10.Model C10.Proofs C10.Properties.
From JrV Require C08.Model.
Import ListNotations.

Check C10_setops_follow_reference :
  forall (A K : Type) (keyf : A -> option K) (cmp : K -> K -> option comparison)
         (key : A -> K) (c : K -> K -> comparison) (a b : list A),
    keys_ok keyf key a -> keys_ok keyf key b -> cmp_ok cmp key c a b ->
    union_impl keyf cmp a b = union_spec keyf cmp a b /\
    inter_impl keyf cmp a b = inter_spec keyf cmp a b /\
    diff_impl keyf cmp a b = diff_spec keyf cmp a b.
Check C10_setops_refine :
  forall (A K : Type) (keyf : A -> option K) (cmp : K -> K -> option comparison)
         (key : A -> K) (c : K -> K -> comparison) (a b : list A),
    cmp_laws c ->
    keys_ok keyf key a -> keys_ok keyf key b -> cmp_ok cmp key c a b ->
    strict_sorted key c a -> strict_sorted key c b ->
    (exists u, union_impl keyf cmp a b = Some u /\ strict_sorted key c u /\
               forall z, In z u <-> In z a \/ (In z b /\ key_in_b key c z a = false)) /\
    inter_impl keyf cmp a b = Some (filter (fun x => key_in_b key c x b) a) /\
    diff_impl keyf cmp a b = Some (filter (fun x => negb (key_in_b key c x b)) a).
Check C10_set_results_are_sets :
  forall (A K : Type) (key : A -> K) (c : K -> K -> comparison) (p : A -> bool) (a : list A),
    strict_sorted key c a -> strict_sorted key c (filter p a).
Check C10_set_determined_by_members :
  forall (A K : Type) (key : A -> K) (c : K -> K -> comparison) (l1 l2 : list A),
    cmp_laws c -> strict_sorted key c l1 -> strict_sorted key c l2 ->
    (forall z, In z l1 <-> In z l2) -> l1 = l2.
Check C10_setops_number_keys :
  forall (k : option fn) (a b : list val),
    num_keys k a -> num_keys k b ->
    strict_sorted (keyd k) cz a -> strict_sorted (keyd k) cz b ->
    union_impl (keyfn k) cmp_val a b = union_spec (keyfn k) cmp_val a b /\
    inter_impl (keyfn k) cmp_val a b = inter_spec (keyfn k) cmp_val a b /\
    diff_impl (keyfn k) cmp_val a b = diff_spec (keyfn k) cmp_val a b /\
    (exists u, union_impl (keyfn k) cmp_val a b = Some u /\ strict_sorted (keyd k) cz u /\
               forall z, In z u <-> In z a \/ (In z b /\ key_in_b (keyd k) cz z a = false)) /\
    inter_impl (keyfn k) cmp_val a b = Some (filter (fun x => key_in_b (keyd k) cz x b) a) /\
    diff_impl (keyfn k) cmp_val a b = Some (filter (fun x => negb (key_in_b (keyd k) cz x b)) a).
Check C10_setmember_refines :
  forall (A K : Type) (keyf : A -> option K) (cmp : K -> K -> option comparison)
         (key : A -> K) (c : K -> K -> comparison) (x : A) (arr : list A),
    cmp_laws c ->
    strict_sorted key c arr -> keyf x = Some (key x) -> keys_ok keyf key arr ->
    (forall e, In e arr -> cmp (key e) (key x) = Some (c (key e) (key x))) ->
    (forall e, In e arr -> cmp (key x) (key e) = Some (c (key x) (key e))) ->
    set_member_impl keyf cmp x arr = BOk (existsb (fun e => is_eq (c (key e) (key x))) arr) /\
    set_member_spec keyf cmp x arr = Some (existsb (fun e => is_eq (c (key e) (key x))) arr).
Check C10_sort_perm_sorted_stable :
  forall (A : Type) (leb : A -> A -> bool),
    (forall x y, leb x y = true \/ leb y x = true) ->
    (forall x y z, leb x y = true -> leb y z = true -> leb x z = true) ->
    forall l,
      Permutation (isort leb l) l /\
      StronglySorted (fun x y => leb x y = true) (isort leb l) /\
      forall z, filter (equivb leb z) (isort leb l) = filter (equivb leb z) l.
Check C10_stable_sort_unique :
  forall (A : Type) (leb : A -> A -> bool),
    (forall x y, leb x y = true \/ leb y x = true) ->
    (forall x y z, leb x y = true -> leb y z = true -> leb x z = true) ->
    forall l r,
      StronglySorted (fun x y => leb x y = true) r ->
      (forall z, filter (equivb leb z) r = filter (equivb leb z) l) ->
      r = isort leb l.
Check C10_sort_fast_paths :
  forall (l ks : list val) (st : sort_type),
    get_sort_type STUnknown ks = Some st -> st = STNumber \/ st = STString ->
    all_comparable ks = true /\
    sort_keyed_impl l ks
    = Some (map fst (isort (fun p q : val * val => leb_val (snd p) (snd q)) (combine l ks))).
Check C10_sort_refines_classified :
  forall k l,
    (forall ks, mapM (keyfn k) l = Some ks -> get_sort_type STUnknown ks <> Some STUnspec) ->
    sort_impl k l = sort_spec k l /\ set_impl k l = set_spec k l.
Check C10_sort_fallible_path :
  forall (A : Type) (cmpf : A -> A -> option comparison) (leb : A -> A -> bool) (l : list A),
    (forall x y, In x l -> In y l -> exists c, cmpf x y = Some c /\ leb x y = leb_cmp c) ->
    isort_f cmpf l = Some (isort leb l).
Check C10_uniq_refines :
  forall (A K : Type) (eqk : K -> K -> bool),
    (forall x, eqk x x = true) -> (forall x y, eqk x y = eqk y x) ->
    (forall x y z, eqk x y = true -> eqk y z = true -> eqk x z = true) ->
    forall l : list (A * K), uniq_impl eqk l = uniq_spec eqk l.
Check C10_equals_equivalence :
  (forall v, eq_val v v = true) /\ (forall a b, eq_val a b = eq_val b a) /\
  (forall a b c, eq_val a b = true -> eq_val b c = true -> eq_val a c = true).
Check C10_set_is_uniq_sort :
  forall k l,
    set_spec k l = (s <- sort_spec k l ;; uniq_spec_v k s) /\
    (sort_impl k l = sort_spec k l -> set_impl k l = set_spec k l).
Check C10_flatten_refines :
  forall (A : Type) (vs : list (list A)), flatten_impl vs = Some (concat vs).
Check C10_join_refines :
  forall (A : Type) (sep : list A) (items : list (option (list A))),
    join_impl sep items = intercalate sep (somes items).
Check C10_remove_refines :
  forall (A : Type) (eqa : A -> A -> bool) (l : list A) (x : A) (at_ : Z),
    remove_impl eqa l x = remove_spec eqa l x /\
    remove_at_impl l at_ = C08.Model.remove_at_spec l at_.
Check C10_compare_extends_to_total_order :
  cmp_laws ctot /\ forall a b c, cmp_val a b = Some c -> ctot a b = c.
Check C10_sort_refines :
  forall k l, sort_determinate k l = true ->
    sort_impl k l = sort_spec k l /\ set_impl k l = set_spec k l.
Check C10_calls_refine :
  forall c, judge c = JSpec -> impl_call c = spec_call c.
Check C10_simple_calls_refine :
  forall c, simple_call c = true -> impl_call c = spec_call c.
Check C10_fold_laws :
  forall f l1 l2 acc,
    foldl_m f (l1 ++ l2) acc = (a <- foldl_m f l1 acc ;; foldl_m f l2 a) /\
    foldr_m f (l1 ++ l2) acc = (a <- foldr_m f l2 acc ;; foldr_m f l1 a).

(** the definitions the statements rest on, pinned by evaluation / by unfolding *)
Check eq_refl : keys_ok (@Some Z) id [1%Z] = Forall (fun x => Some x = Some (id x)) [1%Z].
Check eq_refl : cmp_ok zc id Z.compare [1%Z] [2%Z]
                = (forall x y, In x [1%Z] -> In y [2%Z] -> zc (id x) (id y) = Some (Z.compare (id x) (id y))).
Check eq_refl : strict_sorted id Z.compare [1%Z; 2%Z]
                = StronglySorted (fun x y => Z.compare (id x) (id y) = Lt) [1%Z; 2%Z].
Check eq_refl : key_in_b id Z.compare 3%Z [1; 3]%Z = true.
Check eq_refl : key_in_b id Z.compare 2%Z [1; 3]%Z = false.
Check eq_refl : equivb Z.leb 2%Z 2%Z = true.
Check eq_refl : equivb Z.leb 2%Z 3%Z = false.
Check eq_refl : is_eq Eq = true.
Check eq_refl : is_eq Lt = false.
Check eq_refl : intercalate [0%Z] [[1%Z]; [2%Z; 3%Z]; []] = [1; 0; 2; 3; 0]%Z.
Check eq_refl : somes [Some [1%Z]; None; Some []] = [[1%Z]; []].
Check eq_refl : remove_spec Z.eqb [1; 2; 1; 2]%Z 2%Z = [1; 1; 2]%Z.
Check eq_refl : uniq_spec Z.eqb [(10, 1); (11, 1); (12, 2); (13, 1)]%Z = [10; 12; 13]%Z.
Check eq_refl : simple_call (CSort VNull None) = false.
Check eq_refl : simple_call (CSum VNull) = true.
Check eq_refl : spec_call (CSort (VArr [VNum 2; VNegZero; VNum 0; VStr []]) None) = None.
Check eq_refl : spec_call (CSort (VArr [VArr [VNum 1; VNum 2]; VArr [VNum 1]; VArr [VNum 0]]) (Some FFirst))
                = Some (OVal (VArr [VArr [VNum 0]; VArr [VNum 1; VNum 2]; VArr [VNum 1]])).
Check eq_refl : spec_call (CSetUnion (VArr [VNum 1; VNum 3]) (VArr [VNum 2; VNum 3]) None)
                = Some (OVal (VArr [VNum 1; VNum 2; VNum 3])).
Check eq_refl : spec_call (CSum (VArr [])) = Some (OVal (VNum 0)).
Check eq_refl : impl_call (CSum (VArr [])) = Some (OVal (VNum 0)).
Check eq_refl : impl_call (CAvg (VArr [VNegZero]) None) = Some (OFrac 0 1).
Check eq_refl : spec_call (CMinArray (VArr [VStr [98%N]; VStr [97%N]; VStr [97%N; 97%N]]) (Some FLen) None)
                = Some (OVal (VStr [98%N])).
Check eq_refl : judge (CSetUnion (VArr [VNum 3; VNum 1]) (VArr []) None) = JModel.
Check eq_refl : judge (CSetUnion (VArr [VNum 1; VNum 3]) (VArr []) None) = JSpec.
Check eq_refl : keyd (Some FLen) (VStr [97%N]) = VNum 1.
Check eq_refl : keyd (Some FLen) VNull = VNull.
Check eq_refl : cz (VNum 1) VNegZero = Gt.
Check eq_refl : num_keys None [VNum 1] = Forall (fun x => exists v, keyfn None x = Some v /\ is_num v = true) [VNum 1].
Check eq_refl : ctot (VArr [VNum 1; VNull]) (VArr [VNum 1; VBool true]) = Lt.
Check eq_refl : ctot VNegZero (VNum 0) = Eq.
Check eq_refl : ctot (VStr [98%N]) (VArr []) = Lt.
Check eq_refl : judge (CSort (VArr [VArr [VNum 1; VNull]; VArr [VNum 1; VNull; VNum 0]; VArr [VNum 2]]) None) = JSkip.
Check eq_refl : sort_determinate None [VArr [VNum 1; VNull]; VArr [VNum 0]] = true.
