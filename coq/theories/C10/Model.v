(** C10 — stdlib array, set and higher-order functions match their reference definitions.

    Part 1 (Section Generic): the algorithms over ABSTRACT elements / keys / comparison.
      IMPL-MODEL: transliterations of crates/jrsonnet-stdlib/src/{sets,sort,arrays}.rs
        ([union_impl], [inter_impl], [diff_impl] = the two-pointer merge loops with their eager
        evaluation of the key of every element that becomes the head of an iterator;
        [bsearch] = the binary search of std.setMember; [uniq_impl] = uniq_identity/uniq_keyf
        (compares with the previous element); [flatten_inner] = the balanced tree of
        ArrValue::extended; [join_impl] = the `first` flag loop of std.join; [remove_impl]).
      SPEC: the documented definitions (std.jsonnet reference text) as list functions
        ([union_spec] ... the reference merges, [uniq_spec] compares with the last KEPT element,
        [isort] = the stable sort, [concat], [intercalate] ...), and for sets the mathematical
        characterisation used in the theorems (strictly sorted + exact membership).
    Part 2: a small concrete value universe [val], a pool of key / predicate / fold functions
      ([fn], [fn2], rendered to Jsonnet by props/c10.py), [call] = one std.<f>(args) call,
      [spec_call] / [impl_call] = its outcome per SPEC / IMPL-MODEL, [judge] = whether the
      documented definition determines the outcome of that call (else the code is compared
      with the IMPL-MODEL only, or the case is skipped and counted).
    Definitions only; proofs live in Proofs.v so that the model still runs when a proof breaks. *)
From Coq Require Import String Ascii.
From Coq Require Import List ZArith NArith Bool Lia Sorted.
From JrV Require C08.Model.
Import ListNotations.
Open Scope nat_scope.

Definition bind {A B} (x : option A) (f : A -> option B) : option B :=
  match x with Some a => f a | None => None end.
Notation "x <- e ;; k" := (bind e (fun x => k)) (at level 61, e at next level, right associativity).

Fixpoint mapM {A B} (f : A -> option B) (l : list A) : option (list B) :=
  match l with
  | [] => Some []
  | x :: r => y <- f x ;; ys <- mapM f r ;; Some (y :: ys)
  end.

Definition is_some {A} (o : option A) : bool := match o with Some _ => true | None => false end.

(* ================================================================================= *)
(** * Part 1: generic algorithms *)
Section Generic.
  Context {A K : Type}.
  Variable keyf : A -> option K.                 (* KeyF::eval — may fail *)
  Variable cmp : K -> K -> option comparison.    (* evaluate_compare_op — may fail *)

  (** ** sets.rs — IMPL-MODEL.  In every visited state the keys of both heads have been
      evaluated (Rust evaluates the key as soon as `a.next()` / `b.next()` returns). *)
  Fixpoint union_impl (a : list A) : list A -> option (list A) :=
    fix inner (b : list A) : option (list A) :=
      match a, b with
      | [], [] => Some []
      | x :: a', [] => _ <- keyf x ;; r <- union_impl a' [] ;; Some (x :: r)
      | [], y :: b' => _ <- keyf y ;; r <- inner b' ;; Some (y :: r)
      | x :: a', y :: b' =>
          kx <- keyf x ;; ky <- keyf y ;; c <- cmp kx ky ;;
          match c with
          | Lt => r <- union_impl a' b ;; Some (x :: r)
          | Gt => r <- inner b' ;; Some (y :: r)
          | Eq => r <- union_impl a' b' ;; Some (x :: r)       (* values in `a` win *)
          end
      end.

  Fixpoint inter_impl (a : list A) : list A -> option (list A) :=
    fix inner (b : list A) : option (list A) :=
      match a, b with
      | [], [] => Some []
      | x :: _, [] => _ <- keyf x ;; Some []
      | [], y :: _ => _ <- keyf y ;; Some []
      | x :: a', y :: b' =>
          kx <- keyf x ;; ky <- keyf y ;; c <- cmp kx ky ;;
          match c with
          | Lt => inter_impl a' b
          | Gt => inner b'
          | Eq => r <- inter_impl a' b' ;; Some (x :: r)
          end
      end.

  Fixpoint diff_impl (a : list A) : list A -> option (list A) :=
    fix inner (b : list A) : option (list A) :=
      match a, b with
      | [], [] => Some []
      | [], y :: _ => _ <- keyf y ;; Some []
      | x :: a', [] => _ <- keyf x ;; r <- diff_impl a' [] ;; Some (x :: r)
      | x :: a', y :: b' =>
          kx <- keyf x ;; ky <- keyf y ;; c <- cmp kx ky ;;
          match c with
          | Lt => r <- diff_impl a' b ;; Some (x :: r)
          | Gt => inner b'
          | Eq => diff_impl a' b'
          end
      end.

  (** ** the reference merges of std.jsonnet (SPEC for arbitrary arguments): identical steps,
      but a key is only evaluated when both sides still have an element *)
  Fixpoint union_spec (a : list A) : list A -> option (list A) :=
    fix inner (b : list A) : option (list A) :=
      match a, b with
      | [], _ => Some b
      | _, [] => Some a
      | x :: a', y :: b' =>
          kx <- keyf x ;; ky <- keyf y ;; c <- cmp kx ky ;;
          match c with
          | Lt => r <- union_spec a' b ;; Some (x :: r)
          | Gt => r <- inner b' ;; Some (y :: r)
          | Eq => r <- union_spec a' b' ;; Some (x :: r)
          end
      end.
  Fixpoint inter_spec (a : list A) : list A -> option (list A) :=
    fix inner (b : list A) : option (list A) :=
      match a, b with
      | [], _ => Some []
      | _, [] => Some []
      | x :: a', y :: b' =>
          kx <- keyf x ;; ky <- keyf y ;; c <- cmp kx ky ;;
          match c with
          | Lt => inter_spec a' b
          | Gt => inner b'
          | Eq => r <- inter_spec a' b' ;; Some (x :: r)
          end
      end.
  Fixpoint diff_spec (a : list A) : list A -> option (list A) :=
    fix inner (b : list A) : option (list A) :=
      match a, b with
      | [], _ => Some []
      | _, [] => Some a
      | x :: a', y :: b' =>
          kx <- keyf x ;; ky <- keyf y ;; c <- cmp kx ky ;;
          match c with
          | Lt => r <- diff_spec a' b ;; Some (x :: r)
          | Gt => inner b'
          | Eq => diff_spec a' b'
          end
      end.

  (** ** std.setMember: binary search.  [BPanic] = `.expect("in bounds")`, [BFuel] = model fuel. *)
  Inductive bres := BOk (b : bool) | BErr | BPanic | BFuel.
  Fixpoint bsearch (fuel : nat) (arr : list A) (kx : K) (low high : nat) : bres :=
    match fuel with
    | O => BFuel
    | S f =>
        if low <? high then
          let mid := (low + high) / 2 in            (* usize::midpoint(high, low) *)
          match nth_error arr mid with
          | None => BPanic
          | Some e =>
              match keyf e with
              | None => BErr
              | Some k =>
                  match cmp k kx with
                  | None => BErr
                  | Some Lt => bsearch f arr kx (mid + 1) high
                  | Some Eq => BOk true
                  | Some Gt => bsearch f arr kx low mid
                  end
              end
          end
        else BOk false
    end.
  Definition set_member_impl (x : A) (arr : list A) : bres :=
    match keyf x with
    | None => BErr
    | Some kx => bsearch (S (length arr)) arr kx 0 (length arr)
    end.
  (** reference: std.length(std.setInter([x], arr, keyF)) > 0 *)
  Definition set_member_spec (x : A) (arr : list A) : option bool :=
    r <- inter_spec [x] arr ;; Some (negb (length r =? 0)).
End Generic.

Section GenericPure.
  Context {A K : Type}.
  Variable key : A -> K.
  Variable c : K -> K -> comparison.

  (** the merges when key function and comparison are total: what the theorems talk about *)
  Fixpoint union_pure (a : list A) : list A -> list A :=
    fix inner (b : list A) : list A :=
      match a, b with
      | [], _ => b
      | _, [] => a
      | x :: a', y :: b' =>
          match c (key x) (key y) with
          | Lt => x :: union_pure a' b
          | Gt => y :: inner b'
          | Eq => x :: union_pure a' b'
          end
      end.
  Fixpoint inter_pure (a : list A) : list A -> list A :=
    fix inner (b : list A) : list A :=
      match a, b with
      | [], _ => []
      | _, [] => []
      | x :: a', y :: b' =>
          match c (key x) (key y) with
          | Lt => inter_pure a' b
          | Gt => inner b'
          | Eq => x :: inter_pure a' b'
          end
      end.
  Fixpoint diff_pure (a : list A) : list A -> list A :=
    fix inner (b : list A) : list A :=
      match a, b with
      | [], _ => []
      | _, [] => a
      | x :: a', y :: b' =>
          match c (key x) (key y) with
          | Lt => x :: diff_pure a' b
          | Gt => inner b'
          | Eq => diff_pure a' b'
          end
      end.

  (** [x]'s key occurs in [l] *)
  Definition key_in (x : A) (l : list A) : Prop := exists y, In y l /\ c (key x) (key y) = Eq.
  (** strictly ascending keys, every pair *)
  Definition strict_sorted (l : list A) : Prop :=
    StronglySorted (fun x y => c (key x) (key y) = Lt) l.
  (** a total (pre)order on keys presented as a three-way comparison *)
  Definition cmp_laws : Prop :=
    (forall x y, c y x = CompOpp (c x y)) /\
    (forall x y z, c x y = Lt -> c y z = Lt -> c x z = Lt) /\
    (forall x y z, c x y = Eq -> c y z = Eq -> c x z = Eq) /\
    (forall x y z, c x y = Eq -> c y z = Lt -> c x z = Lt) /\
    (forall x y z, c x y = Lt -> c y z = Eq -> c x z = Lt).
End GenericPure.

Section GenericSort.
  Context {A : Type}.
  (** ** the stable sort (what Rust's `sort_by` / `sort_by_key` is trusted to be; what
      std.jsonnet's merge/quick sort is): insertion into the sorted tail, before the first
      element that is not smaller *)
  Variable leb : A -> A -> bool.
  Fixpoint insert (x : A) (l : list A) : list A :=
    match l with
    | [] => [x]
    | y :: r => if leb x y then x :: y :: r else y :: insert x r
    end.
  Fixpoint isort (l : list A) : list A :=
    match l with
    | [] => []
    | x :: r => insert x (isort r)
    end.
End GenericSort.

Section GenericSortFallible.
  Context {A : Type}.
  (** the same sort with a comparison that may fail (the "Unspecialized" path: errors are
      recorded by the comparator and returned after the sort) *)
  Variable cmpf : A -> A -> option comparison.
  Fixpoint insert_f (x : A) (l : list A) : option (list A) :=
    match l with
    | [] => Some [x]
    | y :: r =>
        c <- cmpf x y ;;
        match c with
        | Gt => r' <- insert_f x r ;; Some (y :: r')
        | _ => Some (x :: y :: r)
        end
    end.
  Fixpoint isort_f (l : list A) : option (list A) :=
    match l with
    | [] => Some []
    | x :: r => s <- isort_f r ;; insert_f x s
    end.
End GenericSortFallible.

Section GenericUniq.
  Context {A K : Type}.
  Variable eqk : K -> K -> bool.
  (** sort.rs uniq_identity / uniq_keyf: compare with the PREVIOUS element's key *)
  Fixpoint uniq_go (last : K) (l : list (A * K)) : list A :=
    match l with
    | [] => []
    | (x, k) :: r => if eqk last k then uniq_go k r else x :: uniq_go k r
    end.
  Definition uniq_impl (l : list (A * K)) : list A :=
    match l with [] => [] | (x, k) :: r => x :: uniq_go k r end.
  (** std.jsonnet: foldl(function(a, b) if keyF(a[len-1]) == keyF(b) then a else a + [b]):
      compare with the last KEPT element's key *)
  Fixpoint uniq_spec_go (kept : K) (l : list (A * K)) : list A :=
    match l with
    | [] => []
    | (x, k) :: r => if eqk kept k then uniq_spec_go kept r else x :: uniq_spec_go k r
    end.
  Definition uniq_spec (l : list (A * K)) : list A :=
    match l with [] => [] | (x, k) :: r => x :: uniq_spec_go k r end.
End GenericUniq.

Section GenericMisc.
  Context {A : Type}.
  (** ** std.flattenArrays: flatten_inner — balanced tree of ArrValue::extended (which
      denotes [++], theorem C08_extended_threshold_invisible) *)
  Fixpoint flatten_inner (fuel : nat) (vs : list (list A)) : option (list A) :=
    match fuel with
    | O => None
    | S f =>
        match vs with
        | [v] => Some v
        | [v; w] => Some (v ++ w)
        | _ =>
            let h := length vs / 2 in
            l <- flatten_inner f (firstn h vs) ;; r <- flatten_inner f (skipn h vs) ;; Some (l ++ r)
        end
    end.
  Definition flatten_impl (vs : list (list A)) : option (list A) :=
    match vs with
    | [] => Some []
    | [v] => Some v
    | _ => flatten_inner (length vs) vs
    end.

  (** ** std.join: items are [None] for null (skipped) or [Some piece]; `first` flag loop *)
  Fixpoint join_go (sep : list A) (first : bool) (items : list (option (list A))) : list A :=
    match items with
    | [] => []
    | None :: r => join_go sep first r
    | Some it :: r => (if first then [] else sep) ++ it ++ join_go sep false r
    end.
  Definition join_impl sep items := join_go sep true items.
  Fixpoint somes (items : list (option (list A))) : list (list A) :=
    match items with
    | [] => []
    | None :: r => somes r
    | Some it :: r => it :: somes r
    end.
  Fixpoint intercalate (sep : list A) (ps : list (list A)) : list A :=
    match ps with
    | [] => []
    | [p] => p
    | p :: r => p ++ sep ++ intercalate sep r
    end.
  Definition join_spec sep items := intercalate sep (somes items).

  (** ** std.remove: first index whose element equals, then removeAt(arr, index) *)
  Variable eqa : A -> A -> bool.
  Fixpoint find_first (x : A) (l : list A) (i : nat) : option nat :=
    match l with
    | [] => None
    | y :: r => if eqa y x then Some i else find_first x r (S i)
    end.
  Definition remove_at_impl (l : list A) (at_ : Z) : list A :=
    if ((at_ <? 0) || (Z.of_nat (length l) <=? at_))%Z then l
    else firstn (Z.to_nat at_) l ++ skipn (Z.to_nat (at_ + 1)) l.
  Definition remove_impl (l : list A) (x : A) : list A :=
    match find_first x l 0 with
    | Some i => remove_at_impl l (Z.of_nat i)
    | None => l
    end.
  Fixpoint remove_spec (l : list A) (x : A) : list A :=
    match l with
    | [] => []
    | y :: r => if eqa y x then r else y :: remove_spec r x
    end.

  Fixpoint find_idx (x : A) (l : list A) (i : nat) : list nat :=
    match l with
    | [] => []
    | y :: r => if eqa y x then i :: find_idx x r (S i) else find_idx x r (S i)
    end.
  Definition count_occ_b (x : A) (l : list A) : nat := length (filter (fun y => eqa y x) l).
End GenericMisc.

(* ================================================================================= *)
(** * Part 2: concrete values, function pool, calls *)

Inductive val :=
| VNull
| VBool (b : bool)
| VNum (z : Z)            (* an integer-valued double; +0 is [VNum 0] *)
| VNegZero                (* -0.0 *)
| VStr (s : list N)       (* code points *)
| VArr (l : list val)
| VObj.                   (* the empty object {} *)

Definition s2l (s : string) : list N := map (fun a => N_of_ascii a) (list_ascii_of_string s).

Definition numz (v : val) : option Z :=
  match v with VNum z => Some z | VNegZero => Some 0%Z | _ => None end.
Definition numz0 (v : val) : Z := match numz v with Some z => z | None => 0%Z end.
Definition is_num (v : val) : bool := is_some (numz v).
Definition mknum (z : Z) : val := VNum z.

Fixpoint cmp_str (s t : list N) : comparison :=
  match s, t with
  | [], [] => Eq
  | [], _ => Lt
  | _, [] => Gt
  | a :: s', b :: t' => match N.compare a b with Eq => cmp_str s' t' | r => r end
  end.

(** evaluate_compare_op: numbers, strings, arrays (lexicographic); everything else fails *)
Fixpoint cmp_val (a b : val) : option comparison :=
  match a, b with
  | VStr s, VStr t => Some (cmp_str s t)
  | VNum x, VNum y => Some (Z.compare x y)
  | VNum x, VNegZero => Some (Z.compare x 0)
  | VNegZero, VNum y => Some (Z.compare 0 y)
  | VNegZero, VNegZero => Some Eq
  | VArr l, VArr m =>
      (fix go (l m : list val) : option comparison :=
         match l, m with
         | [], [] => Some Eq
         | [], _ => Some Lt
         | _, [] => Some Gt
         | x :: l', y :: m' =>
             match cmp_val x y with
             | Some Eq => go l' m'
             | r => r
             end
         end) l m
  | _, _ => None
  end.

(** val::equals on this universe (no functions): total *)
Fixpoint eq_val (a b : val) : bool :=
  match a, b with
  | VNull, VNull => true
  | VBool x, VBool y => Bool.eqb x y
  | VNum x, VNum y => (x =? y)%Z
  | VNum x, VNegZero => (x =? 0)%Z
  | VNegZero, VNum y => (0 =? y)%Z
  | VNegZero, VNegZero => true
  | VStr s, VStr t => match cmp_str s t with Eq => true | _ => false end
  | VArr l, VArr m =>
      (fix go (l m : list val) : bool :=
         match l, m with
         | [], [] => true
         | x :: l', y :: m' => eq_val x y && go l' m'
         | _, _ => false
         end) l m
  | VObj, VObj => true
  | _, _ => false
  end.

(** decimal digits *)
Fixpoint digits_fuel (fuel : nat) (n : N) (acc : list N) : list N :=
  match fuel with
  | O => acc
  | S f =>
      let acc' := (48 + n mod 10)%N :: acc in
      if (n / 10 =? 0)%N then acc' else digits_fuel f (n / 10)%N acc'
  end.
Definition digits (n : N) : list N := digits_fuel (S (N.size_nat n)) n [].

Section Show.
  Variable show : val -> list N.
  Fixpoint show_items (l : list val) : list N :=
    match l with
    | [] => []
    | [x] => show x
    | x :: r => show x ++ s2l ", " ++ show_items r
    end.
End Show.
(** std.toString of a nested value (strings quoted; the alphabet has no characters that need
    escaping) *)
Fixpoint show (v : val) : list N :=
  match v with
  | VNull => s2l "null"
  | VBool true => s2l "true"
  | VBool false => s2l "false"
  | VNum z => (if (z <? 0)%Z then [45%N] else []) ++ digits (Z.abs_N z)
  | VNegZero => s2l "-0"
  | VStr s => [34%N] ++ s ++ [34%N]
  | VArr [] => s2l "[ ]"
  | VArr l =>
      [91%N] ++ (fix items (l : list val) : list N :=
                   match l with
                   | [] => []
                   | [x] => show x
                   | x :: r => show x ++ s2l ", " ++ items r
                   end) l ++ [93%N]
  | VObj => s2l "{ }"
  end.
Definition to_string (v : val) : list N := match v with VStr s => s | _ => show v end.

Definition neg_val (v : val) : option val :=
  match v with
  | VNum z => Some (if (z =? 0)%Z then VNegZero else VNum (- z))
  | VNegZero => Some (VNum 0)
  | _ => None
  end.
Definition add_num (a b : val) : option val :=
  match a, b with
  | VNegZero, VNegZero => Some VNegZero
  | _, _ => x <- numz a ;; y <- numz b ;; Some (VNum (x + y))
  end.
(** IEEE fmod(x, 2) on integer-valued doubles: sign of the dividend *)
Definition mod2_val (v : val) : option val :=
  match v with
  | VNum z => let r := Z.rem z 2 in Some (if ((r =? 0) && (z <? 0))%Z then VNegZero else VNum r)
  | VNegZero => Some VNegZero
  | _ => None
  end.
Definition len_val (v : val) : option val :=
  match v with
  | VStr s => Some (VNum (Z.of_nat (length s)))
  | VArr l => Some (VNum (Z.of_nat (length l)))
  | VObj => Some (VNum 0)
  | _ => None
  end.

(** the pool of one-argument functions; Jsonnet text in props/c10.py FN_JS *)
Inductive fn :=
| FId        (* function(x) x                      — recognised by FuncVal::is_identity *)
| FIdSlow    (* function(x) [x][0]                 — identity, not recognised *)
| FNeg       (* function(x) -x *)
| FConst     (* function(x) 7 *)
| FMod2      (* function(x) if std.isNumber(x) then x % 2 else error "mod2" *)
| FFirst     (* function(x) x[0] *)
| FToStr     (* function(x) std.toString(x) *)
| FErr       (* function(x) error "boom" *)
| FWrap      (* function(x) [x] *)
| FLen       (* function(x) std.length(x) *)
| FTrue      (* function(x) true *)
| FIsNum     (* function(x) std.isNumber(x) *)
| FNotNull   (* function(x) x != null *)
| FGt0       (* function(x) x > 0 *)
| FDup       (* function(x) [x, x] *)
| FNullStr   (* function(x) if std.isString(x) then null else [x] *)
| FStrDup    (* function(x) if std.isString(x) then x + x else error "strdup" *)
| FNullA.    (* function(x) if x == "a" then null else x *)

Definition apply (f : fn) (x : val) : option val :=
  match f with
  | FId | FIdSlow => Some x
  | FNeg => neg_val x
  | FConst => Some (VNum 7)
  | FMod2 => mod2_val x
  | FFirst =>
      match x with
      | VArr (h :: _) => Some h
      | VStr (ch :: _) => Some (VStr [ch])
      | _ => None
      end
  | FToStr => Some (VStr (to_string x))
  | FErr => None
  | FWrap => Some (VArr [x])
  | FLen => len_val x
  | FTrue => Some (VBool true)
  | FIsNum => Some (VBool (is_num x))
  | FNotNull => Some (VBool (negb (eq_val x VNull)))
  | FGt0 => c <- cmp_val x (VNum 0) ;; Some (VBool (match c with Gt => true | _ => false end))
  | FDup => Some (VArr [x; x])
  | FNullStr => match x with VStr _ => Some VNull | _ => Some (VArr [x]) end
  | FStrDup => match x with VStr s => Some (VStr (s ++ s)) | _ => None end
  | FNullA => if eq_val x (VStr [97%N]) then Some VNull else Some x
  end.

(** two-argument functions function(p, q) *)
Inductive fn2 :=
| F2Pair     (* [p, q] *)
| F2Snoc     (* if std.isArray(p) then p + [q] else error "snoc" *)
| F2Cons     (* if std.isArray(q) then [p] + q else error "cons" *)
| F2Fst      (* p *)
| F2Snd      (* q *)
| F2ErrOne   (* if p == 1 || q == 1 then error "one" else [p, q] *)
| F2Err      (* error "boom" *)
| F2Add.     (* if std.isNumber(p) && std.isNumber(q) then p + q else error "add" *)

Definition apply2 (f : fn2) (p q : val) : option val :=
  match f with
  | F2Pair => Some (VArr [p; q])
  | F2Snoc => match p with VArr l => Some (VArr (l ++ [q])) | _ => None end
  | F2Cons => match q with VArr l => Some (VArr (p :: l)) | _ => None end
  | F2Fst => Some p
  | F2Snd => Some q
  | F2ErrOne => if eq_val p (VNum 1) || eq_val q (VNum 1) then None else Some (VArr [p; q])
  | F2Err => None
  | F2Add => add_num p q
  end.

(** an optional key function argument: [None] = parameter omitted (KeyF::Identity) *)
Definition keyfn (k : option fn) : val -> option val :=
  match k with None => fun x => Some x | Some f => apply f end.

(** ** sort *)
Inductive sort_type := STNumber | STString | STUnspec | STUnknown.
(** sort.rs get_sort_type *)
Fixpoint get_sort_type (st : sort_type) (keys : list val) : option sort_type :=
  match keys with
  | [] => Some st
  | k :: r =>
      match k, st with
      | VStr _, STUnknown => get_sort_type STString r
      | (VNum _ | VNegZero), STUnknown => get_sort_type STNumber r
      | VStr _, STString => get_sort_type st r
      | (VNum _ | VNegZero), STNumber => get_sort_type st r
      | (VStr _ | VNum _ | VNegZero), _ => None    (* "sort elements should have the same types" *)
      | _, _ => Some STUnspec
      end
  end.
Definition str_of (v : val) : list N := match v with VStr s => s | _ => [] end.
Definition leb_cmp (c : comparison) : bool := match c with Gt => false | _ => true end.

Definition sort_keyed_impl (l : list val) (ks : list val) : option (list val) :=
  st <- get_sort_type STUnknown ks ;;
  match st with
  | STNumber =>
      Some (map fst (isort (fun p q : val * val => (numz0 (snd p) <=? numz0 (snd q))%Z) (combine l ks)))
  | STString =>
      Some (map fst (isort (fun p q : val * val => leb_cmp (cmp_str (str_of (snd p)) (str_of (snd q))))
                           (combine l ks)))
  | _ =>
      r <- isort_f (fun p q : val * val => cmp_val (snd p) (snd q)) (combine l ks) ;;
      Some (map fst r)
  end.
(** sort.rs sort: arrays of length <= 1 are returned untouched (no key is evaluated) *)
Definition sort_impl (k : option fn) (l : list val) : option (list val) :=
  if length l <=? 1 then Some l
  else ks <- mapM (keyfn k) l ;; sort_keyed_impl l ks.

(** every two keys at different positions compare *)
Fixpoint all_comparable (ks : list val) : bool :=
  match ks with
  | [] => true
  | k :: r => forallb (fun b => is_some (cmp_val k b) && is_some (cmp_val b k)) r && all_comparable r
  end.
Definition leb_val (a b : val) : bool := match cmp_val a b with Some Gt => false | _ => true end.
(** SPEC: the stable sort by `<=` on keys; an error when two keys do not compare *)
Definition sort_spec (k : option fn) (l : list val) : option (list val) :=
  if length l <=? 1 then Some l
  else
    ks <- mapM (keyfn k) l ;;
    if all_comparable ks
    then Some (map fst (isort (fun p q : val * val => leb_val (snd p) (snd q)) (combine l ks)))
    else None.
(** some key compares with no key at another position: every comparison sort must fail *)
Fixpoint others {X} (pre : list X) (l : list X) : list (X * list X) :=
  match l with
  | [] => []
  | x :: r => (x, rev pre ++ r) :: others (x :: pre) r
  end.
Definition has_isolated (ks : list val) : bool :=
  existsb (fun p : val * list val => forallb (fun b => negb (is_some (cmp_val (fst p) b)) && negb (is_some (cmp_val b (fst p)))) (snd p))
          (others [] ks).
(** the documented definition determines the outcome of std.sort on these keys *)
Definition sort_determinate (k : option fn) (l : list val) : bool :=
  (length l <=? 1) ||
  match mapM (keyfn k) l with
  | None => true
  | Some ks => all_comparable ks || has_isolated ks
  end.

(** ** uniq, set *)
Definition uniq_with (u : list (val * val) -> list val) (k : option fn) (l : list val) : option (list val) :=
  if length l <=? 1 then Some l
  else ks <- mapM (keyfn k) l ;; Some (u (combine l ks)).
Definition uniq_impl_v := uniq_with (uniq_impl eq_val).
Definition uniq_spec_v := uniq_with (uniq_spec eq_val).
(** builtin_set: sort_* then uniq_* (uniq_* is only reached with >= 2 elements) *)
Definition set_impl (k : option fn) (l : list val) : option (list val) :=
  s <- sort_impl k l ;; uniq_impl_v k s.
(** std.jsonnet: set(arr, keyF) = std.uniq(std.sort(arr, keyF), keyF) *)
Definition set_spec (k : option fn) (l : list val) : option (list val) :=
  s <- sort_spec k l ;; uniq_spec_v k s.

(** ** sets: is [l] a set under [k]?  (keys defined, strictly ascending, every pair) *)
Fixpoint strict_sorted_b (ks : list val) : bool :=
  match ks with
  | [] => true
  | k :: r => forallb (fun b => match cmp_val k b with Some Lt => true | _ => false end) r && strict_sorted_b r
  end.
Definition is_set (k : option fn) (l : list val) : bool :=
  match mapM (keyfn k) l with Some ks => strict_sorted_b ks | None => false end.
(** all keys of [l ++ m] are defined and compare with each other *)
Definition keys_total (k : option fn) (l : list val) : bool :=
  match mapM (keyfn k) l with Some ks => all_comparable ks | None => false end.

(** ** argument conversions *)
Definition as_arr (v : val) : option (list val) := match v with VArr l => Some l | _ => None end.
Definition as_bool (v : val) : option bool := match v with VBool b => Some b | _ => None end.
Definition chars (s : list N) : list val := map (fun ch => VStr [ch]) s.
(** IndexableVal::to_array / iteration over the characters of a string *)
Definition as_items (v : val) : option (list val) :=
  match v with VArr l => Some l | VStr s => Some (chars s) | _ => None end.

(** ** folds *)
Fixpoint foldl_m (f : fn2) (l : list val) (acc : val) : option val :=
  match l with
  | [] => Some acc
  | x :: r => a <- apply2 f acc x ;; foldl_m f r a
  end.
Fixpoint foldr_m (f : fn2) (l : list val) (acc : val) : option val :=
  match l with
  | [] => Some acc
  | x :: r => a <- foldr_m f r acc ;; apply2 f x a
  end.
Fixpoint mapi_m (f : fn2) (i : Z) (l : list val) : option (list val) :=
  match l with
  | [] => Some []
  | x :: r => y <- apply2 f (VNum i) x ;; ys <- mapi_m f (i + 1)%Z r ;; Some (y :: ys)
  end.
Fixpoint filter_m (p : fn) (l : list val) : option (list val) :=
  match l with
  | [] => Some []
  | x :: r =>
      v <- apply p x ;; b <- as_bool v ;; ys <- filter_m p r ;;
      Some (if b then x :: ys else ys)
  end.

(** ** any / all: left to right, stop at the first deciding element; every inspected element
    must be a boolean *)
Fixpoint any_m (l : list val) : option bool :=
  match l with
  | [] => Some false
  | x :: r => b <- as_bool x ;; if b then Some true else any_m r
  end.
Fixpoint all_m (l : list val) : option bool :=
  match l with
  | [] => Some true
  | x :: r => b <- as_bool x ;; if b then all_m r else Some false
  end.

(** ** sum: foldl(+, arr, 0) over numbers.  math.rs builtin_sum / arrays.rs builtin_avg fold from
    0.0 (since fix b7c8f41; `Iterator::sum::<f64>()` started from -0.0) *)
Definition sum_from (init : val) (l : list val) : option val :=
  fold_left (fun acc x => a <- acc ;; if is_num x then add_num a x else None) l (Some init).
Definition sum_spec := sum_from (VNum 0).
Definition sum_impl := sum_from (VNum 0).

(** ** minArray / maxArray: first element whose key is extreme; comparisons current-vs-next *)
Fixpoint top1_go (k : option fn) (want : comparison) (cur ck : val) (l : list val) : option val :=
  match l with
  | [] => Some cur
  | x :: r =>
      kx <- keyfn k x ;; c <- cmp_val kx ck ;;
      if match c, want with Lt, Lt | Gt, Gt => true | _, _ => false end
      then top1_go k want x kx r else top1_go k want cur ck r
  end.
Definition top1 (k : option fn) (want : comparison) (l : list val) (on_empty : option val) : option val :=
  match l with
  | [] => on_empty
  | x :: r => kx <- keyfn k x ;; top1_go k want x kx r
  end.

(** ** flattenDeepArray *)
Fixpoint flatten_deep (v : val) : list val :=
  match v with
  | VArr l => (fix go (l : list val) : list val :=
                 match l with [] => [] | x :: r => flatten_deep x ++ go r end) l
  | _ => [v]
  end.
(** deepJoin: strings and arrays of (arrays of) strings; anything else is an error *)
Fixpoint deep_join (v : val) : option (list N) :=
  match v with
  | VStr s => Some s
  | VArr l => (fix go (l : list val) : option (list N) :=
                 match l with
                 | [] => Some []
                 | x :: r => a <- deep_join x ;; b <- go r ;; Some (a ++ b)
                 end) l
  | _ => None
  end.

(** ** join pieces: every element is null (skipped) or of the separator's type *)
Definition join_items_arr (l : list val) : option (list (option (list val))) :=
  mapM (fun x => match x with VNull => Some None | VArr it => Some (Some it) | _ => None end) l.
Definition join_items_str (l : list val) : option (list (option (list N))) :=
  mapM (fun x => match x with VNull => Some None | VStr it => Some (Some it) | _ => None end) l.
Definition join_with (J : forall X, list X -> list (option (list X)) -> list X)
           (sep : val) (l : list val) : option val :=
  match sep with
  | VArr s => its <- join_items_arr l ;; Some (VArr (J val s its))
  | VStr s => its <- join_items_str l ;; Some (VStr (J N s its))
  | _ => None
  end.

(** ** range / repeat / makeArray *)
Definition range_spec (a b : Z) : list val := map VNum (C08.Model.zseq a (Z.to_nat (b - a + 1))).
Fixpoint repeat_list {X} (l : list X) (n : nat) : list X :=
  match n with O => [] | S m => l ++ repeat_list l m end.

Definition i32_ok (z : Z) : bool := ((- 2 ^ 31 <=? z) && (z <=? 2 ^ 31 - 1))%Z.

(** ** calls *)
Inductive call :=
| CSort (arr : val) (k : option fn)
| CUniq (arr : val) (k : option fn)
| CSet (arr : val) (k : option fn)
| CSetMember (x : val) (arr : val) (k : option fn)
| CSetUnion (a b : val) (k : option fn)
| CSetInter (a b : val) (k : option fn)
| CSetDiff (a b : val) (k : option fn)
| CMember (arr x : val)
| CContains (arr x : val)
| CFind (x arr : val)
| CCount (arr x : val)
| CRemove (arr x : val)
| CRemoveAt (arr : val) (at_ : Z)
| CFlattenArrays (arrs : val)
| CFlattenDeep (v : val)
| CFoldl (f : fn2) (arr init : val)
| CFoldr (f : fn2) (arr init : val)
| CMap (f : fn) (arr : val)
| CMapWithIndex (f : fn2) (arr : val)
| CFilter (p : fn) (arr : val)
| CFilterMap (p f : fn) (arr : val)
| CFlatMap (f : fn) (arr : val)
| CJoin (sep arr : val)
| CLines (arr : val)
| CDeepJoin (v : val)
| CAny (arr : val)
| CAll (arr : val)
| CSum (arr : val)
| CAvg (arr : val) (on_empty : option val)
| CMinArray (arr : val) (k : option fn) (on_empty : option val)
| CMaxArray (arr : val) (k : option fn) (on_empty : option val)
| CRange (a b : Z)
| CRepeat (what : val) (n : Z)
| CSlice (v : val) (i e : option Z) (s : option Z)
| CMakeArray (n : Z) (f : fn).

(** outcome of a call: a value, or an exact quotient (std.avg) rounded by the checker *)
Inductive out := OVal (v : val) | OFrac (n d : Z).
Definition oval (o : option val) : option out := v <- o ;; Some (OVal v).
Definition oarr (o : option (list val)) : option out := l <- o ;; Some (OVal (VArr l)).
Definition obool (o : option bool) : option out := b <- o ;; Some (OVal (VBool b)).
Definition of_bres (r : bres) : option out :=
  match r with BOk b => Some (OVal (VBool b)) | _ => None end.

Definition str_contains (hay needle : list N) : bool :=
  let n := length needle in
  existsb (fun i => match cmp_str (firstn n (skipn i hay)) needle with Eq => true | _ => false end)
          (seq 0 (S (length hay - n))) && (n <=? length hay).

Definition member_m (arr x : val) : option bool :=
  match arr with
  | VArr l => Some (existsb (fun y => eq_val y x) l)
  | VStr s => match x with
              | VStr t => Some (negb (length t =? 0) && str_contains s t)
              | _ => None
              end
  | _ => None
  end.

Definition flat_map_m (skip_null : bool) (f : fn) (arr : val) : option val :=
  match arr with
  | VArr l =>
      rs <- mapM (apply f) l ;;
      ps <- mapM (fun r => match r with
                           | VArr it => Some it
                           | VNull => if skip_null then Some [] else None
                           | _ => None
                           end) rs ;;
      Some (VArr (concat ps))
  | VStr s =>
      rs <- mapM (apply f) (chars s) ;;
      ps <- mapM (fun r => match r with VStr it => Some it | VNull => Some [] | _ => None end) rs ;;
      Some (VStr (concat ps))
  | _ => None
  end.

Definition slice_m (v : val) (i e : option Z) (s : option Z) : option val :=
  _ <- match s with
       | Some z => if (z <=? 0)%Z then None else Some tt
       | None => Some tt
       end ;;
  let st := match s with Some z => Some (Z.to_N z) | None => None end in
  match v with
  | VArr l => Some (VArr (C08.Model.slice_spec l i e st))
  | VStr t => Some (VStr (C08.Model.slice_spec t i e st))
  | _ => None
  end.

Definition avg_with (sum : list val -> option val) (arr : val) (on_empty : option val) : option out :=
  l <- as_arr arr ;;
  match l with
  | [] => oval on_empty
  | _ =>
      s <- sum l ;;
      match s with
      | VNegZero => Some (OVal VNegZero)          (* -0 / n: unreachable from a +0 start *)
      | _ => Some (OFrac (numz0 s) (Z.of_nat (length l)))
      end
  end.

(** which algorithms a call is run with *)
Record algos := {
  a_sort : option fn -> list val -> option (list val);
  a_uniq : option fn -> list val -> option (list val);
  a_set : option fn -> list val -> option (list val);
  a_member : (val -> option val) -> val -> list val -> option out;
  a_union : (val -> option val) -> list val -> list val -> option (list val);
  a_inter : (val -> option val) -> list val -> list val -> option (list val);
  a_diff : (val -> option val) -> list val -> list val -> option (list val);
  a_flatten : list (list val) -> option (list val);
  a_join : forall X, list X -> list (option (list X)) -> list X;
  a_remove : list val -> val -> list val;
  a_remove_at : list val -> Z -> list val;
  a_sum : list val -> option val;
}.

Definition run (al : algos) (c : call) : option out :=
  match c with
  | CSort arr k => l <- as_arr arr ;; oarr (a_sort al k l)
  | CUniq arr k => l <- as_arr arr ;; oarr (a_uniq al k l)
  | CSet arr k => l <- as_arr arr ;; oarr (a_set al k l)
  | CSetMember x arr k => l <- as_arr arr ;; a_member al (keyfn k) x l
  | CSetUnion a b k => la <- as_arr a ;; lb <- as_arr b ;; oarr (a_union al (keyfn k) la lb)
  | CSetInter a b k => la <- as_arr a ;; lb <- as_arr b ;; oarr (a_inter al (keyfn k) la lb)
  | CSetDiff a b k => la <- as_arr a ;; lb <- as_arr b ;; oarr (a_diff al (keyfn k) la lb)
  | CMember arr x => obool (member_m arr x)
  | CContains arr x => obool (member_m arr x)
  | CFind x arr =>
      l <- as_arr arr ;; Some (OVal (VArr (map (fun i => VNum (Z.of_nat i)) (find_idx eq_val x l 0))))
  | CCount arr x => l <- as_arr arr ;; Some (OVal (VNum (Z.of_nat (count_occ_b eq_val x l))))
  | CRemove arr x => l <- as_arr arr ;; Some (OVal (VArr (a_remove al l x)))
  | CRemoveAt arr at_ =>
      l <- as_arr arr ;; if i32_ok at_ then Some (OVal (VArr (a_remove_at al l at_))) else None
  | CFlattenArrays arrs => l <- as_arr arrs ;; ls <- mapM as_arr l ;; oarr (a_flatten al ls)
  | CFlattenDeep v => Some (OVal (VArr (flatten_deep v)))
  | CFoldl f arr init => l <- as_items arr ;; oval (foldl_m f l init)
  | CFoldr f arr init => l <- as_items arr ;; oval (foldr_m f l init)
  | CMap f arr => l <- as_items arr ;; oarr (mapM (apply f) l)
  | CMapWithIndex f arr => l <- as_items arr ;; oarr (mapi_m f 0 l)
  | CFilter p arr => l <- as_arr arr ;; oarr (filter_m p l)
  | CFilterMap p f arr => l <- as_arr arr ;; r <- filter_m p l ;; oarr (mapM (apply f) r)
  | CFlatMap f arr => oval (flat_map_m true f arr)
  | CJoin sep arr => l <- as_arr arr ;; oval (join_with (a_join al) sep l)
  | CLines arr => l <- as_arr arr ;; oval (join_with (a_join al) (VStr [10%N]) (l ++ [VStr []]))
  | CDeepJoin v => s <- deep_join v ;; Some (OVal (VStr s))
  | CAny arr => l <- as_arr arr ;; obool (any_m l)
  | CAll arr => l <- as_arr arr ;; obool (all_m l)
  | CSum arr => l <- as_arr arr ;; oval (a_sum al l)
  | CAvg arr oe => avg_with (a_sum al) arr oe
  | CMinArray arr k oe => l <- as_arr arr ;; oval (top1 k Lt l oe)
  | CMaxArray arr k oe => l <- as_arr arr ;; oval (top1 k Gt l oe)
  | CRange a b =>
      if i32_ok a && i32_ok b then Some (OVal (VArr (range_spec a b))) else None
  | CRepeat what n =>
      if (n <? 0)%Z then None
      else match what with
           | VArr l => Some (OVal (VArr (repeat_list l (Z.to_nat n))))
           | VStr s => Some (OVal (VStr (repeat_list s (Z.to_nat n))))
           | _ => None
           end
  | CSlice v i e s => oval (slice_m v i e s)
  | CMakeArray n f =>
      if ((n <? 0) || negb (i32_ok n))%Z then None
      else oarr (mapM (fun i => apply f (VNum i)) (C08.Model.zseq 0 (Z.to_nat n)))
  end.

Definition spec_algos : algos := {|
  a_sort := sort_spec;
  a_uniq := uniq_spec_v;
  a_set := set_spec;
  a_member := fun kf x l => obool (set_member_spec kf cmp_val x l);
  a_union := fun kf => union_spec kf cmp_val;
  a_inter := fun kf => inter_spec kf cmp_val;
  a_diff := fun kf => diff_spec kf cmp_val;
  a_flatten := fun ls => Some (concat ls);
  a_join := @join_spec;
  a_remove := remove_spec eq_val;
  a_remove_at := @C08.Model.remove_at_spec val;
  a_sum := sum_spec;
|}.
Definition impl_algos : algos := {|
  a_sort := sort_impl;
  a_uniq := uniq_impl_v;
  a_set := set_impl;
  a_member := fun kf x l => of_bres (set_member_impl kf cmp_val x l);
  a_union := fun kf => union_impl kf cmp_val;
  a_inter := fun kf => inter_impl kf cmp_val;
  a_diff := fun kf => diff_impl kf cmp_val;
  a_flatten := @flatten_impl val;
  a_join := @join_impl;
  a_remove := remove_impl eq_val;
  a_remove_at := @remove_at_impl val;
  a_sum := sum_impl;
|}.

Definition spec_call : call -> option out := run spec_algos.
Definition impl_call : call -> option out := run impl_algos.

(** ** what the documented definition determines.
    [JSpec]: the SPEC outcome is what the documentation gives — the code is judged against it.
    [JModel]: the documentation leaves the call open (arguments that are not sets, a key
      function that is not defined on every element, a sum over strings, a null from the
      function of an array flatMap) — the code is compared with the IMPL-MODEL only.
    [JSkip]: the outcome depends on which comparisons a sort performs — skipped and counted. *)
Inductive judgement := JSpec | JModel | JSkip.

Definition sets_ok (k : option fn) (a b : val) : bool :=
  match a, b with
  | VArr la, VArr lb => is_set k la && is_set k lb && keys_total k (la ++ lb)
  | _, _ => true       (* a non-array argument: a documented type error *)
  end.

Definition has_str (arr : val) : bool :=
  match arr with VArr l => existsb (fun x => match x with VStr _ => true | _ => false end) l | _ => false end.

Definition judge (c : call) : judgement :=
  match c with
  | CSort (VArr l) k => if sort_determinate k l then JSpec else JSkip
  | CSet (VArr l) k => if sort_determinate k l then JSpec else JSkip
  | CSetMember x (VArr l) k => if is_set k l && keys_total k (x :: l) then JSpec else JModel
  | CSetUnion a b k | CSetInter a b k | CSetDiff a b k => if sets_ok k a b then JSpec else JModel
  | CSum arr | CAvg arr _ => if has_str arr then JModel else JSpec
  | CContains (VStr _) _ => JModel
  | CFlatMap f (VArr l) =>
      match mapM (apply f) l with
      | Some rs => if existsb (fun r => eq_val r VNull) rs then JModel else JSpec
      | None => JSpec
      end
  | CFlattenArrays (VArr l) =>
      if existsb (fun x => match x with VStr _ => true | _ => false end) l then JModel else JSpec
  | _ => JSpec
  end.

(** one case of the correspondence check *)
Definition run_case (c : call) : option out * option out * judgement :=
  (spec_call c, impl_call c, judge c).
