(** Statements of the C10 "Source" theorems, pinned: weakening one breaks this file. *)
From Coq Require Import List ZArith NArith Bool Lia.
From JrV Require Import C10.Model C10.Proofs C10.Properties Gen.GenSets C10.ModelSource C10.ProofsSource C10.PropertiesSource.
From JrV Require C08.Model.
Import ListNotations.

Check C10_model_is_translated_source_union :
  forall (A K : Type) (keyf : A -> option K) (cmp : K -> K -> option comparison) (a b : list A),
    gen_set_union keyf cmp a b = of_opt (union_impl keyf cmp a b).
Check C10_model_is_translated_source_diff :
  forall (A K : Type) (keyf : A -> option K) (cmp : K -> K -> option comparison) (a b : list A),
    gen_set_diff keyf cmp a b = of_opt (diff_impl keyf cmp a b).
Check C10_model_is_translated_source_remove_at :
  forall (A : Type) (l : list A) (at_ : Z),
    i32_range at_ -> (Z.of_nat (length l) < 2 ^ 31)%Z ->
    gen_remove_at l at_ = SOk (remove_at_impl l at_).
Check C10_translated_setops_refine :
  forall (A K : Type) (keyf : A -> option K) (cmp : K -> K -> option comparison)
         (key : A -> K) (c : K -> K -> comparison) (a b : list A),
    cmp_laws c ->
    keys_ok keyf key a -> keys_ok keyf key b -> cmp_ok cmp key c a b ->
    strict_sorted key c a -> strict_sorted key c b ->
    (exists u, gen_set_union keyf cmp a b = SOk u /\ strict_sorted key c u /\
               forall z, In z u <-> In z a \/ (In z b /\ key_in_b key c z a = false)) /\
    gen_set_diff keyf cmp a b = SOk (filter (fun x => negb (key_in_b key c x b)) a).
Check C10_translated_setops_follow_reference :
  forall (A K : Type) (keyf : A -> option K) (cmp : K -> K -> option comparison)
         (key : A -> K) (c : K -> K -> comparison) (a b : list A),
    keys_ok keyf key a -> keys_ok keyf key b -> cmp_ok cmp key c a b ->
    gen_set_union keyf cmp a b = of_opt (union_spec keyf cmp a b) /\
    gen_set_diff keyf cmp a b = of_opt (diff_spec keyf cmp a b).
Check C10_translated_remove_at_spec :
  forall (A : Type) (l : list A) (at_ : Z),
    i32_range at_ -> (Z.of_nat (length l) < 2 ^ 31)%Z ->
    gen_remove_at l at_ = SOk (C08.Model.remove_at_spec l at_).
(* definitions pinned *)
Check eq_refl : of_opt (@None nat) = SErr.
Check eq_refl : of_opt (Some 3) = SOk 3.
Check eq_refl : i32_range 5 = (- 2 ^ 31 <= 5 <= 2 ^ 31 - 1)%Z.
Check eq_refl : sloop 0 (fun s : nat => SOk (Some s)) 1 = SFuel.
Check eq_refl : expect (@None nat) = SPanic.
Check eq_refl : arr_slice (Some 1%Z) None [1; 2; 3] = [2; 3].
Check eq_refl : arr_slice None (Some (-1)%Z) [1; 2; 3] = [1; 2].
