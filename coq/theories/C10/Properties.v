(** C10 — property theorems only.  Each is closed by [exact]/[apply] of lemmas from Proofs.v and
    followed by [Print Assumptions]; statements are pinned again in Pins.v.
    Generic theorems quantify over EVERY element type, key type, key function and comparison
    (an abstract total preorder given as a three-way comparison, [cmp_laws]). *)
From Coq Require Import List ZArith NArith Bool Lia Sorted Permutation.
From JrV Require Import C10.Model C10.Proofs.
From JrV Require C08.Model.
Import ListNotations.

(** The three merge loops of sets.rs follow the reference merges of std.jsonnet on ALL arguments
    (sorted or not) on which the key function and the comparison are defined. *)
Theorem C10_setops_follow_reference :
  forall (A K : Type) (keyf : A -> option K) (cmp : K -> K -> option comparison)
         (key : A -> K) (c : K -> K -> comparison) (a b : list A),
    keys_ok keyf key a -> keys_ok keyf key b -> cmp_ok cmp key c a b ->
    union_impl keyf cmp a b = union_spec keyf cmp a b /\
    inter_impl keyf cmp a b = inter_spec keyf cmp a b /\
    diff_impl keyf cmp a b = diff_spec keyf cmp a b.
Proof.
  intros. repeat split.
  - rewrite (union_impl_pure keyf cmp key c), (union_spec_pure keyf cmp key c); auto.
  - rewrite (inter_impl_pure keyf cmp key c), (inter_spec_pure keyf cmp key c); auto.
  - rewrite (diff_impl_pure keyf cmp key c), (diff_spec_pure keyf cmp key c); auto.
Qed.
Print Assumptions C10_setops_follow_reference.

(** On sets (strictly key-sorted lists) under every key function and every total order on keys,
    the merges return: the strictly sorted list whose members are exactly a's elements plus b's
    elements whose key is not in a (a's representatives win); the elements of a whose key is
    in b; the elements of a whose key is not in b — in a's order. *)
Theorem C10_setops_refine :
  forall (A K : Type) (keyf : A -> option K) (cmp : K -> K -> option comparison)
         (key : A -> K) (c : K -> K -> comparison) (a b : list A),
    cmp_laws c ->
    keys_ok keyf key a -> keys_ok keyf key b -> cmp_ok cmp key c a b ->
    strict_sorted key c a -> strict_sorted key c b ->
    (exists u, union_impl keyf cmp a b = Some u /\ strict_sorted key c u /\
               forall z, In z u <-> In z a \/ (In z b /\ key_in_b key c z a = false)) /\
    inter_impl keyf cmp a b = Some (filter (fun x => key_in_b key c x b) a) /\
    diff_impl keyf cmp a b = Some (filter (fun x => negb (key_in_b key c x b)) a).
Proof.
  intros A K keyf cmp key c a b L Ka Kb Hc Sa Sb. repeat split.
  - exists (union_pure key c a b). repeat split.
    + apply union_impl_pure; assumption.
    + apply union_pure_sorted; assumption.
    + apply union_pure_members; assumption.
    + apply union_pure_members; assumption.
  - rewrite (inter_impl_pure keyf cmp key c) by assumption. f_equal. apply inter_pure_filter; assumption.
  - rewrite (diff_impl_pure keyf cmp key c) by assumption. f_equal. apply diff_pure_filter; assumption.
Qed.
Print Assumptions C10_setops_refine.

(** ... and intersection / difference are themselves sets; a set is determined by its members,
    so the union above is THE set with those members. *)
Theorem C10_set_results_are_sets :
  forall (A K : Type) (key : A -> K) (c : K -> K -> comparison) (p : A -> bool) (a : list A),
    strict_sorted key c a -> strict_sorted key c (filter p a).
Proof. intros. apply filter_sorted. assumption. Qed.
Print Assumptions C10_set_results_are_sets.

Theorem C10_set_determined_by_members :
  forall (A K : Type) (key : A -> K) (c : K -> K -> comparison) (l1 l2 : list A),
    cmp_laws c -> strict_sorted key c l1 -> strict_sorted key c l2 ->
    (forall z, In z l1 <-> In z l2) -> l1 = l2.
Proof. intros A K key c l1 l2 L. apply strict_sorted_unique. exact L. Qed.
Print Assumptions C10_set_determined_by_members.

(** C10_setops_refine / C10_setmember_refines are not vacuous for the REAL comparison: with
    [cmp_val] (evaluate_compare_op) and any key function of the pool whose keys on the two
    arguments are numbers, all their hypotheses hold. *)
Theorem C10_setops_number_keys :
  forall (k : option fn) (a b : list val),
    num_keys k a -> num_keys k b ->
    strict_sorted (keyd k) cz a -> strict_sorted (keyd k) cz b ->
    union_impl (keyfn k) cmp_val a b = union_spec (keyfn k) cmp_val a b /\
    inter_impl (keyfn k) cmp_val a b = inter_spec (keyfn k) cmp_val a b /\
    diff_impl (keyfn k) cmp_val a b = diff_spec (keyfn k) cmp_val a b /\
    (exists u, union_impl (keyfn k) cmp_val a b = Some u /\ strict_sorted (keyd k) cz u /\
               forall z, In z u <-> In z a \/ (In z b /\ key_in_b (keyd k) cz z a = false)) /\
    inter_impl (keyfn k) cmp_val a b = Some (filter (fun x => key_in_b (keyd k) cz x b) a) /\
    diff_impl (keyfn k) cmp_val a b = Some (filter (fun x => negb (key_in_b (keyd k) cz x b)) a).
Proof.
  intros k a b Na Nb Sa Sb.
  pose proof (num_keys_ok k a Na) as Ka. pose proof (num_keys_ok k b Nb) as Kb.
  pose proof (num_keys_cmp k a b Na Nb) as Hc.
  destruct (C10_setops_follow_reference _ _ (keyfn k) cmp_val (keyd k) cz a b Ka Kb Hc) as [E1 [E2 E3]].
  destruct (C10_setops_refine _ _ (keyfn k) cmp_val (keyd k) cz a b cmp_laws_cz Ka Kb Hc Sa Sb) as [U [I D]].
  repeat split; assumption.
Qed.
Print Assumptions C10_setops_number_keys.
Example C10_setops_number_keys_nonvacuous :
  num_keys (Some FLen) [VStr []; VArr [VNum 5]; VStr [97%N; 98%N]] /\
  strict_sorted (keyd (Some FLen)) cz [VStr []; VArr [VNum 5]; VStr [97%N; 98%N]] /\
  union_impl (keyfn (Some FLen)) cmp_val [VStr []; VArr [VNum 5]; VStr [97%N; 98%N]] [VStr [98%N]; VArr [VNull; VNull; VNull]]
  = Some [VStr []; VArr [VNum 5]; VStr [97%N; 98%N]; VArr [VNull; VNull; VNull]].
Proof.
  repeat split.
  - repeat constructor; eexists; split; reflexivity.
  - repeat constructor.
Qed.

(** The binary search of std.setMember answers membership-by-key on every set, exactly as the
    reference definition length(setInter([x], arr)) > 0 does; it never panics or runs out of fuel. *)
Theorem C10_setmember_refines :
  forall (A K : Type) (keyf : A -> option K) (cmp : K -> K -> option comparison)
         (key : A -> K) (c : K -> K -> comparison) (x : A) (arr : list A),
    cmp_laws c ->
    strict_sorted key c arr -> keyf x = Some (key x) -> keys_ok keyf key arr ->
    (forall e, In e arr -> cmp (key e) (key x) = Some (c (key e) (key x))) ->
    (forall e, In e arr -> cmp (key x) (key e) = Some (c (key x) (key e))) ->
    set_member_impl keyf cmp x arr = BOk (existsb (fun e => is_eq (c (key e) (key x))) arr) /\
    set_member_spec keyf cmp x arr = Some (existsb (fun e => is_eq (c (key e) (key x))) arr).
Proof.
  intros. split.
  - apply set_member_impl_correct; assumption.
  - apply set_member_spec_correct; assumption.
Qed.
Print Assumptions C10_setmember_refines.

(** The sort of the SPEC (what a stable `sort_by` computes) returns an ordered, stable
    permutation of its input, for every total preorder. *)
Theorem C10_sort_perm_sorted_stable :
  forall (A : Type) (leb : A -> A -> bool),
    (forall x y, leb x y = true \/ leb y x = true) ->
    (forall x y z, leb x y = true -> leb y z = true -> leb x z = true) ->
    forall l,
      Permutation (isort leb l) l /\
      StronglySorted (fun x y => leb x y = true) (isort leb l) /\
      forall z, filter (equivb leb z) (isort leb l) = filter (equivb leb z) l.
Proof.
  intros A leb T Tr l. repeat split.
  - apply isort_perm.
  - apply isort_sorted; assumption.
  - intros z. apply isort_stable. assumption.
Qed.
Print Assumptions C10_sort_perm_sorted_stable.

(** ... and any other ordered list with the same per-class subsequences — the result of ANY
    stable sort — is the same list: modelling Rust's stable sorts by insertion sort loses nothing. *)
Theorem C10_stable_sort_unique :
  forall (A : Type) (leb : A -> A -> bool),
    (forall x y, leb x y = true \/ leb y x = true) ->
    (forall x y z, leb x y = true -> leb y z = true -> leb x z = true) ->
    forall l r,
      StronglySorted (fun x y => leb x y = true) r ->
      (forall z, filter (equivb leb z) r = filter (equivb leb z) l) ->
      r = isort leb l.
Proof.
  intros A leb T Tr l r Sr Hr.
  apply (stable_sorted_unique leb T); [assumption|apply isort_sorted; assumption|].
  intros z. rewrite Hr. symmetry. apply isort_stable. assumption.
Qed.
Print Assumptions C10_stable_sort_unique.

(** sort.rs: when the classifier picks the number or the string fast path, every two keys
    compare and the fast path computes the stable sort by the general comparison. *)
Theorem C10_sort_fast_paths :
  forall (l ks : list val) (st : sort_type),
    get_sort_type STUnknown ks = Some st -> st = STNumber \/ st = STString ->
    all_comparable ks = true /\
    sort_keyed_impl l ks
    = Some (map fst (isort (fun p q : val * val => leb_val (snd p) (snd q)) (combine l ks))).
Proof. exact sort_fast_paths. Qed.
Print Assumptions C10_sort_fast_paths.

(** std.sort and std.set agree with the definition for ALL arrays and key functions whose keys the
    classifier does not send to the comparator path: all numbers, all strings (stable sort), or a
    number/string mix (both fail). *)
Theorem C10_sort_refines_classified :
  forall k l,
    (forall ks, mapM (keyfn k) l = Some ks -> get_sort_type STUnknown ks <> Some STUnspec) ->
    sort_impl k l = sort_spec k l /\ set_impl k l = set_spec k l.
Proof.
  intros k l H. pose proof (sort_refines_classified k l H) as E. split; [exact E|].
  unfold set_impl, set_spec. rewrite E. destruct (sort_spec k l); [|reflexivity]. cbn [bind]. apply uniq_v_same.
Qed.
Print Assumptions C10_sort_refines_classified.
Example C10_sort_refines_classified_nonvacuous :
  (forall ks, mapM (keyfn (Some FLen)) [VStr [97%N; 98%N]; VArr []; VStr [98%N]] = Some ks ->
              get_sort_type STUnknown ks <> Some STUnspec) /\
  sort_impl (Some FLen) [VStr [97%N; 98%N]; VArr []; VStr [98%N]] = Some [VArr []; VStr [98%N]; VStr [97%N; 98%N]].
Proof. split; [|reflexivity]. intros ks H. injection H as <-. discriminate. Qed.

(** the comparator path: when every comparison the sort can make succeeds it is the same sort *)
Theorem C10_sort_fallible_path :
  forall (A : Type) (cmpf : A -> A -> option comparison) (leb : A -> A -> bool) (l : list A),
    (forall x y, In x l -> In y l -> exists c, cmpf x y = Some c /\ leb x y = leb_cmp c) ->
    isort_f cmpf l = Some (isort leb l).
Proof. intros. apply isort_f_ok. assumption. Qed.
Print Assumptions C10_sort_fallible_path.

(** uniq: comparing with the previous element (sort.rs) or with the last kept element
    (std.jsonnet) is the same for every equivalence on keys *)
Theorem C10_uniq_refines :
  forall (A K : Type) (eqk : K -> K -> bool),
    (forall x, eqk x x = true) -> (forall x y, eqk x y = eqk y x) ->
    (forall x y z, eqk x y = true -> eqk y z = true -> eqk x z = true) ->
    forall l : list (A * K), uniq_impl eqk l = uniq_spec eqk l.
Proof. intros. apply uniq_impl_spec; assumption. Qed.
Print Assumptions C10_uniq_refines.

(** val::equals on the value universe is an equivalence (so the above applies to std.uniq) *)
Theorem C10_equals_equivalence :
  (forall v, eq_val v v = true) /\ (forall a b, eq_val a b = eq_val b a) /\
  (forall a b c, eq_val a b = true -> eq_val b c = true -> eq_val a c = true).
Proof. repeat split; [apply eq_val_refl|apply eq_val_sym|apply eq_val_trans]. Qed.
Print Assumptions C10_equals_equivalence.

(** set = uniq . sort in both models: the native std.set refines the definition wherever the
    native sort does *)
Theorem C10_set_is_uniq_sort :
  forall k l,
    set_spec k l = (s <- sort_spec k l ;; uniq_spec_v k s) /\
    (sort_impl k l = sort_spec k l -> set_impl k l = set_spec k l).
Proof.
  intros k l. split; [reflexivity|]. intros H. unfold set_impl, set_spec. rewrite H.
  destruct (sort_spec k l); [|reflexivity]. cbn [bind]. apply uniq_v_same.
Qed.
Print Assumptions C10_set_is_uniq_sort.

(** std.flattenArrays: the balanced tree of concatenations is the concatenation *)
Theorem C10_flatten_refines :
  forall (A : Type) (vs : list (list A)), flatten_impl vs = Some (concat vs).
Proof. intros. apply flatten_impl_concat. Qed.
Print Assumptions C10_flatten_refines.

(** std.join / std.lines: the `first`-flag loop is intercalation of the non-null pieces *)
Theorem C10_join_refines :
  forall (A : Type) (sep : list A) (items : list (option (list A))),
    join_impl sep items = intercalate sep (somes items).
Proof. intros. apply join_impl_spec. Qed.
Print Assumptions C10_join_refines.

(** std.remove removes the first occurrence; its removeAt step is C08's (C08_remove_at_spec) *)
Theorem C10_remove_refines :
  forall (A : Type) (eqa : A -> A -> bool) (l : list A) (x : A) (at_ : Z),
    remove_impl eqa l x = remove_spec eqa l x /\
    remove_at_impl l at_ = C08.Model.remove_at_spec l at_.
Proof. intros. split; [apply remove_impl_spec|apply remove_at_impl_spec]. Qed.
Print Assumptions C10_remove_refines.

(** The comparison of the evaluator (evaluate_compare_op: numbers, strings, arrays
    lexicographically, everything else an error) is the restriction of a total order on the
    whole value universe: wherever it answers, it answers as [ctot], and [ctot] satisfies the
    order laws the set theorems ask for. *)
Theorem C10_compare_extends_to_total_order :
  cmp_laws ctot /\ forall a b c, cmp_val a b = Some c -> ctot a b = c.
Proof. split; [exact cmp_laws_ctot|exact ctot_extends]. Qed.
Print Assumptions C10_compare_extends_to_total_order.

(** std.sort / std.set on every array and key function for which the definition determines
    the outcome (all keys pairwise comparable, a key evaluation fails, or some key compares
    with no other): all three paths of sort.rs, including the comparator path. *)
Theorem C10_sort_refines :
  forall k l, sort_determinate k l = true ->
    sort_impl k l = sort_spec k l /\ set_impl k l = set_spec k l.
Proof. exact sort_refines_determinate. Qed.
Print Assumptions C10_sort_refines.

(** THE END-TO-END STATEMENT: for every call of the 35 functions, with any arguments, whose
    outcome the documented definition determines ([judge c = JSpec]), the IMPL-MODEL outcome
    (value or error) is the SPEC outcome.  No known class: the std.sum / std.avg and unstable-
    sort findings are fixed in the repository (b7c8f41, 3588344). *)
Theorem C10_calls_refine :
  forall c, judge c = JSpec -> impl_call c = spec_call c.
Proof. exact calls_refine. Qed.
Print Assumptions C10_calls_refine.

(** ... and for the 29 functions other than sort / set / the set functions, on ALL arguments *)
Theorem C10_simple_calls_refine :
  forall c, simple_call c = true -> impl_call c = spec_call c.
Proof. exact simple_calls_refine. Qed.
Print Assumptions C10_simple_calls_refine.

Example C10_calls_refine_nonvacuous :
  judge (CSort (VArr [VArr [VNum 1; VNull]; VArr [VNum 0]; VArr [VNum 2]]) None) = JSpec /\
  impl_call (CSort (VArr [VArr [VNum 1; VNull]; VArr [VNum 0]; VArr [VNum 2]]) None)
  = Some (OVal (VArr [VArr [VNum 0]; VArr [VNum 1; VNull]; VArr [VNum 2]])) /\
  judge (CSort (VArr [VArr [VNum 1]; VNull; VArr [VNum 2]]) None) = JSpec /\
  impl_call (CSort (VArr [VArr [VNum 1]; VNull; VArr [VNum 2]]) None) = None /\
  judge (CSetMember (VArr [VNum 7; VNum 9]) (VArr [VArr [VNum 1]; VArr [VNum 7]]) (Some FFirst)) = JSpec /\
  impl_call (CSetMember (VArr [VNum 7; VNum 9]) (VArr [VArr [VNum 1]; VArr [VNum 7]]) (Some FFirst))
  = Some (OVal (VBool true)) /\
  judge (CSetDiff (VArr [VArr [VNum 1]; VArr [VNum 1; VNum 2]]) (VArr [VArr [VNum 1; VNum 2]]) None) = JSpec /\
  impl_call (CSetDiff (VArr [VArr [VNum 1]; VArr [VNum 1; VNum 2]]) (VArr [VArr [VNum 1; VNum 2]]) None)
  = Some (OVal (VArr [VArr [VNum 1]])).
Proof. repeat split; reflexivity. Qed.

(** fold laws *)
Theorem C10_fold_laws :
  forall f l1 l2 acc,
    foldl_m f (l1 ++ l2) acc = (a <- foldl_m f l1 acc ;; foldl_m f l2 a) /\
    foldr_m f (l1 ++ l2) acc = (a <- foldr_m f l2 acc ;; foldr_m f l1 a).
Proof.
  intros f l1 l2. induction l1 as [|x l1 IH]; intros acc; split; try reflexivity.
  - cbn. destruct (foldr_m f l2 acc); reflexivity.
  - cbn [app foldl_m]. destruct (apply2 f acc x); [|reflexivity]. cbn [bind]. apply IH.
  - cbn [app foldr_m]. rewrite (proj2 (IH acc)). destruct (foldr_m f l2 acc); reflexivity.
Qed.
Print Assumptions C10_fold_laws.

(** ** non-vacuity: the hypotheses are satisfiable by non-trivial instances *)
Definition zc (x y : Z) : option comparison := Some (Z.compare x y).
Example C10_setops_nonvacuous :
  cmp_laws Z.compare /\
  keys_ok (@Some Z) id [1; 3; 5]%Z /\ keys_ok (@Some Z) id [2; 3; 6]%Z /\
  cmp_ok zc id Z.compare [1; 3; 5]%Z [2; 3; 6]%Z /\
  strict_sorted id Z.compare [1; 3; 5]%Z /\ strict_sorted id Z.compare [2; 3; 6]%Z /\
  union_impl (@Some Z) zc [1; 3; 5]%Z [2; 3; 6]%Z = Some [1; 2; 3; 5; 6]%Z /\
  inter_impl (@Some Z) zc [1; 3; 5]%Z [2; 3; 6]%Z = Some [3]%Z /\
  diff_impl (@Some Z) zc [1; 3; 5]%Z [2; 3; 6]%Z = Some [1; 5]%Z /\
  set_member_impl (@Some Z) zc 5%Z [1; 3; 5]%Z = BOk true.
Proof.
  split; [apply cmp_laws_Z|].
  repeat split; try (repeat constructor; fail); try reflexivity.
Qed.
Example C10_sort_nonvacuous :
  let leb := fun p q : Z * Z => (snd p <=? snd q)%Z in
  (forall x y, leb x y = true \/ leb y x = true) /\
  (forall x y z, leb x y = true -> leb y z = true -> leb x z = true) /\
  isort leb [(1, 2); (2, 1); (3, 2); (4, 1)]%Z = [(2, 1); (4, 1); (1, 2); (3, 2)]%Z.
Proof.
  cbv zeta. repeat split.
  - intros x y. rewrite !Z.leb_le. lia.
  - intros x y z. rewrite !Z.leb_le. lia.
Qed.
Example C10_uniq_nonvacuous :
  uniq_impl Z.eqb [(10, 1); (11, 1); (12, 2); (13, 1)]%Z = [10; 12; 13]%Z /\
  uniq_impl_v (Some FFirst) [VArr [VNum 1]; VArr [VNum 1; VNum 2]; VArr [VNum 0]]
  = Some [VArr [VNum 1]; VArr [VNum 0]].
Proof. split; reflexivity. Qed.
Example C10_fast_path_nonvacuous :
  get_sort_type STUnknown [VNum 2; VNegZero; VNum 1] = Some STNumber /\
  get_sort_type STUnknown [VStr [98%N]; VStr [97%N]] = Some STString /\
  get_sort_type STUnknown [VNum 2; VStr []] = None /\
  sort_impl None [VNum 2; VNegZero; VNum 0; VNum 1] = Some [VNegZero; VNum 0; VNum 1; VNum 2].
Proof. repeat split; reflexivity. Qed.
Example C10_calls_nonvacuous :
  simple_call (CJoin (VStr [44%N]) (VArr [VStr [97%N]; VNull; VStr [98%N]])) = true /\
  impl_call (CJoin (VStr [44%N]) (VArr [VStr [97%N]; VNull; VStr [98%N]]))
  = Some (OVal (VStr [97%N; 44%N; 98%N])) /\
  impl_call (CFlattenArrays (VArr [VArr [VNum 1]; VArr []; VArr [VNum 2; VNum 3]]))
  = Some (OVal (VArr [VNum 1; VNum 2; VNum 3])).
Proof. repeat split; reflexivity. Qed.
