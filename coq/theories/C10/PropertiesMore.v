(** C10, part "More" (array builtins over lazy elements) — property theorems only.  Each is closed by
    [exact] of a lemma of ProofsMore.v and followed by [Print Assumptions]; statements are pinned again in
    PinsMore.v.  Generic theorems quantify over EVERY element type, equality, key function, comparison and
    callback (a callback is a function of the THUNKS it receives). *)
From Coq Require Import List ZArith NArith Bool Lia.
From JrV Require Import C10.Model C10.Proofs C10.ModelMore C10.ProofsMore.
Import ListNotations.

(** std.any / std.all: the iterator loops of arrays.rs stop at the first deciding element exactly as the index recursion of std.jsonnet does — same value, same error, same elements evaluated — for ALL arrays of thunks and every boolean test. *)
Theorem C10_any_all_refine :
  forall (E : Type) (as_bool : E -> option bool) (l : list (option E)),
    any_impl as_bool l = any_spec as_bool l /\ all_impl as_bool l = all_spec as_bool l.
Proof. exact any_all_refine. Qed.
Print Assumptions C10_any_all_refine.

(** std.count = length(filter(== x)), std.find = filter over the index range, std.contains = any([e == x for e in arr]), for ALL arrays of thunks and every (fallible) equality. *)
Theorem C10_count_find_contains_refine :
  forall (A : Type) (eqa : A -> A -> option bool) (l : list (option A)) (x : A),
    count_impl eqa l x 0 = count_spec eqa l x /\
    find_impl eqa l x 0 = find_spec eqa l x /\
    contains_impl eqa l x = contains_spec eqa l x.
Proof. exact count_find_contains_refine. Qed.
Print Assumptions C10_count_find_contains_refine.

(** std.member (= count > 0) and std.remove (= find, then removeAt of the first index): the early-return loops agree with the definitions on ALL arrays outside the known class [err_after_match] (an element after the first match fails to evaluate / compare).  FULL statement (refuted below): without the hypothesis. *)
Theorem C10_member_remove_refine :
  forall (A : Type) (eqa : A -> A -> option bool) (l : list (option A)) (x : A),
    err_after_match eqa l x = false ->
    member_impl eqa l x = member_spec eqa l x /\ remove_impl_l eqa l x = remove_spec_l eqa l x.
Proof. exact member_remove_refine. Qed.
Print Assumptions C10_member_remove_refine.

(** ... and whenever the definition of std.member yields a value at all, the code yields that value. *)
Theorem C10_member_when_definition_defined :
  forall (A : Type) (eqa : A -> A -> option bool) (l : list (option A)) (x : A) (b : bool),
    member_spec eqa l x = Some b -> member_impl eqa l x = Some b.
Proof. exact @member_when_spec_defined. Qed.
Print Assumptions C10_member_when_definition_defined.

(** the witness: std.member([1, error], 1) is true and std.remove([1, error], 1) is [error] in the code; both are errors by the definition. *)
Theorem C10_member_remove_refuted :
  exists (l : list (option val)) (x : val),
    err_after_match eqv l x = true /\
    member_impl eqv l x = Some true /\ member_spec eqv l x = None /\
    remove_impl_l eqv l x = Some [None] /\ remove_spec_l eqv l x = None.
Proof. exact member_remove_refuted. Qed.
Print Assumptions C10_member_remove_refuted.

(** std.foldl / std.foldr / std.map (since fixes 762ca42, 9dc676b the loops hand the element THUNK to the function): equal to the index recursions of std.jsonnet for EVERY function on ALL arrays of thunks. *)
Theorem C10_folds_map_refine :
  forall (A B C : Type) (fl : B -> option A -> option B) (fr : option A -> B -> option B)
         (f : option A -> option C) (l : list (option A)) (acc : B),
    foldl_impl fl l acc = foldl_spec fl l acc /\
    foldr_impl fr l acc = foldr_spec fr l acc /\
    map_impl f l = map_spec f l.
Proof. exact folds_map_refine. Qed.
Print Assumptions C10_folds_map_refine.

(** historical: the loops as they were BEFORE those fixes (element forced first) deviated: std.foldl(function(p, q) p, [error], 0), std.foldr(function(p, q) q, [error], 0), std.map(function(x) 7, [error])[0] failed; the definitions give 0, 0 and 7. *)
Theorem C10_callback_forced_old_refuted :
  exists (l : list (option val)) (init : val),
    has_failing l = true /\
    foldl_impl_old (fun acc t => lapply2 L2Fst (Some acc) t) l init = None /\
    foldl_spec (fun acc t => lapply2 L2Fst (Some acc) t) l init = Some init /\
    foldr_impl_old (fun t acc => lapply2 L2Snd t (Some acc)) l init = None /\
    foldr_spec (fun t acc => lapply2 L2Snd t (Some acc)) l init = Some init /\
    map_impl_old (lapply FConst) l = [None] /\ map_spec (lapply FConst) l = [Some (VNum 7)].
Proof. exact callback_forced_old_refuted. Qed.
Print Assumptions C10_callback_forced_old_refuted.

(** std.mapWithIndex = makeArray(length, function(i) func(i, arr[i])); std.filter (ArrValue::filter: one pass over the element thunks; the eager pre-pass of the old code is [filter_impl_old], removed by a fix: commit because it forced unneeded elements) applies the predicate to every element thunk in order and keeps the thunks; std.filterMap = map(map_func, filter(filter_func, arr)); for EVERY function / predicate on ALL arrays of thunks. *)
Theorem C10_mapi_filter_refine :
  forall (A B : Type) (fi : nat -> option A -> option B) (f : option A -> option B)
         (p : option A -> option bool) (l : list (option A)),
    mapi_impl fi 0 l = mapi_spec fi l /\
    filter_impl p l = filter_spec p l /\
    filter_map_impl f p l = filter_map_spec f p l.
Proof. exact mapi_filter_refine. Qed.
Print Assumptions C10_mapi_filter_refine.

(** std.flatMap on arrays (since fix 9d0c0a4 element and result elements stay thunks) = flattenArrays(makeArray(length, function(i) func(arr[i]))) for EVERY function that never returns null (null is skipped by the code: jrsonnet's extension, outside the documented domain), on ALL arrays of thunks. *)
Theorem C10_flatmap_refine :
  forall (A B : Type) (ff : option A -> option (option (list (option B)))) (l : list (option A)),
    returns_null ff l = false -> flatmap_impl ff l = flatmap_spec ff l.
Proof. exact flatmap_refine. Qed.
Print Assumptions C10_flatmap_refine.

(** std.reverse: ReverseArray's index translation is makeArray(l, function(i) arr[l - i - 1]), i.e. the reversed list of the same thunks. *)
Theorem C10_reverse_refines :
  forall (A : Type) (l : list A),
    reverse_impl l = reverse_spec l /\ reverse_spec l = map (@Some A) (rev l).
Proof. exact reverse_refines. Qed.
Print Assumptions C10_reverse_refines.

(** std.minArray / std.maxArray with keyF and onEmpty: array_top1 (keys cached, new-vs-current comparison) equals foldl(minFn, arr, arr[0]) (keys recomputed, current-vs-new comparison, first element compared with itself) for EVERY key function and every antisymmetric comparison, on ALL arrays without a failing element whose first key compares with itself; the first of several extreme elements wins in both. *)
Theorem C10_top1_refines :
  forall (A K : Type) (keyl : option A -> option K) (cmp : K -> K -> option comparison)
         (l : list (option A)) (on_empty : option (option A)),
    (forall a b, cmp b a = option_map CompOpp (cmp a b)) ->
    (forall k c, cmp k k = Some c -> c = Eq) ->
    has_failing l = false -> first_key_incomparable keyl cmp l = false ->
    top1_impl keyl cmp Lt l on_empty = top1_spec keyl cmp Gt l on_empty /\
    top1_impl keyl cmp Gt l on_empty = top1_spec keyl cmp Lt l on_empty.
Proof. exact top1_refines. Qed.
Print Assumptions C10_top1_refines.

(** the empty array: onEmpty (a thunk, evaluated only then) or the error, in both. *)
Theorem C10_top1_on_empty :
  forall (A K : Type) (keyl : option A -> option K) (cmp : K -> K -> option comparison)
         (ord want : comparison) (on_empty : option (option A)),
    top1_impl keyl cmp ord [] on_empty = top1_spec keyl cmp want [] on_empty.
Proof. exact top1_empty. Qed.
Print Assumptions C10_top1_on_empty.

(** the witness for the class [has_failing] (still the case): std.minArray([1, error], keyF=function(x) 7) fails in the code (array_top1 forces the element before keyF runs); the definition gives 1. *)
Theorem C10_top1_key_forced_refuted :
  exists l : list (option val),
    has_failing l = true /\ first_key_incomparable (lkeyfn (Some FConst)) cmp_val l = false /\
    top1_impl (lkeyfn (Some FConst)) cmp_val Lt l None = None /\
    top1_spec (lkeyfn (Some FConst)) cmp_val Gt l None = Some (VNum 1).
Proof. exact top1_key_forced_refuted. Qed.
Print Assumptions C10_top1_key_forced_refuted.

(** the witness: std.minArray([null]) is null in the code; by the definition std.__compare(null, null) fails. *)
Theorem C10_top1_first_key_refuted :
  exists l : list (option val),
    has_failing l = false /\ first_key_incomparable (lkeyfn None) cmp_val l = true /\
    top1_impl (lkeyfn None) cmp_val Lt l None = Some VNull /\
    top1_spec (lkeyfn None) cmp_val Gt l None = None.
Proof. exact top1_first_key_refuted. Qed.
Print Assumptions C10_top1_first_key_refuted.

(** the hypotheses of C10_top1_refines hold for the evaluator's comparison on the value universe. *)
Theorem C10_compare_antisym_refl :
  (forall a b, cmp_val b a = option_map CompOpp (cmp_val a b)) /\
  (forall k c, cmp_val k k = Some c -> c = Eq).
Proof. exact compare_antisym_refl. Qed.
Print Assumptions C10_compare_antisym_refl.

(** array == (val.rs equals), std.startsWith / std.endsWith on arrays: the zip loops over take / skip equal `a[0:length(b)] == b` / `a[length(a) - length(b):] == b` with the index recursion of std.equals, for ALL arrays of thunks and every (fallible) equality. *)
Theorem C10_starts_ends_with_refine :
  forall (A : Type) (eqa : A -> A -> option bool) (a b : list (option A)),
    arr_equals_impl eqa a b = arr_equals_spec eqa a b /\
    starts_with_impl eqa a b = starts_with_spec eqa a b /\
    ends_with_impl eqa a b = ends_with_spec eqa a b.
Proof. exact starts_ends_with_refine. Qed.
Print Assumptions C10_starts_ends_with_refine.

(** END-TO-END for the correspondence check: every call of the 19 functions on arrays of thunks over the value universe, outside the three known classes (member / remove; minArray / maxArray twice), has the SPEC outcome. *)
Theorem C10_lazy_calls_refine :
  forall c, lknown c = 0 -> limpl c = lspec c.
Proof. exact lcalls_refine. Qed.
Print Assumptions C10_lazy_calls_refine.

(** each known class contains a call on which the code deviates from the definition. *)
Theorem C10_lazy_known_classes_refuted :
  (exists c, lknown c = 1 /\ limpl c <> lspec c) /\
  (exists c, lknown c = 2 /\ limpl c <> lspec c) /\
  (exists c, lknown c = 3 /\ limpl c <> lspec c).
Proof. exact lknown_refuted. Qed.
Print Assumptions C10_lazy_known_classes_refuted.

(** ** non-vacuity: the hypotheses are satisfiable by non-trivial instances *)
Example C10_any_all_nonvacuous :
  any_impl as_bool [Some (VBool false); Some (VBool true); None] = Some true /\
  all_impl as_bool [Some (VBool true); Some (VBool false); Some (VNum 1)] = Some false /\
  any_impl as_bool [Some (VBool false); Some (VNum 1); Some (VBool true)] = None /\
  all_impl as_bool [Some (VBool true); None] = None.
Proof. repeat split; reflexivity. Qed.
Example C10_member_remove_nonvacuous :
  err_after_match eqv [None; Some (VNum 1)] (VNum 1) = false /\
  err_after_match eqv [Some (VNum 2); Some (VNum 1); Some (VNum 1)] (VNum 1) = false /\
  member_impl eqv [Some (VNum 2); Some (VNum 1); Some (VNum 1)] (VNum 1) = Some true /\
  remove_impl_l eqv [Some (VNum 2); Some (VNum 1); Some (VNum 1)] (VNum 1) = Some [Some (VNum 2); Some (VNum 1)] /\
  count_impl eqv [Some (VNum 2); Some (VNum 1); Some (VNum 1)] (VNum 1) 0 = Some 2 /\
  find_impl eqv [Some (VNum 2); Some (VNum 1); Some (VNum 1)] (VNum 1) 0 = Some [1; 2].
Proof. repeat split; reflexivity. Qed.
Example C10_folds_nonvacuous :
  has_failing [Some (VNum 1); Some (VNum 2)] = false /\
  foldl_impl (fun acc t => lapply2 L2Add (Some acc) t) [Some (VNum 1); Some (VNum 2)] (VNum 4) = Some (VNum 7) /\
  foldr_impl (fun t acc => lapply2 L2Fst t (Some acc)) [Some (VNum 1); Some (VNum 2)] (VNum 4) = Some (VNum 1) /\
  (forall a, lapply2 L2Add (Some a) None = None) /\
  foldl_impl (fun acc t => lapply2 L2Add (Some acc) t) [Some (VNum 1); None] (VNum 4) = None.
Proof. repeat split; reflexivity. Qed.
Example C10_top1_nonvacuous :
  let l := [Some (VArr [VNum 2]); Some (VArr [VNum 1; VNum 5]); Some (VArr [VNum 1; VNum 0])] in
  has_failing l = false /\ first_key_incomparable (lkeyfn (Some FFirst)) cmp_val l = false /\
  top1_impl (lkeyfn (Some FFirst)) cmp_val Lt l None = Some (VArr [VNum 1; VNum 5]) /\
  top1_impl (lkeyfn (Some FLen)) cmp_val Gt l None = Some (VArr [VNum 1; VNum 5]) /\
  top1_impl (lkeyfn None) cmp_val Lt [] (Some (Some (VNum 3))) = Some (VNum 3).
Proof. cbv zeta. repeat split; reflexivity. Qed.
Example C10_starts_ends_nonvacuous :
  starts_with_impl eqv [Some (VNum 1); None] [Some (VNum 1)] = Some true /\
  starts_with_impl eqv [Some (VNum 1); Some (VNum 2)] [Some (VNum 1); Some (VNum 2); None] = Some false /\
  ends_with_impl eqv [None; Some (VNum 2); Some (VNum 3)] [Some (VNum 2); Some (VNum 3)] = Some true /\
  ends_with_impl eqv [Some (VNum 1); Some (VNum 2)] [None; Some (VNum 2)] = None.
Proof. repeat split; reflexivity. Qed.
Example C10_lazy_calls_nonvacuous :
  lknown (LRemove [Some (VNum 1); Some (VStr [97%N]); Some (VNum 1)] (VStr [97%N])) = 0 /\
  limpl (LRemove [Some (VNum 1); Some (VStr [97%N]); Some (VNum 1)] (VStr [97%N]))
  = Some (LA [Some (VNum 1); Some (VNum 1)]) /\
  lknown (LMaxArray [Some (VNum 1); Some (VNum 3); Some (VNum 3)] (Some FNeg) None) = 0 /\
  limpl (LMaxArray [Some (VNum 1); Some (VNum 3); Some (VNum 3)] (Some FNeg) None) = Some (LV (VNum 1)).
Proof. repeat split; reflexivity. Qed.
Example C10_flatmap_filter_nonvacuous :
  returns_null (lflat LMDup) [None; Some (VNum 1)] = false /\
  flatmap_impl (lflat LMDup) [None; Some (VNum 1)] = Some [None; None; Some (VNum 1); Some (VNum 1)] /\
  flatmap_impl (lflat LMErrElem) [Some (VNum 1)] = Some [None] /\
  flatmap_impl (lflat LMIfNum) [Some (VNum 1); None] = None /\
  filter_impl (lpred FTrue) [None; Some (VNum 1)] = Some [None; Some (VNum 1)] /\
  filter_impl (lpred FIsNum) [Some (VNum 1); None] = None /\
  filter_map_impl (lapply FConst) (lpred FTrue) [None] = Some [Some (VNum 7)] /\
  mapi_impl (fun i t => lapply2 L2Fst (Some (VNum (Z.of_nat i))) t) 0 [None; None] = [Some (VNum 0); Some (VNum 1)].
Proof. repeat split; reflexivity. Qed.
