#!/usr/bin/env python3
"""Regenerate the `Check name : statement.` part of Pins.v from Properties.v (run by hand after
editing Properties.v; the evaluation pins below the marker line are kept as they are)."""
import os
import re

HERE = os.path.dirname(os.path.abspath(__file__))


def strip(t):
    out, d, i = [], 0, 0
    while i < len(t):
        if t[i:i + 2] == '(*':
            d += 1
            i += 2
            continue
        if t[i:i + 2] == '*)' and d:
            d -= 1
            i += 2
            continue
        if d == 0:
            out.append(t[i])
        i += 1
    return ''.join(out)


t = strip(open(os.path.join(HERE, 'Properties.v')).read())
pins = [f"Check {m.group(1)} :{m.group(2)}."
        for m in re.finditer(r"^Theorem\s+(\w+)\s*:(.*?)\.\s*\nProof\.", t, re.S | re.M)]
old = open(os.path.join(HERE, 'Pins.v')).read()
head = old[:old.index("Check C10_")]
tail = old[old.index("\n(** the definitions the statements rest on"):]
open(os.path.join(HERE, 'Pins.v'), 'w').write(head + "\n".join(pins) + "\n" + tail)
print(len(pins), "theorems pinned")
