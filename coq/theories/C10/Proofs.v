(** C10 — lemmas.  Property theorems are re-stated in Properties.v. *)
From Coq Require Import List ZArith NArith Bool Lia Sorted Permutation.
From JrV Require Import C10.Model.
From JrV Require C08.Model.
Import ListNotations.
Open Scope nat_scope.

Ltac Zify.zify_post_hook ::= Z.div_mod_to_equations.

(* ================================================================================= *)
(** * The merges *)
Section MergeFacts.
  Context {A K : Type}.
  Variable keyf : A -> option K.
  Variable cmp : K -> K -> option comparison.
  Variable key : A -> K.
  Variable c : K -> K -> comparison.


  (** unfolding equations (the nested [fix] refolded) *)
  Lemma union_impl_eq a b : union_impl keyf cmp a b =
      match a, b with
      | [], [] => Some []
      | x :: a', [] => _ <- keyf x ;; r <- union_impl keyf cmp a' [] ;; Some (x :: r)
      | [], y :: b' => _ <- keyf y ;; r <- union_impl keyf cmp [] b' ;; Some (y :: r)
      | x :: a', y :: b' =>
          kx <- keyf x ;; ky <- keyf y ;; c <- cmp kx ky ;;
          match c with
          | Lt => r <- union_impl keyf cmp a' b ;; Some (x :: r)
          | Gt => r <- union_impl keyf cmp a b' ;; Some (y :: r)
          | Eq => r <- union_impl keyf cmp a' b' ;; Some (x :: r)
          end
      end.
  Proof. destruct a; destruct b; reflexivity. Qed.
  Lemma inter_impl_eq a b : inter_impl keyf cmp a b =
      match a, b with
      | [], [] => Some []
      | x :: _, [] => _ <- keyf x ;; Some []
      | [], y :: _ => _ <- keyf y ;; Some []
      | x :: a', y :: b' =>
          kx <- keyf x ;; ky <- keyf y ;; c <- cmp kx ky ;;
          match c with
          | Lt => inter_impl keyf cmp a' b
          | Gt => inter_impl keyf cmp a b'
          | Eq => r <- inter_impl keyf cmp a' b' ;; Some (x :: r)
          end
      end.
  Proof. destruct a; destruct b; reflexivity. Qed.
  Lemma diff_impl_eq a b : diff_impl keyf cmp a b =
      match a, b with
      | [], [] => Some []
      | [], y :: _ => _ <- keyf y ;; Some []
      | x :: a', [] => _ <- keyf x ;; r <- diff_impl keyf cmp a' [] ;; Some (x :: r)
      | x :: a', y :: b' =>
          kx <- keyf x ;; ky <- keyf y ;; c <- cmp kx ky ;;
          match c with
          | Lt => r <- diff_impl keyf cmp a' b ;; Some (x :: r)
          | Gt => diff_impl keyf cmp a b'
          | Eq => diff_impl keyf cmp a' b'
          end
      end.
  Proof. destruct a; destruct b; reflexivity. Qed.
  Lemma union_spec_eq a b : union_spec keyf cmp a b =
      match a, b with
      | [], _ => Some b
      | _, [] => Some a
      | x :: a', y :: b' =>
          kx <- keyf x ;; ky <- keyf y ;; c <- cmp kx ky ;;
          match c with
          | Lt => r <- union_spec keyf cmp a' b ;; Some (x :: r)
          | Gt => r <- union_spec keyf cmp a b' ;; Some (y :: r)
          | Eq => r <- union_spec keyf cmp a' b' ;; Some (x :: r)
          end
      end.
  Proof. destruct a; destruct b; reflexivity. Qed.
  Lemma inter_spec_eq a b : inter_spec keyf cmp a b =
      match a, b with
      | [], _ => Some []
      | _, [] => Some []
      | x :: a', y :: b' =>
          kx <- keyf x ;; ky <- keyf y ;; c <- cmp kx ky ;;
          match c with
          | Lt => inter_spec keyf cmp a' b
          | Gt => inter_spec keyf cmp a b'
          | Eq => r <- inter_spec keyf cmp a' b' ;; Some (x :: r)
          end
      end.
  Proof. destruct a; destruct b; reflexivity. Qed.
  Lemma diff_spec_eq a b : diff_spec keyf cmp a b =
      match a, b with
      | [], _ => Some []
      | _, [] => Some a
      | x :: a', y :: b' =>
          kx <- keyf x ;; ky <- keyf y ;; c <- cmp kx ky ;;
          match c with
          | Lt => r <- diff_spec keyf cmp a' b ;; Some (x :: r)
          | Gt => diff_spec keyf cmp a b'
          | Eq => diff_spec keyf cmp a' b'
          end
      end.
  Proof. destruct a; destruct b; reflexivity. Qed.
  Lemma union_pure_eq a b : union_pure key c a b =
      match a, b with
      | [], _ => b
      | _, [] => a
      | x :: a', y :: b' =>
          match c (key x) (key y) with
          | Lt => x :: union_pure key c a' b
          | Gt => y :: union_pure key c a b'
          | Eq => x :: union_pure key c a' b'
          end
      end.
  Proof. destruct a; destruct b; reflexivity. Qed.
  Lemma inter_pure_eq a b : inter_pure key c a b =
      match a, b with
      | [], _ => []
      | _, [] => []
      | x :: a', y :: b' =>
          match c (key x) (key y) with
          | Lt => inter_pure key c a' b
          | Gt => inter_pure key c a b'
          | Eq => x :: inter_pure key c a' b'
          end
      end.
  Proof. destruct a; destruct b; reflexivity. Qed.
  Lemma diff_pure_eq a b : diff_pure key c a b =
      match a, b with
      | [], _ => []
      | _, [] => a
      | x :: a', y :: b' =>
          match c (key x) (key y) with
          | Lt => x :: diff_pure key c a' b
          | Gt => diff_pure key c a b'
          | Eq => diff_pure key c a' b'
          end
      end.
  Proof. destruct a; destruct b; reflexivity. Qed.

  (** the key function is defined on the elements of [l] *)
  Definition keys_ok (l : list A) : Prop := Forall (fun x => keyf x = Some (key x)) l.
  (** keys of [a] compare with keys of [b] *)
  Definition cmp_ok (a b : list A) : Prop :=
    forall x y, In x a -> In y b -> cmp (key x) (key y) = Some (c (key x) (key y)).

  Lemma cmp_ok_tl_l x a b : cmp_ok (x :: a) b -> cmp_ok a b.
  Proof. intros H u v Hu Hv. apply H; simpl; auto. Qed.
  Lemma cmp_ok_tl_r y a b : cmp_ok a (y :: b) -> cmp_ok a b.
  Proof. intros H u v Hu Hv. apply H; simpl; auto. Qed.

  Lemma union_impl_drain_a a : keys_ok a -> union_impl keyf cmp a [] = Some a.
  Proof.
    induction 1 as [|x a Hx Ha IH]; [reflexivity|].
    rewrite union_impl_eq. rewrite Hx. cbn [bind]. rewrite IH. reflexivity.
  Qed.
  Lemma union_impl_drain_b b : keys_ok b -> union_impl keyf cmp [] b = Some b.
  Proof.
    induction 1 as [|y b Hy Hb IH]; [reflexivity|].
    rewrite union_impl_eq. rewrite Hy. cbn [bind]. rewrite IH. reflexivity.
  Qed.

  Lemma union_impl_pure a : forall b,
    keys_ok a -> keys_ok b -> cmp_ok a b ->
    union_impl keyf cmp a b = Some (union_pure key c a b).
  Proof.
    induction a as [|x a IHa]; intros b Ha Hb Hc.
    - rewrite union_impl_drain_b by assumption. destruct b; reflexivity.
    - induction b as [|y b IHb].
      + rewrite union_impl_drain_a by assumption. reflexivity.
      + pose proof (Forall_inv Ha) as Hx. pose proof (Forall_inv Hb) as Hy.
        pose proof (Forall_inv_tail Ha) as Ha'. pose proof (Forall_inv_tail Hb) as Hb'.
        rewrite union_impl_eq, union_pure_eq. rewrite Hx, Hy. cbn [bind].
        rewrite (Hc x y) by (simpl; auto). cbn [bind].
        destruct (c (key x) (key y)).
        * rewrite (IHa b Ha' Hb'). reflexivity.
          intros u v Hu Hv. apply Hc; simpl; auto.
        * rewrite (IHa (y :: b) Ha' Hb). reflexivity. eapply cmp_ok_tl_l; eassumption.
        * specialize (IHb Hb' (cmp_ok_tl_r _ _ _ Hc)). rewrite IHb. reflexivity.
  Qed.

  Lemma inter_impl_pure a : forall b,
    keys_ok a -> keys_ok b -> cmp_ok a b ->
    inter_impl keyf cmp a b = Some (inter_pure key c a b).
  Proof.
    induction a as [|x a IHa]; intros b Ha Hb Hc.
    - destruct b as [|y b]; [reflexivity|]. rewrite inter_impl_eq. rewrite (Forall_inv Hb). reflexivity.
    - induction b as [|y b IHb].
      + rewrite inter_impl_eq. rewrite (Forall_inv Ha). reflexivity.
      + pose proof (Forall_inv Ha) as Hx. pose proof (Forall_inv Hb) as Hy.
        pose proof (Forall_inv_tail Ha) as Ha'. pose proof (Forall_inv_tail Hb) as Hb'.
        rewrite inter_impl_eq, inter_pure_eq. rewrite Hx, Hy. cbn [bind].
        rewrite (Hc x y) by (simpl; auto). cbn [bind].
        destruct (c (key x) (key y)).
        * rewrite (IHa b Ha' Hb'). reflexivity.
          intros u v Hu Hv. apply Hc; simpl; auto.
        * apply (IHa (y :: b) Ha' Hb). eapply cmp_ok_tl_l; eassumption.
        * specialize (IHb Hb' (cmp_ok_tl_r _ _ _ Hc)). exact IHb.
  Qed.

  Lemma diff_impl_drain_a a : keys_ok a -> diff_impl keyf cmp a [] = Some a.
  Proof.
    induction 1 as [|x a Hx Ha IH]; [reflexivity|].
    rewrite diff_impl_eq. rewrite Hx. cbn [bind]. rewrite IH. reflexivity.
  Qed.

  Lemma diff_impl_pure a : forall b,
    keys_ok a -> keys_ok b -> cmp_ok a b ->
    diff_impl keyf cmp a b = Some (diff_pure key c a b).
  Proof.
    induction a as [|x a IHa]; intros b Ha Hb Hc.
    - destruct b as [|y b]; [reflexivity|]. rewrite diff_impl_eq. rewrite (Forall_inv Hb). reflexivity.
    - induction b as [|y b IHb].
      + rewrite diff_impl_drain_a by assumption. reflexivity.
      + pose proof (Forall_inv Ha) as Hx. pose proof (Forall_inv Hb) as Hy.
        pose proof (Forall_inv_tail Ha) as Ha'. pose proof (Forall_inv_tail Hb) as Hb'.
        rewrite diff_impl_eq, diff_pure_eq. rewrite Hx, Hy. cbn [bind].
        rewrite (Hc x y) by (simpl; auto). cbn [bind].
        destruct (c (key x) (key y)).
        * apply (IHa b Ha' Hb'). intros u v Hu Hv. apply Hc; simpl; auto.
        * rewrite (IHa (y :: b) Ha' Hb). reflexivity. eapply cmp_ok_tl_l; eassumption.
        * specialize (IHb Hb' (cmp_ok_tl_r _ _ _ Hc)). exact IHb.
  Qed.

  (** the reference merges coincide with the pure ones under the same hypotheses *)
  Lemma union_spec_pure a : forall b,
    keys_ok a -> keys_ok b -> cmp_ok a b ->
    union_spec keyf cmp a b = Some (union_pure key c a b).
  Proof.
    induction a as [|x a IHa]; intros b Ha Hb Hc.
    - destruct b; reflexivity.
    - induction b as [|y b IHb]; [reflexivity|].
      pose proof (Forall_inv Ha) as Hx. pose proof (Forall_inv Hb) as Hy.
      pose proof (Forall_inv_tail Ha) as Ha'. pose proof (Forall_inv_tail Hb) as Hb'.
      rewrite union_spec_eq, union_pure_eq. rewrite Hx, Hy. cbn [bind].
      rewrite (Hc x y) by (simpl; auto). cbn [bind].
      destruct (c (key x) (key y)).
      * rewrite (IHa b Ha' Hb'). reflexivity. intros u v Hu Hv. apply Hc; simpl; auto.
      * rewrite (IHa (y :: b) Ha' Hb). reflexivity. eapply cmp_ok_tl_l; eassumption.
      * specialize (IHb Hb' (cmp_ok_tl_r _ _ _ Hc)). rewrite IHb. reflexivity.
  Qed.
  Lemma inter_spec_pure a : forall b,
    keys_ok a -> keys_ok b -> cmp_ok a b ->
    inter_spec keyf cmp a b = Some (inter_pure key c a b).
  Proof.
    induction a as [|x a IHa]; intros b Ha Hb Hc.
    - destruct b; reflexivity.
    - induction b as [|y b IHb]; [reflexivity|].
      pose proof (Forall_inv Ha) as Hx. pose proof (Forall_inv Hb) as Hy.
      pose proof (Forall_inv_tail Ha) as Ha'. pose proof (Forall_inv_tail Hb) as Hb'.
      rewrite inter_spec_eq, inter_pure_eq. rewrite Hx, Hy. cbn [bind].
      rewrite (Hc x y) by (simpl; auto). cbn [bind].
      destruct (c (key x) (key y)).
      * rewrite (IHa b Ha' Hb'). reflexivity. intros u v Hu Hv. apply Hc; simpl; auto.
      * apply (IHa (y :: b) Ha' Hb). eapply cmp_ok_tl_l; eassumption.
      * specialize (IHb Hb' (cmp_ok_tl_r _ _ _ Hc)). exact IHb.
  Qed.
  Lemma diff_spec_pure a : forall b,
    keys_ok a -> keys_ok b -> cmp_ok a b ->
    diff_spec keyf cmp a b = Some (diff_pure key c a b).
  Proof.
    induction a as [|x a IHa]; intros b Ha Hb Hc.
    - destruct b; reflexivity.
    - induction b as [|y b IHb]; [reflexivity|].
      pose proof (Forall_inv Ha) as Hx. pose proof (Forall_inv Hb) as Hy.
      pose proof (Forall_inv_tail Ha) as Ha'. pose proof (Forall_inv_tail Hb) as Hb'.
      rewrite diff_spec_eq, diff_pure_eq. rewrite Hx, Hy. cbn [bind].
      rewrite (Hc x y) by (simpl; auto). cbn [bind].
      destruct (c (key x) (key y)).
      * apply (IHa b Ha' Hb'). intros u v Hu Hv. apply Hc; simpl; auto.
      * rewrite (IHa (y :: b) Ha' Hb). reflexivity. eapply cmp_ok_tl_l; eassumption.
      * specialize (IHb Hb' (cmp_ok_tl_r _ _ _ Hc)). exact IHb.
  Qed.
End MergeFacts.

(* ================================================================================= *)
(** * The pure merges on strictly sorted lists *)
Section PureMergeFacts.
  Context {A K : Type}.
  Variable key : A -> K.
  Variable c : K -> K -> comparison.
  Hypothesis laws : cmp_laws c.

  Let R (x y : A) : Prop := c (key x) (key y) = Lt.
  Definition is_eq (o : comparison) : bool := match o with Eq => true | _ => false end.
  (** boolean form of [key_in] *)
  Definition key_in_b (x : A) (l : list A) : bool := existsb (fun y => is_eq (c (key x) (key y))) l.

  Lemma law_sym x y : c y x = CompOpp (c x y). Proof. apply laws. Qed.
  Lemma law_trans x y z : c x y = Lt -> c y z = Lt -> c x z = Lt. Proof. apply laws. Qed.
  Lemma law_eq_trans x y z : c x y = Eq -> c y z = Eq -> c x z = Eq. Proof. apply laws. Qed.
  Lemma law_eq_lt x y z : c x y = Eq -> c y z = Lt -> c x z = Lt. Proof. apply laws. Qed.
  Lemma law_lt_eq x y z : c x y = Lt -> c y z = Eq -> c x z = Lt. Proof. apply laws. Qed.
  Lemma law_refl x : c x x = Eq.
  Proof. pose proof (law_sym x x) as H. destruct (c x x); simpl in H; congruence. Qed.
  Lemma law_gt_lt x y : c x y = Gt -> c y x = Lt.
  Proof. intros H. rewrite law_sym, H. reflexivity. Qed.
  Lemma law_lt_gt x y : c x y = Lt -> c y x = Gt.
  Proof. intros H. rewrite law_sym, H. reflexivity. Qed.
  Lemma law_eq_sym x y : c x y = Eq -> c y x = Eq.
  Proof. intros H. rewrite law_sym, H. reflexivity. Qed.

  Lemma key_in_b_spec x l : key_in_b x l = true <-> key_in key c x l.
  Proof.
    unfold key_in_b, key_in. rewrite existsb_exists. split; intros [y [Hy He]]; exists y; split; auto.
    - destruct (c (key x) (key y)); simpl in He; congruence.
    - rewrite He. reflexivity.
  Qed.

  Lemma ss_inv x l : strict_sorted key c (x :: l) -> strict_sorted key c l /\ Forall (R x) l.
  Proof. intros H. inversion H; subst. split; assumption. Qed.

  Lemma key_in_b_false_lt x l : Forall (R x) l -> key_in_b x l = false.
  Proof.
    induction 1 as [|y l Hy Hl IH]; [reflexivity|].
    unfold key_in_b in *. cbn [existsb]. unfold R in Hy. rewrite Hy. exact IH.
  Qed.

  (** every element of the merge comes from one of the arguments *)
  Lemma union_pure_in a : forall b z, In z (union_pure key c a b) -> In z a \/ In z b.
  Proof.
    induction a as [|x a IHa]; intros b z.
    - rewrite union_pure_eq. auto.
    - induction b as [|y b IHb]; rewrite union_pure_eq; [auto|].
      destruct (c (key x) (key y)); intros [Hz|Hz]; subst; simpl; auto.
      + destruct (IHa _ _ Hz); simpl; auto.
      + destruct (IHa _ _ Hz) as [H|H]; simpl in *; intuition.
      + destruct (IHb Hz) as [H|H]; simpl in *; intuition.
  Qed.

  Lemma Forall_union P a b : Forall P a -> Forall P b -> Forall P (union_pure key c a b).
  Proof.
    intros Ha Hb. apply Forall_forall. intros z Hz.
    destruct (union_pure_in _ _ _ Hz) as [H|H];
      [exact (proj1 (Forall_forall _ _) Ha _ H) | exact (proj1 (Forall_forall _ _) Hb _ H)].
  Qed.

  Lemma R_trans_all x y l : R x y -> Forall (R y) l -> Forall (R x) l.
  Proof.
    intros Hxy H. eapply Forall_impl; [|exact H]. intros z Hz. unfold R in *. eapply law_trans; eauto.
  Qed.
  Lemma R_eq_all x y l : c (key x) (key y) = Eq -> Forall (R y) l -> Forall (R x) l.
  Proof.
    intros Hxy H. eapply Forall_impl; [|exact H]. intros z Hz. unfold R in *. eapply law_eq_lt; eauto.
  Qed.

  Lemma union_pure_sorted a : forall b,
    strict_sorted key c a -> strict_sorted key c b -> strict_sorted key c (union_pure key c a b).
  Proof.
    induction a as [|x a IHa]; intros b Sa Sb.
    - rewrite union_pure_eq. assumption.
    - induction b as [|y b IHb]; rewrite union_pure_eq; [assumption|].
      destruct (ss_inv _ _ Sa) as [Sa' Fa]. destruct (ss_inv _ _ Sb) as [Sb' Fb].
      destruct (c (key x) (key y)) eqn:E.
      + constructor. { apply IHa; assumption. }
        apply Forall_union; [assumption|]. eapply R_eq_all; eassumption.
      + constructor. { apply IHa; assumption. }
        apply Forall_union; [assumption|]. constructor; [exact E|]. eapply R_trans_all; eassumption.
      + constructor. { apply IHb; assumption. }
        apply law_gt_lt in E. apply Forall_union; [|assumption].
        constructor; [exact E|]. eapply R_trans_all; eassumption.
  Qed.

  (** exact membership of the union: everything of [a], and of [b] what has no key in [a] *)
  Lemma union_pure_members a : forall b z,
    strict_sorted key c a -> strict_sorted key c b ->
    (In z (union_pure key c a b) <-> In z a \/ (In z b /\ key_in_b z a = false)).
  Proof.
    induction a as [|x a IHa]; intros b z Sa Sb.
    - rewrite union_pure_eq. simpl. intuition.
    - induction b as [|y b IHb]; rewrite union_pure_eq.
      { simpl. intuition. }
      destruct (ss_inv _ _ Sa) as [Sa' Fa]. destruct (ss_inv _ _ Sb) as [Sb' Fb].
      assert (Hcons : forall w, key_in_b w (x :: a) = is_eq (c (key w) (key x)) || key_in_b w a)
        by reflexivity.
      destruct (c (key x) (key y)) eqn:E.
      + (* Eq: x kept, y dropped *)
        cbn [In]. rewrite (IHa b z Sa' Sb'). rewrite Hcons. split.
        * intros [H|[H|[H1 H2]]]; auto. right. split; [auto|].
          rewrite H2, orb_false_r.
          assert (c (key x) (key z) = Lt).
          { eapply law_eq_lt; [exact E|]. eapply (proj1 (Forall_forall _ _) Fb); assumption. }
          rewrite (law_lt_gt _ _ H). reflexivity.
        * intros [[H|H]|[[H|H] H2]]; auto.
          -- subst z. rewrite (law_eq_sym _ _ E) in H2. discriminate.
          -- apply orb_false_iff in H2. destruct H2. auto.
      + (* Lt: x emitted *)
        cbn [In]. rewrite (IHa (y :: b) z Sa' Sb). rewrite Hcons. split.
        * intros [H|[H|[H1 H2]]]; auto. right. split; [auto|].
          rewrite H2, orb_false_r.
          assert (c (key x) (key z) = Lt).
          { destruct H1 as [H1|H1]; [subst; exact E|].
            eapply law_trans; [exact E|]. eapply (proj1 (Forall_forall _ _) Fb); assumption. }
          rewrite (law_lt_gt _ _ H). reflexivity.
        * intros [[H|H]|[H1 H2]]; auto.
          apply orb_false_iff in H2. destruct H2. auto.
      + (* Gt: y emitted *)
        cbn [In]. rewrite (IHb Sb'). split.
        * intros [H|[H|[H1 H2]]]; auto. subst z. right. split; [auto|].
          apply law_gt_lt in E. rewrite Hcons, E. cbn [is_eq orb].
          apply key_in_b_false_lt. eapply R_trans_all; eassumption.
        * intros [H|[[H|H] H2]]; auto.
  Qed.

  Lemma filter_false_all {X} (p : X -> bool) l : (forall z, In z l -> p z = false) -> filter p l = [].
  Proof.
    induction l as [|h l IH]; intros H; [reflexivity|].
    cbn [filter]. rewrite (H h) by (simpl; auto). apply IH. intros; apply H; simpl; auto.
  Qed.

  (** the intersection keeps exactly the elements of [a] whose key occurs in [b], in order *)
  Lemma inter_pure_filter a : forall b,
    strict_sorted key c a -> strict_sorted key c b ->
    inter_pure key c a b = filter (fun x => key_in_b x b) a.
  Proof.
    induction a as [|x a IHa]; intros b Sa Sb.
    - rewrite inter_pure_eq. reflexivity.
    - induction b as [|y b IHb]; rewrite inter_pure_eq.
      { symmetry. apply filter_false_all. reflexivity. }
      destruct (ss_inv _ _ Sa) as [Sa' Fa]. destruct (ss_inv _ _ Sb) as [Sb' Fb].
      destruct (c (key x) (key y)) eqn:E.
      + rewrite (IHa b Sa' Sb'). cbn [filter]. unfold key_in_b at 2. cbn [existsb]. rewrite E.
        cbn [is_eq orb]. f_equal. apply filter_ext_in. intros z Hz.
        unfold key_in_b. cbn [existsb].
        assert (c (key y) (key z) = Lt).
        { eapply law_eq_lt; [apply law_eq_sym; exact E|]. eapply (proj1 (Forall_forall _ _) Fa); assumption. }
        rewrite (law_lt_gt _ _ H). reflexivity.
      + rewrite (IHa (y :: b) Sa' Sb). cbn [filter].
        replace (key_in_b x (y :: b)) with false; [reflexivity|].
        symmetry. apply key_in_b_false_lt. constructor; [exact E|]. eapply R_trans_all; eassumption.
      + rewrite (IHb Sb'). apply filter_ext_in. intros z Hz.
        unfold key_in_b. cbn [existsb].
        assert (c (key y) (key z) = Lt).
        { apply law_gt_lt in E. destruct Hz as [Hz|Hz]; [subst; exact E|].
          eapply law_trans; [exact E|]. eapply (proj1 (Forall_forall _ _) Fa); assumption. }
        rewrite (law_lt_gt _ _ H). reflexivity.
  Qed.

  (** the difference keeps exactly the elements of [a] whose key does not occur in [b] *)
  Lemma diff_pure_filter a : forall b,
    strict_sorted key c a -> strict_sorted key c b ->
    diff_pure key c a b = filter (fun x => negb (key_in_b x b)) a.
  Proof.
    induction a as [|x a IHa]; intros b Sa Sb.
    - rewrite diff_pure_eq. reflexivity.
    - induction b as [|y b IHb]; rewrite diff_pure_eq.
      { symmetry. clear. induction (x :: a) as [|h l IH]; [reflexivity|]. cbn. f_equal. exact IH. }
      destruct (ss_inv _ _ Sa) as [Sa' Fa]. destruct (ss_inv _ _ Sb) as [Sb' Fb].
      destruct (c (key x) (key y)) eqn:E.
      + rewrite (IHa b Sa' Sb'). cbn [filter]. unfold key_in_b at 2. cbn [existsb]. rewrite E.
        cbn [is_eq orb negb]. apply filter_ext_in. intros z Hz.
        unfold key_in_b. cbn [existsb].
        assert (c (key y) (key z) = Lt).
        { eapply law_eq_lt; [apply law_eq_sym; exact E|]. eapply (proj1 (Forall_forall _ _) Fa); assumption. }
        rewrite (law_lt_gt _ _ H). reflexivity.
      + rewrite (IHa (y :: b) Sa' Sb). cbn [filter].
        replace (key_in_b x (y :: b)) with false; [reflexivity|].
        symmetry. apply key_in_b_false_lt. constructor; [exact E|]. eapply R_trans_all; eassumption.
      + rewrite (IHb Sb'). apply filter_ext_in. intros z Hz.
        unfold key_in_b. cbn [existsb].
        assert (c (key y) (key z) = Lt).
        { apply law_gt_lt in E. destruct Hz as [Hz|Hz]; [subst; exact E|].
          eapply law_trans; [exact E|]. eapply (proj1 (Forall_forall _ _) Fa); assumption. }
        rewrite (law_lt_gt _ _ H). reflexivity.
  Qed.

  Lemma filter_sorted p l : strict_sorted key c l -> strict_sorted key c (filter p l).
  Proof.
    induction 1 as [|x l Hl IH Hx]; [constructor|].
    cbn [filter]. destruct (p x); [|assumption].
    constructor; [assumption|]. apply Forall_forall. intros z Hz. apply filter_In in Hz.
    eapply (proj1 (Forall_forall _ _) Hx). tauto.
  Qed.

  (** a strictly sorted list is determined by its members *)
  Lemma strict_sorted_unique l1 : forall l2,
    strict_sorted key c l1 -> strict_sorted key c l2 ->
    (forall z, In z l1 <-> In z l2) -> l1 = l2.
  Proof.
    assert (irr : forall x, ~ R x x).
    { intros x H. unfold R in H. rewrite law_refl in H. discriminate. }
    induction l1 as [|x l1 IH]; intros l2 S1 S2 Hm.
    - destruct l2 as [|y l2]; [reflexivity|]. exfalso. apply (Hm y). simpl; auto.
    - destruct l2 as [|y l2]. { exfalso. apply (Hm x). simpl; auto. }
      destruct (ss_inv _ _ S1) as [S1' F1]. destruct (ss_inv _ _ S2) as [S2' F2].
      assert (x = y).
      { destruct (proj1 (Hm x) (or_introl eq_refl)) as [H|H]; [auto|].
        destruct (proj2 (Hm y) (or_introl eq_refl)) as [H'|H']; [auto|].
        exfalso. apply (irr x). unfold R. eapply law_trans.
        - eapply (proj1 (Forall_forall _ _) F1); eassumption.
        - eapply (proj1 (Forall_forall _ _) F2); eassumption. }
      subst y. f_equal. apply IH; try assumption.
      intros z. split; intros Hz.
      + destruct (proj1 (Hm z) (or_intror Hz)) as [H|H]; [|assumption].
        subst z. exfalso. apply (irr x). eapply (proj1 (Forall_forall _ _) F1); eassumption.
      + destruct (proj2 (Hm z) (or_intror Hz)) as [H|H]; [|assumption].
        subst z. exfalso. apply (irr x). eapply (proj1 (Forall_forall _ _) F2); eassumption.
  Qed.
End PureMergeFacts.

(* ================================================================================= *)
(** * std.setMember: the binary search *)
Section BsearchFacts.
  Context {A K : Type}.
  Variable keyf : A -> option K.
  Variable cmp : K -> K -> option comparison.
  Variable key : A -> K.
  Variable c : K -> K -> comparison.
  Hypothesis laws : cmp_laws c.

  Lemma ss_nth l : strict_sorted key c l ->
    forall i j ei ej, i < j -> nth_error l i = Some ei -> nth_error l j = Some ej ->
                      c (key ei) (key ej) = Lt.
  Proof.
    induction 1 as [|x l Hl IH Hx]; intros i j ei ej Hij Hi Hj.
    - destruct i; discriminate.
    - destruct j as [|j]; [lia|]. cbn in Hj. destruct i as [|i].
      + cbn in Hi. injection Hi as <-. apply nth_error_In in Hj.
        exact (proj1 (Forall_forall _ _) Hx _ Hj).
      + cbn in Hi. eapply IH; [|eassumption|eassumption]. lia.
  Qed.

  Lemma bsearch_correct arr kx :
    strict_sorted key c arr ->
    keys_ok keyf key arr ->
    (forall e, In e arr -> cmp (key e) kx = Some (c (key e) kx)) ->
    forall fuel low high,
      high <= length arr -> high - low < fuel ->
      (forall i e, i < low -> nth_error arr i = Some e -> c (key e) kx = Lt) ->
      (forall i e, high <= i -> nth_error arr i = Some e -> c (key e) kx = Gt) ->
      bsearch keyf cmp fuel arr kx low high
      = BOk (existsb (fun e => is_eq (c (key e) kx)) arr).
  Proof.
    intros Hs Hk Hc. induction fuel as [|f IH]; intros low high Hhi Hfuel Hlo Hgt; [lia|].
    cbn [bsearch]. destruct (low <? high) eqn:Elh.
    - apply Nat.ltb_lt in Elh.
      assert (Hmid : low <= (low + high) / 2 < high).
      { split; [apply Nat.div_le_lower_bound; lia | apply Nat.div_lt_upper_bound; lia]. }
      set (mid := (low + high) / 2) in *.
      destruct (nth_error arr mid) as [e|] eqn:En.
      2:{ apply nth_error_None in En. lia. }
      pose proof (nth_error_In _ _ En) as Hin.
      rewrite (proj1 (Forall_forall _ _) Hk _ Hin). rewrite (Hc _ Hin).
      destruct (c (key e) kx) eqn:E.
      + f_equal. symmetry. apply existsb_exists. exists e. rewrite E. auto.
      + apply IH; try lia.
        * intros i e' Hi He'. destruct (Nat.eq_dec i mid) as [->|Hne].
          -- rewrite En in He'. injection He' as <-. exact E.
          -- destruct laws as [_ [Ht _]]. eapply Ht; [|exact E].
             eapply (ss_nth _ Hs i mid); [lia|eassumption|eassumption].
        * assumption.
      + apply IH; try lia.
        * assumption.
        * intros i e' Hi He'. destruct (Nat.eq_dec i mid) as [->|Hne].
          -- rewrite En in He'. injection He' as <-. exact E.
          -- destruct (Nat.lt_ge_cases i high) as [Hlt|Hge]; [|eapply Hgt; eassumption].
             pose proof (ss_nth _ Hs mid i e e' ltac:(lia) En He') as Hme.
             destruct laws as [Hsym [Ht _]].
             assert (c kx (key e) = Lt) by (rewrite Hsym, E; reflexivity).
             assert (c kx (key e') = Lt) by (eapply Ht; eassumption).
             rewrite Hsym, H0. reflexivity.
    - apply Nat.ltb_ge in Elh. f_equal. symmetry.
      destruct (existsb (fun e => is_eq (c (key e) kx)) arr) eqn:Ex; [|reflexivity].
      apply existsb_exists in Ex. destruct Ex as [e [Hin He]].
      apply In_nth_error in Hin. destruct Hin as [i Hi].
      destruct (Nat.lt_ge_cases i low) as [Hlt|Hge].
      + rewrite (Hlo _ _ Hlt Hi) in He. discriminate.
      + rewrite (Hgt i e ltac:(lia) Hi) in He. discriminate.
  Qed.

  Lemma set_member_impl_correct x arr :
    strict_sorted key c arr ->
    keyf x = Some (key x) ->
    keys_ok keyf key arr ->
    (forall e, In e arr -> cmp (key e) (key x) = Some (c (key e) (key x))) ->
    set_member_impl keyf cmp x arr = BOk (existsb (fun e => is_eq (c (key e) (key x))) arr).
  Proof.
    intros Hs Hx Hk Hc. unfold set_member_impl. rewrite Hx.
    apply bsearch_correct; auto.
    - rewrite Nat.sub_0_r. apply Nat.lt_succ_diag_r.
    - intros i e Hi. exfalso. inversion Hi.
    - intros i e Hi He. assert (nth_error arr i = None) by (apply nth_error_None; exact Hi). congruence.
  Qed.

  (** the reference definition (length of setInter([x], arr) > 0) on the same inputs *)
  Lemma set_member_spec_correct x arr :
    strict_sorted key c arr ->
    keyf x = Some (key x) ->
    keys_ok keyf key arr ->
    (forall e, In e arr -> cmp (key x) (key e) = Some (c (key x) (key e))) ->
    set_member_spec keyf cmp x arr = Some (existsb (fun e => is_eq (c (key e) (key x))) arr).
  Proof.
    intros Hs Hx Hk Hc. unfold set_member_spec.
    rewrite (inter_spec_pure keyf cmp key c [x] arr).
    - cbn [bind]. rewrite (inter_pure_filter key c laws [x] arr); [|repeat constructor|assumption].
      cbn [filter]. f_equal.
      assert (E : key_in_b key c x arr = existsb (fun e => is_eq (c (key e) (key x))) arr).
      { unfold key_in_b. clear -laws. induction arr as [|e l IH]; [reflexivity|]. cbn [existsb].
        rewrite IH. f_equal. destruct laws as [Hsym _]. rewrite (Hsym (key x) (key e)).
        destruct (c (key x) (key e)); reflexivity. }
      rewrite E. destruct (existsb _ arr); reflexivity.
    - constructor; [assumption|constructor].
    - assumption.
    - intros u v [<-|[]] Hv. apply Hc. assumption.
  Qed.
End BsearchFacts.

(* ================================================================================= *)
(** * The stable sort *)
Section SortFacts.
  Context {A : Type}.
  Variable leb : A -> A -> bool.
  Hypothesis leb_total : forall x y, leb x y = true \/ leb y x = true.
  Hypothesis leb_trans : forall x y z, leb x y = true -> leb y z = true -> leb x z = true.

  Let le (x y : A) : Prop := leb x y = true.
  (** same key class *)
  Definition equivb (x y : A) : bool := leb x y && leb y x.

  Lemma leb_refl x : leb x x = true.
  Proof. destruct (leb_total x x); assumption. Qed.

  Lemma insert_perm x l : Permutation (insert leb x l) (x :: l).
  Proof.
    induction l as [|y l IH]; [reflexivity|]. cbn [insert]. destruct (leb x y); [reflexivity|].
    rewrite IH. apply perm_swap.
  Qed.
  Lemma isort_perm l : Permutation (isort leb l) l.
  Proof.
    induction l as [|x l IH]; [reflexivity|]. cbn [isort]. rewrite insert_perm. constructor. exact IH.
  Qed.

  Lemma insert_sorted x l : StronglySorted le l -> StronglySorted le (insert leb x l).
  Proof.
    induction 1 as [|y l Hl IH Hy]; [repeat constructor|].
    cbn [insert]. destruct (leb x y) eqn:E.
    - constructor; [constructor; assumption|]. constructor; [exact E|].
      eapply Forall_impl; [|exact Hy]. intros z Hz. unfold le in *. eapply leb_trans; eassumption.
    - constructor; [exact IH|].
      assert (Hyx : le y x) by (destruct (leb_total x y); [congruence|assumption]).
      apply Forall_forall. intros z Hz.
      apply (Permutation_in _ (insert_perm x l)) in Hz. destruct Hz as [<-|Hz]; [exact Hyx|].
      exact (proj1 (Forall_forall _ _) Hy _ Hz).
  Qed.
  Lemma isort_sorted l : StronglySorted le (isort leb l).
  Proof. induction l as [|x l IH]; [constructor|]. cbn [isort]. apply insert_sorted. exact IH. Qed.

  Lemma equivb_trans_l z x y : equivb z x = true -> equivb z y = true -> leb x y = true.
  Proof.
    unfold equivb. intros H1 H2. apply andb_true_iff in H1. apply andb_true_iff in H2.
    destruct H1, H2. eapply leb_trans; eassumption.
  Qed.

  Lemma insert_filter z x l :
    filter (equivb z) (insert leb x l) = (if equivb z x then [x] else []) ++ filter (equivb z) l.
  Proof.
    induction l as [|y l IH]; [cbn; destruct (equivb z x); reflexivity|].
    cbn [insert]. destruct (leb x y) eqn:E.
    - cbn [filter]. destruct (equivb z x); reflexivity.
    - cbn [filter]. rewrite IH. destruct (equivb z y) eqn:Ey; [|reflexivity].
      destruct (equivb z x) eqn:Ex; [|reflexivity].
      rewrite (equivb_trans_l z x y Ex Ey) in E. discriminate.
  Qed.
  (** stability: elements of one key class keep their relative order *)
  Lemma isort_stable z l : filter (equivb z) (isort leb l) = filter (equivb z) l.
  Proof.
    induction l as [|x l IH]; [reflexivity|]. cbn [isort]. rewrite insert_filter, IH.
    cbn [filter]. destruct (equivb z x); reflexivity.
  Qed.

  (** ... and that determines the result: ANY sorted list with the same class subsequences
      (i.e. the output of any stable sort) is this one *)
  Lemma stable_sorted_unique l1 : forall l2,
    StronglySorted le l1 -> StronglySorted le l2 ->
    (forall z, filter (equivb z) l1 = filter (equivb z) l2) -> l1 = l2.
  Proof.
    assert (eqv_refl : forall x, equivb x x = true) by (intros; unfold equivb; rewrite leb_refl; reflexivity).
    induction l1 as [|x l1 IH]; intros l2 S1 S2 Hf.
    - destruct l2 as [|y l2]; [reflexivity|]. specialize (Hf y). cbn in Hf. rewrite eqv_refl in Hf. discriminate.
    - destruct l2 as [|y l2]. { specialize (Hf x). cbn in Hf. rewrite eqv_refl in Hf. discriminate. }
      inversion S1 as [|? ? S1' F1]; subst. inversion S2 as [|? ? S2' F2]; subst.
      assert (Hin : forall u l l', filter (equivb u) l = filter (equivb u) l' -> In u l -> In u l').
      { intros u l l' H Hu. assert (In u (filter (equivb u) l)) by (apply filter_In; auto).
        rewrite H in H0. apply filter_In in H0. tauto. }
      assert (Hxy : le x y).
      { destruct (Hin y (y :: l2) (x :: l1) (eq_sym (Hf y)) (or_introl eq_refl)) as [<-|H]; [apply leb_refl|].
        exact (proj1 (Forall_forall _ _) F1 _ H). }
      assert (Hyx : le y x).
      { destruct (Hin x (x :: l1) (y :: l2) (Hf x) (or_introl eq_refl)) as [<-|H]; [apply leb_refl|].
        exact (proj1 (Forall_forall _ _) F2 _ H). }
      assert (x = y).
      { pose proof (Hf x) as H. cbn [filter] in H. rewrite eqv_refl in H.
        unfold equivb at 2 in H. unfold le in *. rewrite Hxy, Hyx in H. cbn in H. congruence. }
      subst y. f_equal. apply IH; try assumption.
      intros z. specialize (Hf z). cbn [filter] in Hf. destruct (equivb z x); congruence.
  Qed.
End SortFacts.

(** the result of the sort only depends on the comparisons between elements of the list *)
Lemma insert_ext {A} (l1 l2 : A -> A -> bool) x l :
  (forall y, In y l -> l1 x y = l2 x y) -> insert l1 x l = insert l2 x l.
Proof.
  induction l as [|y l IH]; intros H; [reflexivity|]. cbn [insert].
  rewrite (H y) by (simpl; auto). destruct (l2 x y); [reflexivity|]. f_equal. apply IH.
  intros; apply H; simpl; auto.
Qed.
Lemma isort_ext {A} (l1 l2 : A -> A -> bool) l :
  (forall x y, In x l -> In y l -> l1 x y = l2 x y) -> isort l1 l = isort l2 l.
Proof.
  induction l as [|x l IH]; intros H; [reflexivity|]. cbn [isort].
  rewrite IH by (intros; apply H; simpl; auto).
  apply insert_ext. intros y Hy. apply H; [simpl; auto|].
  right. eapply Permutation_in; [apply isort_perm|exact Hy].
Qed.

(** the fallible sort is the sort when every comparison it can make succeeds *)
Lemma insert_f_ok {A} (cmpf : A -> A -> option comparison) (leb : A -> A -> bool) x l :
  (forall y, In y l -> exists c, cmpf x y = Some c /\ leb x y = leb_cmp c) ->
  insert_f cmpf x l = Some (insert leb x l).
Proof.
  induction l as [|y l IH]; intros H; [reflexivity|]. cbn [insert_f insert].
  destruct (H y (or_introl eq_refl)) as [c [Hc Hl]]. rewrite Hc, Hl. cbn [bind].
  rewrite IH by (intros; apply H; simpl; auto).
  destruct c; reflexivity.
Qed.
Lemma isort_f_ok {A} (cmpf : A -> A -> option comparison) (leb : A -> A -> bool) l :
  (forall x y, In x l -> In y l -> exists c, cmpf x y = Some c /\ leb x y = leb_cmp c) ->
  isort_f cmpf l = Some (isort leb l).
Proof.
  induction l as [|x l IH]; intros H; [reflexivity|]. cbn [isort_f isort].
  rewrite IH by (intros; apply H; simpl; auto). cbn [bind].
  apply insert_f_ok. intros y Hy. apply H; [simpl; auto|].
  right. eapply Permutation_in; [apply isort_perm|exact Hy].
Qed.

(* ================================================================================= *)
(** * uniq *)
Section UniqFacts.
  Context {A K : Type}.
  Variable eqk : K -> K -> bool.
  Hypothesis eqk_refl : forall x, eqk x x = true.
  Hypothesis eqk_sym : forall x y, eqk x y = eqk y x.
  Hypothesis eqk_trans : forall x y z, eqk x y = true -> eqk y z = true -> eqk x z = true.

  Lemma eqk_congr kept last k : eqk kept last = true -> eqk last k = eqk kept k.
  Proof.
    intros H. destruct (eqk kept k) eqn:E.
    - eapply eqk_trans; [|exact E]. rewrite eqk_sym. exact H.
    - destruct (eqk last k) eqn:E'; [|reflexivity].
      rewrite (eqk_trans _ _ _ H E') in E. discriminate.
  Qed.

  Lemma uniq_go_spec (l : list (A * K)) : forall kept last,
    eqk kept last = true -> uniq_go eqk last l = uniq_spec_go eqk kept l.
  Proof.
    induction l as [|[x k] l IH]; intros kept last H; [reflexivity|].
    cbn [uniq_go uniq_spec_go]. rewrite (eqk_congr kept last k H).
    destruct (eqk kept k) eqn:E.
    - apply IH. exact E.
    - f_equal. apply IH. apply eqk_refl.
  Qed.
  Lemma uniq_impl_spec (l : list (A * K)) : uniq_impl eqk l = uniq_spec eqk l.
  Proof. destruct l as [|[x k] l]; [reflexivity|]. cbn. f_equal. apply uniq_go_spec. apply eqk_refl. Qed.
End UniqFacts.

(* ================================================================================= *)
(** * flattenArrays, join, remove *)
Section MiscFacts.
  Context {A : Type}.

  Lemma flatten_inner_concat : forall fuel (vs : list (list A)),
    vs <> [] -> length vs <= fuel -> flatten_inner fuel vs = Some (concat vs).
  Proof.
    induction fuel as [|f IH]; intros vs Hne Hlen.
    - destruct vs; [congruence|cbn in Hlen; lia].
    - destruct vs as [|v [|w [|u t]]]; [congruence| | |].
      + cbn. rewrite app_nil_r. reflexivity.
      + cbn. rewrite app_nil_r. reflexivity.
      + cbn [flatten_inner].
        assert (Hl : 3 <= length (v :: w :: u :: t)) by (cbn [length]; lia).
        remember (v :: w :: u :: t) as vs eqn:Evs. clear Evs v w u t Hne.
        assert (Hh : 1 <= length vs / 2 < length vs).
        { split; [apply Nat.div_le_lower_bound; lia | apply Nat.div_lt_upper_bound; lia]. }
        remember (length vs / 2) as h eqn:Eh. clear Eh.
        assert (L1 : length (firstn h vs) = h) by (rewrite firstn_length; lia).
        assert (L2 : length (skipn h vs) = length vs - h) by (apply skipn_length).
        rewrite (IH (firstn h vs)).
        2:{ intros E. rewrite E in L1. cbn [length] in L1. lia. }
        2:{ lia. }
        rewrite (IH (skipn h vs)).
        2:{ intros E. rewrite E in L2. cbn [length] in L2. lia. }
        2:{ lia. }
        cbn [bind]. rewrite <- concat_app, firstn_skipn. reflexivity.
  Qed.
  Lemma flatten_impl_concat (vs : list (list A)) : flatten_impl vs = Some (concat vs).
  Proof.
    destruct vs as [|v [|w t]]; [reflexivity| |].
    - cbn. rewrite app_nil_r. reflexivity.
    - unfold flatten_impl. apply flatten_inner_concat; [discriminate|lia].
  Qed.

  Lemma join_go_spec (sep : list A) items : forall first,
    join_go sep first items =
    match somes items with
    | [] => []
    | ps => (if first then [] else sep) ++ intercalate sep ps
    end.
  Proof.
    induction items as [|[it|] r IH]; intros first; [reflexivity| |].
    - cbn [join_go somes]. rewrite IH. destruct (somes r) as [|p ps] eqn:E.
      + cbn. rewrite app_nil_r. reflexivity.
      + cbn [intercalate]. reflexivity.
    - cbn [join_go somes]. apply IH.
  Qed.
  Lemma join_impl_spec (sep : list A) items : join_impl sep items = join_spec sep items.
  Proof.
    unfold join_impl, join_spec. rewrite join_go_spec. destruct (somes items); reflexivity.
  Qed.

  Variable eqa : A -> A -> bool.
  Lemma find_first_spec x : forall l i,
    match find_first eqa x l i with
    | None => remove_spec eqa l x = l
    | Some j => i <= j /\ j - i < length l /\
                remove_spec eqa l x = firstn (j - i) l ++ skipn (S (j - i)) l
    end.
  Proof.
    induction l as [|y l IH]; intros i; [reflexivity|].
    cbn [find_first remove_spec]. destruct (eqa y x).
    - rewrite Nat.sub_diag. cbn. split; [lia|split; [lia|reflexivity]].
    - specialize (IH (S i)). destruct (find_first eqa x l (S i)) as [j|].
      + destruct IH as [H1 [H2 H3]]. split; [lia|]. split; [cbn; lia|].
        replace (j - i) with (S (j - S i)) by lia. cbn [firstn skipn app]. f_equal. exact H3.
      + f_equal. exact IH.
  Qed.

  Lemma remove_at_impl_spec (l : list A) at_ :
    remove_at_impl l at_ = C08.Model.remove_at_spec l at_.
  Proof.
    unfold remove_at_impl, C08.Model.remove_at_spec.
    destruct (at_ <? 0)%Z eqn:E; [reflexivity|]. cbn [orb].
    apply Z.ltb_ge in E.
    destruct (Z.of_nat (length l) <=? at_)%Z eqn:E2.
    - apply Z.leb_le in E2. rewrite firstn_all2 by lia. rewrite skipn_all2 by lia.
      rewrite app_nil_r. reflexivity.
    - replace (Z.to_nat (at_ + 1)) with (S (Z.to_nat at_)) by lia. reflexivity.
  Qed.

  Lemma remove_impl_spec (l : list A) x : remove_impl eqa l x = remove_spec eqa l x.
  Proof.
    unfold remove_impl. pose proof (find_first_spec x l 0) as H.
    destruct (find_first eqa x l 0) as [j|]; [|symmetry; exact H].
    destruct H as [_ [H2 H3]]. rewrite Nat.sub_0_r in *. rewrite H3.
    unfold remove_at_impl.
    replace ((Z.of_nat j <? 0)%Z) with false by (symmetry; apply Z.ltb_ge; lia).
    replace ((Z.of_nat (length l) <=? Z.of_nat j)%Z) with false by (symmetry; apply Z.leb_gt; lia).
    cbn [orb]. rewrite Nat2Z.id. replace (Z.to_nat (Z.of_nat j + 1)) with (S j) by lia. reflexivity.
  Qed.
End MiscFacts.

(* ================================================================================= *)
(** * The concrete value universe *)
Section ValInd.
  Variable P : val -> Prop.
  Hypothesis Hnull : P VNull.
  Hypothesis Hbool : forall b, P (VBool b).
  Hypothesis Hnum : forall z, P (VNum z).
  Hypothesis Hnegz : P VNegZero.
  Hypothesis Hstr : forall s, P (VStr s).
  Hypothesis Harr : forall l, Forall P l -> P (VArr l).
  Hypothesis Hobj : P VObj.
  Fixpoint val_ind' (v : val) : P v :=
    match v with
    | VNull => Hnull
    | VBool b => Hbool b
    | VNum z => Hnum z
    | VNegZero => Hnegz
    | VStr s => Hstr s
    | VArr l => Harr l ((fix go (l : list val) : Forall P l :=
                           match l with
                           | [] => Forall_nil P
                           | x :: r => Forall_cons x (val_ind' x) (go r)
                           end) l)
    | VObj => Hobj
    end.
End ValInd.

Lemma cmp_str_refl s : cmp_str s s = Eq.
Proof. induction s as [|a s IH]; [reflexivity|]. cbn. rewrite N.compare_refl. exact IH. Qed.
Lemma cmp_str_eq s : forall t, cmp_str s t = Eq -> s = t.
Proof.
  induction s as [|a s IH]; intros [|b t] H; try discriminate; [reflexivity|].
  cbn in H. destruct (N.compare a b) eqn:E; try discriminate.
  apply N.compare_eq in E. subst. f_equal. apply IH. exact H.
Qed.
Lemma cmp_str_antisym s : forall t, cmp_str t s = CompOpp (cmp_str s t).
Proof.
  induction s as [|a s IH]; intros [|b t]; try reflexivity.
  cbn. rewrite (N.compare_antisym a b). destruct (N.compare a b); cbn; auto.
Qed.

Definition eq_list (l m : list val) : bool :=
  (fix go (l m : list val) : bool :=
     match l, m with
     | [], [] => true
     | x :: l', y :: m' => eq_val x y && go l' m'
     | _, _ => false
     end) l m.
Lemma eq_val_arr l m : eq_val (VArr l) (VArr m) = eq_list l m.
Proof. reflexivity. Qed.
Lemma eq_list_cons x l y m : eq_list (x :: l) (y :: m) = eq_val x y && eq_list l m.
Proof. reflexivity. Qed.

Lemma eq_val_refl : forall v, eq_val v v = true.
Proof.
  apply val_ind'; try reflexivity.
  - intros []; reflexivity.
  - intros z. cbn. apply Z.eqb_refl.
  - intros s. cbn. rewrite cmp_str_refl. reflexivity.
  - intros l H. rewrite eq_val_arr. induction H as [|x l Hx Hl IH]; [reflexivity|].
    rewrite eq_list_cons, Hx, IH. reflexivity.
Qed.
Lemma eq_val_sym : forall a b, eq_val a b = eq_val b a.
Proof.
  apply (val_ind' (fun a => forall b, eq_val a b = eq_val b a)).
  - intros []; reflexivity.
  - intros b []; try reflexivity. cbn. destruct b, b0; reflexivity.
  - intros z []; try reflexivity; cbn; apply Z.eqb_sym.
  - intros []; try reflexivity; cbn; apply Z.eqb_sym.
  - intros s []; try reflexivity. cbn. rewrite (cmp_str_antisym s s0). destruct (cmp_str s s0); reflexivity.
  - intros l H []; try reflexivity. rewrite !eq_val_arr. revert l0.
    induction H as [|x l Hx Hl IH]; intros [|y m]; try reflexivity.
    rewrite !eq_list_cons, Hx, IH. reflexivity.
  - intros []; reflexivity.
Qed.
Lemma eq_val_trans : forall a b c, eq_val a b = true -> eq_val b c = true -> eq_val a c = true.
Proof.
  apply (val_ind' (fun a => forall b c, eq_val a b = true -> eq_val b c = true -> eq_val a c = true)).
  - intros [] []; cbn; congruence.
  - intros x [] []; cbn; try congruence. intros H1 H2.
    apply Bool.eqb_prop in H1. apply Bool.eqb_prop in H2. subst. apply Bool.eqb_reflx.
  - intros x [] []; cbn [eq_val]; try congruence; rewrite ?Z.eqb_eq; intros; try lia; reflexivity.
  - intros [] []; cbn [eq_val]; try congruence; rewrite ?Z.eqb_eq; intros; try lia; reflexivity.
  - intros s [] []; cbn; try congruence. intros H1 H2.
    destruct (cmp_str s s0) eqn:E1; try discriminate. destruct (cmp_str s0 s1) eqn:E2; try discriminate.
    apply cmp_str_eq in E1. apply cmp_str_eq in E2. subst. rewrite cmp_str_refl. reflexivity.
  - intros l H [] []; try (cbn; congruence). rewrite !eq_val_arr. revert l0 l1.
    induction H as [|x l Hx Hl IH]; intros [|y m] [|z n]; try (cbn; congruence).
    rewrite !eq_list_cons. intros H1 H2.
    apply andb_true_iff in H1. apply andb_true_iff in H2. destruct H1, H2.
    rewrite (Hx y z), (IH m n); auto.
  - intros [] []; cbn; congruence.
Qed.

(** ** the sort-type classifier and the two fast paths *)
Definition is_str (v : val) : bool := match v with VStr _ => true | _ => false end.

Lemma classify_number ks : forall st,
  get_sort_type st ks = Some STNumber -> st = STUnknown \/ st = STNumber ->
  Forall (fun k => is_num k = true) ks.
Proof.
  induction ks as [|k ks IH]; intros st H Hst; [constructor|].
  destruct Hst; subst; destruct k; cbn in H; try discriminate;
    (constructor; [reflexivity | eapply IH; [exact H | auto]]) || idtac.
  all: try (exfalso; clear -H; revert H; generalize ks; induction ks0 as [|k' ks' IH']; intros H;
            [discriminate | destruct k'; cbn in H; try discriminate; auto]).
Qed.
Lemma classify_string ks : forall st,
  get_sort_type st ks = Some STString -> st = STUnknown \/ st = STString ->
  Forall (fun k => is_str k = true) ks.
Proof.
  induction ks as [|k ks IH]; intros st H Hst; [constructor|].
  destruct Hst; subst; destruct k; cbn in H; try discriminate;
    (constructor; [reflexivity | eapply IH; [exact H | auto]]) || idtac.
  all: try (exfalso; clear -H; revert H; generalize ks; induction ks0 as [|k' ks' IH']; intros H;
            [discriminate | destruct k'; cbn in H; try discriminate; auto]).
Qed.

Lemma leb_val_num a b : is_num a = true -> is_num b = true ->
  leb_val a b = (numz0 a <=? numz0 b)%Z /\ is_some (cmp_val a b) = true.
Proof. destruct a; try discriminate; destruct b; try discriminate; intros _ _; split; reflexivity. Qed.
Lemma leb_val_str a b : is_str a = true -> is_str b = true ->
  leb_val a b = leb_cmp (cmp_str (str_of a) (str_of b)) /\ is_some (cmp_val a b) = true.
Proof. destruct a; try discriminate; destruct b; try discriminate; intros _ _; split; reflexivity. Qed.

Lemma all_comparable_of (P : val -> bool) ks :
  (forall a b, P a = true -> P b = true -> is_some (cmp_val a b) = true) ->
  Forall (fun k => P k = true) ks -> all_comparable ks = true.
Proof.
  intros HP. induction 1 as [|k ks Hk Hks IH]; [reflexivity|].
  cbn [all_comparable]. rewrite IH, andb_true_r. apply forallb_forall. intros b Hb.
  pose proof (proj1 (Forall_forall _ _) Hks b Hb) as Pb. cbn beta in Pb.
  rewrite (HP k b Hk Pb), (HP b k Pb Hk). reflexivity.
Qed.

Lemma in_combine_snd_P (P : val -> bool) (l ks : list val) p :
  Forall (fun k => P k = true) ks -> In p (combine l ks) -> P (snd p) = true.
Proof.
  intros H Hp. destruct p as [x k]. apply in_combine_r in Hp.
  exact (proj1 (Forall_forall _ _) H k Hp).
Qed.

(** both fast paths of sort.rs compute the stable sort by the general comparison *)
Lemma sort_fast_paths l ks st :
  get_sort_type STUnknown ks = Some st -> st = STNumber \/ st = STString ->
  all_comparable ks = true /\
  sort_keyed_impl l ks
  = Some (map fst (isort (fun p q : val * val => leb_val (snd p) (snd q)) (combine l ks))).
Proof.
  intros Hst [->| ->].
  - pose proof (classify_number ks _ Hst (or_introl eq_refl)) as Hn. split.
    + eapply all_comparable_of; [|exact Hn]. intros a b Ha Hb. apply (leb_val_num a b Ha Hb).
    + unfold sort_keyed_impl. rewrite Hst. cbn [bind]. do 2 f_equal.
      apply isort_ext. intros p q Hp Hq. symmetry.
      apply leb_val_num; eapply in_combine_snd_P; eassumption.
  - pose proof (classify_string ks _ Hst (or_introl eq_refl)) as Hn. split.
    + eapply all_comparable_of; [|exact Hn]. intros a b Ha Hb. apply (leb_val_str a b Ha Hb).
    + unfold sort_keyed_impl. rewrite Hst. cbn [bind]. do 2 f_equal.
      apply isort_ext. intros p q Hp Hq. symmetry.
      apply leb_val_str; eapply in_combine_snd_P; eassumption.
Qed.

(** ** the calls whose two models differ only in the algorithms proved above *)
Definition simple_call (c : call) : bool :=
  match c with
  | CSort _ _ | CSet _ _ | CSetMember _ _ _ | CSetUnion _ _ _ | CSetInter _ _ _ | CSetDiff _ _ _ => false
  | _ => true
  end.

Lemma uniq_v_same k l : uniq_impl_v k l = uniq_spec_v k l.
Proof.
  unfold uniq_impl_v, uniq_spec_v, uniq_with. destruct (length l <=? 1); [reflexivity|].
  destruct (mapM (keyfn k) l); [|reflexivity]. cbn [bind]. f_equal.
  apply uniq_impl_spec; [apply eq_val_refl|apply eq_val_sym|apply eq_val_trans].
Qed.

Lemma join_with_same sep l : join_with (@join_impl) sep l = join_with (@join_spec) sep l.
Proof.
  unfold join_with. destruct sep; try reflexivity.
  - destruct (join_items_str l); [|reflexivity]. cbn [bind]. rewrite join_impl_spec. reflexivity.
  - destruct (join_items_arr l); [|reflexivity]. cbn [bind]. rewrite join_impl_spec. reflexivity.
Qed.

Lemma simple_calls_refine c :
  simple_call c = true -> impl_call c = spec_call c.
Proof.
  unfold impl_call, spec_call. destruct c; intros Hs; try discriminate Hs; try reflexivity;
    cbn [run impl_algos spec_algos a_sort a_uniq a_set a_member a_union a_inter a_diff a_flatten a_join
         a_remove a_remove_at a_sum].
  - (* uniq *) destruct (as_arr arr); [|reflexivity]. cbn [bind]. rewrite uniq_v_same. reflexivity.
  - (* remove *) destruct (as_arr arr); [|reflexivity]. cbn [bind]. rewrite remove_impl_spec. reflexivity.
  - (* removeAt *) destruct (as_arr arr); [|reflexivity]. cbn [bind]. rewrite remove_at_impl_spec. reflexivity.
  - (* flattenArrays *) destruct (as_arr arrs); [|reflexivity]. cbn [bind].
    destruct (mapM as_arr l); [|reflexivity]. cbn [bind]. rewrite flatten_impl_concat. reflexivity.
  - (* join *) destruct (as_arr arr); [|reflexivity]. cbn [bind]. rewrite join_with_same. reflexivity.
  - (* lines *) destruct (as_arr arr); [|reflexivity]. cbn [bind]. rewrite join_with_same. reflexivity.
Qed.

Lemma cmp_laws_Z : cmp_laws Z.compare.
Proof.
  unfold cmp_laws. repeat split; intros.
  - apply Z.compare_antisym.
  - rewrite Z.compare_lt_iff in *. lia.
  - rewrite Z.compare_eq_iff in *. lia.
  - rewrite Z.compare_eq_iff in H. rewrite Z.compare_lt_iff in *. lia.
  - rewrite Z.compare_eq_iff in H0. rewrite Z.compare_lt_iff in *. lia.
Qed.

(** ** the generic set theorems instantiated with the real comparison [cmp_val] on number keys *)
Definition keyd (k : option fn) (x : val) : val := match keyfn k x with Some v => v | None => VNull end.
Definition cz (a b : val) : comparison := Z.compare (numz0 a) (numz0 b).
Definition num_keys (k : option fn) (l : list val) : Prop :=
  Forall (fun x => exists v, keyfn k x = Some v /\ is_num v = true) l.

Lemma cmp_laws_cz : cmp_laws cz.
Proof.
  destruct cmp_laws_Z as [H1 [H2 [H3 [H4 H5]]]]. unfold cz.
  repeat split; intros; eauto.
Qed.
Lemma num_keys_ok k l : num_keys k l -> keys_ok (keyfn k) (keyd k) l.
Proof.
  intros H. eapply Forall_impl; [|exact H]. intros x [v [Hv _]]. unfold keyd. rewrite Hv. reflexivity.
Qed.
Lemma num_keys_cmp k a b : num_keys k a -> num_keys k b -> cmp_ok cmp_val (keyd k) cz a b.
Proof.
  intros Ha Hb x y Hx Hy.
  destruct (proj1 (Forall_forall _ _) Ha x Hx) as [v [Hv Nv]].
  destruct (proj1 (Forall_forall _ _) Hb y Hy) as [w [Hw Nw]].
  unfold keyd. rewrite Hv, Hw. unfold cz.
  destruct v; try discriminate; destruct w; try discriminate; reflexivity.
Qed.

(** ** the classifier's error: a number and a string among the keys *)
Lemma classify_none ks : forall st,
  get_sort_type st ks = None ->
  match st with
  | STUnknown => (exists a, In a ks /\ is_num a = true) /\ (exists b, In b ks /\ is_str b = true)
  | STNumber => exists b, In b ks /\ is_str b = true
  | STString => exists a, In a ks /\ is_num a = true
  | STUnspec => True
  end.
Proof.
  induction ks as [|k ks IH]; intros st H; [discriminate|].
  destruct st; [| | exact I |].
  - (* STNumber *) destruct k; cbn in H; try discriminate.
    + destruct (IH _ H) as [b [Hb Sb]]. exists b. simpl; auto.
    + destruct (IH _ H) as [b [Hb Sb]]. exists b. simpl; auto.
    + exists (VStr s). simpl; auto.
  - (* STString *) destruct k; cbn in H; try discriminate.
    + exists (VNum z). simpl; auto.
    + exists VNegZero. simpl; auto.
    + destruct (IH _ H) as [b [Hb Sb]]. exists b. simpl; auto.
  - (* STUnknown *) destruct k; cbn in H; try discriminate.
    + destruct (IH _ H) as [b [Hb Sb]]. split; [exists (VNum z)|exists b]; simpl; auto.
    + destruct (IH _ H) as [b [Hb Sb]]. split; [exists VNegZero|exists b]; simpl; auto.
    + destruct (IH _ H) as [b [Hb Sb]]. split; [exists b|exists (VStr s)]; simpl; auto.
Qed.

Lemma all_comparable_pairs ks :
  all_comparable ks = true ->
  ForallOrdPairs (fun a b => is_some (cmp_val a b) = true /\ is_some (cmp_val b a) = true) ks.
Proof.
  induction ks as [|k ks IH]; intros H; [constructor|].
  cbn [all_comparable] in H. apply andb_true_iff in H. destruct H as [H1 H2].
  constructor; [|apply IH; exact H2].
  apply Forall_forall. intros b Hb. rewrite forallb_forall in H1. specialize (H1 b Hb).
  apply andb_true_iff in H1. exact H1.
Qed.

Lemma num_str_incomparable a b : is_num a = true -> is_str b = true ->
  is_some (cmp_val a b) = false /\ is_some (cmp_val b a) = false.
Proof. destruct a; try discriminate; destruct b; try discriminate; intros; split; reflexivity. Qed.

Lemma mixed_not_comparable ks a b :
  In a ks -> is_num a = true -> In b ks -> is_str b = true -> all_comparable ks = false.
Proof.
  intros Ha Na Hb Sb. destruct (all_comparable ks) eqn:E; [|reflexivity]. exfalso.
  apply all_comparable_pairs in E.
  destruct (num_str_incomparable a b Na Sb) as [N1 N2].
  destruct (ForallOrdPairs_In E a b Ha Hb) as [Heq|[[H1 H2]|[H1 H2]]].
  - subst b. destruct a; discriminate.
  - congruence.
  - congruence.
Qed.

(** sort.rs agrees with the definition whenever the classifier does not send the keys to the
    comparator path *)
Lemma sort_refines_classified k l :
  (forall ks, mapM (keyfn k) l = Some ks -> get_sort_type STUnknown ks <> Some STUnspec) ->
  sort_impl k l = sort_spec k l.
Proof.
  intros H. unfold sort_impl, sort_spec. destruct (length l <=? 1); [reflexivity|].
  destruct (mapM (keyfn k) l) as [ks|] eqn:Ek; [|reflexivity]. cbn [bind]. specialize (H ks eq_refl).
  destruct (get_sort_type STUnknown ks) as [st|] eqn:Es.
  - destruct st.
    + destruct (sort_fast_paths l ks STNumber Es (or_introl eq_refl)) as [Hc Hs]. rewrite Hc. exact Hs.
    + destruct (sort_fast_paths l ks STString Es (or_intror eq_refl)) as [Hc Hs]. rewrite Hc. exact Hs.
    + congruence.
    + (* STUnknown: no key at all *)
      destruct ks as [|k0 ks]; [|destruct k0; cbn in Es; try discriminate;
        match type of Es with get_sort_type ?s ?r = _ =>
          exfalso; clear -Es; revert Es; generalize r; intro r0; induction r0 as [|k' r' IH'];
          intros Es; [discriminate | destruct k'; cbn in Es; try discriminate; auto] end].
      unfold sort_keyed_impl. rewrite Es. destruct l; reflexivity.
  - unfold sort_keyed_impl. rewrite Es. cbn [bind].
    destruct (classify_none ks STUnknown Es) as [[a [Ha Na]] [b [Hb Sb]]].
    rewrite (mixed_not_comparable ks a b Ha Na Hb Sb). reflexivity.
Qed.

(* ================================================================================= *)
(** * Towards the full statement: the set functions and sort on the concrete universe *)

(** the comparison made total by an arbitrary answer where [cmp_val] fails (never consulted) *)
Definition cdef (a b : val) : comparison := match cmp_val a b with Some r => r | None => Eq end.

Lemma mapM_keyd k l ks : mapM (keyfn k) l = Some ks ->
  ks = map (keyd k) l /\ keys_ok (keyfn k) (keyd k) l.
Proof.
  revert ks. induction l as [|x l IH]; intros ks H.
  - injection H as <-. split; constructor.
  - cbn [mapM] in H. destruct (keyfn k x) as [v|] eqn:Ev; [|discriminate]. cbn [bind] in H.
    destruct (mapM (keyfn k) l) as [vs|]; [|discriminate]. cbn [bind] in H. injection H as <-.
    destruct (IH vs eq_refl) as [-> Hk]. split.
    + cbn [map]. f_equal. unfold keyd. rewrite Ev. reflexivity.
    + constructor; [|exact Hk]. unfold keyd. rewrite Ev. reflexivity.
Qed.
Lemma mapM_length {X Y} (f : X -> option Y) l ks : mapM f l = Some ks -> length ks = length l.
Proof.
  revert ks. induction l as [|x l IH]; intros ks H; [injection H as <-; reflexivity|].
  cbn [mapM] in H. destruct (f x); [|discriminate]. cbn [bind] in H.
  destruct (mapM f l) as [vs|]; [|discriminate]. injection H as <-. cbn. f_equal. apply IH. reflexivity.
Qed.
Lemma mapM_app {X Y} (f : X -> option Y) l1 l2 ks : mapM f (l1 ++ l2) = Some ks ->
  exists k1 k2, mapM f l1 = Some k1 /\ mapM f l2 = Some k2 /\ ks = k1 ++ k2.
Proof.
  revert ks. induction l1 as [|x l1 IH]; intros ks H.
  - exists [], ks. auto.
  - cbn [app mapM] in *. destruct (f x) as [v|]; [|discriminate]. cbn [bind] in *.
    destruct (mapM f (l1 ++ l2)) as [vs|] eqn:E; [|discriminate]. injection H as <-.
    destruct (IH vs eq_refl) as [k1 [k2 [H1 [H2 ->]]]]. rewrite H1. exists (v :: k1), k2. auto.
Qed.

Lemma all_comparable_cross l1 : forall l2 a b,
  all_comparable (l1 ++ l2) = true -> In a l1 -> In b l2 ->
  is_some (cmp_val a b) = true /\ is_some (cmp_val b a) = true.
Proof.
  induction l1 as [|x l1 IH]; intros l2 a b H Ha Hb; [destruct Ha|].
  cbn [app all_comparable] in H. apply andb_true_iff in H. destruct H as [H1 H2].
  destruct Ha as [<-|Ha]; [|eapply IH; eassumption].
  rewrite forallb_forall in H1. specialize (H1 b (in_or_app _ _ _ (or_intror Hb))).
  apply andb_true_iff in H1. exact H1.
Qed.

Lemma keys_total_cross k la lb :
  keys_total k (la ++ lb) = true ->
  keys_ok (keyfn k) (keyd k) la /\ keys_ok (keyfn k) (keyd k) lb /\
  cmp_ok cmp_val (keyd k) cdef la lb.
Proof.
  unfold keys_total. destruct (mapM (keyfn k) (la ++ lb)) as [ks|] eqn:E; [|discriminate]. intros H.
  destruct (mapM_app _ _ _ _ E) as [k1 [k2 [H1 [H2 ->]]]].
  destruct (mapM_keyd _ _ _ H1) as [-> Ka]. destruct (mapM_keyd _ _ _ H2) as [-> Kb].
  split; [exact Ka|]. split; [exact Kb|].
  intros x y Hx Hy.
  destruct (all_comparable_cross _ _ (keyd k x) (keyd k y) H (in_map _ _ _ Hx) (in_map _ _ _ Hy)) as [Hc _].
  unfold cdef. destruct (cmp_val (keyd k x) (keyd k y)); [reflexivity|discriminate].
Qed.

Lemma setops_calls_refine k a b :
  sets_ok k a b = true ->
  impl_call (CSetUnion a b k) = spec_call (CSetUnion a b k) /\
  impl_call (CSetInter a b k) = spec_call (CSetInter a b k) /\
  impl_call (CSetDiff a b k) = spec_call (CSetDiff a b k).
Proof.
  intros H. unfold impl_call, spec_call.
  cbn [run impl_algos spec_algos a_union a_inter a_diff].
  destruct a as [| | | | |la|]; try (repeat split; reflexivity).
  destruct b as [| | | | |lb|]; try (repeat split; reflexivity).
  cbn [as_arr bind]. cbn [sets_ok] in H.
  apply andb_true_iff in H. destruct H as [_ H].
  destruct (keys_total_cross k la lb H) as [Ka [Kb Hc]].
  repeat split.
  - rewrite (union_impl_pure _ _ (keyd k) cdef), (union_spec_pure _ _ (keyd k) cdef); auto.
  - rewrite (inter_impl_pure _ _ (keyd k) cdef), (inter_spec_pure _ _ (keyd k) cdef); auto.
  - rewrite (diff_impl_pure _ _ (keyd k) cdef), (diff_spec_pure _ _ (keyd k) cdef); auto.
Qed.

(** ** sort: the comparator path *)
Lemma insert_f_perm {A} (cmpf : A -> A -> option comparison) x l s :
  insert_f cmpf x l = Some s -> Permutation s (x :: l).
Proof.
  revert s. induction l as [|y l IH]; intros s H.
  - injection H as <-. reflexivity.
  - cbn [insert_f] in H. destruct (cmpf x y) as [c|]; [|discriminate]. cbn [bind] in H.
    destruct c; try (injection H as <-; reflexivity).
    destruct (insert_f cmpf x l) as [r|]; [|discriminate]. injection H as <-.
    rewrite (IH r eq_refl). apply perm_swap.
Qed.
Lemma isort_f_perm {A} (cmpf : A -> A -> option comparison) l s :
  isort_f cmpf l = Some s -> Permutation s l.
Proof.
  revert s. induction l as [|x l IH]; intros s H.
  - injection H as <-. reflexivity.
  - cbn [isort_f] in H. destruct (isort_f cmpf l) as [r|]; [|discriminate]. cbn [bind] in H.
    rewrite (insert_f_perm _ _ _ _ H). constructor. apply IH. reflexivity.
Qed.

(** only an earlier element is ever compared (as first argument) with a later one *)
Lemma isort_f_ok_ordered {A} (cmpf : A -> A -> option comparison) (leb : A -> A -> bool) l :
  ForallOrdPairs (fun x y => exists c, cmpf x y = Some c /\ leb x y = leb_cmp c) l ->
  isort_f cmpf l = Some (isort leb l).
Proof.
  induction 1 as [|x l Hx Hl IH]; [reflexivity|].
  cbn [isort_f isort]. rewrite IH. cbn [bind].
  apply insert_f_ok. intros y Hy.
  apply (proj1 (Forall_forall _ _) Hx). eapply Permutation_in; [apply isort_perm|exact Hy].
Qed.

Lemma fop_combine (R : val -> val -> Prop) ks :
  ForallOrdPairs R ks -> forall l : list val,
  ForallOrdPairs (fun p q : val * val => R (snd p) (snd q)) (combine l ks).
Proof.
  induction 1 as [|k ks Hk Hks IH]; intros l; [destruct l; constructor|].
  destruct l as [|x l]; [constructor|]. cbn [combine]. constructor; [|apply IH].
  apply Forall_forall. intros q Hq. destruct q as [y ky]. apply in_combine_r in Hq.
  exact (proj1 (Forall_forall _ _) Hk ky Hq).
Qed.

(** an element that compares with nothing else makes the sort fail *)
Lemma isolated_fails {A} (cmpf : A -> A -> option comparison) l1 : forall e l2,
  (forall y, In y (l1 ++ l2) -> cmpf e y = None /\ cmpf y e = None) ->
  l1 ++ l2 <> [] -> isort_f cmpf (l1 ++ e :: l2) = None.
Proof.
  induction l1 as [|x l1 IH]; intros e l2 Hiso Hne.
  - cbn [app isort_f]. destruct (isort_f cmpf l2) as [s|] eqn:Es; [|reflexivity]. cbn [bind].
    pose proof (isort_f_perm _ _ _ Es) as Hp.
    destruct s as [|y s]. { apply Permutation_nil in Hp. cbn in Hne. congruence. }
    cbn [insert_f]. destruct (Hiso y) as [H1 _].
    { cbn [app]. eapply Permutation_in; [exact Hp|left; reflexivity]. }
    rewrite H1. reflexivity.
  - cbn [app isort_f].
    destruct l1 as [|x' l1]; [destruct l2 as [|y' l2]|].
    + cbn [app isort_f bind insert_f]. destruct (Hiso x (or_introl eq_refl)) as [_ H2]. rewrite H2. reflexivity.
    + rewrite (IH e (y' :: l2)); [reflexivity| |discriminate].
      intros y Hy. apply Hiso. right. exact Hy.
    + rewrite (IH e l2); [reflexivity| |discriminate].
      intros y Hy. apply Hiso. right. exact Hy.
Qed.

Lemma others_spec {X} (l : list X) : forall pre e rest,
  In (e, rest) (others pre l) -> exists l1 l2, l = l1 ++ e :: l2 /\ rest = rev pre ++ l1 ++ l2.
Proof.
  induction l as [|x l IH]; intros pre e rest H; [destruct H|].
  cbn [others] in H. destruct H as [H|H].
  - injection H as <- <-. exists [], l. auto.
  - destruct (IH _ _ _ H) as [l1 [l2 [-> ->]]]. exists (x :: l1), l2. split; [reflexivity|].
    cbn [rev]. rewrite <- app_assoc. reflexivity.
Qed.

Lemma has_isolated_split ks : has_isolated ks = true ->
  exists k1 e k2, ks = k1 ++ e :: k2 /\
    forall y, In y (k1 ++ k2) -> cmp_val e y = None /\ cmp_val y e = None.
Proof.
  unfold has_isolated. intros H. apply existsb_exists in H. destruct H as [[e rest] [Hin H]].
  destruct (others_spec _ _ _ _ Hin) as [k1 [k2 [-> ->]]]. exists k1, e, k2. split; [reflexivity|].
  cbn [fst snd rev app] in H. rewrite forallb_forall in H. intros y Hy. specialize (H y Hy).
  apply andb_true_iff in H. destruct H as [H1 H2].
  destruct (cmp_val e y); [discriminate|]. destruct (cmp_val y e); [discriminate|]. auto.
Qed.

Lemma map_snd_combine_eq (l ks : list val) : length ks = length l -> map snd (combine l ks) = ks.
Proof.
  revert ks. induction l as [|x l IH]; intros [|k ks] H; try discriminate; [reflexivity|].
  cbn. f_equal. apply IH. cbn in H. lia.
Qed.

Lemma all_comparable_ordered ks :
  all_comparable ks = true ->
  ForallOrdPairs (fun a b => exists c, cmp_val a b = Some c /\ leb_val a b = leb_cmp c) ks.
Proof.
  induction ks as [|k ks IH]; intros H; [constructor|].
  cbn [all_comparable] in H. apply andb_true_iff in H. destruct H as [H1 H2].
  constructor; [|apply IH; exact H2].
  apply Forall_forall. intros b Hb. rewrite forallb_forall in H1. specialize (H1 b Hb).
  apply andb_true_iff in H1. destruct H1 as [H1 _]. unfold leb_val.
  destruct (cmp_val k b) as [c|]; [|discriminate]. exists c. split; [reflexivity|]. destruct c; reflexivity.
Qed.

Lemma sort_keyed_refines l ks :
  length ks = length l -> 2 <= length ks ->
  all_comparable ks = true \/ has_isolated ks = true ->
  sort_keyed_impl l ks =
  if all_comparable ks
  then Some (map fst (isort (fun p q : val * val => leb_val (snd p) (snd q)) (combine l ks)))
  else None.
Proof.
  intros Hlen H2 Hdet.
  destruct (get_sort_type STUnknown ks) as [st|] eqn:Es.
  2:{ unfold sort_keyed_impl. rewrite Es. cbn [bind].
      destruct (classify_none ks STUnknown Es) as [[a [Ha Na]] [b [Hb Sb]]].
      rewrite (mixed_not_comparable ks a b Ha Na Hb Sb). reflexivity. }
  assert (Hslow : sort_keyed_impl l ks =
                  (r <- isort_f (fun p q : val * val => cmp_val (snd p) (snd q)) (combine l ks) ;; Some (map fst r)) ->
            sort_keyed_impl l ks =
            if all_comparable ks
            then Some (map fst (isort (fun p q : val * val => leb_val (snd p) (snd q)) (combine l ks)))
            else None).
  { intros ->. destruct (all_comparable ks) eqn:Ec.
    - rewrite (isort_f_ok_ordered _ (fun p q : val * val => leb_val (snd p) (snd q))); [reflexivity|].
      apply (fop_combine (fun a b => exists c, cmp_val a b = Some c /\ leb_val a b = leb_cmp c)).
      apply all_comparable_ordered. exact Ec.
    - destruct Hdet as [Hd|Hd]; [discriminate|].
      destruct (has_isolated_split ks Hd) as [k1 [e [k2 [Hks Hiso]]]].
      pose proof (map_snd_combine_eq l ks Hlen) as Hm. rewrite Hks in Hm at 2.
      apply map_eq_app in Hm. destruct Hm as [P1 [P2' [HL [HP1 HP2]]]].
      apply map_eq_cons in HP2. destruct HP2 as [p [P2 [-> [Hp HP2]]]].
      rewrite HL. rewrite isolated_fails; [reflexivity| |].
      + intros q Hq. assert (Hs : In (snd q) (k1 ++ k2)).
        { rewrite <- HP1, <- HP2, <- map_app. apply in_map. exact Hq. }
        rewrite Hp. apply Hiso. exact Hs.
      + intros E. apply (f_equal (@length _)) in E.
        assert (length (combine l ks) = length ks) by (rewrite combine_length; lia).
        rewrite HL in H. rewrite app_length in *. cbn [length] in *. lia. }
  destruct st.
  - destruct (sort_fast_paths l ks STNumber Es (or_introl eq_refl)) as [Hc Hs]. rewrite Hc. exact Hs.
  - destruct (sort_fast_paths l ks STString Es (or_intror eq_refl)) as [Hc Hs]. rewrite Hc. exact Hs.
  - apply Hslow. unfold sort_keyed_impl. rewrite Es. reflexivity.
  - apply Hslow. unfold sort_keyed_impl. rewrite Es. reflexivity.
Qed.

Lemma sort_refines_determinate k l :
  sort_determinate k l = true -> sort_impl k l = sort_spec k l /\ set_impl k l = set_spec k l.
Proof.
  intros H. assert (E : sort_impl k l = sort_spec k l).
  { unfold sort_determinate in H. unfold sort_impl, sort_spec.
    destruct (length l <=? 1) eqn:El; [reflexivity|]. cbn [orb] in H.
    destruct (mapM (keyfn k) l) as [ks|] eqn:Ek; [|reflexivity]. cbn [bind].
    pose proof (mapM_length _ _ _ Ek) as Hlen. apply Nat.leb_gt in El.
    apply sort_keyed_refines; [exact Hlen|lia|]. apply orb_true_iff. exact H. }
  split; [exact E|].
  unfold set_impl, set_spec. rewrite E. destruct (sort_spec k l); [|reflexivity]. cbn [bind]. apply uniq_v_same.
Qed.

(* ================================================================================= *)
(** * A total order on the whole value universe that extends [cmp_val] *)
Definition law5 {Y} (c : Y -> Y -> comparison) (x : Y) : Prop :=
  (forall y, c y x = CompOpp (c x y)) /\
  (forall y z, c x y = Lt -> c y z = Lt -> c x z = Lt) /\
  (forall y z, c x y = Eq -> c y z = Eq -> c x z = Eq) /\
  (forall y z, c x y = Eq -> c y z = Lt -> c x z = Lt) /\
  (forall y z, c x y = Lt -> c y z = Eq -> c x z = Lt).

Lemma law5_laws {Y} (c : Y -> Y -> comparison) : (forall x, law5 c x) -> cmp_laws c.
Proof.
  intros H. unfold cmp_laws. repeat split; intros.
  - apply (proj1 (H x)).
  - eapply (proj1 (proj2 (H x))); eassumption.
  - eapply (proj1 (proj2 (proj2 (H x)))); eassumption.
  - eapply (proj1 (proj2 (proj2 (proj2 (H x))))); eassumption.
  - eapply (proj2 (proj2 (proj2 (proj2 (H x))))); eassumption.
Qed.

Section Lex.
  Context {X : Type}.
  Variable cx : X -> X -> comparison.
  Fixpoint lex (l m : list X) : comparison :=
    match l, m with
    | [], [] => Eq
    | [], _ => Lt
    | _, [] => Gt
    | x :: l', y :: m' => match cx x y with Eq => lex l' m' | r => r end
    end.

  Lemma lex_law5 l : Forall (law5 cx) l -> law5 lex l.
  Proof.
    induction 1 as [|x l Hx Hl IH].
    - unfold law5. repeat split.
      + intros []; reflexivity.
      + intros [|y0 y] [|z0 z]; cbn; congruence.
      + intros [|y0 y] [|z0 z]; cbn; congruence.
      + intros [|y0 y] [|z0 z]; cbn; congruence.
      + intros [|y0 y] [|z0 z]; cbn; congruence.
    - destruct Hx as [X1 [X2 [X3 [X4 X5]]]]. destruct IH as [I1 [I2 [I3 [I4 I5]]]].
      unfold law5. repeat split.
      + intros [|y0 y]; [reflexivity|]. cbn [lex]. rewrite (X1 y0).
        destruct (cx x y0); cbn [CompOpp]; auto.
      + intros [|y0 y] [|z0 z]; cbn [lex]; try congruence.
        destruct (cx x y0) eqn:E1; try congruence; destruct (cx y0 z0) eqn:E2; try congruence; intros H1 H2.
        * rewrite (X3 _ _ E1 E2). eapply I2; eassumption.
        * rewrite (X4 _ _ E1 E2). reflexivity.
        * rewrite (X5 _ _ E1 E2). reflexivity.
        * rewrite (X2 _ _ E1 E2). reflexivity.
      + intros [|y0 y] [|z0 z]; cbn [lex]; try congruence.
        destruct (cx x y0) eqn:E1; try congruence; destruct (cx y0 z0) eqn:E2; try congruence; intros H1 H2.
        rewrite (X3 _ _ E1 E2). eapply I3; eassumption.
      + intros [|y0 y] [|z0 z]; cbn [lex]; try congruence.
        destruct (cx x y0) eqn:E1; try congruence; destruct (cx y0 z0) eqn:E2; try congruence; intros H1 H2.
        * rewrite (X3 _ _ E1 E2). eapply I4; eassumption.
        * rewrite (X4 _ _ E1 E2). reflexivity.
      + intros [|y0 y] [|z0 z]; cbn [lex]; try congruence.
        destruct (cx x y0) eqn:E1; try congruence; destruct (cx y0 z0) eqn:E2; try congruence; intros H1 H2.
        * rewrite (X3 _ _ E1 E2). eapply I5; eassumption.
        * rewrite (X5 _ _ E1 E2). reflexivity.
  Qed.
End Lex.

Lemma law5_N : forall n : N, law5 N.compare n.
Proof.
  intros n. unfold law5. repeat split; intros.
  - apply N.compare_antisym.
  - rewrite N.compare_lt_iff in *. lia.
  - rewrite N.compare_eq_iff in *. lia.
  - rewrite N.compare_eq_iff in H. rewrite N.compare_lt_iff in *. lia.
  - rewrite N.compare_eq_iff in H0. rewrite N.compare_lt_iff in *. lia.
Qed.
Lemma cmp_str_lex s t : cmp_str s t = lex N.compare s t.
Proof. reflexivity. Qed.
Lemma law5_str s : law5 cmp_str s.
Proof.
  assert (H : law5 (lex N.compare) s) by (apply lex_law5; apply Forall_forall; intros; apply law5_N).
  unfold law5 in *. setoid_rewrite cmp_str_lex. exact H.
Qed.

Definition rank (v : val) : nat :=
  match v with VNull => 0 | VBool _ => 1 | VNum _ | VNegZero => 2 | VStr _ => 3 | VArr _ => 4 | VObj => 5 end.
Definition zkey (v : val) : Z :=
  match v with VBool true => 1%Z | VNum z => z | _ => 0%Z end.
Fixpoint ctot (a b : val) : comparison :=
  match Nat.compare (rank a) (rank b) with
  | Eq =>
      match a, b with
      | VArr l, VArr m =>
          (fix lex (l m : list val) : comparison :=
             match l, m with
             | [], [] => Eq
             | [], _ => Lt
             | _, [] => Gt
             | x :: l', y :: m' => match ctot x y with Eq => lex l' m' | r => r end
             end) l m
      | VStr s, VStr t => cmp_str s t
      | _, _ => Z.compare (zkey a) (zkey b)
      end
  | r => r
  end.
Lemma ctot_arr l m : ctot (VArr l) (VArr m) = lex ctot l m.
Proof. reflexivity. Qed.

Local Arguments Z.compare : simpl never.
Local Arguments cmp_str : simpl never.
Local Arguments lex : simpl never.

Ltac zc := rewrite ?Z.compare_lt_iff, ?Z.compare_eq_iff, ?Z.compare_gt_iff in *; lia.

Ltac law_cases :=
  unfold law5; repeat split;
  (let y := fresh "y" in let z := fresh "z" in intros y; try (intros z; destruct z); destruct y);
  repeat match goal with b : bool |- _ => destruct b end.
Ltac law_fin := cbn; try congruence; try apply Z.compare_antisym; try (intros; zc).

Lemma ctot_law5 : forall x, law5 ctot x.
Proof.
  apply val_ind'.
  - (* null *) law_cases; law_fin.
  - (* bool *) intros b0. law_cases; law_fin.
  - (* num *) intros n. law_cases; law_fin.
  - (* -0 *) law_cases; law_fin.
  - (* str *) intros s. destruct (law5_str s) as [S1 [S2 [S3 [S4 S5]]]].
    law_cases; cbn; try congruence; eauto.
  - (* arr *) intros l H. destruct (lex_law5 ctot l H) as [S1 [S2 [S3 [S4 S5]]]].
    law_cases; rewrite ?ctot_arr; try (cbn; congruence); eauto.
  - (* obj *) law_cases; law_fin.
Qed.
Lemma cmp_laws_ctot : cmp_laws ctot.
Proof. apply law5_laws. exact ctot_law5. Qed.

(** [ctot] answers as [cmp_val] wherever [cmp_val] answers *)
Fixpoint lexo (l m : list val) : option comparison :=
  match l, m with
  | [], [] => Some Eq
  | [], _ => Some Lt
  | _, [] => Some Gt
  | x :: l', y :: m' => match cmp_val x y with Some Eq => lexo l' m' | r => r end
  end.
Lemma cmp_val_arr l m : cmp_val (VArr l) (VArr m) = lexo l m.
Proof. reflexivity. Qed.

Lemma ctot_extends : forall a b c, cmp_val a b = Some c -> ctot a b = c.
Proof.
  apply (val_ind' (fun a => forall b c, cmp_val a b = Some c -> ctot a b = c)).
  - intros [] c H; discriminate.
  - intros x [] c H; discriminate.
  - intros x [] c H; cbn in H; try discriminate; injection H as <-; reflexivity.
  - intros [] c H; cbn in H; try discriminate; injection H as <-; reflexivity.
  - intros s [] c H; cbn in H; try discriminate; injection H as <-; reflexivity.
  - intros l H [] c Hc; try discriminate. rewrite cmp_val_arr in Hc. rewrite ctot_arr.
    revert l0 Hc. induction H as [|x l Hx Hl IH]; intros [|y m] Hc; cbn in Hc; try (injection Hc as <-; reflexivity).
    change (lex ctot (x :: l) (y :: m)) with (match ctot x y with Eq => lex ctot l m | r => r end).
    destruct (cmp_val x y) as [c0|] eqn:E; [|discriminate]. rewrite (Hx y c0 E).
    destruct c0; try (injection Hc as <-; reflexivity). apply IH. exact Hc.
  - intros [] c H; discriminate.
Qed.

Lemma strict_sorted_b_ctot k l :
  strict_sorted_b (map (keyd k) l) = true -> strict_sorted (keyd k) ctot l.
Proof.
  induction l as [|x l IH]; intros H; [constructor|].
  cbn [map strict_sorted_b] in H. apply andb_true_iff in H. destruct H as [H1 H2].
  constructor; [apply IH; exact H2|].
  apply Forall_forall. intros y Hy. rewrite forallb_forall in H1.
  specialize (H1 (keyd k y) (in_map _ _ _ Hy)).
  destruct (cmp_val (keyd k x) (keyd k y)) as [c|] eqn:E; [|discriminate].
  destruct c; try discriminate. apply ctot_extends. exact E.
Qed.

Lemma setmember_call_refines k x l :
  is_set k l && keys_total k (x :: l) = true ->
  impl_call (CSetMember x (VArr l) k) = spec_call (CSetMember x (VArr l) k).
Proof.
  intros H. apply andb_true_iff in H. destruct H as [Hs Ht].
  unfold impl_call, spec_call. cbn [run as_arr bind impl_algos spec_algos a_member].
  unfold keys_total in Ht. destruct (mapM (keyfn k) (x :: l)) as [ks|] eqn:Ek; [|discriminate].
  destruct (mapM_keyd _ _ _ Ek) as [-> Hk]. pose proof (Forall_inv Hk) as Hx.
  pose proof (Forall_inv_tail Hk) as Hl. cbn beta in Hx.
  cbn [map all_comparable] in Ht. apply andb_true_iff in Ht. destruct Ht as [Hc _].
  rewrite forallb_forall in Hc.
  assert (Hcmp : forall e, In e l ->
            cmp_val (keyd k e) (keyd k x) = Some (ctot (keyd k e) (keyd k x)) /\
            cmp_val (keyd k x) (keyd k e) = Some (ctot (keyd k x) (keyd k e))).
  { intros e He. specialize (Hc _ (in_map (keyd k) _ _ He)). apply andb_true_iff in Hc. destruct Hc as [C1 C2].
    destruct (cmp_val (keyd k x) (keyd k e)) as [c1|] eqn:E1; [|discriminate].
    destruct (cmp_val (keyd k e) (keyd k x)) as [c2|] eqn:E2; [|discriminate].
    rewrite (ctot_extends _ _ _ E1), (ctot_extends _ _ _ E2). auto. }
  assert (Hsorted : strict_sorted (keyd k) ctot l).
  { unfold is_set in Hs. destruct (mapM (keyfn k) l) as [ksl|] eqn:El; [|discriminate].
    destruct (mapM_keyd _ _ _ El) as [-> _]. apply strict_sorted_b_ctot. exact Hs. }
  rewrite (set_member_impl_correct (keyfn k) cmp_val (keyd k) ctot cmp_laws_ctot x l Hsorted Hx Hl
             (fun e He => proj1 (Hcmp e He))).
  rewrite (set_member_spec_correct (keyfn k) cmp_val (keyd k) ctot cmp_laws_ctot x l Hsorted Hx Hl
             (fun e He => proj2 (Hcmp e He))).
  reflexivity.
Qed.

(** ** the full statement *)
Lemma calls_refine c : judge c = JSpec -> impl_call c = spec_call c.
Proof.
  intros H. destruct (simple_call c) eqn:Es; [apply simple_calls_refine; exact Es|].
  destruct c; try discriminate Es.
  - (* sort *) destruct arr; try reflexivity. cbn [judge] in H.
    destruct (sort_determinate k l) eqn:Ed; [|discriminate].
    unfold impl_call, spec_call. cbn [run as_arr bind impl_algos spec_algos a_sort].
    rewrite (proj1 (sort_refines_determinate k l Ed)). reflexivity.
  - (* set *) destruct arr; try reflexivity. cbn [judge] in H.
    destruct (sort_determinate k l) eqn:Ed; [|discriminate].
    unfold impl_call, spec_call. cbn [run as_arr bind impl_algos spec_algos a_set].
    rewrite (proj2 (sort_refines_determinate k l Ed)). reflexivity.
  - (* setMember *) destruct arr; try reflexivity. cbn [judge] in H.
    destruct (is_set k l && keys_total k (x :: l)) eqn:Ej; [|discriminate].
    apply setmember_call_refines. exact Ej.
  - cbn [judge] in H. destruct (sets_ok k a b) eqn:Ej; [|discriminate]. apply (setops_calls_refine k a b Ej).
  - cbn [judge] in H. destruct (sets_ok k a b) eqn:Ej; [|discriminate]. apply (setops_calls_refine k a b Ej).
  - cbn [judge] in H. destruct (sets_ok k a b) eqn:Ej; [|discriminate]. apply (setops_calls_refine k a b Ej).
Qed.
