(** C10, part "Source": the merge loops and removeAt as TRANSLATED from the Rust text on this run
    (Gen/GenSets.v, written by translator/gens/setops.py from sets.rs / arrays.rs) equal the hand models of
    C10/Model.v on ALL inputs and ALL key / comparison functions, and therefore meet the reference definitions. *)
From Coq Require Import List ZArith NArith Bool Lia.
From JrV Require Import C10.Model C10.Proofs C10.Properties Gen.GenSets C10.ModelSource C10.ProofsSource.
From JrV Require C08.Model.
Import ListNotations.

(** builtin_set_union as written = union_impl: for all lists, all (failing) key functions, all (failing)
    comparisons; in particular the translated loops never panic (`expect`) and never need more than
    1 + |a| + |b| iterations. *)
Theorem C10_model_is_translated_source_union :
  forall (A K : Type) (keyf : A -> option K) (cmp : K -> K -> option comparison) (a b : list A),
    gen_set_union keyf cmp a b = of_opt (union_impl keyf cmp a b).
Proof. intros. apply gen_union_is_model. Qed.
Print Assumptions C10_model_is_translated_source_union.

Theorem C10_model_is_translated_source_diff :
  forall (A K : Type) (keyf : A -> option K) (cmp : K -> K -> option comparison) (a b : list A),
    gen_set_diff keyf cmp a b = of_opt (diff_impl keyf cmp a b).
Proof. intros. apply gen_diff_is_model. Qed.
Print Assumptions C10_model_is_translated_source_diff.

(** builtin_remove_at as written (i32 index, `as usize`, checked `at + 1`, ArrValue::slice clamps) = remove_at_impl,
    for every i32 index and every array shorter than 2^31 (beyond: `at + 1` can overflow, see the report). *)
Theorem C10_model_is_translated_source_remove_at :
  forall (A : Type) (l : list A) (at_ : Z),
    i32_range at_ -> (Z.of_nat (length l) < 2 ^ 31)%Z ->
    gen_remove_at l at_ = SOk (remove_at_impl l at_).
Proof. intros. apply gen_remove_at_is_model; assumption. Qed.
Print Assumptions C10_model_is_translated_source_remove_at.

(** Corollary: on sets (strictly sorted by key under a total order, keys and comparison defined) the translated
    union returns the strictly sorted list with exactly a's elements plus b's elements whose key is not in a,
    and the translated difference returns a's elements whose key is not in b (the std.jsonnet definitions). *)
Theorem C10_translated_setops_refine :
  forall (A K : Type) (keyf : A -> option K) (cmp : K -> K -> option comparison)
         (key : A -> K) (c : K -> K -> comparison) (a b : list A),
    cmp_laws c ->
    keys_ok keyf key a -> keys_ok keyf key b -> cmp_ok cmp key c a b ->
    strict_sorted key c a -> strict_sorted key c b ->
    (exists u, gen_set_union keyf cmp a b = SOk u /\ strict_sorted key c u /\
               forall z, In z u <-> In z a \/ (In z b /\ key_in_b key c z a = false)) /\
    gen_set_diff keyf cmp a b = SOk (filter (fun x => negb (key_in_b key c x b)) a).
Proof.
  intros A K keyf cmp key c a b L Ka Kb Hc Sa Sb.
  destruct (C10_setops_refine A K keyf cmp key c a b L Ka Kb Hc Sa Sb) as [[u [U R]] [_ D]].
  split.
  - exists u. rewrite gen_union_is_model, U. split; [reflexivity|exact R].
  - rewrite gen_diff_is_model, D. reflexivity.
Qed.
Print Assumptions C10_translated_setops_refine.

(** Corollary: the translated merges follow the reference merges of std.jsonnet on all arguments on which key
    function and comparison are defined (sorted or not). *)
Theorem C10_translated_setops_follow_reference :
  forall (A K : Type) (keyf : A -> option K) (cmp : K -> K -> option comparison)
         (key : A -> K) (c : K -> K -> comparison) (a b : list A),
    keys_ok keyf key a -> keys_ok keyf key b -> cmp_ok cmp key c a b ->
    gen_set_union keyf cmp a b = of_opt (union_spec keyf cmp a b) /\
    gen_set_diff keyf cmp a b = of_opt (diff_spec keyf cmp a b).
Proof.
  intros A K keyf cmp key c a b Ka Kb Hc.
  destruct (C10_setops_follow_reference A K keyf cmp key c a b Ka Kb Hc) as [U [_ D]].
  rewrite gen_union_is_model, gen_diff_is_model, U, D. split; reflexivity.
Qed.
Print Assumptions C10_translated_setops_follow_reference.

(** Corollary: the translated removeAt is the documented one (C08's remove_at_spec: the array without position at,
    unchanged when at is out of range). *)
Theorem C10_translated_remove_at_spec :
  forall (A : Type) (l : list A) (at_ : Z),
    i32_range at_ -> (Z.of_nat (length l) < 2 ^ 31)%Z ->
    gen_remove_at l at_ = SOk (C08.Model.remove_at_spec l at_).
Proof. intros. rewrite gen_remove_at_is_model by assumption. rewrite remove_at_impl_spec. reflexivity. Qed.
Print Assumptions C10_translated_remove_at_spec.

(** Non-vacuity: concrete runs of the translated text (numbers under Z.compare; a key that fails; ties). *)
Definition zk : Z -> option Z := fun z => if (z =? 99)%Z then None else Some (z / 10)%Z.
Definition zc : Z -> Z -> option comparison := fun x y => Some (Z.compare x y).
Example C10_translated_examples :
  gen_set_union zk zc [10; 30; 50]%Z [20; 31; 60; 70]%Z = SOk [10; 20; 30; 50; 60; 70]%Z /\
  gen_set_diff zk zc [10; 30; 50; 80]%Z [20; 31; 60]%Z = SOk [10; 50; 80]%Z /\
  gen_set_inter zk zc [10; 30; 50]%Z [20; 31; 50]%Z = SOk [30; 50]%Z /\
  gen_set_union zk zc [10; 99]%Z [20]%Z = SErr /\
  gen_set_diff zk zc []%Z [99]%Z = SErr /\
  gen_remove_at [1; 2; 3]%Z 1 = SOk [1; 3]%Z /\ gen_remove_at [1; 2; 3]%Z 3 = SOk [1; 2; 3]%Z /\
  gen_remove_at [1; 2; 3]%Z (-1) = SOk [1; 2; 3]%Z /\ gen_remove_at [1; 2; 3]%Z 0 = SOk [2; 3]%Z /\
  gen_remove_at [1; 2; 3]%Z 2 = SOk [1; 2]%Z /\
  i32_range 2.
Proof. repeat split; try reflexivity; unfold i32_range; lia. Qed.
