(** C10, part "More" — array builtins over LAZY elements.

    C10/Model.v works on fully evaluated values.  Here an array element is a THUNK:
      [option A]   —   [Some v]: forcing yields v;   [None]: forcing raises a Jsonnet error
    and a Jsonnet callback is a function of the thunks it receives (it decides what it forces).
    With that, "which elements does the builtin evaluate" becomes part of the outcome.

    IMPL-MODEL: transliterations of the Rust loops of
      crates/jrsonnet-stdlib/src/arrays.rs  builtin_any, builtin_all, builtin_member, builtin_contains,
                                            builtin_count, builtin_find, builtin_remove, builtin_foldl,
                                            builtin_foldr, builtin_map / builtin_map_with_index (MappedArray::get),
                                            builtin_filter (ArrValue::filter), builtin_filter_map,
                                            builtin_flatmap (array arm), builtin_reverse (ReverseArray::get)
                                            — foldl / foldr / map / flatMap as of the fixes 762ca42, 9dc676b,
                                            9d0c0a4 (the loops before them are kept as *_old)
      crates/jrsonnet-stdlib/src/sort.rs    array_top1, builtin_min_array, builtin_max_array
      crates/jrsonnet-stdlib/src/misc.rs    builtin_starts_with, builtin_ends_with (array arms),
      crates/jrsonnet-evaluator/src/val.rs  equals (array arm)
    (`item?` = force the thunk, `f(..)?` = propagate the error, early `return`s as written).
    SPEC: the reference definitions of std.jsonnet (my reading, from memory):
      any/all   = aux(idx) index recursion stopping at the first deciding element
      count     = std.length(std.filter(function(v) v == x, arr))
      member    = std.count(arr, x) > 0                       (arrays)
      contains  = std.any([e == elem for e in arr])
      find      = std.filter(function(i) arr[i] == value, std.range(0, std.length(arr) - 1))
      remove    = local indexes = std.find(elem, arr);
                  if std.length(indexes) == 0 then arr else std.removeAt(arr, indexes[0])
      foldl     = aux(func, arr, running, idx) = if idx >= length then running
                                                 else aux(func, arr, func(running, arr[idx]), idx + 1) tailstrict
      foldr     = the same from length - 1 down to 0 with func(arr[idx], running)
      map       = std.makeArray(std.length(arr), function(i) func(arr[i]))
      mapWithIndex = std.makeArray(std.length(arr), function(i) func(i, arr[i]))
      filter    = the predicate applied to every element thunk in order, kept elements stay thunks (native)
      filterMap = std.map(map_func, std.filter(filter_func, arr))
      flatMap   = std.flattenArrays(std.makeArray(std.length(arr), function(i) func(arr[i])))
      reverse   = std.makeArray(l, function(i) arr[l - i - 1])
      minArray  = if length == 0 then onEmpty else foldl(minFn, arr, arr[0])
                  with minFn(a, b) = if std.__compare(keyF(a), keyF(b)) > 0 then b else a   (max: < 0)
      startsWith(a, b) = if length(a) < length(b) then false else a[0:length(b)] == b
      endsWith(a, b)   = if length(a) < length(b) then false else a[length(a) - length(b):] == b
      == on arrays     = lengths equal and aux(i): a[i] != b[i] -> false, stopping at the first difference
    Definitions only; proofs in ProofsMore.v. *)
From Coq Require Import String Ascii.
From Coq Require Import List ZArith NArith Bool Lia.
From JrV Require Import C10.Model.
From JrV Require C08.Model.
Import ListNotations.
Open Scope nat_scope.

(** apply a predicate that may fail to every element (std.filter is strict in the predicate) *)
Fixpoint filter_strict {X} (p : X -> option bool) (l : list X) : option (list X) :=
  match l with
  | [] => Some []
  | x :: r => b <- p x ;; ys <- filter_strict p r ;; Some (if b then x :: ys else ys)
  end.

Definition defined {X} (t : option X) : bool := is_some t.

(* ================================================================================= *)
(** * any / all *)
Section AnyAll.
  Context {E : Type}.
  Variable as_bool : E -> option bool.          (* bool::from_untyped / std.isBoolean assertion *)

  (** builtin_any: for v in arr.iter() { let v = bool::from_untyped(v?)?; if v { return Ok(true) } } Ok(false) *)
  Fixpoint any_impl (l : list (option E)) : option bool :=
    match l with
    | [] => Some false
    | t :: r => v <- t ;; b <- as_bool v ;; if b then Some true else any_impl r
    end.
  (** builtin_all *)
  Fixpoint all_impl (l : list (option E)) : option bool :=
    match l with
    | [] => Some true
    | t :: r => v <- t ;; b <- as_bool v ;; if negb b then Some false else all_impl r
    end.

  (** std.jsonnet: aux(idx) = if idx >= arrLen then false else local e = arr[idx];
        assert std.isBoolean(e); if e then true else aux(idx + 1).
      [n] = arrLen - idx (the loop condition); an index out of bounds would be an error. *)
  Fixpoint any_aux (arr : list (option E)) (n idx : nat) : option bool :=
    match n with
    | O => Some false
    | S m =>
        match nth_error arr idx with
        | None => None
        | Some t => v <- t ;; b <- as_bool v ;; if b then Some true else any_aux arr m (S idx)
        end
    end.
  Definition any_spec (arr : list (option E)) : option bool := any_aux arr (length arr) 0.
  Fixpoint all_aux (arr : list (option E)) (n idx : nat) : option bool :=
    match n with
    | O => Some true
    | S m =>
        match nth_error arr idx with
        | None => None
        | Some t => v <- t ;; b <- as_bool v ;; if negb b then Some false else all_aux arr m (S idx)
        end
    end.
  Definition all_spec (arr : list (option E)) : option bool := all_aux arr (length arr) 0.
End AnyAll.

(* ================================================================================= *)
(** * scans with an equality: count / member / contains / find / remove / == / startsWith / endsWith *)
Section Scans.
  Context {A : Type}.
  Variable eqa : A -> A -> option bool.           (* val::equals — may fail (functions) *)

  (** `equals(&item?, &x)?` *)
  Definition eqt (x : A) (t : option A) : option bool := v <- t ;; eqa v x.

  (** builtin_count *)
  Fixpoint count_impl (l : list (option A)) (x : A) (count : nat) : option nat :=
    match l with
    | [] => Some count
    | t :: r => b <- eqt x t ;; count_impl r x (if b then S count else count)
    end.
  Definition count_spec (l : list (option A)) (x : A) : option nat :=
    r <- filter_strict (eqt x) l ;; Some (length r).

  (** builtin_member (array arm) = builtin_contains: returns at the first equal element *)
  Fixpoint member_impl (l : list (option A)) (x : A) : option bool :=
    match l with
    | [] => Some false
    | t :: r => b <- eqt x t ;; if b then Some true else member_impl r x
    end.
  Definition member_spec (l : list (option A)) (x : A) : option bool :=
    c <- count_spec l x ;; Some (0 <? c).
  Definition contains_impl := member_impl.
  (** [e == elem for e in arr] is an array of unevaluated comparisons; std.any walks it *)
  Definition contains_spec (l : list (option A)) (x : A) : option bool :=
    any_spec (@Some bool) (map (eqt x) l).

  (** builtin_find *)
  Fixpoint find_impl (l : list (option A)) (x : A) (i : nat) : option (list nat) :=
    match l with
    | [] => Some []
    | t :: r => b <- eqt x t ;; out <- find_impl r x (S i) ;; Some (if b then i :: out else out)
    end.
  Definition find_spec (l : list (option A)) (x : A) : option (list nat) :=
    filter_strict (fun i => match nth_error l i with Some t => eqt x t | None => None end)
                  (seq 0 (length l)).

  (** builtin_remove: scan up to the first equal element, then builtin_remove_at on the whole array
      (elements stay unevaluated thunks) *)
  Fixpoint remove_scan (l : list (option A)) (x : A) (index : nat) : option (option nat) :=
    match l with
    | [] => Some None
    | t :: r => b <- eqt x t ;; if b then Some (Some index) else remove_scan r x (S index)
    end.
  Definition remove_impl_l (l : list (option A)) (x : A) : option (list (option A)) :=
    r <- remove_scan l x 0 ;;
    Some (match r with Some i => remove_at_impl l (Z.of_nat i) | None => l end).
  Definition remove_spec_l (l : list (option A)) (x : A) : option (list (option A)) :=
    indexes <- find_spec l x ;;
    Some (match indexes with [] => l | i :: _ => C08.Model.remove_at_spec l (Z.of_nat i) end).

  (** KNOWN CLASS (member, remove): the first element equal to x is followed by an element whose
      evaluation or comparison fails — the definition (count / find) evaluates it, the code has
      already returned *)
  Fixpoint err_after_match (l : list (option A)) (x : A) : bool :=
    match l with
    | [] => false
    | t :: r =>
        match eqt x t with
        | None => false
        | Some true => existsb (fun t' => negb (defined (eqt x t'))) r
        | Some false => err_after_match r x
        end
    end.

  (** val.rs equals, array arm, after the length test: for (a, b) in a.iter().zip(b.iter())
      { if !equals(&a?, &b?)? { return Ok(false) } } Ok(true) *)
  Fixpoint eq_loop (a b : list (option A)) : option bool :=
    match a, b with
    | ta :: a', tb :: b' => x <- ta ;; y <- tb ;; e <- eqa x y ;; if negb e then Some false else eq_loop a' b'
    | _, _ => Some true
    end.
  Definition arr_equals_impl (a b : list (option A)) : option bool :=
    if negb (length a =? length b) then Some false else eq_loop a b.
  (** std.jsonnet equals: la != length(b) -> false; aux(i) = if i >= la then true
      else if a[i] != b[i] then false else aux(i + 1) *)
  Fixpoint eq_aux (a b : list (option A)) (n i : nat) : option bool :=
    match n with
    | O => Some true
    | S m =>
        match nth_error a i, nth_error b i with
        | Some ta, Some tb => x <- ta ;; y <- tb ;; e <- eqa x y ;; if negb e then Some false else eq_aux a b m (S i)
        | _, _ => None
        end
    end.
  Definition arr_equals_spec (a b : list (option A)) : option bool :=
    if negb (length a =? length b) then Some false else eq_aux a b (length a) 0.

  (** misc.rs builtin_starts_with / builtin_ends_with, (Arr, Arr) arm *)
  Definition starts_with_impl (a b : list (option A)) : option bool :=
    if length a <? length b then Some false
    else if length b =? length a then arr_equals_impl a b
    else eq_loop (firstn (length b) a) b.                 (* a.iter().take(b.len()).zip(b.iter()) *)
  Definition ends_with_impl (a b : list (option A)) : option bool :=
    if length a <? length b then Some false
    else if length b =? length a then arr_equals_impl a b
    else eq_loop (skipn (length a - length b) a) b.      (* a.iter().skip(a_len - b.len()).zip(b.iter()) *)
  Definition starts_with_spec (a b : list (option A)) : option bool :=
    if length a <? length b then Some false
    else arr_equals_spec (firstn (length b) a) b.         (* a[0:length(b)] == b *)
  Definition ends_with_spec (a b : list (option A)) : option bool :=
    if length a <? length b then Some false
    else arr_equals_spec (skipn (length a - length b) a) b.
End Scans.

(* ================================================================================= *)
(** * folds and map: the callback is a function of the element THUNK *)
Section Folds.
  Context {A B : Type}.
  Variable fl : B -> option A -> option B.      (* func(running, arr[idx]) *)
  Variable fr : option A -> B -> option B.      (* func(arr[idx], running) *)

  (** builtin_foldl (since fix 762ca42): for i in arr.iter_lazy() { acc = func.call(acc, i)?; } — the
      element THUNK is handed to the function *)
  Fixpoint foldl_impl (l : list (option A)) (acc : B) : option B :=
    match l with
    | [] => Some acc
    | t :: r => a <- fl acc t ;; foldl_impl r a
    end.
  (** builtin_foldr: arr.iter_lazy().rev() *)
  Definition foldr_impl (l : list (option A)) (acc : B) : option B :=
    fold_left (fun (o : option B) t => a <- o ;; fr t a) (rev l) (Some acc).

  (** HISTORICAL (before 762ca42): `func.call(acc, i?)` forced the element first *)
  Fixpoint foldl_impl_old (l : list (option A)) (acc : B) : option B :=
    match l with
    | [] => Some acc
    | t :: r => v <- t ;; a <- fl acc (Some v) ;; foldl_impl_old r a
    end.
  Definition foldr_impl_old (l : list (option A)) (acc : B) : option B :=
    fold_left (fun (o : option B) t => a <- o ;; v <- t ;; fr (Some v) a) (rev l) (Some acc).

  Fixpoint foldl_aux (arr : list (option A)) (n idx : nat) (running : B) : option B :=
    match n with
    | O => Some running
    | S m =>
        match nth_error arr idx with
        | None => None
        | Some t => a <- fl running t ;; foldl_aux arr m (S idx) a
        end
    end.
  Definition foldl_spec (arr : list (option A)) (init : B) : option B := foldl_aux arr (length arr) 0 init.
  (** aux(.., idx) = if idx < 0 then running else aux(.., func(arr[idx], running), idx - 1);
      [n] = idx + 1 *)
  Fixpoint foldr_aux (arr : list (option A)) (n : nat) (running : B) : option B :=
    match n with
    | O => Some running
    | S idx =>
        match nth_error arr idx with
        | None => None
        | Some t => a <- fr t running ;; foldr_aux arr idx a
        end
    end.
  Definition foldr_spec (arr : list (option A)) (init : B) : option B := foldr_aux arr (length arr) init.

  (** KNOWN CLASS (minArray / maxArray; until 762ca42 / 9dc676b also foldl, foldr, map): an element whose
      evaluation fails — array_top1 forces it (`item?`) before calling keyF, the definition hands keyF a thunk *)
  Definition has_failing (l : list (option A)) : bool := existsb (fun t => negb (defined t)) l.
End Folds.

Section MapRev.
  Context {A B : Type}.
  Variable f : option A -> option B.            (* func(arr[i]) as a function of the thunk *)
  (** builtin_map -> MappedArray::get(i) (since fix 9dc676b): evaluate(i, self.inner.get_lazy(i)) — the
      mapper gets the element's thunk; the result is an array of thunks *)
  Definition map_impl (l : list (option A)) : list (option B) := map f l.
  (** HISTORICAL (before 9dc676b): self.inner.get(i) (forced) .and_then(|r| evaluate(i, r)) *)
  Definition map_impl_old (l : list (option A)) : list (option B) :=
    map (fun t => v <- t ;; f (Some v)) l.
  Definition make_array {X} (n : nat) (g : nat -> X) : list X := map g (seq 0 n).
  Definition map_spec (l : list (option A)) : list (option B) :=
    make_array (length l) (fun i => match nth_error l i with Some t => f t | None => None end).

  (** builtin_reverse -> ReverseArray::get_lazy(index): index >= len -> None,
      else inner.get_lazy(len - index - 1) *)
  Definition reverse_get (l : list A) (index : nat) : option A :=
    if length l <=? index then None else nth_error l (length l - index - 1).
  Definition reverse_impl (l : list A) : list (option A) := make_array (length l) (reverse_get l).
  Definition reverse_spec (l : list A) : list (option A) :=
    make_array (length l) (fun i => nth_error l (length l - i - 1)).
End MapRev.

(* ================================================================================= *)
(** * mapWithIndex / filter / filterMap / flatMap over thunks *)
Section MapFilterFlat.
  Context {A B : Type}.
  Variable fi : nat -> option A -> option B.     (* func(i, arr[i]) *)
  Variable f : option A -> option B.             (* map_func(x) *)
  Variable p : option A -> option bool.          (* filter_func(x): FilterFunc = NativeFn!((Thunk<Val>) -> bool) *)

  (** builtin_map_with_index -> MappedArray (ArrayMapper::WithIndex): element i = f.call(index, inner.get_lazy(i)) *)
  Fixpoint mapi_impl (i : nat) (l : list (option A)) : list (option B) :=
    match l with [] => [] | t :: r => fi i t :: mapi_impl (S i) r end.
  (** std.jsonnet: std.makeArray(std.length(arr), function(i) func(i, arr[i])) *)
  Definition mapi_spec (l : list (option A)) : list (option B) :=
    make_array (length l) (fun i => match nth_error l i with Some t => fi i t | None => None end).

  (** ArrValue::filter BEFORE the repair of this session (kept as [filter_impl_old]): first an EAGER pass over
      self.iter() — a failing element leaves it (`break 'eager`), a failing predicate returns the error — then, if
      left, the lazy pass over iter_lazy() from the start.  Its RESULT equals the definition (proved below), but the
      eager pass forced every element although neither the predicate nor the consumer needed it (seen by C03:
      std.length(std.filter(function(x) true, [std.trace(..), ..])) printed the trace); since the fix the function
      is the lazy pass alone. *)
  Inductive eager_res := EBreak | EErr | EOk (out : list (option A)).
  Fixpoint filter_eager (l : list (option A)) : eager_res :=
    match l with
    | [] => EOk []
    | None :: _ => EBreak
    | Some v :: r =>
        match p (Some v) with
        | None => EErr
        | Some b => match filter_eager r with
                    | EOk out => EOk (if b then Some v :: out else out)
                    | e => e
                    end
        end
    end.
  Definition filter_impl_old (l : list (option A)) : option (list (option A)) :=
    match filter_eager l with
    | EOk out => Some out
    | EErr => None
    | EBreak => filter_strict p l
    end.
  (** ArrValue::filter as it is now: `for i in self.iter_lazy() { if filter.call(i.clone())? { out.push(i) } }` *)
  Fixpoint filter_impl (l : list (option A)) : option (list (option A)) :=
    match l with
    | [] => Some []
    | t :: r =>
        match p t with
        | None => None
        | Some b => match filter_impl r with
                    | None => None
                    | Some out => Some (if b then t :: out else out)
                    end
        end
    end.
  (** SPEC std.filter (native in the reference implementations): the predicate is applied to every
      element, in order; the kept elements stay thunks *)
  Definition filter_spec (l : list (option A)) : option (list (option A)) := filter_strict p l.

  (** builtin_filter_map: arr.filter(filter_func)?.map(map_func);
      std.jsonnet: std.map(map_func, std.filter(filter_func, arr)) *)
  Definition filter_map_impl (l : list (option A)) : option (list (option B)) :=
    r <- filter_impl l ;; Some (map_impl f r).
  Definition filter_map_spec (l : list (option A)) : option (list (option B)) :=
    r <- filter_spec l ;; Some (map_spec f r).

  (** builtin_flatmap, array arm (since fix 9d0c0a4).  The function's result: [None] an error (or a value that
      is neither an array nor null), [Some None] null, [Some (Some o)] an array of thunks. *)
  Variable ff : option A -> option (option (list (option B))).
  Fixpoint flatmap_impl (l : list (option A)) : option (list (option B)) :=
    match l with
    | [] => Some []
    | el :: r =>
        o <- ff el ;; rest <- flatmap_impl r ;;
        Some (match o with Some items => items ++ rest | None => rest end)
    end.
  (** std.jsonnet: std.flattenArrays(std.makeArray(std.length(arr), function(i) func(arr[i]))),
      flattenArrays = foldl(function(a, b) a + b, arrs, []): every func(arr[i]) is evaluated, in order, and
      must be an array (`[] + null` is an error) *)
  Fixpoint flatten_strict (arrs : list (option (option (list (option B))))) (a : list (option B)) : option (list (option B)) :=
    match arrs with
    | [] => Some a
    | t :: r => o <- t ;; b <- o ;; flatten_strict r (a ++ b)
    end.
  Definition flatmap_spec (l : list (option A)) : option (list (option B)) :=
    flatten_strict (make_array (length l) (fun i => match nth_error l i with Some t => ff t | None => None end)) [].
  (** outside the documented domain (jrsonnet's own extension): the function returns null *)
  Definition returns_null (l : list (option A)) : bool :=
    existsb (fun t => match ff t with Some None => true | _ => false end) l.
End MapFilterFlat.

(* ================================================================================= *)
(** * minArray / maxArray *)
Section Top1.
  Context {A K : Type}.
  Variable keyl : option A -> option K.           (* keyF(a) as a function of the thunk *)
  Variable cmp : K -> K -> option comparison.     (* evaluate_compare_op / std.__compare *)

  Definition cmp_is (c want : comparison) : bool :=
    match c, want with Lt, Lt | Gt, Gt | Eq, Eq => true | _, _ => false end.

  (** sort.rs array_top1: the loop after the first element *)
  Fixpoint top1_loop (ordering : comparison) (l : list (option A)) (min : A) (min_key : K) : option A :=
    match l with
    | [] => Some min
    | item :: r =>
        cur <- item ;; cur_key <- keyl (Some cur) ;; c <- cmp cur_key min_key ;;
        if cmp_is c ordering then top1_loop ordering r cur cur_key else top1_loop ordering r min min_key
    end.
  (** builtin_min_array (ordering = Lt) / builtin_max_array (Gt); [on_empty]: None = parameter
      omitted ("expected non-empty array"), Some t = the onEmpty thunk *)
  Definition top1_impl (ordering : comparison) (l : list (option A)) (on_empty : option (option A)) : option A :=
    match l with
    | [] => match on_empty with Some t => t | None => None end
    | first :: r => min <- first ;; min_key <- keyl (Some min) ;; top1_loop ordering r min min_key
    end.

  (** minFn(a, b) = if std.__compare(keyF(a), keyF(b)) > 0 then b else a  ([want] = Gt; max: Lt);
      foldl is tailstrict in the new accumulator, so the chosen thunk is forced *)
  Definition pick (want : comparison) (a b : option A) : option A :=
    ka <- keyl a ;; kb <- keyl b ;; c <- cmp ka kb ;; if cmp_is c want then b else a.
  Fixpoint top1_fold (want : comparison) (l : list (option A)) (running : option A) : option A :=
    match l with
    | [] => running
    | b :: r => v <- pick want running b ;; top1_fold want r (Some v)
    end.
  (** foldl(minFn, arr, arr[0]): the first element is compared with itself *)
  Definition top1_spec (want : comparison) (l : list (option A)) (on_empty : option (option A)) : option A :=
    match l with
    | [] => match on_empty with Some t => t | None => None end
    | first :: _ => top1_fold want l first
    end.

  (** KNOWN CLASS: the key of the first element does not compare with itself (null, booleans,
      objects, functions): the definition fails in foldl's first step, the code never makes that
      comparison *)
  Definition first_key_incomparable (l : list (option A)) : bool :=
    match l with
    | Some v :: _ => match keyl (Some v) with
                     | Some k => negb (defined (cmp k k))
                     | None => false
                     end
    | _ => false
    end.
End Top1.

(* ================================================================================= *)
(** * concrete instance for the correspondence check: elements are [option val] *)
Definition eqv (a b : val) : option bool := Some (eq_val a b).

(** two-argument functions of the lazy pool; Jsonnet text in props/c10.py LFN2_JS *)
Inductive lfn2 :=
| L2Fst      (* function(p, q) p                          — never looks at q *)
| L2Snd      (* function(p, q) q                          — never looks at p *)
| L2Add      (* function(p, q) if std.isNumber(p) && std.isNumber(q) then p + q else error "add" *)
| L2Err.     (* function(p, q) error "boom" *)
Definition lapply2 (f : lfn2) (p q : option val) : option val :=
  match f with
  | L2Fst => p
  | L2Snd => q
  | L2Add => a <- p ;; b <- q ;; add_num a b
  | L2Err => None
  end.
(** one-argument functions of Model.fn applied to a thunk: FConst / FTrue / FErr never force it *)
Definition lapply (f : fn) (t : option val) : option val :=
  match f with
  | FConst => Some (VNum 7)
  | FTrue => Some (VBool true)
  | FErr => None
  | _ => v <- t ;; apply f v
  end.
Definition lpred (f : fn) (t : option val) : option bool := v <- lapply f t ;; as_bool v.
(** functions for std.flatMap; Jsonnet text in props/c10.py LFM_JS *)
Inductive lfm :=
| LMWrap      (* function(x) [x]                — the element stays a thunk *)
| LMDup       (* function(x) [x, x] *)
| LMEmpty     (* function(x) [] *)
| LMErrElem   (* function(x) [error "boom"]     — an array with a failing element *)
| LMIfNum     (* function(x) if std.isNumber(x) then [x] else []     — evaluates x *)
| LMErr       (* function(x) error "boom" *)
| LMNum.      (* function(x) 1                  — not an array *)
Definition lflat (g : lfm) (t : option val) : option (option (list (option val))) :=
  match g with
  | LMWrap => Some (Some [t])
  | LMDup => Some (Some [t; t])
  | LMEmpty => Some (Some [])
  | LMErrElem => Some (Some [None])
  | LMIfNum => v <- t ;; Some (Some (if is_num v then [Some v] else []))
  | LMErr => None
  | LMNum => None
  end.
Definition lkeyfn (k : option fn) (t : option val) : option val :=
  match k with None => t | Some f => lapply f t end.

Inductive lcall :=
| LAny (l : list (option val))
| LAll (l : list (option val))
| LCount (l : list (option val)) (x : val)
| LMember (l : list (option val)) (x : val)
| LContains (l : list (option val)) (x : val)
| LFind (x : val) (l : list (option val))
| LRemove (l : list (option val)) (x : val)
| LFoldl (f : lfn2) (l : list (option val)) (init : val)
| LFoldr (f : lfn2) (l : list (option val)) (init : val)
| LMap (f : fn) (l : list (option val))
| LMapWithIndex (f : lfn2) (l : list (option val))
| LFilter (p : fn) (l : list (option val))
| LFilterMap (p f : fn) (l : list (option val))
| LFlatMap (g : lfm) (l : list (option val))
| LReverse (l : list (option val))
| LMinArray (l : list (option val)) (k : option fn) (on_empty : option (option val))
| LMaxArray (l : list (option val)) (k : option fn) (on_empty : option (option val))
| LStartsWith (a b : list (option val))
| LEndsWith (a b : list (option val)).

(** outcome: a value, or an array of thunks (observed element by element) *)
Inductive lout := LV (v : val) | LA (l : list (option val)).
Definition lbool (o : option bool) : option lout := b <- o ;; Some (LV (VBool b)).
Definition lnat (o : option nat) : option lout := n <- o ;; Some (LV (VNum (Z.of_nat n))).
Definition lval (o : option val) : option lout := v <- o ;; Some (LV v).
Definition larr (o : option (list (option val))) : option lout := l <- o ;; Some (LA l).
Definition lidx (o : option (list nat)) : option lout :=
  l <- o ;; Some (LV (VArr (map (fun i => VNum (Z.of_nat i)) l))).
(** ReverseArray hands out the inner thunks: flatten [option (option val)] *)
Definition jn (t : option (option val)) : option val := match t with Some t' => t' | None => None end.

Definition limpl (c : lcall) : option lout :=
  match c with
  | LAny l => lbool (any_impl as_bool l)
  | LAll l => lbool (all_impl as_bool l)
  | LCount l x => lnat (count_impl eqv l x 0)
  | LMember l x => lbool (member_impl eqv l x)
  | LContains l x => lbool (contains_impl eqv l x)
  | LFind x l => lidx (find_impl eqv l x 0)
  | LRemove l x => larr (remove_impl_l eqv l x)
  | LFoldl f l init => lval (foldl_impl (fun acc t => lapply2 f (Some acc) t) l init)
  | LFoldr f l init => lval (foldr_impl (fun t acc => lapply2 f t (Some acc)) l init)
  | LMap f l => Some (LA (map_impl (lapply f) l))
  | LMapWithIndex f l => Some (LA (mapi_impl (fun i t => lapply2 f (Some (VNum (Z.of_nat i))) t) 0 l))
  | LFilter p l => larr (filter_impl (lpred p) l)
  | LFilterMap p f l => larr (filter_map_impl (lapply f) (lpred p) l)
  | LFlatMap g l => larr (flatmap_impl (lflat g) l)
  | LReverse l => Some (LA (map jn (reverse_impl l)))
  | LMinArray l k oe => lval (top1_impl (lkeyfn k) cmp_val Lt l oe)
  | LMaxArray l k oe => lval (top1_impl (lkeyfn k) cmp_val Gt l oe)
  | LStartsWith a b => lbool (starts_with_impl eqv a b)
  | LEndsWith a b => lbool (ends_with_impl eqv a b)
  end.
Definition lspec (c : lcall) : option lout :=
  match c with
  | LAny l => lbool (any_spec as_bool l)
  | LAll l => lbool (all_spec as_bool l)
  | LCount l x => lnat (count_spec eqv l x)
  | LMember l x => lbool (member_spec eqv l x)
  | LContains l x => lbool (contains_spec eqv l x)
  | LFind x l => lidx (find_spec eqv l x)
  | LRemove l x => larr (remove_spec_l eqv l x)
  | LFoldl f l init => lval (foldl_spec (fun acc t => lapply2 f (Some acc) t) l init)
  | LFoldr f l init => lval (foldr_spec (fun t acc => lapply2 f t (Some acc)) l init)
  | LMap f l => Some (LA (map_spec (lapply f) l))
  | LMapWithIndex f l => Some (LA (mapi_spec (fun i t => lapply2 f (Some (VNum (Z.of_nat i))) t) l))
  | LFilter p l => larr (filter_spec (lpred p) l)
  | LFilterMap p f l => larr (filter_map_spec (lapply f) (lpred p) l)
  | LFlatMap g l => larr (flatmap_spec (lflat g) l)
  | LReverse l => Some (LA (map jn (reverse_spec l)))
  | LMinArray l k oe => lval (top1_spec (lkeyfn k) cmp_val Gt l oe)
  | LMaxArray l k oe => lval (top1_spec (lkeyfn k) cmp_val Lt l oe)
  | LStartsWith a b => lbool (starts_with_spec eqv a b)
  | LEndsWith a b => lbool (ends_with_spec eqv a b)
  end.

(** the known classes, as numbers for the checker: 0 = none,
    1 = C10-member-remove-stop-at-first-match, 2 = C10-callback-element-forced (minArray / maxArray only
    since 762ca42 / 9dc676b), 3 = C10-minarray-first-key-not-compared *)
Definition lknown (c : lcall) : nat :=
  match c with
  | LMember l x | LRemove l x => if err_after_match eqv l x then 1 else 0
  | LMinArray l k _ | LMaxArray l k _ =>
      if has_failing l then 2 else if first_key_incomparable (lkeyfn k) cmp_val l then 3 else 0
  | _ => 0
  end.

Definition lrun_case (c : lcall) : option lout * option lout * nat := (lspec c, limpl c, lknown c).
