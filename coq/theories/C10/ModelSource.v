(** C10, part "Source": glue between the functions translated from the Rust text (Gen/GenSets.v, written by
    translator/gens/setops.py from crates/jrsonnet-stdlib/src/sets.rs and arrays.rs on every run) and the hand
    models of C10/Model.v.  Definitions only; proofs in ProofsSource.v. *)
From Coq Require Import List ZArith Bool.
From JrV Require Import C10.Model Gen.GenSets.
Import ListNotations.
Open Scope nat_scope.

(** the hand models answer [option]: None = a Jsonnet error.  They have no panic and no fuel outcome, so
    "translated = of_opt hand" also says: the translated loops never panic and never run out of fuel. *)
Definition of_opt {X} (o : option X) : sres X := match o with Some x => SOk x | None => SErr end.

(** a total key function / total order seen as the fallible ones the code works with *)
Definition tot1 {A K} (key : A -> K) : A -> option K := fun x => Some (key x).
Definition tot2 {K} (c : K -> K -> comparison) : K -> K -> option comparison := fun x y => Some (c x y).

Section State.
  Context {A K : Type}.
  Variable keyf : A -> option K.
  (** the loop state of the three merges when [la] / [lb] (heads included) are still to be merged: the heads
      have been taken out of the iterators and their keys evaluated *)
  Definition hkey (l : list A) : option K := match l with [] => None | x :: _ => keyf x end.
  Definition hok (l : list A) : Prop := match l with [] => True | x :: _ => keyf x <> None end.
  Definition mst (la lb o : list A) := (tl la, tl lb, hd_error la, hd_error lb, hkey la, hkey lb, o).
End State.

(** removeAt's `at` is an i32 *)
Definition i32_range (z : Z) : Prop := (- 2 ^ 31 <= z <= 2 ^ 31 - 1)%Z.
