(** C10, part "Source": the translated merges / removeAt equal the hand models, for all inputs. *)
From Coq Require Import List ZArith Bool Lia.
From JrV Require Import C10.Model C10.Proofs Gen.GenSets C10.ModelSource.
Import ListNotations.
Open Scope nat_scope.

Ltac brk :=
  repeat match goal with
  | H : ?x <> ?x |- _ => exfalso; apply H; reflexivity
  | |- context [match ?x with _ => _ end] =>
      match type of x with
      | option _ => destruct x eqn:?
      | comparison => destruct x eqn:?
      | list _ => destruct x eqn:?
      end; cbn in *; try congruence
  end.

Section Src.
  Context {A K : Type}.
  Variable keyf : A -> option K.
  Variable cmp : K -> K -> option comparison.

  Lemma sbind_ext {X Y} (r : sres X) (f g : X -> sres Y) : (forall x, f x = g x) -> sbind r f = sbind r g.
  Proof. intros H. destruct r; cbn; auto. Qed.

  Lemma app_cons_assoc (o : list A) x r : (o ++ [x]) ++ r = o ++ x :: r.
  Proof. rewrite <- app_assoc. reflexivity. Qed.

  (** the tail loop over the a side: appends every remaining element of [la], evaluating every key *)
  Lemma union_loop2 : forall f la (lb' : list A) (bv : option A) (bk : option K) o,
    length la < f -> hok keyf la ->
    sloop f (gen_set_union_loop2 keyf) (tl la, lb', hd_error la, bv, hkey keyf la, bk, o) =
    match union_impl keyf cmp la [] with
    | Some r => SOk ([], lb', None, bv, None, bk, o ++ r)
    | None => SErr
    end.
  Proof.
    induction f; intros la lb' bv bk o L H. { inversion L. }
    destruct la as [|x a'].
    - cbn. rewrite app_nil_r. reflexivity.
    - cbn in H. cbn [sloop gen_set_union_loop2 tl hd_error hkey].
      destruct (keyf x) as [kx|] eqn:E; [|congruence].
      cbn [expect sbind].
      destruct a' as [|x' a''].
      + cbn [it_next key_of sbind].
        specialize (IHf [] lb' bv bk (o ++ [x])). cbn [tl hd_error hkey] in IHf.
        rewrite IHf; [|cbn in *; lia|exact I]. cbn. rewrite E. cbn. rewrite app_nil_r. reflexivity.
      + cbn [it_next key_of].
        specialize (IHf (x' :: a'') lb' bv bk (o ++ [x])). cbn [tl hd_error hkey] in IHf.
        destruct (keyf x') as [kx'|] eqn:E'.
        * cbn [sbind]. rewrite IHf; [|cbn in *; lia|cbn; congruence].
          cbn. rewrite E, E'. cbn.
          destruct (union_impl keyf cmp a'' []); cbn; [rewrite app_cons_assoc|]; reflexivity.
        * cbn. rewrite E, E'. reflexivity.
  Qed.

  Lemma union_nil_cons y b' : union_impl keyf cmp [] (y :: b') =
    (_ <- keyf y ;; r <- union_impl keyf cmp [] b' ;; Some (y :: r)).
  Proof. reflexivity. Qed.

  Lemma union_cons_cons x a' y b' : union_impl keyf cmp (x :: a') (y :: b') =
    (kx <- keyf x ;; ky <- keyf y ;; c <- cmp kx ky ;;
     match c with
     | Lt => r <- union_impl keyf cmp a' (y :: b') ;; Some (x :: r)
     | Gt => r <- union_impl keyf cmp (x :: a') b' ;; Some (y :: r)
     | Eq => r <- union_impl keyf cmp a' b' ;; Some (x :: r)
     end).
  Proof. reflexivity. Qed.

  Lemma union_loop3 : forall f lb (la' : list A) (av : option A) (ak : option K) o,
    length lb < f -> hok keyf lb ->
    sloop f (gen_set_union_loop3 keyf) (la', tl lb, av, hd_error lb, ak, hkey keyf lb, o) =
    match union_impl keyf cmp [] lb with
    | Some r => SOk (la', [], av, None, ak, None, o ++ r)
    | None => SErr
    end.
  Proof.
    induction f; intros lb la' av ak o L H. { inversion L. }
    destruct lb as [|x a'].
    - cbn. rewrite app_nil_r. reflexivity.
    - cbn in H. cbn [sloop gen_set_union_loop3 tl hd_error hkey].
      destruct (keyf x) as [kx|] eqn:E; [|congruence].
      cbn [expect sbind].
      destruct a' as [|x' a''].
      + cbn [it_next key_of sbind].
        specialize (IHf [] la' av ak (o ++ [x])). cbn [tl hd_error hkey] in IHf.
        rewrite IHf; [|cbn in *; lia|exact I]. rewrite !union_nil_cons. rewrite E. cbn. rewrite app_nil_r. reflexivity.
      + cbn [it_next key_of].
        specialize (IHf (x' :: a'') la' av ak (o ++ [x])). cbn [tl hd_error hkey] in IHf.
        destruct (keyf x') as [kx'|] eqn:E'.
        * cbn [sbind]. rewrite IHf; [|cbn in *; lia|cbn; congruence].
          rewrite !union_nil_cons. rewrite E, E'. cbn [bind].
          destruct (union_impl keyf cmp [] a''); cbn; [rewrite app_cons_assoc|]; reflexivity.
        * rewrite !union_nil_cons. rewrite E, E'. reflexivity.
  Qed.

  Definition union_rest (f2 f3 : nat) (s : list A * list A * option A * option A * option K * option K * list A) : sres (list A) :=
    sbind (sloop f2 (gen_set_union_loop2 keyf) s) (fun s2 =>
    sbind (sloop f3 (gen_set_union_loop3 keyf) s2) (fun '(_, _, _, _, _, _, out) => SOk out)).

  Lemma union_main : forall f la lb o f2 f3,
    length la + length lb < f -> length la + length lb < f2 -> length la + length lb < f3 ->
    hok keyf la -> hok keyf lb ->
    sbind (sloop f (gen_set_union_loop1 keyf cmp) (mst keyf la lb o)) (union_rest f2 f3) =
    match union_impl keyf cmp la lb with Some r => SOk (o ++ r) | None => SErr end.
  Proof.
    induction f; intros la lb o f2 f3 L L2 L3 Ha Hb. { inversion L. }
    unfold union_rest, mst in *.
    destruct la as [|x a'], lb as [|y b'].
    - destruct f2; [inversion L2|]. destruct f3; [inversion L3|]. cbn. rewrite app_nil_r. reflexivity.
    - cbn in Hb. cbn [mst sloop gen_set_union_loop1 tl hd_error hkey sbind union_rest].
      destruct f2; [inversion L2|]. cbn [sloop gen_set_union_loop2 sbind].
      pose proof (union_loop3 f3 (y :: b') [] None None o) as T. cbn [tl hd_error hkey] in T.
      rewrite T; [|cbn in *; lia|exact Hb].
      destruct (union_impl keyf cmp [] (y :: b')); reflexivity.
    - cbn in Ha. cbn [mst sloop gen_set_union_loop1 tl hd_error hkey].
      destruct (keyf x) as [kx|] eqn:E; [|congruence]. cbn [sbind union_rest].
      pose proof (union_loop2 f2 (x :: a') [] None None o) as T. cbn [tl hd_error hkey] in T. rewrite E in T.
      rewrite T; [|cbn in *; lia|cbn; congruence].
      destruct (union_impl keyf cmp (x :: a') []); [|reflexivity].
      cbn [sbind]. destruct f3; [inversion L3|]. reflexivity.
    - cbn in Ha, Hb. cbn [mst sloop gen_set_union_loop1 tl hd_error hkey].
      destruct (keyf x) as [kx|] eqn:E; [|congruence].
      destruct (keyf y) as [ky|] eqn:Ey; [|congruence].
      unfold cmp_of. rewrite union_cons_cons. rewrite E, Ey. cbn [bind].
      destruct (cmp kx ky) as [c|] eqn:Ec; [|reflexivity].
      cbn [sbind bind]. destruct c.
      + (* Eq: push a's element, advance both *)
        cbn [expect sbind].
        destruct a' as [|x' a'']; cbn [it_next key_of];
          [|destruct (keyf x') as [kx'|] eqn:E'; [|cbn; destruct b'; cbn; rewrite ?E'; reflexivity]];
          cbn [sbind];
          (destruct b' as [|y' b'']; cbn [it_next key_of];
           [|destruct (keyf y') as [ky'|] eqn:Ey'; [|cbn; rewrite ?E', ?Ey'; reflexivity]]);
          cbn [sbind].
        * specialize (IHf [] [] (o ++ [x]) f2 f3). cbn [mst tl hd_error hkey] in IHf.
          rewrite IHf; [|cbn in *; lia..|exact I|exact I]. cbn. rewrite app_cons_assoc. reflexivity.
        * specialize (IHf [] (y' :: b'') (o ++ [x]) f2 f3). cbn [mst tl hd_error hkey] in IHf. rewrite Ey' in IHf.
          rewrite IHf; [|cbn in *; lia..|exact I|cbn; congruence].
          destruct (union_impl keyf cmp [] (y' :: b'')); cbn; [rewrite app_cons_assoc|]; reflexivity.
        * specialize (IHf (x' :: a'') [] (o ++ [x]) f2 f3). cbn [mst tl hd_error hkey] in IHf. rewrite E' in IHf.
          rewrite IHf; [|cbn in *; lia..|cbn; congruence|exact I].
          destruct (union_impl keyf cmp (x' :: a'') []); cbn; [rewrite app_cons_assoc|]; reflexivity.
        * specialize (IHf (x' :: a'') (y' :: b'') (o ++ [x]) f2 f3). cbn [mst tl hd_error hkey] in IHf.
          rewrite E', Ey' in IHf.
          rewrite IHf; [|cbn in *; lia..|cbn; congruence|cbn; congruence].
          destruct (union_impl keyf cmp (x' :: a'') (y' :: b'')); cbn; [rewrite app_cons_assoc|]; reflexivity.
      + (* Lt: push a's element, advance a *)
        cbn [expect sbind].
        destruct a' as [|x' a'']; cbn [it_next key_of];
          [|destruct (keyf x') as [kx'|] eqn:E'; [|cbn; rewrite ?E'; reflexivity]]; cbn [sbind].
        * specialize (IHf [] (y :: b') (o ++ [x]) f2 f3). cbn [mst tl hd_error hkey] in IHf. rewrite Ey in IHf.
          rewrite IHf; [|cbn in *; lia..|exact I|cbn; congruence].
          destruct (union_impl keyf cmp [] (y :: b')); cbn; [rewrite app_cons_assoc|]; reflexivity.
        * specialize (IHf (x' :: a'') (y :: b') (o ++ [x]) f2 f3). cbn [mst tl hd_error hkey] in IHf.
          rewrite E', Ey in IHf.
          rewrite IHf; [|cbn in *; lia..|cbn; congruence|cbn; congruence].
          destruct (union_impl keyf cmp (x' :: a'') (y :: b')); cbn; [rewrite app_cons_assoc|]; reflexivity.
      + (* Gt: push b's element, advance b *)
        cbn [expect sbind].
        destruct b' as [|y' b'']; cbn [it_next key_of];
          [|destruct (keyf y') as [ky'|] eqn:Ey'; [|cbn; rewrite ?E, ?Ey'; reflexivity]]; cbn [sbind].
        * specialize (IHf (x :: a') [] (o ++ [y]) f2 f3). cbn [mst tl hd_error hkey] in IHf. rewrite E in IHf.
          rewrite IHf; [|cbn in *; lia..|cbn; congruence|exact I].
          destruct (union_impl keyf cmp (x :: a') []); cbn; [rewrite app_cons_assoc|]; reflexivity.
        * specialize (IHf (x :: a') (y' :: b'') (o ++ [y]) f2 f3). cbn [mst tl hd_error hkey] in IHf.
          rewrite E, Ey' in IHf.
          rewrite IHf; [|cbn in *; lia..|cbn; congruence|cbn; congruence].
          destruct (union_impl keyf cmp (x :: a') (y' :: b'')); cbn; [rewrite app_cons_assoc|]; reflexivity.
  Qed.


  Theorem gen_union_is_model (a b : list A) : gen_set_union keyf cmp a b = of_opt (union_impl keyf cmp a b).
  Proof.
    pose proof (union_main (S (length a + length b)) a b [] (S (length a + length b)) (S (length a + length b))) as M.
    unfold gen_set_union, it_of, of_opt.
    assert (R : forall s, sbind (sloop (S (length a + length b)) (gen_set_union_loop1 keyf cmp) s)
                 (fun '(r_a, r_b, r_av, r_bv, r_ak, r_bk, r_out) =>
                  sbind (sloop (S (length a + length b)) (gen_set_union_loop2 keyf) (r_a, r_b, r_av, r_bv, r_ak, r_bk, r_out))
                    (fun '(r_a0, r_b0, r_av0, r_bv0, r_ak0, r_bk0, r_out0) =>
                     sbind (sloop (S (length a + length b)) (gen_set_union_loop3 keyf) (r_a0, r_b0, r_av0, r_bv0, r_ak0, r_bk0, r_out0))
                       (fun '(_, _, _, _, _, _, r_out1) => SOk r_out1)))
               = sbind (sloop (S (length a + length b)) (gen_set_union_loop1 keyf cmp) s)
                   (union_rest (S (length a + length b)) (S (length a + length b)))).
    { intros s. apply sbind_ext. intros [[[[[[? ?] ?] ?] ?] ?] ?]. unfold union_rest. apply sbind_ext.
      intros [[[[[[? ?] ?] ?] ?] ?] ?]. reflexivity. }
    unfold mst in M.
    destruct a as [|x a'], b as [|y b']; cbn [it_next key_of hd_error tl hkey hok] in *.
    - cbn [sbind]. rewrite R. rewrite M; auto. 
    - destruct (keyf y) eqn:Ey; cbn [sbind]; [rewrite R, M; auto; congruence|rewrite union_nil_cons, Ey; reflexivity].
    - destruct (keyf x) eqn:E; cbn [sbind]; [rewrite R, M; auto; congruence|cbn; rewrite E; reflexivity].
    - destruct (keyf x) eqn:E; cbn [sbind]; [|rewrite union_cons_cons, E; reflexivity].
      destruct (keyf y) eqn:Ey; cbn [sbind]; [rewrite R, M; auto; congruence|rewrite union_cons_cons, E, Ey; reflexivity].
  Qed.
  (** the tail loop over the a side: appends every remaining element of [la], evaluating every key *)
  Lemma diff_loop2 : forall f la (lb' : list A) (bv : option A) (bk : option K) o,
    length la < f -> hok keyf la ->
    sloop f (gen_set_diff_loop2 keyf) (tl la, lb', hd_error la, bv, hkey keyf la, bk, o) =
    match diff_impl keyf cmp la [] with
    | Some r => SOk ([], lb', None, bv, None, bk, o ++ r)
    | None => SErr
    end.
  Proof.
    induction f; intros la lb' bv bk o L H. { inversion L. }
    destruct la as [|x a'].
    - cbn. rewrite app_nil_r. reflexivity.
    - cbn in H. cbn [sloop gen_set_diff_loop2 tl hd_error hkey].
      destruct (keyf x) as [kx|] eqn:E; [|congruence].
      cbn [expect sbind].
      destruct a' as [|x' a''].
      + cbn [it_next key_of sbind].
        specialize (IHf [] lb' bv bk (o ++ [x])). cbn [tl hd_error hkey] in IHf.
        rewrite IHf; [|cbn in *; lia|exact I]. cbn. rewrite E. cbn. rewrite app_nil_r. reflexivity.
      + cbn [it_next key_of].
        specialize (IHf (x' :: a'') lb' bv bk (o ++ [x])). cbn [tl hd_error hkey] in IHf.
        destruct (keyf x') as [kx'|] eqn:E'.
        * cbn [sbind]. rewrite IHf; [|cbn in *; lia|cbn; congruence].
          cbn. rewrite E, E'. cbn.
          destruct (diff_impl keyf cmp a'' []); cbn; [rewrite app_cons_assoc|]; reflexivity.
        * cbn. rewrite E, E'. reflexivity.
  Qed.


  Lemma diff_cons_cons x a' y b' : diff_impl keyf cmp (x :: a') (y :: b') =
    (kx <- keyf x ;; ky <- keyf y ;; c <- cmp kx ky ;;
     match c with
     | Lt => r <- diff_impl keyf cmp a' (y :: b') ;; Some (x :: r)
     | Gt => diff_impl keyf cmp (x :: a') b'
     | Eq => diff_impl keyf cmp a' b'
     end).
  Proof. reflexivity. Qed.

  Definition diff_rest (f2 : nat) (s : list A * list A * option A * option A * option K * option K * list A) : sres (list A) :=
    sbind (sloop f2 (gen_set_diff_loop2 keyf) s) (fun '(_, _, _, _, _, _, out) => SOk out).

  Lemma diff_main : forall f la lb o f2,
    length la + length lb < f -> length la + length lb < f2 ->
    hok keyf la -> hok keyf lb ->
    sbind (sloop f (gen_set_diff_loop1 keyf cmp) (mst keyf la lb o)) (diff_rest f2) =
    match diff_impl keyf cmp la lb with Some r => SOk (o ++ r) | None => SErr end.
  Proof.
    induction f; intros la lb o f2 L L2 Ha Hb. { inversion L. }
    unfold diff_rest, mst in *.
    destruct la as [|x a'], lb as [|y b'].
    - destruct f2; [inversion L2|]. cbn. rewrite app_nil_r. reflexivity.
    - cbn in Hb. cbn [mst sloop gen_set_diff_loop1 tl hd_error hkey sbind].
      destruct f2; [inversion L2|]. cbn.
      destruct (keyf y); [|congruence]. cbn. rewrite app_nil_r. reflexivity.
    - cbn in Ha. cbn [mst sloop gen_set_diff_loop1 tl hd_error hkey].
      destruct (keyf x) as [kx|] eqn:E; [|congruence]. cbn [sbind].
      pose proof (diff_loop2 f2 (x :: a') [] None None o) as T. cbn [tl hd_error hkey] in T. rewrite E in T.
      rewrite T; [|cbn in *; lia|cbn; congruence].
      destruct (diff_impl keyf cmp (x :: a') []); reflexivity.
    - cbn in Ha, Hb. cbn [mst sloop gen_set_diff_loop1 tl hd_error hkey].
      destruct (keyf x) as [kx|] eqn:E; [|congruence].
      destruct (keyf y) as [ky|] eqn:Ey; [|congruence].
      unfold cmp_of. rewrite diff_cons_cons. rewrite E, Ey. cbn [bind].
      destruct (cmp kx ky) as [c|] eqn:Ec; [|reflexivity].
      cbn [sbind bind]. destruct c.
      + (* Eq: advance both, push nothing *)
        destruct a' as [|x' a'']; cbn [it_next key_of];
          [|destruct (keyf x') as [kx'|] eqn:E'; [|cbn; destruct b'; cbn; rewrite ?E'; reflexivity]];
          cbn [sbind];
          (destruct b' as [|y' b'']; cbn [it_next key_of];
           [|destruct (keyf y') as [ky'|] eqn:Ey'; [|cbn; rewrite ?E', ?Ey'; reflexivity]]);
          cbn [sbind].
        * specialize (IHf [] [] o f2). cbn [mst tl hd_error hkey] in IHf.
          rewrite IHf; [|cbn in *; lia..|exact I|exact I]. reflexivity.
        * specialize (IHf [] (y' :: b'') o f2). cbn [mst tl hd_error hkey] in IHf. rewrite Ey' in IHf.
          rewrite IHf; [|cbn in *; lia..|exact I|cbn; congruence]. reflexivity.
        * specialize (IHf (x' :: a'') [] o f2). cbn [mst tl hd_error hkey] in IHf. rewrite E' in IHf.
          rewrite IHf; [|cbn in *; lia..|cbn; congruence|exact I]. reflexivity.
        * specialize (IHf (x' :: a'') (y' :: b'') o f2). cbn [mst tl hd_error hkey] in IHf.
          rewrite E', Ey' in IHf.
          rewrite IHf; [|cbn in *; lia..|cbn; congruence|cbn; congruence]. reflexivity.
      + (* Lt: in a, not in b: push a's element, advance a *)
        cbn [expect sbind].
        destruct a' as [|x' a'']; cbn [it_next key_of];
          [|destruct (keyf x') as [kx'|] eqn:E'; [|cbn; rewrite ?E'; reflexivity]]; cbn [sbind].
        * specialize (IHf [] (y :: b') (o ++ [x]) f2). cbn [mst tl hd_error hkey] in IHf. rewrite Ey in IHf.
          rewrite IHf; [|cbn in *; lia..|exact I|cbn; congruence].
          destruct (diff_impl keyf cmp [] (y :: b')); cbn; [rewrite app_cons_assoc|]; reflexivity.
        * specialize (IHf (x' :: a'') (y :: b') (o ++ [x]) f2). cbn [mst tl hd_error hkey] in IHf.
          rewrite E', Ey in IHf.
          rewrite IHf; [|cbn in *; lia..|cbn; congruence|cbn; congruence].
          destruct (diff_impl keyf cmp (x' :: a'') (y :: b')); cbn; [rewrite app_cons_assoc|]; reflexivity.
      + (* Gt: advance b *)
        destruct b' as [|y' b'']; cbn [it_next key_of];
          [|destruct (keyf y') as [ky'|] eqn:Ey'; [|cbn; rewrite ?E, ?Ey'; reflexivity]]; cbn [sbind].
        * specialize (IHf (x :: a') [] o f2). cbn [mst tl hd_error hkey] in IHf. rewrite E in IHf.
          rewrite IHf; [|cbn in *; lia..|cbn; congruence|exact I]. reflexivity.
        * specialize (IHf (x :: a') (y' :: b'') o f2). cbn [mst tl hd_error hkey] in IHf.
          rewrite E, Ey' in IHf.
          rewrite IHf; [|cbn in *; lia..|cbn; congruence|cbn; congruence]. reflexivity.
  Qed.

  Theorem gen_diff_is_model (a b : list A) : gen_set_diff keyf cmp a b = of_opt (diff_impl keyf cmp a b).
  Proof.
    pose proof (diff_main (S (length a + length b)) a b [] (S (length a + length b))) as M.
    unfold gen_set_diff, it_of, of_opt.
    assert (R : forall s, sbind (sloop (S (length a + length b)) (gen_set_diff_loop1 keyf cmp) s)
                 (fun '(r_a, r_b, r_av, r_bv, r_ak, r_bk, r_out) =>
                  sbind (sloop (S (length a + length b)) (gen_set_diff_loop2 keyf) (r_a, r_b, r_av, r_bv, r_ak, r_bk, r_out))
                    (fun '(_, _, _, _, _, _, r_out1) => SOk r_out1))
               = sbind (sloop (S (length a + length b)) (gen_set_diff_loop1 keyf cmp) s)
                   (diff_rest (S (length a + length b)))).
    { intros s. apply sbind_ext. intros [[[[[[? ?] ?] ?] ?] ?] ?]. reflexivity. }
    unfold mst in M.
    destruct a as [|x a'], b as [|y b']; cbn [it_next key_of hd_error tl hkey hok] in *.
    - cbn [sbind]. rewrite R. rewrite M; auto.
    - destruct (keyf y) eqn:Ey; cbn [sbind]; [rewrite R, M; auto; congruence|cbn; rewrite Ey; reflexivity].
    - destruct (keyf x) eqn:E; cbn [sbind]; [rewrite R, M; auto; congruence|cbn; rewrite E; reflexivity].
    - destruct (keyf x) eqn:E; cbn [sbind]; [|rewrite diff_cons_cons, E; reflexivity].
      destruct (keyf y) eqn:Ey; cbn [sbind]; [rewrite R, M; auto; congruence|rewrite diff_cons_cons, E, Ey; reflexivity].
  Qed.

  (** removeAt: index conversion, bounds, the two slices *)
  Theorem gen_remove_at_is_model (l : list A) (at_ : Z) :
    i32_range at_ -> (Z.of_nat (length l) < 2 ^ 31)%Z ->
    gen_remove_at l at_ = SOk (remove_at_impl l at_).
  Proof.
    unfold i32_range, gen_remove_at, remove_at_impl, len_z, as_usize, i32_add. intros R Hl.
    destruct (at_ <? 0)%Z eqn:N; [reflexivity|]. apply Z.ltb_ge in N.
    rewrite Z.mod_small by lia. cbn [orb].
    destruct (Z.of_nat (length l) <=? at_)%Z eqn:G; [reflexivity|]. apply Z.leb_gt in G.
    replace ((- 2 ^ 31 <=? at_ + 1) && (at_ + 1 <=? 2 ^ 31 - 1))%Z with true
      by (symmetry; apply andb_true_iff; split; apply Z.leb_le; lia).
    cbn [sbind]. unfold arr_slice, slice_idx.
    replace (at_ + 1 <? 0)%Z with false by (symmetry; apply Z.ltb_ge; lia).
    replace (at_ <? 0)%Z with false by (symmetry; apply Z.ltb_ge; lia).
    rewrite (Nat.min_l (Z.to_nat at_)) by lia. rewrite (Nat.min_l (Z.to_nat (at_ + 1))) by lia.
    f_equal. f_equal.
    - destruct (Nat.leb_spec (Z.to_nat at_) 0) as [Q|Q].
      + replace (Z.to_nat at_) with 0 by lia. reflexivity.
      + rewrite Nat.sub_0_r. reflexivity.
    - destruct (Nat.leb_spec (length l) (Z.to_nat (at_ + 1))) as [Q|Q].
      + rewrite skipn_all2 by lia. reflexivity.
      + rewrite firstn_all2; [reflexivity|]. rewrite skipn_length. lia.
  Qed.
End Src.
