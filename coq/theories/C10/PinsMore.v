(** Statements of the C10 "More" property theorems, pinned: weakening one breaks this file. *)
From Coq Require Import List ZArith NArith Bool Lia.
From JrV Require Import C10.Model C10.Proofs C10.ModelMore C10.ProofsMore C10.PropertiesMore.
Import ListNotations.

Check C10_any_all_refine :
  forall (E : Type) (as_bool : E -> option bool) (l : list (option E)),
    any_impl as_bool l = any_spec as_bool l /\ all_impl as_bool l = all_spec as_bool l.
Check C10_count_find_contains_refine :
  forall (A : Type) (eqa : A -> A -> option bool) (l : list (option A)) (x : A),
    count_impl eqa l x 0 = count_spec eqa l x /\
    find_impl eqa l x 0 = find_spec eqa l x /\
    contains_impl eqa l x = contains_spec eqa l x.
Check C10_member_remove_refine :
  forall (A : Type) (eqa : A -> A -> option bool) (l : list (option A)) (x : A),
    err_after_match eqa l x = false ->
    member_impl eqa l x = member_spec eqa l x /\ remove_impl_l eqa l x = remove_spec_l eqa l x.
Check C10_member_when_definition_defined :
  forall (A : Type) (eqa : A -> A -> option bool) (l : list (option A)) (x : A) (b : bool),
    member_spec eqa l x = Some b -> member_impl eqa l x = Some b.
Check C10_member_remove_refuted :
  exists (l : list (option val)) (x : val),
    err_after_match eqv l x = true /\
    member_impl eqv l x = Some true /\ member_spec eqv l x = None /\
    remove_impl_l eqv l x = Some [None] /\ remove_spec_l eqv l x = None.
Check C10_folds_map_refine :
  forall (A B C : Type) (fl : B -> option A -> option B) (fr : option A -> B -> option B)
         (f : option A -> option C) (l : list (option A)) (acc : B),
    foldl_impl fl l acc = foldl_spec fl l acc /\
    foldr_impl fr l acc = foldr_spec fr l acc /\
    map_impl f l = map_spec f l.
Check C10_callback_forced_old_refuted :
  exists (l : list (option val)) (init : val),
    has_failing l = true /\
    foldl_impl_old (fun acc t => lapply2 L2Fst (Some acc) t) l init = None /\
    foldl_spec (fun acc t => lapply2 L2Fst (Some acc) t) l init = Some init /\
    foldr_impl_old (fun t acc => lapply2 L2Snd t (Some acc)) l init = None /\
    foldr_spec (fun t acc => lapply2 L2Snd t (Some acc)) l init = Some init /\
    map_impl_old (lapply FConst) l = [None] /\ map_spec (lapply FConst) l = [Some (VNum 7)].
Check C10_mapi_filter_refine :
  forall (A B : Type) (fi : nat -> option A -> option B) (f : option A -> option B)
         (p : option A -> option bool) (l : list (option A)),
    mapi_impl fi 0 l = mapi_spec fi l /\
    filter_impl p l = filter_spec p l /\
    filter_map_impl f p l = filter_map_spec f p l.
Check C10_flatmap_refine :
  forall (A B : Type) (ff : option A -> option (option (list (option B)))) (l : list (option A)),
    returns_null ff l = false -> flatmap_impl ff l = flatmap_spec ff l.
Check C10_reverse_refines :
  forall (A : Type) (l : list A),
    reverse_impl l = reverse_spec l /\ reverse_spec l = map (@Some A) (rev l).
Check C10_top1_refines :
  forall (A K : Type) (keyl : option A -> option K) (cmp : K -> K -> option comparison)
         (l : list (option A)) (on_empty : option (option A)),
    (forall a b, cmp b a = option_map CompOpp (cmp a b)) ->
    (forall k c, cmp k k = Some c -> c = Eq) ->
    has_failing l = false -> first_key_incomparable keyl cmp l = false ->
    top1_impl keyl cmp Lt l on_empty = top1_spec keyl cmp Gt l on_empty /\
    top1_impl keyl cmp Gt l on_empty = top1_spec keyl cmp Lt l on_empty.
Check C10_top1_on_empty :
  forall (A K : Type) (keyl : option A -> option K) (cmp : K -> K -> option comparison)
         (ord want : comparison) (on_empty : option (option A)),
    top1_impl keyl cmp ord [] on_empty = top1_spec keyl cmp want [] on_empty.
Check C10_top1_key_forced_refuted :
  exists l : list (option val),
    has_failing l = true /\ first_key_incomparable (lkeyfn (Some FConst)) cmp_val l = false /\
    top1_impl (lkeyfn (Some FConst)) cmp_val Lt l None = None /\
    top1_spec (lkeyfn (Some FConst)) cmp_val Gt l None = Some (VNum 1).
Check C10_top1_first_key_refuted :
  exists l : list (option val),
    has_failing l = false /\ first_key_incomparable (lkeyfn None) cmp_val l = true /\
    top1_impl (lkeyfn None) cmp_val Lt l None = Some VNull /\
    top1_spec (lkeyfn None) cmp_val Gt l None = None.
Check C10_compare_antisym_refl :
  (forall a b, cmp_val b a = option_map CompOpp (cmp_val a b)) /\
  (forall k c, cmp_val k k = Some c -> c = Eq).
Check C10_starts_ends_with_refine :
  forall (A : Type) (eqa : A -> A -> option bool) (a b : list (option A)),
    arr_equals_impl eqa a b = arr_equals_spec eqa a b /\
    starts_with_impl eqa a b = starts_with_spec eqa a b /\
    ends_with_impl eqa a b = ends_with_spec eqa a b.
Check C10_lazy_calls_refine :
  forall c, lknown c = 0 -> limpl c = lspec c.
Check C10_lazy_known_classes_refuted :
  (exists c, lknown c = 1 /\ limpl c <> lspec c) /\
  (exists c, lknown c = 2 /\ limpl c <> lspec c) /\
  (exists c, lknown c = 3 /\ limpl c <> lspec c).

(** the definitions the statements rest on, pinned by evaluation *)
Check eq_refl : any_spec as_bool [Some (VBool false); Some (VBool true); None] = Some true.
Check eq_refl : all_spec as_bool [Some (VBool true); None] = None.
Check eq_refl : count_spec eqv [Some (VNum 1); Some (VNum 2); Some (VNum 1)] (VNum 1) = Some 2.
Check eq_refl : member_spec eqv [Some (VNum 1); None] (VNum 1) = None.
Check eq_refl : member_spec eqv [Some (VNum 2); Some (VNum 1)] (VNum 1) = Some true.
Check eq_refl : contains_spec eqv [Some (VNum 1); None] (VNum 1) = Some true.
Check eq_refl : find_spec eqv [Some (VNum 1); Some (VNum 2); Some (VNum 1)] (VNum 1) = Some [0; 2].
Check eq_refl : remove_spec_l eqv [Some (VNum 2); Some (VNum 1); Some (VNum 1)] (VNum 1) = Some [Some (VNum 2); Some (VNum 1)].
Check eq_refl : remove_spec_l eqv [Some (VNum 1); None] (VNum 1) = None.
Check eq_refl : foldl_spec (fun acc t => lapply2 L2Fst (Some acc) t) [None; None] (VNum 0) = Some (VNum 0).
Check eq_refl : foldr_spec (fun t acc => lapply2 L2Fst t (Some acc)) [Some (VNum 1); Some (VNum 2)] (VNum 0) = Some (VNum 1).
Check eq_refl : map_spec (lapply FConst) [None; Some (VNum 1)] = [Some (VNum 7); Some (VNum 7)].
Check eq_refl : reverse_spec [1; 2; 3] = [Some 3; Some 2; Some 1].
Check eq_refl : top1_spec (lkeyfn None) cmp_val Gt [Some (VNum 2); Some (VNum 1); Some (VNum 1)] None = Some (VNum 1).
Check eq_refl : top1_spec (lkeyfn None) cmp_val Lt [Some (VNum 2); Some (VNum 3); Some (VNum 1)] None = Some (VNum 3).
Check eq_refl : top1_spec (lkeyfn None) cmp_val Gt [Some VNull] None = None.
Check eq_refl : top1_spec (lkeyfn None) cmp_val Gt [] (Some (Some (VNum 5))) = Some (VNum 5).
Check eq_refl : starts_with_spec eqv [Some (VNum 1); None] [Some (VNum 1)] = Some true.
Check eq_refl : ends_with_spec eqv [Some (VNum 1); Some (VNum 2)] [Some (VNum 1)] = Some false.
Check eq_refl : arr_equals_spec eqv [Some (VNum 1); None] [Some (VNum 2); None] = Some false.
Check eq_refl : err_after_match eqv [Some (VNum 1); None] (VNum 1) = true.
Check eq_refl : lknown (LMinArray [Some VNull] None None) = 3.
Check eq_refl : flatmap_spec (lflat LMDup) [None; Some (VNum 1)] = Some [None; None; Some (VNum 1); Some (VNum 1)].
Check eq_refl : flatmap_spec (lflat LMErrElem) [Some (VNum 1)] = Some [None].
Check eq_refl : filter_spec (lpred FTrue) [None; Some (VNum 1)] = Some [None; Some (VNum 1)].
Check eq_refl : filter_map_spec (lapply FConst) (lpred FTrue) [None] = Some [Some (VNum 7)].
Check eq_refl : mapi_spec (fun i t => lapply2 L2Snd (Some (VNum (Z.of_nat i))) t) [None; Some (VNum 5)] = [None; Some (VNum 5)].
Check eq_refl : lknown (LFoldl L2Fst [None] (VNum 0)) = 0.
Check eq_refl : lknown (LMinArray [Some (VNum 1); None] (Some FConst) None) = 2.
