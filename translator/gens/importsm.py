"""GenImport.v: the per-State file cache state machine and the import resolution order, translated
statement by statement from the repository working tree into Gallina step functions over the state
vocabulary of C07/Model.v (entry / state / world / do_load / set_entry / check_path / rres).

Sources read (every statement of every function below is recognised or the translation fails closed):
  crates/jrsonnet-evaluator/src/lib.rs   FileData::new_bytes, FileData::get_string,
                                         State::import_resolved_str / import_resolved_bin / import_resolved
  crates/jrsonnet-evaluator/src/import.rs FileImportResolver::resolve_from / resolve_from_default
  crates/jrsonnet-cli/src/lib.rs         MiscOpts::import_resolver

Reading of the Rust subset
  * `file` (a `&mut FileData` obtained from the cache entry) is a local entry value `en`; EVERY assignment
    through it is written through to the cache at once (`let st := set_entry c en st`), as is a successful
    `file.get_string()` (which may fill `string`); a failing `?` leaves what was written before it.
  * `Entry::Occupied / Entry::Vacant` is the lookup `s_cache st c`; `load_file_contents(&path)?` is
    `do_load` (the recording, fault-injecting resolver call of the model); `v.insert(FileData::new_bytes(..))`
    is `set_entry c (gen_new_bytes data)`.
  * `Option<IStr>` / `Option<IBytes>` fields are their presence flags (the content is the entry's blob id:
    `cast_str()` succeeds iff the blob is valid UTF-8, `cast_bytes()` always succeeds); `.expect(..)` on a
    field is not modelled as a panic.
  * `parsed` is not part of the model state (parsing is a pure function of the content): the guarded
    `file.parsed = Some(parse_jsonnet(..)?)` is `body_of w (e_cid en)`, `None` = ImportSyntaxError.
  * `evaluate(..)` splits import_resolved in two step functions (gen_begin_import / gen_finish_import);
    the cache borrow must have been dropped before it. EvStart / EvDone are the model's markers for the
    body's first and last std.trace and are attached to the evaluate call / the `Ok` arm of `match res`.
  * resolve_from: the `from.downcast_ref::<T>()` chain is the match on Model.src; `current_dir()?` is the
    world's cwd; `X.push(path)` appends the raw import path; `check_path(&X)?` with
    `if let Some(v) = .. { return Ok(v); }` is the four-way match on Model.check_path; a `for` over the
    library paths is a recursive function over the list in the order the loop visits it.
Anything else raises TranslateError.
"""
import re

from gen import TranslateError, generator, src

LIB = "crates/jrsonnet-evaluator/src/lib.rs"
IMP = "crates/jrsonnet-evaluator/src/import.rs"
CLI = "crates/jrsonnet-cli/src/lib.rs"


# ------------------------------------------------------------------ text helpers
def strip_comments(t):
    out, i, n = [], 0, len(t)
    while i < n:
        c = t[i]
        if c == '"':
            j = i + 1
            while j < n and t[j] != '"':
                j += 2 if t[j] == "\\" else 1
            out.append(t[i:j + 1])
            i = j + 1
        elif t.startswith("//", i):
            while i < n and t[i] != "\n":
                i += 1
        elif t.startswith("/*", i):
            j = t.find("*/", i)
            if j < 0:
                raise TranslateError("unterminated block comment")
            i = j + 2
        else:
            out.append(c)
            i += 1
    return "".join(out)


def norm(s):
    """all white space removed except one blank between two word characters"""
    s = re.sub(r"\s+", " ", s.strip())
    s = re.sub(r" ?([^\w ]) ?", r"\1", s)
    return s


def close_of(s, i, what):
    """index of the bracket closing the one at s[i]"""
    pairs = {"(": ")", "{": "}", "[": "]"}
    stack, j, n = [], i, len(s)
    while j < n:
        ch = s[j]
        if ch == '"':
            j += 1
            while j < n and s[j] != '"':
                j += 2 if s[j] == "\\" else 1
        elif ch in pairs:
            stack.append(pairs[ch])
        elif ch in ")}]":
            if not stack or stack.pop() != ch:
                raise TranslateError(f"{what}: unbalanced `{ch}`")
            if not stack:
                return j
        j += 1
    raise TranslateError(f"{what}: unbalanced brackets")


def fn_body(text, header_re, what):
    ms = list(re.finditer(header_re, text))
    if len(ms) != 1:
        raise TranslateError(f"{what}: expected exactly one definition, found {len(ms)}")
    i = text.index("{", ms[0].end() - 1)
    return text[i + 1:close_of(text, i, what)]


BLOCK_KW = ("if ", "if(", "match ", "for ", "while ", "loop", "{", "unsafe")


def split_stmts(body, what):
    """-> list of (normalised statement, ended_with_semicolon)"""
    out, i, n, start = [], 0, len(body), 0
    while i < n:
        ch = body[i]
        if ch == '"':
            i += 1
            while i < n and body[i] != '"':
                i += 2 if body[i] == "\\" else 1
            i += 1
        elif ch in "({[":
            j = close_of(body, i, what)
            cur = body[start:i].strip()
            if ch == "{" and body[start:j + 1].lstrip().startswith(BLOCK_KW):
                # a block statement ends at its closing brace unless `else` follows
                rest = body[j + 1:].lstrip()
                if rest.startswith("else"):
                    i = j + 1
                    continue
                if not rest.startswith(";") and not rest.startswith(".") and not rest.startswith("?"):
                    out.append((norm(body[start:j + 1]), True))
                    start = i = j + 1
                    continue
            del cur
            i = j + 1
        elif ch == ";":
            out.append((norm(body[start:i]), True))
            start = i = i + 1
        else:
            i += 1
    tail = body[start:].strip()
    if tail:
        out.append((norm(tail), False))
    return [(s, semi) for s, semi in out if s]


def inner_block(s, what):
    """s = `{ ... }` -> the text between the braces"""
    if not s.startswith("{") or close_of(s, 0, what) != len(s) - 1:
        raise TranslateError(f"{what}: block expected at `{s[:50]}`")
    return s[1:-1]


def split_if(s, what):
    """`if C {A} else if D {B} else {E}` -> [(C, A), (D, B), (None, E)]"""
    arms = []
    while True:
        if not s.startswith("if"):
            raise TranslateError(f"{what}: `if` expected at `{s[:40]}`")
        i = 2
        # the condition ends at the first `{` at bracket depth 0
        depth, j = 0, i
        while j < len(s):
            if s[j] in "([":
                j = close_of(s, j, what)
            elif s[j] == "{":
                break
            j += 1
        if j >= len(s):
            raise TranslateError(f"{what}: `if` without a block")
        k = close_of(s, j, what)
        arms.append((s[i:j].strip(), s[j + 1:k]))
        rest = s[k + 1:].strip()
        if not rest:
            return arms
        if not rest.startswith("else"):
            raise TranslateError(f"{what}: text after an `if` block: `{rest[:40]}`")
        rest = rest[4:].strip()
        if rest.startswith("{"):
            arms.append((None, inner_block(rest, what)))
            return arms
        s = rest


def split_match(s, what):
    """`match X { P => E, P => {..} }` -> (X, [(P, E_text, is_block)])"""
    m = re.match(r"match (.+?)\{", s)
    if not m:
        raise TranslateError(f"{what}: `match` expected at `{s[:40]}`")
    i = m.end() - 1
    if close_of(s, i, what) != len(s) - 1:
        raise TranslateError(f"{what}: text after a `match` block")
    body, arms, p = s[i + 1:-1], [], 0
    while p < len(body):
        q = body.find("=>", p)
        if q < 0:
            if body[p:].strip(", "):
                raise TranslateError(f"{what}: malformed match arm `{body[p:][:40]}`")
            break
        pat = body[p:q].strip()
        r = q + 2
        if body[r:r + 1] == "{":
            e = close_of(body, r, what)
            arms.append((pat, body[r + 1:e], True))
            p = e + 1
            if body[p:p + 1] == ",":
                p += 1
        else:
            e = r
            while e < len(body) and body[e] != ",":
                if body[e] in "({[":
                    e = close_of(body, e, what)
                e += 1
            arms.append((pat, body[r:e], False))
            p = e + 1
    return m.group(1).strip(), arms


# ------------------------------------------------------------------ the State functions
ERRS = {"ImportBadFileUtf8": "EUtf8", "ImportSyntaxError": "ESyntax", "InfiniteRecursionDetected": "ECycle"}
EXPECT = r'\.expect\("[^"]*"\)'
BYTES_OF_STRING = rf"file\.string\.as_ref\(\){EXPECT}\.clone\(\)\.cast_bytes\(\),?"
STR_OF_BYTES = rf"self\.bytes\.as_ref\(\){EXPECT}\.clone\(\)\.cast_str\(\)\?,?"
GET_STRING = r"file\.get_string\(\)\.ok_or_else\(\|\|(\w+)\(path\.clone\(\)\)\)\?"


class CacheFn:
    """symbolic execution of a statement list; Gallina variables `en` (the entry behind `file`) and `st`
    (the State) are rebound by shadowing at every write"""

    def __init__(self, what, mode):
        self.what, self.mode = what, mode
        self.borrowed = False      # file_cache RefCell borrowed
        self.slot = False          # `file` is the cache Entry of `path`
        self.file = False          # `file` is a &mut FileData
        self.vals = {}             # rust name -> Gallina term
        self.parsed = False
        self.rest_after_evaluate = None

    def err(self, msg):
        raise TranslateError(f"lib.rs {self.what}: {msg}")

    # exits
    def ok(self, x):
        return {"begin": f"(BDone {x}, st)"}.get(self.mode, f"(Ok {x}, st)")

    def fail(self, e):
        return {"begin": f"(BFail {e}, st)"}.get(self.mode, f"(Err {e}, st)")

    def need_file(self):
        if not (self.file and self.borrowed):
            self.err("FileData accessed without the cache entry being held")

    def cond(self, c):
        m = re.fullmatch(r"file\.(bytes|string)\.is_none\(\)", c)
        if m:
            self.need_file()
            return f"negb (e_{m.group(1)} en)"
        m = re.fullmatch(r"file\.(bytes|string)\.is_some\(\)", c)
        if m:
            self.need_file()
            return f"e_{m.group(1)} en"
        if c == "file.evaluating":
            self.need_file()
            return "e_evaluating en"
        if c == "!file.evaluating":
            self.need_file()
            return "negb (e_evaluating en)"
        self.err(f"untranslatable condition `{c}`")

    def diverges(self, stmts):
        if not stmts:
            return False
        s = stmts[-1][0]
        return s.startswith("bail!(") or s.startswith("return ")

    def block(self, stmts, fall):
        """Gallina for `stmts`; `fall` = term for falling off the end (None: not allowed)"""
        if not stmts:
            if fall is None:
                self.err("block ends without a value")
            return fall
        (s, semi), rest = stmts[0], stmts[1:]
        saved = (self.borrowed, self.slot, self.file, dict(self.vals), self.parsed)

        def cont():
            return self.block(rest, fall)

        def branch(f):
            """translate a branch and restore the symbolic flags afterwards"""
            b = (self.borrowed, self.slot, self.file, dict(self.vals), self.parsed)
            r = f()
            self.borrowed, self.slot, self.file, self.vals, self.parsed = b[0], b[1], b[2], b[3], b[4]
            return r
        del saved

        # ---- borrow / entry
        if s == "let mut file_cache=self.file_cache()":
            if self.borrowed:
                self.err("file_cache borrowed twice (BorrowMutError)")
            self.borrowed = True
            return cont()
        if s in ("let mut file=file_cache.entry(path.clone())", "let mut file=file_cache.entry(path)"):
            if not self.borrowed:
                self.err("entry() without the cache borrow")
            self.slot = True
            return cont()
        if s == "drop(file_cache)":
            if not self.borrowed:
                self.err("drop(file_cache) without a borrow")
            self.borrowed = self.slot = self.file = False
            return cont()
        if s.startswith("let file=match file{"):
            if not self.slot:
                self.err("match on the cache entry before entry()")
            subj, arms = split_match(s[len("let file="):], self.what)
            if subj != "file" or len(arms) != 2:
                self.err("the entry match must have exactly the Occupied and the Vacant arm")
            occ = [a for a in arms if a[0] == "Entry::Occupied(ref mut d)"]
            vac = [a for a in arms if a[0] == "Entry::Vacant(v)"]
            if len(occ) != 1 or len(vac) != 1:
                self.err(f"unrecognised entry patterns {[a[0] for a in arms]}")
            if norm(occ[0][1]) != "d.get_mut()":
                self.err(f"Occupied arm is `{occ[0][1]}`, expected d.get_mut()")
            vs = split_stmts(vac[0][1], self.what)
            if [x[0] for x in vs] != ["let data=self.import_resolver().load_file_contents(&path)?",
                                      "v.insert(FileData::new_bytes(data.as_slice().into()))"] or vs[1][1]:
                self.err(f"Vacant arm not recognised: {[x[0] for x in vs]}")
            self.file = True
            k = cont()
            ty = {"begin": "begin_res * state"}.get(self.mode, "res N * state")
            return (f"let k (en : entry) (st : state) : {ty} :=\n{k} in\n"
                    "match s_cache st c with\n"
                    "| Some en => k en st\n"
                    "| None =>\n"
                    "  let '(r, st) := do_load w c st in\n"
                    "  match r with\n"
                    f"  | Err e => {self.fail('e')}\n"
                    "  | Ok data => let en := gen_new_bytes data in let st := set_entry c en st in k en st\n"
                    "  end\n"
                    "end")
        if s == "let Entry::Occupied(file)=&mut file else{unreachable!(\"this file was just here\")}":
            if not self.slot:
                self.err("let-else on the cache entry before entry()")
            self.file = True
            k = cont()
            return ("match s_cache st c with\n"
                    "| None => (r, st) (* unreachable!() *)\n"
                    f"| Some en =>\n{k}\nend")
        if s == "let file=file.get_mut()":
            self.need_file()
            return cont()

        # ---- early returns on a cached field
        m = re.fullmatch(r"if let Some\((\w+)\)=&file\.evaluated\{return Ok\(\1\.clone\(\)\);?\}", s)
        if m:
            self.need_file()
            if self.mode != "begin":
                self.err("`evaluated` consulted outside import_resolved")
            return (f"match e_evaluated en with\n| Some {m.group(1)} => {self.ok(m.group(1))}\n"
                    f"| None =>\n{cont()}\nend")
        m = re.fullmatch(r"if let Some\((\w+)\)=&file\.(bytes|string)\{return Ok\(\1\.clone\(\)(\.cast_bytes\(\))?\);?\}", s)
        if m:
            self.need_file()
            fld, cast = m.group(2), m.group(3)
            if self.mode != "bin" or (fld == "string") != bool(cast):
                self.err(f"`{s}`: the returned field does not have the function's result type")
            return f"if e_{fld} en then {self.ok('(e_cid en)')}\nelse\n{cont()}"

        # ---- assignments through `file` (written through)
        m = re.fullmatch(r"file\.evaluating=(true|false)", s)
        if m:
            self.need_file()
            return f"let en := with_evaluating {m.group(1)} en in let st := set_entry c en st in\n{cont()}"
        m = re.fullmatch(r"file\.evaluated=Some\((\w+)\.clone\(\)\)", s)
        if m:
            self.need_file()
            if m.group(1) not in self.vals:
                self.err(f"`{m.group(1)}` is not bound")
            return f"let en := with_evaluated {self.vals[m.group(1)]} en in let st := set_entry c en st in\n{cont()}"
        if re.fullmatch(rf"file\.bytes=Some\({BYTES_OF_STRING}\)", s):
            self.need_file()
            return f"let en := with_bytes en in let st := set_entry c en st in\n{cont()}"

        # ---- get_string
        m = re.fullmatch(rf"let (\w+)={GET_STRING}", s)
        if m:
            self.need_file()
            if m.group(2) not in ERRS:
                self.err(f"unknown error `{m.group(2)}`")
            self.vals[m.group(1)] = "(e_cid en)"
            return (f"match gen_get_string w en with\n| None => {self.fail(ERRS[m.group(2)])}\n"
                    f"| Some en => let st := set_entry c en st in\n{cont()}\nend")
        m = re.fullmatch(rf"Ok\({GET_STRING}\)", s)
        if m and not semi:
            self.need_file()
            if rest or self.mode != "str":
                self.err("a string result outside import_resolved_str")
            if m.group(1) not in ERRS:
                self.err(f"unknown error `{m.group(1)}`")
            return (f"match gen_get_string w en with\n| None => {self.fail(ERRS[m.group(1)])}\n"
                    f"| Some en => let st := set_entry c en st in {self.ok('(e_cid en)')}\nend")

        # ---- parse (the `parsed` field is transparent)
        if s == "let file_name=Source::new(path.clone(),code.clone())":
            if "code" not in self.vals:
                self.err("`code` is not bound")
            return cont()
        m = re.fullmatch(r"if file\.parsed\.is_none\(\)\{file\.parsed=Some\(parse_jsonnet\(&code,file_name\.clone\(\)\)"
                         r"\.map\(Rc::new\)\.map_err\(\|e\|(\w+)\{path:file_name\.clone\(\),error:Box::new\(e\),?\}\)\?,?\);?\}", s)
        if m:
            self.need_file()
            if "code" not in self.vals or m.group(1) not in ERRS:
                self.err("parse step: `code` unbound or unknown error")
            self.parsed = True
            return (f"match body_of w {self.vals['code']} with\n| None => {self.fail(ERRS[m.group(1)])}\n"
                    f"| Some b =>\n{cont()}\nend")
        if re.fullmatch(rf"let parsed=file\.parsed\.as_ref\(\){EXPECT}\.clone\(\)", s):
            self.need_file()
            if not self.parsed:
                self.err("`parsed` read before it is filled")
            self.vals["parsed"] = "b"
            return cont()

        # ---- evaluate: the boundary between the two step functions
        if s == "let res=evaluate(self.create_default_context(file_name),&parsed)":
            if self.mode != "begin":
                self.err("evaluate() outside import_resolved")
            if self.borrowed:
                self.err("evaluate() while file_cache is still borrowed (nested imports would panic)")
            if self.vals.get("parsed") != "b":
                self.err("evaluate() of something else than the parsed file")
            self.rest_after_evaluate = rest
            return "(BEval b, add_log (EvStart c (b_id b)) st)"

        # ---- generic control flow
        if s.startswith("if ") and not s.startswith("if let"):
            arms = split_if(s, self.what)
            if len(arms) == 1:
                c, blk = arms[0]
                bst = split_stmts(blk, self.what)
                cnd = self.cond(c)
                if self.diverges(bst):
                    t = branch(lambda: self.block(bst, None))
                    return f"if {cnd} then {t}\nelse\n{cont()}"
                k = cont()
                ty = {"begin": "begin_res * state"}.get(self.mode, "res N * state")
                t = branch(lambda: self.block(bst, "k2 en st"))
                return (f"let k2 (en : entry) (st : state) : {ty} :=\n{k} in\n"
                        f"if {cnd} then\n{t}\nelse k2 en st")
            self.err(f"if/else chains are not part of the translated subset here: `{s[:60]}`")
        if s.startswith("match res{"):
            if self.mode != "finish" or rest:
                self.err("`match res` must be the last statement of import_resolved")
            subj, arms = split_match(s, self.what)
            outs = {}
            for pat, body, is_block in arms:
                m = re.fullmatch(r"(Ok|Err)\((\w+)\)", pat)
                if not m or m.group(1) in outs:
                    self.err(f"unrecognised arm `{pat}`")

                def arm(m=m, body=body):
                    self.vals[m.group(2)] = m.group(2)
                    pre = "let st := add_log (EvDone c id) st in\n" if m.group(1) == "Ok" else ""
                    return pre + self.block(split_stmts(body, self.what), None)
                outs[m.group(1)] = (m.group(2), branch(arm))
            if set(outs) != {"Ok", "Err"}:
                self.err("`match res` needs an Ok and an Err arm")
            return (f"match r with\n| Ok {outs['Ok'][0]} =>\n{outs['Ok'][1]}\n"
                    f"| Err {outs['Err'][0]} =>\n{outs['Err'][1]}\nend")
        m = re.fullmatch(r"bail!\((\w+)\)", s)
        if m:
            if m.group(1) not in ERRS:
                self.err(f"unknown error `{m.group(1)}`")
            return self.fail(ERRS[m.group(1)])

        # ---- final expressions
        if not semi or s.startswith("return "):
            e = s[7:] if s.startswith("return ") else s
            if rest and not s.startswith("return "):
                self.err(f"expression `{s[:40]}` in the middle of a block")
            m = re.fullmatch(r"Ok\((\w+)\)", e)
            if m and m.group(1) in self.vals and self.mode == "finish":
                return self.ok(self.vals[m.group(1)])
            m = re.fullmatch(r"Err\((\w+)\)", e)
            if m and m.group(1) in self.vals and self.mode == "finish":
                return self.fail(self.vals[m.group(1)])
            if re.fullmatch(rf"Ok\(file\.bytes\.as_ref\(\){EXPECT}\.clone\(\)\)", e) and self.mode == "bin":
                self.need_file()
                return self.ok("(e_cid en)")
        self.err(f"untranslatable statement `{s[:90]}`")


def indent(t, n=2):
    return "\n".join(" " * n + l for l in t.split("\n"))


def tr_new_bytes(text):
    body = fn_body(text, r"fn new_bytes\s*\(\s*data\s*:\s*IBytes\s*\)\s*->\s*Self\s*\{", "FileData::new_bytes")
    st = split_stmts(body, "new_bytes")
    if len(st) != 1 or st[0][1] or not st[0][0].startswith("Self{"):
        raise TranslateError("lib.rs FileData::new_bytes: expected a single `Self { .. }` expression")
    fields = {}
    for f in inner_block(st[0][0][4:], "new_bytes").split(","):
        if not f:
            continue
        m = re.fullmatch(r"(\w+):(.+)", f)
        if not m or m.group(1) in fields:
            raise TranslateError(f"lib.rs FileData::new_bytes: field `{f}`")
        fields[m.group(1)] = m.group(2)
    if set(fields) != {"string", "bytes", "parsed", "evaluated", "evaluating"}:
        raise TranslateError(f"lib.rs FileData::new_bytes: fields {sorted(fields)} (the model state has "
                             "string, bytes, parsed, evaluated, evaluating)")
    opt = {"None": "false", "Some(data)": "true"}
    if fields["string"] not in opt or fields["bytes"] not in opt:
        raise TranslateError("lib.rs FileData::new_bytes: string/bytes must be None or Some(data)")
    if "Some(data)" not in (fields["string"], fields["bytes"]):
        raise TranslateError("lib.rs FileData::new_bytes: the data is dropped")
    if fields["parsed"] != "None" or fields["evaluated"] != "None":
        raise TranslateError("lib.rs FileData::new_bytes: parsed/evaluated must start empty")
    if fields["evaluating"] not in ("true", "false"):
        raise TranslateError("lib.rs FileData::new_bytes: evaluating must be a literal")
    return ("{| e_cid := data; e_string := %s; e_bytes := %s; e_evaluated := None; e_evaluating := %s |}"
            % (opt[fields["string"]], opt[fields["bytes"]], fields["evaluating"]))


def tr_get_string(text):
    what = "FileData::get_string"
    body = fn_body(text, r"fn get_string\s*\(\s*&mut self\s*\)\s*->\s*Option<IStr>\s*\{", what)

    def block(stmts, fall):
        if not stmts:
            if fall is None:
                raise TranslateError(f"lib.rs {what}: block without a value")
            return fall
        (s, semi), rest = stmts[0], stmts[1:]
        if s.startswith("if ") and not s.startswith("if let"):
            arms = split_if(s, what)
            if len(arms) != 1:
                raise TranslateError(f"lib.rs {what}: if/else not expected")
            c, blk = arms[0]
            cnd = {"self.string.is_none()": "negb (e_string en)", "self.string.is_some()": "e_string en"}.get(c)
            if cnd is None:
                raise TranslateError(f"lib.rs {what}: condition `{c}`")
            k = block(rest, fall)
            t = block(split_stmts(blk, what), "k en")
            return f"let k (en : entry) : option entry := {k} in\nif {cnd} then\n{indent(t)}\nelse k en"
        if re.fullmatch(rf"self\.string=Some\({STR_OF_BYTES}\)", s):
            return f"if utf8 w (e_cid en) then (let en := with_string en in {block(rest, fall)}) else None (* cast_str()? *)"
        if not semi and not rest and re.fullmatch(rf"Some\(self\.string\.clone\(\){EXPECT}\)", s):
            return "Some en"
        raise TranslateError(f"lib.rs {what}: untranslatable statement `{s[:80]}`")

    return block(split_stmts(body, what), None)


def tr_state_fn(text, name, mode):
    what = f"State::{name}"
    ret = {"str": "IStr", "bin": "IBytes", "begin": "Val"}[mode]
    body = fn_body(text, rf"pub fn {name}\s*\(\s*&self\s*,\s*path\s*:\s*SourcePath\s*\)\s*->\s*Result<{ret}>\s*\{{", what)
    stmts = split_stmts(body, what)
    a = CacheFn(what, mode)
    first = a.block(stmts, None)
    if mode != "begin":
        return first
    if a.rest_after_evaluate is None:
        raise TranslateError(f"lib.rs {what}: no evaluate() call found")
    b = CacheFn(what + " (after evaluate)", "finish")
    b.vals["res"] = "r"
    second = b.block(a.rest_after_evaluate, None)
    return first, second


# ------------------------------------------------------------------ the resolver
class Resolve:
    def __init__(self):
        self.helpers = []

    def err(self, msg):
        raise TranslateError(f"import.rs resolve_from: {msg}")

    def push(self, v):
        t, ty = v
        return (f"abs_of {t} ++ raw" if ty == "P" else f"{t} ++ raw", "C")

    def use(self, v):
        t, ty = v
        return f"(abs_of {t})" if ty == "P" else f"({t})"

    def block(self, stmts, env, ret, fall):
        """env: rust variable -> (Gallina term, 'P' canonical path | 'C' component list)
        ret: wraps a returned rres; fall: term for falling off the end (None: not allowed)"""
        if not stmts:
            if fall is None:
                self.err("block without a value")
            return fall
        (s, semi), rest = stmts[0], stmts[1:]
        env = dict(env)

        def cont():
            return self.block(rest, env, ret, fall)

        if s == "let path=path.as_path()":
            return cont()
        m = re.fullmatch(r"let mut (\w+)=(.+)", s)
        if m and not m.group(2).startswith("if "):
            env[m.group(1)] = self.value(m.group(2), env)
            return cont()
        m = re.fullmatch(r"(\w+)\.pop\(\)", s)
        if m and m.group(1) in env and env[m.group(1)][1] == "P":
            env[m.group(1)] = (f"(removelast {env[m.group(1)][0]})", "P")
            return cont()
        m = re.fullmatch(r"(\w+)\.push\(path\)", s)
        if m and m.group(1) in env:
            env[m.group(1)] = self.push(env[m.group(1)])
            return cont()
        m = re.fullmatch(r"if let Some\((\w+)\)=check_path\(&(\w+)\)\?\{return Ok\(\1\);?\}", s)
        if m:
            if m.group(2) not in env:
                self.err(f"`{m.group(2)}` is not bound")
            v = env[m.group(2)]
            if v[1] != "C" or not v[0].endswith("++ raw"):
                self.err(f"check_path on `{m.group(2)}` before the import path was pushed onto it")
            return (f"match check_path f ({v[0]}) with\n| CHit c => {ret('RHit c')}\n| CMiss =>\n{indent(cont())}\n"
                    f"| CHard => {ret('RHard')}\n| CFuel => {ret('RFuel')}\nend")
        m = re.fullmatch(r"for (\w+) in ?(&self\.library_paths|self\.library_paths\.iter\(\)|self\.library_paths\.iter\(\)\.rev\(\))\{(.*)\}", s)
        if m:
            order = "rev libs" if m.group(2).endswith(".rev()") else "libs"
            name = f"gen_resolve_libs{len(self.helpers) or ''}"
            body = self.block(split_stmts(m.group(3), "resolve_from"), {m.group(1): ("l", "C")},
                              lambda x: f"Some ({x})" if " " in x else f"Some {x}", f"{name} f rest raw")
            self.helpers.append(
                f"Fixpoint {name} (f : fs) (libs : list (list comp)) (raw : list comp) : option rres :=\n"
                f"  match libs with\n  | [] => None\n  | l :: rest =>\n{indent(body, 4)}\n  end.\n")
            return (f"match {name} f ({order}) raw with\n| Some r => {ret('r')}\n| None =>\n{indent(cont())}\nend")
        if re.fullmatch(r"bail!\(ImportFileNotFound\(from\.clone\(\),path\.to_owned\(\)\)\)", s):
            return ret("RNotFound")
        if s.startswith("let mut direct=if "):
            arms = split_if(s[len("let mut direct="):], "resolve_from")
            k = cont_with = None
            env2 = dict(env)
            env2["direct"] = ("direct", "P")
            k = self.block(rest, env2, ret, fall)
            conds = {"let Some(f)=from.downcast_ref::<SourceFile>()": ("SFile p", {"f": ("p", "P")}),
                     "let Some(d)=from.downcast_ref::<SourceDirectory>()": ("SDir d", {"d": ("d", "P")}),
                     "from.downcast_ref::<SourceDefaultIgnoreJpath>().is_some()": ("SNoJ", {}),
                     "from.is_default()": ("SDefault", {})}
            seen, out = set(), []
            if arms[-1][0] is not None or not norm(arms[-1][1]).startswith("unreachable!("):
                self.err("the source-kind chain must end in `else { unreachable!(..) }`")
            for c, blk in arms[:-1]:
                if c not in conds or conds[c][0] in seen:
                    self.err(f"unrecognised source kind test `{c}`")
                pat, benv = conds[c]
                seen.add(pat)
                t = self.block(split_stmts(blk, "resolve_from"), benv, ret, None)
                out.append(f"| {pat} =>\n{indent(t, 4)}")
            if len(seen) != 4:
                self.err(f"source kinds handled: {sorted(seen)}; the model has SFile, SDir, SDefault, SNoJ")
            del cont_with
            return (f"let after (direct : path) : rres :=\n{indent(k)} in\nmatch from with\n" + "\n".join(out) + "\nend")
        # a block's value: the directory handed to the code after the chain
        if not semi and not rest:
            v = self.value(s, env)
            if v[1] != "P":
                self.err("the base directory must be a canonical path")
            return f"after {v[0]}"
        self.err(f"untranslatable statement `{s[:90]}`")

    def value(self, e, env):
        if e in env:
            return env[e]
        m = re.fullmatch(r"(\w+)\.path\(\)\.to_owned\(\)", e)
        if m and m.group(1) in env:
            return env[m.group(1)]
        m = re.fullmatch(r"(\w+)\.clone\(\)", e)
        if m and m.group(1) in env:
            return env[m.group(1)]
        if e == "current_dir().map_err(|e|ImportIo(e.to_string()))?":
            return ("cwd", "P")
        self.err(f"untranslatable path expression `{e[:80]}`")


def tr_resolve(text):
    text = fn_body(text, r"impl ImportResolver for FileImportResolver\s*\{", "impl ImportResolver for FileImportResolver")
    body = fn_body(text, r"fn resolve_from\s*\(\s*&self\s*,\s*from\s*:\s*&SourcePath\s*,\s*path\s*:\s*&dyn AsPathLike\s*\)"
                         r"\s*->\s*Result<SourcePath>\s*\{", "resolve_from")
    r = Resolve()
    main = r.block(split_stmts(body, "resolve_from"), {}, lambda x: x, None)
    d = fn_body(text, r"fn resolve_from_default\s*\(\s*&self\s*,\s*path\s*:\s*&dyn AsPathLike\s*\)\s*->\s*Result<SourcePath>\s*\{",
                "resolve_from_default")
    if norm(d) != "self.resolve_from(&SourcePath::default(),path)":
        raise TranslateError(f"import.rs resolve_from_default: `{norm(d)[:80]}`")
    return r.helpers, main


def tr_cli(text):
    what = "cli lib.rs MiscOpts::import_resolver"
    body = fn_body(text, r"pub fn import_resolver\s*\(\s*&self\s*\)\s*->\s*FileImportResolver\s*\{", what)
    cur, var, lines = None, None, []
    for s, semi in split_stmts(body, what):
        m = re.fullmatch(r"let mut (\w+)=self\.jpath\.clone\(\)", s)
        if m and var is None:
            var, cur = m.group(1), "jflags"
            lines.append("let l := jflags in")
            continue
        if var and s == f"{var}.reverse()":
            lines.append("let l := rev l in")
            continue
        if var and s == (f"if let Some(path)=env::var_os(\"JSONNET_PATH\"){{{var}.extend(env::split_paths(path.as_os_str()));}}"):
            lines.append("let l := l ++ env in (* JSONNET_PATH unset: env = [] *)")
            continue
        if var and not semi and s == f"FileImportResolver::new({var})":
            lines.append("l")
            cur = "done"
            continue
        raise TranslateError(f"{what}: untranslatable statement `{s[:80]}`")
    if cur != "done":
        raise TranslateError(f"{what}: no FileImportResolver::new(..) result")
    return "\n  ".join(lines)


@generator("GenImport")
def gen_import():
    lib = strip_comments(src(LIB))
    nb = tr_new_bytes(lib)
    gs = tr_get_string(lib)
    s_str = tr_state_fn(lib, "import_resolved_str", "str")
    s_bin = tr_state_fn(lib, "import_resolved_bin", "bin")
    s_beg, s_fin = tr_state_fn(lib, "import_resolved", "begin")
    helpers, res = tr_resolve(strip_comments(src(IMP)))
    cli = tr_cli(strip_comments(src(CLI)))
    return (
        "From Coq Require Import List NArith Bool.\n"
        "From JrV Require Import C07.Model.\n"
        "Import ListNotations.\nOpen Scope N_scope.\n\n"
        "(* lib.rs FileData::new_bytes *)\n"
        f"Definition gen_new_bytes (data : N) : entry :=\n  {nb}.\n\n"
        "(* lib.rs FileData::get_string: None = the `?` of cast_str(); Some en = the entry afterwards (its string is set) *)\n"
        f"Definition gen_get_string (w : world) (en : entry) : option entry :=\n{indent(gs)}.\n\n"
        "(* lib.rs State::import_resolved_str *)\n"
        f"Definition gen_import_resolved_str (w : world) (c : path) (st : state) : res N * state :=\n{indent(s_str)}.\n\n"
        "(* lib.rs State::import_resolved_bin *)\n"
        f"Definition gen_import_resolved_bin (w : world) (c : path) (st : state) : res N * state :=\n{indent(s_bin)}.\n\n"
        "(* lib.rs State::import_resolved up to the call of evaluate() *)\n"
        f"Definition gen_begin_import (w : world) (c : path) (st : state) : begin_res * state :=\n{indent(s_beg)}.\n\n"
        "(* lib.rs State::import_resolved after evaluate() returned r (id: the body's trace id) *)\n"
        f"Definition gen_finish_import (c : path) (id : N) (r : res N) (st : state) : res N * state :=\n{indent(s_fin)}.\n\n"
        "(* import.rs FileImportResolver::resolve_from *)\n"
        + "".join(helpers) +
        "Definition gen_resolve_from (f : fs) (cwd : path) (libs : list (list comp)) (from : src) (raw : list comp) : rres :=\n"
        f"{indent(res)}.\n\n"
        "(* import.rs resolve_from_default: self.resolve_from(&SourcePath::default(), path) *)\n"
        "Definition gen_resolve_from_default (f : fs) (cwd : path) (libs : list (list comp)) (raw : list comp) : rres :=\n"
        "  gen_resolve_from f cwd libs SDefault raw.\n\n"
        "(* cli lib.rs MiscOpts::import_resolver: the library path list handed to FileImportResolver::new *)\n"
        f"Definition gen_search_list {{A}} (jflags env : list A) : list A :=\n  {cli}.\n"
    )
