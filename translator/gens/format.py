"""GenFormat.v (C12): the tables and constants std.format is driven by, read from
crates/jrsonnet-evaluator/src/stdlib/format.rs: conversion-letter table, flag letters,
length-modifier letters, digit alphabet, radixes / `#` prefixes of the three integer renderers,
default precisions, exponent field width.  Fail closed: an unrecognised shape is a translator
error (= broken obligation)."""
import re

from gen import TranslateError, generator, one, src

CONV = {"Decimal": "GDecimal", "Octal": "GOctal", "Hexadecimal": "GHexadecimal", "Scientific": "GScientific",
        "Float": "GFloat", "Shorter": "GShorter", "Char": "GChar", "String": "GString", "Percent": "GPercent"}
FLAG = {"alt": "FAlt", "zero": "FZero", "left": "FLeft", "blank": "FBlank", "sign": "FSign"}


def _fn(text, name):
    m = re.search(r"\npub fn " + name + r"\b.*?\n\}\n", text, re.S)
    if not m:
        raise TranslateError(f"fn {name} not found")
    return m.group(0)


def _bytes(s):
    return "[" + "; ".join(str(b) for b in s.encode()) + "]"


def _lit(tok):
    """b'x' -> code"""
    m = re.fullmatch(r"b'(\\?.)'", tok.strip())
    if not m:
        raise TranslateError(f"not a byte literal: {tok}")
    ch = m.group(1)
    if ch.startswith("\\"):
        raise TranslateError(f"escaped byte literal not expected: {tok}")
    return ord(ch)


@generator("GenFormat")
def gen_format():
    text = src("crates/jrsonnet-evaluator/src/stdlib/format.rs")
    # ---- conversion letters
    body = _fn(text, "parse_conversion_type")
    arms = re.findall(r"\n\t\t((?:b'.'(?: \| )?)+) => \(ConvTypeV::(\w+), (true|false)\),", body)
    n_arrows = len(re.findall(r"=> \(ConvTypeV::", body))
    if not arms or len(arms) != n_arrows:
        raise TranslateError(f"conversion table: recognised {len(arms)} of {n_arrows} arms")
    one(r"\n\t\tc => return Err\(UnrecognizedConversionType\(c as char\)\),", body, "conversion default arm")
    one(r"let code = str\.as_bytes\(\)\[0\];", body, "conversion letter read")
    conv = []
    for lits, v, caps in arms:
        if v not in CONV:
            raise TranslateError(f"unknown ConvTypeV::{v}")
        for t in lits.split("|"):
            conv.append((_lit(t), CONV[v], caps))
    # ---- flags
    body = _fn(text, "try_parse_cflags")
    farms = re.findall(r"\n\t\t\t(b'.') => out\.(\w+) = true,", body)
    if len(farms) != len(re.findall(r"=> out\.", body)) or not farms:
        raise TranslateError("flag table: unrecognised arm")
    one(r"\n\t\t\t_ => break,", body, "flag default arm")
    flags = []
    for lit, f in farms:
        if f not in FLAG:
            raise TranslateError(f"unknown flag field {f}")
        flags.append((_lit(lit), FLAG[f]))
    # ---- length modifiers
    body = _fn(text, "try_parse_length_modifier")
    # a single optional modifier (`if`, not the former `while` loop)
    cond = one(r"\n\tif ((?:bytes\[idx\] == b'.'(?: \|\| )?)+) \{", body, "length modifier test (single `if`)")
    if re.search(r"\bwhile\b", body):
        raise TranslateError("length modifier: unexpected loop")
    lms = [_lit(t.split("==")[1]) for t in cond.split("||")]
    # ---- width parser shape: u16 accumulator, star, '.'
    body = _fn(text, "try_parse_field_width")
    one(r"let mut out: u16 = 0;", body, "width accumulator type")
    one(r"if bytes\[0\] == b'\*' \{", body, "star width")
    one(r"\(bytes\[digits\] as char\)\.to_digit\(10\)", body, "width digit test")
    one(r"out = out\s*\.checked_mul\(10\)\s*\.and_then\(\|out\| out\.checked_add\(digit as u16\)\)\s*"
        r"\.ok_or\(FieldWidthTooLarge\)\?;", body, "checked width accumulation")
    one(r"if bytes\[0\] == b'\.' \{", _fn(text, "try_parse_precision"), "precision dot")
    kbody = _fn(text, "try_parse_mapping_key")
    one(r"if bytes\[0\] == b'\(' \{", kbody, "mapping key open")
    one(r"if bytes\[i\] == b'\)' \{", kbody, "mapping key close")
    one(r"bytes\[offset\] != b'%'", _fn(text, "parse_codes"), "code introducer")
    # ---- digit alphabet
    alphabet = one(r'const NUMBERS: &\[u8\] = b"([0-9a-z]+)";', text, "NUMBERS")
    # ---- integer renderers
    dec = one(r"out, neg, iv, padding, precision, blank, sign, (\d+), \"([^\"]*)\", (true|false), (true|false),",
              _fn(text, "render_decimal"), "render_decimal call")
    octb = _fn(text, "render_octal")
    octal = one(r"sign,\s*(\d+),\s*if alt && iv >= 1\.0 \{ \"([^\"]*)\" \} else \{ \"\" \},\s*(true|false),\s*(true|false),",
                octb, "render_octal call")
    hexb = _fn(text, "render_hexadecimal")
    hexa = one(r"sign,\s*(\d+),\s*match \(alt, caps\) \{\s*\(true, true\) => \"([^\"]*)\",\s*\(true, false\) => "
               r"\"([^\"]*)\",\s*\(false, _\) => \"\",\s*\},\s*(true|false),\s*caps,", hexb, "render_hexadecimal call")
    one(r"iv < 0\.0,\s*iv\.abs\(\),", hexb, "render_hexadecimal sign/magnitude")
    ri = _fn(text, "render_integer")
    one(r"if iv != 0 \|\| !prefix_in_padding \{\s*out\.push_str\(zero_prefix\);", ri, "prefix emission rule")
    one(r"let iv = iv\.floor\(\) as i64;", ri, "render_integer i64 cast")
    rf = _fn(text, "render_float")
    one(r"padding = padding\.saturating_sub\(precision\.saturating_add\(dot_size\)\);", rf, "float padding")
    # ---- defaults
    fc = _fn(text, "format_code")
    d = one(r"precision\.map_or\(\((\d+), (\d+)\), \|v\| \(v, v\)\)", fc, "default precisions")
    one(r"let padding = if clfags\.zero && !clfags\.left \{\s*width\s*\} else \{\s*0\s*\};", fc, "zero padding rule")
    one(r"render_hexadecimal\(\s*&mut tmp_out,\s*value\.floor\(\),", fc, "%x floors its argument")
    one(r"let fpprec = fpprec\.max\(1\);", fc, "%g precision 0 taken as 1")
    one(r"if n <= -1\.0 \{\s*bail!", fc, "%c negative guard")
    one(r"let padding = width\.saturating_sub\(u16::try_from\(tmp_out\.chars\(\)\.count\(\)\)\.unwrap_or\(u16::MAX\)\);",
        fc, "final padding counts code points")
    sci = _fn(text, "render_float_sci")
    ew = one(r"exponent\.abs\(\),\s*(\d+),\s*0,\s*false,\s*true,", sci, "exponent field")

    def b(x):
        return x

    out = ["From Coq Require Import List NArith ZArith.", "Import ListNotations.", "Open Scope N_scope.",
           "Inductive gconv := GDecimal | GOctal | GHexadecimal | GScientific | GFloat | GShorter | GChar | GString "
           "| GPercent.",
           "Inductive gflag := FAlt | FZero | FLeft | FBlank | FSign.",
           "Definition conv_table : list (N * (gconv * bool)) :=\n  ["
           + ";\n   ".join(f"({c}, ({v}, {b(caps)}))" for c, v, caps in conv) + "].",
           "Definition flag_table : list (N * gflag) := ["
           + "; ".join(f"({c}, {f})" for c, f in flags) + "].",
           "Definition lenmod_chars : list N := [" + "; ".join(str(c) for c in lms) + "].",
           f"Definition digit_alphabet : list N := {_bytes(alphabet)}.",
           f"Definition radix_decimal : Z := {dec[0]}%Z.",
           f"Definition prefix_decimal : list N := {_bytes(dec[1])}.",
           f"Definition prefix_in_padding_decimal : bool := {dec[2]}.",
           f"Definition caps_decimal : bool := {dec[3]}.",
           f"Definition radix_octal : Z := {octal[0]}%Z.",
           f"Definition prefix_octal : list N := {_bytes(octal[1])}.",
           f"Definition prefix_in_padding_octal : bool := {octal[2]}.",
           f"Definition caps_octal : bool := {octal[3]}.",
           f"Definition radix_hex : Z := {hexa[0]}%Z.",
           f"Definition prefix_hex_upper : list N := {_bytes(hexa[1])}.",
           f"Definition prefix_hex_lower : list N := {_bytes(hexa[2])}.",
           f"Definition prefix_in_padding_hex : bool := {hexa[3]}.",
           f"Definition default_fp_precision : N := {d[0]}.",
           f"Definition default_int_precision : N := {d[1]}.",
           f"Definition exponent_min_chars : N := {ew}.",
           ""]
    return "\n".join(out)
