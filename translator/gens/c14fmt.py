"""GenYaml.v / GenToml.v / GenXml.v: the tables the YAML, TOML and XML writers of
crates/jrsonnet-stdlib/src/manifest/{yaml,toml,xml}.rs are driven by.

  yaml.rs  bare_safe: the RESERVED word list, the seven `matches!` character classes (safe, date,
           integer, binary, octal, float, hex) and -- fail closed -- the control skeleton of the function
           (the if-chain with its count thresholds and prefixes), which Model.v transliterates by
           hand; std_to_yaml / cli paddings and quoting flags.
  toml.rs  bare_allowed byte class, the std.manifestToml default indent, skip_empty_sections presets.
  xml.rs   the entity table of escape_string_xml_buf and the searched byte set, force_closing presets.

Anything not recognised raises TranslateError (treated as a broken proof obligation)."""
import re

from gen import TranslateError, generator, one, src
from gens.escape import fn_body, nlist, rust_bytes, strip_comments


def char_lit(tok, what):
    tok = tok.strip()
    m = re.fullmatch(r"b?'(\\?.)'", tok)
    if not m:
        raise TranslateError(f"{what}: unrecognised character literal `{tok}`")
    v = rust_bytes(m.group(1))
    if len(v) != 1 or v[0] >= 128:
        raise TranslateError(f"{what}: non-ASCII or multi-byte literal `{tok}`")
    return v[0]


def parse_class(pat, what):
    """`'a'..='z' | 'A'..='Z' | '-'` -> [(lo, hi), ...]"""
    out = []
    for alt in pat.split("|"):
        alt = alt.strip()
        if not alt:
            raise TranslateError(f"{what}: empty alternative in `{pat}`")
        if "..=" in alt:
            lo, hi = alt.split("..=")
            out.append((char_lit(lo, what), char_lit(hi, what)))
        else:
            c = char_lit(alt, what)
            out.append((c, c))
    return out


def cls_v(ranges):
    return "[" + "; ".join(f"({lo}, {hi})" for lo, hi in ranges) + "]"


def squash(t):
    return re.sub(r"\s+", "", t)


# the control structure of bare_safe with the tables replaced by CLS / RES
BARE_SAFE_SKELETON = squash(r"""
fn count_char_u(k: &str, c: char) -> usize {
    let cu = c.to_ascii_uppercase();
    k.chars().filter(|v| *v == c || *v == cu).count()
}
fn count_char(k: &str, c: char) -> usize {
    k.chars().filter(|v| *v == c).count()
}
fn is_reserved(key: &str) -> bool {
    const RESERVED: &[&str] = RES;
    RESERVED.iter().any(|k| key.eq_ignore_ascii_case(k))
}
#[allow(clippy::if_same_then_else)]
if !key.chars().all(|v| CLS) { return false; }
else if is_reserved(key) { return false; }
else if key.chars().all(|v| CLS) && count_char(key, '-') == 2 { return false; }
else if key.chars().all(|v| CLS) && count_char(key, '-') < 2 { return false; }
else if key.chars().all(|v| CLS) && (key.starts_with("0b") || key.starts_with("-0b")) && key.len() > 2 { return false; }
else if key.len() > 2 && key.starts_with("0o") && key[2..].chars().all(|v| CLS) { return false; }
else if key.chars().all(|v| CLS) && count_char_u(key, 'e') < 2 && count_char(key, '-') < 3 && count_char(key, '.') <= 1 { return false; }
else if key.chars().all(|v| CLS) && key.len() >= 3 && count_char(key, '-') < 2 && (key.starts_with("-0x") || key.starts_with("0x")) { return false; }
true
""")


def self_literal(body, what):
    ms = list(re.finditer(r"Self\s*\{", body))
    if not ms:
        raise TranslateError(f"{what}: no Self literal")
    return body[ms[-1].end():]


def field(lit, name, what):
    m = re.findall(rf"\b{name}\s*:\s*([^\n]*?),\s*\n", lit)
    if len(m) < 1:
        if re.search(rf"^\s*{name},\s*$", lit, re.M):
            return "param"
        raise TranslateError(f"{what}: field {name} not found")
    return m[0].strip()


def bool_field(lit, name, what):
    v = field(lit, name, what)
    if v in ("true", "false"):
        return v
    if v == "param":
        return "param"
    raise TranslateError(f"{what}: field {name} has unrecognised value `{v}`")


@generator("GenYaml")
def gen_yaml():
    raw = src("crates/jrsonnet-stdlib/src/manifest/yaml.rs")
    text = strip_comments(raw)
    body = fn_body(text, r"fn bare_safe\(key: &str\) -> bool \{", "bare_safe")
    res_src = one(r"const RESERVED: &\[&str\] = &\[(.*?)\];", body, "RESERVED list", re.S)
    words = re.findall(r'"((?:[^"\\]|\\.)*)"', res_src)
    if re.sub(r"[,\s]", "", re.sub(r'"((?:[^"\\]|\\.)*)"', "", res_src)):
        raise TranslateError("RESERVED list contains something that is not a string literal")
    if not words:
        raise TranslateError("RESERVED list is empty or unrecognised")
    reserved = [rust_bytes(w) for w in words]
    classes = re.findall(r"matches!\(v,\s*(.*?)\)\)", body, re.S)
    if len(classes) != 7:
        raise TranslateError(f"bare_safe: expected 7 character classes, found {len(classes)}")
    parsed = [parse_class(c, "bare_safe class") for c in classes]
    skel = body
    skel = re.sub(r"= &\[(.*?)\];", "= RES;", skel, count=1, flags=re.S)
    skel = re.sub(r"matches!\(v,\s*(.*?)\)\)", "CLS)", skel, flags=re.S)
    if squash(skel) != BARE_SAFE_SKELETON:
        a, b = squash(skel), BARE_SAFE_SKELETON
        i = next((k for k in range(min(len(a), len(b))) if a[k] != b[k]), min(len(a), len(b)))
        raise TranslateError("bare_safe: the control structure (if-chain, thresholds, prefixes) is no longer the one "
                             f"Model.v transliterates; first difference near `{a[max(0, i - 30):i + 40]}`")
    # presets
    cli = self_literal(fn_body(text, r"pub fn cli\(", "YamlFormat::cli"), "YamlFormat::cli")
    pad_unit = one(r'let padding = "((?:[^"\\]|\\.)*)"\.repeat\(padding\);', text, "YamlFormat::cli padding unit")
    if field(cli, "padding", "cli") != "Cow::Owned(padding.clone())" or field(cli, "arr_element_padding", "cli") != "Cow::Owned(padding)":
        raise TranslateError("YamlFormat::cli: paddings are no longer `padding` twice")
    std = self_literal(fn_body(text, r"pub fn std_to_yaml\(", "YamlFormat::std_to_yaml"), "std_to_yaml")
    m = re.fullmatch(r'Cow::Borrowed\("((?:[^"\\]|\\.)*)"\)', field(std, "padding", "std_to_yaml"))
    if not m:
        raise TranslateError("std_to_yaml: padding is not a borrowed literal")
    std_pad = rust_bytes(m.group(1))
    m = re.fullmatch(r'Cow::Borrowed\(if indent_array_in_object \{ "((?:[^"\\]|\\.)*)" \} else \{ "((?:[^"\\]|\\.)*)" \}\)',
                     field(std, "arr_element_padding", "std_to_yaml"))
    if not m:
        raise TranslateError("std_to_yaml: arr_element_padding is not `if indent_array_in_object {..} else {..}`")
    arr_t, arr_f = rust_bytes(m.group(1)), rust_bytes(m.group(2))
    if bool_field(std, "quote_keys", "std_to_yaml") != "param":
        raise TranslateError("std_to_yaml: quote_keys is no longer the parameter")
    # std.manifestYamlDoc / YamlStream defaults
    mod = strip_comments(src("crates/jrsonnet-stdlib/src/manifest/mod.rs"))
    doc = one(r"pub fn builtin_manifest_yaml_doc\((.*?)\) -> Result<String>", mod, "builtin_manifest_yaml_doc", re.S)
    stream = one(r"pub fn builtin_manifest_yaml_stream\((.*?)\) -> Result<String>", mod, "builtin_manifest_yaml_stream", re.S)

    def default(sig, name):
        v = one(rf"#\[default\((true|false)\)\]\s*{name}: bool", sig, f"default of {name}")
        return v

    # stream framing (crates/jrsonnet-evaluator/src/manifest.rs)
    ev = strip_comments(src("crates/jrsonnet-evaluator/src/manifest.rs"))
    sbody = fn_body(ev, r"impl<I: ManifestFormat> ManifestFormat for YamlStreamFormat<I> \{\s*fn manifest_buf\(&self, val: Val, out: &mut String\) -> Result<\(\)> \{",
                    "YamlStreamFormat::manifest_buf")
    start = rust_bytes(one(r'out\.push_str\("((?:[^"\\]|\\.)*)"\);\s*in_description_frame', sbody, "document start marker"))
    end = rust_bytes(one(r'if self\.c_document_end \{\s*out\.push\(\'\\n\'\);\s*out\.push_str\("((?:[^"\\]|\\.)*)"\);', sbody,
                         "document end marker"))
    one(r"if i != 0 \{\s*out\.push\('\\n'\);\s*\}", sbody, "document separator")
    one(r"if self\.end_newline \{\s*out\.push\('\\n'\);\s*\}", sbody, "final newline")
    sstd = self_literal(fn_body(ev, r"pub fn std_yaml_stream\(", "std_yaml_stream"), "std_yaml_stream")
    scli = fn_body(ev, r"pub fn cli\(inner: I\) -> Self \{", "YamlStreamFormat::cli")
    scli = self_literal(scli, "YamlStreamFormat::cli")
    names = ["safe", "date", "int", "bin", "oct", "float", "hex"]
    out = ["From Coq Require Import NArith List.", "Import ListNotations.", "Open Scope N_scope.",
           "(* RESERVED of bare_safe, crates/jrsonnet-stdlib/src/manifest/yaml.rs *)",
           "Definition yaml_reserved : list (list N) :=", "  [" + ";\n   ".join(nlist(w) for w in reserved) + "].",
           "(* the seven `matches!` classes of bare_safe as inclusive byte ranges, in source order *)"]
    for n, c in zip(names, parsed):
        out.append(f"Definition yaml_cls_{n} : list (N * N) := {cls_v(c)}.")
    out += ["(* YamlFormat::std_to_yaml: padding, arr_element_padding for indent_array_in_object = true / false *)",
            f"Definition yaml_std_padding : list N := {nlist(std_pad)}.",
            f"Definition yaml_std_arr_padding_true : list N := {nlist(arr_t)}.",
            f"Definition yaml_std_arr_padding_false : list N := {nlist(arr_f)}.",
            f"Definition yaml_std_quote_values : bool := {bool_field(std, 'quote_values', 'std_to_yaml')}.",
            "(* YamlFormat::cli(n): both paddings = unit repeated n times *)",
            f"Definition yaml_cli_pad_unit : list N := {nlist(rust_bytes(pad_unit))}.",
            f"Definition yaml_cli_quote_keys : bool := {bool_field(cli, 'quote_keys', 'cli')}.",
            f"Definition yaml_cli_quote_values : bool := {bool_field(cli, 'quote_values', 'cli')}.",
            "(* std.manifestYamlDoc / std.manifestYamlStream argument defaults *)",
            f"Definition yaml_doc_default_indent_array : bool := {default(doc, 'indent_array_in_object')}.",
            f"Definition yaml_doc_default_quote_keys : bool := {default(doc, 'quote_keys')}.",
            f"Definition yaml_stream_default_indent_array : bool := {default(stream, 'indent_array_in_object')}.",
            f"Definition yaml_stream_default_document_end : bool := {default(stream, 'c_document_end')}.",
            f"Definition yaml_stream_default_quote_keys : bool := {default(stream, 'quote_keys')}.",
            "(* YamlStreamFormat framing *)",
            f"Definition yaml_doc_start : list N := {nlist(start)}.",
            f"Definition yaml_doc_end : list N := {nlist(end)}.",
            f"Definition yaml_stream_std_end_newline : bool := {bool_field(sstd, 'end_newline', 'std_yaml_stream')}.",
            f"Definition yaml_stream_cli_end_newline : bool := {bool_field(scli, 'end_newline', 'stream cli')}.",
            f"Definition yaml_stream_cli_document_end : bool := {bool_field(scli, 'c_document_end', 'stream cli')}.",
            ""]
    return "\n".join(out)


@generator("GenToml")
def gen_toml():
    text = strip_comments(src("crates/jrsonnet-stdlib/src/manifest/toml.rs"))
    body = fn_body(text, r"fn bare_allowed\(s: &str\) -> bool \{", "bare_allowed")
    cls = one(r"s\.bytes\(\)\s*\.all\(\|c\| matches!\(c,\s*(.*?)\)\)", body, "bare_allowed class", re.S)
    if squash(re.sub(r"matches!\(c,\s*(.*?)\)\)", "CLS)", body, flags=re.S)) != "!s.is_empty()&&s.bytes().all(|c|CLS)":
        raise TranslateError("bare_allowed: the body is no longer `!s.is_empty() && s.bytes().all(|c| matches!(..))`")
    kbody = squash(fn_body(text, r"fn escape_key_toml_buf\(key: &str, buf: &mut String\) \{", "escape_key_toml_buf"))
    if kbody != "ifbare_allowed(key){buf.push_str(key);}else{escape_string_toml_buf(key,buf);}":
        raise TranslateError("escape_key_toml_buf: body changed")
    # escape_string_toml_buf: JSON escaping, then one character replaced when present
    ebody = fn_body(text, r"fn escape_string_toml_buf\(s: &str, buf: &mut String\) \{", "escape_string_toml_buf")
    m = re.fullmatch(r"ifs\.contains\('\\u\{([0-9a-fA-F]+)\}'\)\{letmuttmp=String::new\(\);escape_string_json_buf\(s,&muttmp\);"
                     r"buf\.push_str\(&tmp\.replace\('\\u\{([0-9a-fA-F]+)\}',\"((?:[^\"\\]|\\.)*)\"\)\);\}"
                     r"else\{escape_string_json_buf\(s,buf\);\}", squash(ebody))
    if not m or m.group(1) != m.group(2):
        raise TranslateError("escape_string_toml_buf: body is no longer `if s.contains(C) { json-escape; replace(C, R) } else { json-escape }`")
    repl_ch = int(m.group(1), 16)
    if repl_ch >= 128:
        raise TranslateError("escape_string_toml_buf: replaced character is not ASCII")
    repl_by = rust_bytes(m.group(3))
    one(r"Val::Str\(s\) => \{\s*escape_string_toml_buf\(&s\.clone\(\)\.into_flat\(\), buf\);\s*\}", text, "manifest_value string arm")
    if len(re.findall(r"escape_string_json_buf\(", text)) != 2:
        raise TranslateError("toml.rs calls escape_string_json_buf outside escape_string_toml_buf")
    cli = self_literal(fn_body(text, r"pub fn cli\(", "TomlFormat::cli"), "TomlFormat::cli")
    std = self_literal(fn_body(text, r"pub fn std_to_toml\(", "std_to_toml"), "std_to_toml")
    unit = one(r'let padding = "((?:[^"\\]|\\.)*)"\.repeat\(padding\);', text, "TomlFormat::cli padding unit")
    mod = strip_comments(src("crates/jrsonnet-stdlib/src/manifest/mod.rs"))
    tb = fn_body(mod, r"pub fn builtin_manifest_toml\(", "builtin_manifest_toml")
    indent = one(r'builtin_manifest_toml_ex\(\s*value,\s*"((?:[^"\\]|\\.)*)"\.to_owned\(\),', tb, "std.manifestToml indent")
    out = ["From Coq Require Import NArith List.", "Import ListNotations.", "Open Scope N_scope.",
           "(* bare_allowed of crates/jrsonnet-stdlib/src/manifest/toml.rs as inclusive byte ranges *)",
           f"Definition toml_cls_bare : list (N * N) := {cls_v(parse_class(cls, 'bare_allowed class'))}.",
           "(* escape_string_toml_buf: the character replaced after JSON escaping, and its replacement *)",
           f"Definition toml_replaced : N := {repl_ch}.",
           f"Definition toml_replacement : list N := {nlist(repl_by)}.",
           f"Definition toml_std_skip_empty_sections : bool := {bool_field(std, 'skip_empty_sections', 'std_to_toml')}.",
           f"Definition toml_cli_skip_empty_sections : bool := {bool_field(cli, 'skip_empty_sections', 'cli')}.",
           f"Definition toml_cli_pad_unit : list N := {nlist(rust_bytes(unit))}.",
           f"Definition toml_default_indent : list N := {nlist(rust_bytes(indent))}.",
           ""]
    return "\n".join(out)


@generator("GenXml")
def gen_xml():
    text = strip_comments(src("crates/jrsonnet-stdlib/src/manifest/xml.rs"))
    body = fn_body(text, r"fn escape_string_xml_buf\(str: &str, out: &mut String\) \{", "escape_string_xml_buf")
    searched = one(r"\.position\(\|c\| matches!\(c,\s*(.*?)\)\)", body, "searched byte set", re.S)
    sset = sorted(lo for lo, hi in parse_class(searched, "xml searched set") if lo == hi)
    if len(sset) != len(parse_class(searched, "xml searched set")):
        raise TranslateError("xml searched set contains a range")
    arms_src = one(r"out\.push_str\(match rem\.as_bytes\(\)\[0\] \{(.*?)\}\);", body, "entity match", re.S)
    arms = re.findall(r"(b'(?:\\?.)')\s*=>\s*\"((?:[^\"\\]|\\.)*)\"", arms_src)
    rest = re.sub(r"(b'(?:\\?.)')\s*=>\s*\"((?:[^\"\\]|\\.)*)\",?", "", arms_src)
    if squash(rest) != '_=>unreachable!("position()searchesforthosematches"),':
        raise TranslateError(f"entity match has unrecognised arms: `{squash(rest)[:80]}`")
    table = [(char_lit(k, "xml arm"), rust_bytes(v)) for k, v in arms]
    fc_std = self_literal(fn_body(text, r"pub fn std_to_xml\(\) -> Self \{", "std_to_xml"), "std_to_xml")
    fc_cli = self_literal(fn_body(text, r"pub fn cli\(\) -> Self \{", "XmlJsonmlFormat::cli"), "cli")
    out = ["From Coq Require Import NArith List.", "Import ListNotations.", "Open Scope N_scope.",
           "(* escape_string_xml_buf of crates/jrsonnet-stdlib/src/manifest/xml.rs *)",
           f"Definition xml_searched : list N := {nlist(sset)}.",
           "Definition xml_entities : list (N * list N) :=",
           "  [" + ";\n   ".join(f"({k}, {nlist(v)})" for k, v in table) + "].",
           f"Definition xml_std_force_closing : bool := {bool_field(fc_std, 'force_closing', 'std_to_xml')}.",
           f"Definition xml_cli_force_closing : bool := {bool_field(fc_cli, 'force_closing', 'cli')}.",
           ""]
    return "\n".join(out)
